package harness

// C15 — bridge byte encodings.  Function drivers on the real encoders of x/bridge/keeper and on
// the real signing path of app/extend_vote.go; end-to-end drivers through
// SetBridgeValidatorParams, CreateSnapshot and msgServer.WithdrawTokens.  Every case carries the
// raw inputs, what the real code produced, and (for the Solidity side) the bytes produced by
// go-ethereum's GENERIC abi packer on the Solidity type lists, which the Coq side compares with
// its hand transcription of the contracts' abi.encode expressions.  All judging (including
// keccak-256 and sha-256) happens inside Coq.

import (
	"context"
	"crypto/sha256"
	"encoding/hex"
	"errors"
	"fmt"
	"math/big"
	"math/rand"
	"os"
	"path/filepath"
	"regexp"
	"strings"
	"testing"
	"time"

	tmproto "github.com/cometbft/cometbft/proto/tendermint/types"
	cosmosdb "github.com/cosmos/cosmos-db"
	"github.com/ethereum/go-ethereum/accounts/abi"
	"github.com/ethereum/go-ethereum/common"
	ethcrypto "github.com/ethereum/go-ethereum/crypto"
	"github.com/spf13/viper"
	"github.com/tellor-io/layer/app"
	bridgekeeper "github.com/tellor-io/layer/x/bridge/keeper"
	bridgetypes "github.com/tellor-io/layer/x/bridge/types"
	oracletypes "github.com/tellor-io/layer/x/oracle/types"

	"cosmossdk.io/log"
	"cosmossdk.io/math"
	"cosmossdk.io/store"
	"cosmossdk.io/store/metrics"
	storetypes "cosmossdk.io/store/types"

	"github.com/cosmos/cosmos-sdk/codec"
	codectypes "github.com/cosmos/cosmos-sdk/codec/types"
	cryptocodec "github.com/cosmos/cosmos-sdk/crypto/codec"
	"github.com/cosmos/cosmos-sdk/crypto/hd"
	"github.com/cosmos/cosmos-sdk/crypto/keyring"
	"github.com/cosmos/cosmos-sdk/runtime"
	sdk "github.com/cosmos/cosmos-sdk/types"
	authtypes "github.com/cosmos/cosmos-sdk/x/auth/types"
	govtypes "github.com/cosmos/cosmos-sdk/x/gov/types"
)

// ---- fakes of the neighbouring keepers (answer from the generated case) ------------------
type c15Oracle struct {
	bridgetypes.OracleKeeper
	agg      oracletypes.Aggregate
	aggErr   error
	before   *time.Time
	after    *time.Time
	captured *oracletypes.Aggregate
}

func (o *c15Oracle) GetAggregateByTimestamp(_ context.Context, _ []byte, _ time.Time) (oracletypes.Aggregate, error) {
	return o.agg, o.aggErr
}

func (o *c15Oracle) GetTimestampBefore(_ context.Context, _ []byte, _ time.Time) (time.Time, error) {
	if o.before == nil {
		return time.Time{}, errors.New("no data before")
	}
	return *o.before, nil
}

func (o *c15Oracle) GetTimestampAfter(_ context.Context, _ []byte, _ time.Time) (time.Time, error) {
	if o.after == nil {
		return time.Time{}, errors.New("no data after")
	}
	return *o.after, nil
}

func (o *c15Oracle) SetAggregate(_ context.Context, report *oracletypes.Aggregate) error {
	o.captured = report
	return nil
}

type c15Bank struct{ bridgetypes.BankKeeper }

func (c15Bank) SendCoinsFromAccountToModule(context.Context, sdk.AccAddress, string, sdk.Coins) error {
	return nil
}
func (c15Bank) BurnCoins(context.Context, string, sdk.Coins) error { return nil }

type c15Staking struct {
	bridgetypes.StakingKeeper
	total math.Int
}

func (s *c15Staking) TotalBondedTokens(context.Context) (math.Int, error) { return s.total, nil }

type c15Env struct {
	k   bridgekeeper.Keeper
	ok  *c15Oracle
	sk  *c15Staking
	ctx sdk.Context
}

func c15Setup(t testing.TB) *c15Env {
	storeKey := storetypes.NewKVStoreKey(bridgetypes.StoreKey)
	db := cosmosdb.NewMemDB()
	stateStore := store.NewCommitMultiStore(db, log.NewNopLogger(), metrics.NewNoOpMetrics())
	stateStore.MountStoreWithDB(storeKey, storetypes.StoreTypeIAVL, db)
	if err := stateStore.LoadLatestVersion(); err != nil {
		t.Fatal(err)
	}
	cdc := codec.NewProtoCodec(codectypes.NewInterfaceRegistry())
	e := &c15Env{ok: &c15Oracle{}, sk: &c15Staking{total: math.NewInt(0)}}
	e.k = bridgekeeper.NewKeeper(cdc, runtime.NewKVStoreService(storeKey), e.sk, e.ok, c15Bank{}, nil,
		authtypes.NewModuleAddress(govtypes.ModuleName).String())
	e.ctx = sdk.NewContext(stateStore, tmproto.Header{}, false, log.NewNopLogger())
	if err := e.k.Params.Set(e.ctx, bridgetypes.DefaultParams()); err != nil {
		t.Fatal(err)
	}
	return e
}

// ---- printers ------------------------------------------------------------------------------
func c15hex(b []byte) string { return "\"" + hex.EncodeToString(b) + "\"" }

type c15Val struct {
	addr  []byte
	power uint64
}

func c15Valset(vs []c15Val) *bridgetypes.BridgeValidatorSet {
	out := &bridgetypes.BridgeValidatorSet{}
	for _, v := range vs {
		out.BridgeValidatorSet = append(out.BridgeValidatorSet, &bridgetypes.BridgeValidator{EthereumAddress: v.addr, Power: v.power})
	}
	return out
}

func c15CoqValset(vs []c15Val) string {
	items := make([]string, len(vs))
	for i, v := range vs {
		items[i] = fmt.Sprintf("RV %s %s", c15hex(v.addr), czu(v.power))
	}
	return clist(items)
}

func c15ValsetKey(vs []c15Val) string {
	var sb strings.Builder
	for _, v := range vs {
		fmt.Fprintf(&sb, "%x:%d,", v.addr, v.power)
	}
	return sb.String()
}

// ---- go-ethereum's generic packer on the SOLIDITY type lists --------------------------------
type c15SolValidator struct {
	Addr  common.Address
	Power *big.Int
}

func c15Type(t string, comps []abi.ArgumentMarshaling) abi.Type {
	ty, err := abi.NewType(t, "", comps)
	if err != nil {
		panic(err)
	}
	return ty
}

var (
	c15TyValidators = c15Type("tuple[]", []abi.ArgumentMarshaling{{Name: "addr", Type: "address"}, {Name: "power", Type: "uint256"}})
	c15TyBytes32    = c15Type("bytes32", nil)
	c15TyUint256    = c15Type("uint256", nil)
	c15TyBytes      = c15Type("bytes", nil)
	c15TyString     = c15Type("string", nil)
	c15TyBool       = c15Type("bool", nil)
	c15TyAddress    = c15Type("address", nil)
)

func c15Pack(types []abi.Type, vals ...interface{}) []byte {
	args := abi.Arguments{}
	for _, ty := range types {
		args = append(args, abi.Argument{Type: ty})
	}
	b, err := args.Pack(vals...)
	if err != nil {
		panic(err)
	}
	return b
}

func c15b32(b []byte) [32]byte {
	var x [32]byte
	copy(x[:], b)
	return x
}

// constants of Constants.sol, read from the working tree (also reported by TestC15SolSource)
func c15SolConstant(t testing.TB, name string) []byte {
	src := c15ReadSol(t, "evm/contracts/bridge/Constants.sol")
	m := regexp.MustCompile(`bytes32constant` + name + `=0x([0-9a-fA-F]{64});`).FindStringSubmatch(src)
	if m == nil {
		t.Fatalf("constant %s not found in Constants.sol", name)
	}
	b, _ := hex.DecodeString(m[1])
	return b
}

func c15GenValset(vs []c15Val) []byte {
	sv := make([]c15SolValidator, len(vs))
	for i, v := range vs {
		sv[i] = c15SolValidator{Addr: common.BytesToAddress(v.addr), Power: new(big.Int).SetUint64(v.power)}
	}
	return c15Pack([]abi.Type{c15TyValidators}, sv)
}

func c15u256(v uint64) *big.Int { return new(big.Int).SetUint64(v) }

// ---- generators ------------------------------------------------------------------------------
func c15RandBytes(r *rand.Rand, n int) []byte {
	b := make([]byte, n)
	r.Read(b)
	return b
}

func c15Addr(r *rand.Rand) []byte {
	switch r.Intn(40) {
	case 0:
		return make([]byte, 20)
	case 1:
		b := make([]byte, 20)
		for i := range b {
			b[i] = 0xff
		}
		return b
	case 2: // leading zero bytes
		b := c15RandBytes(r, 20)
		for i := 0; i < 1+r.Intn(12); i++ {
			b[i] = 0
		}
		return b
	case 3: // trailing zero bytes
		b := c15RandBytes(r, 20)
		for i := 0; i < 1+r.Intn(12); i++ {
			b[19-i] = 0
		}
		return b
	case 4: // not 20 bytes: BytesToAddress crops on the left / pads on the left
		return c15RandBytes(r, pick(r, 0, 1, 19, 21, 32, 33))
	}
	return c15RandBytes(r, 20)
}

func c15U64(r *rand.Rand) uint64 {
	switch r.Intn(12) {
	case 0:
		return 0
	case 1:
		return 1
	case 2:
		return 1<<63 - 1
	case 3:
		return 1 << 63
	case 4:
		return 1<<64 - 1
	case 5:
		return 1<<32 + uint64(r.Intn(3)) - 1
	case 6, 7:
		return r.Uint64()
	case 8:
		return uint64(r.Intn(256))
	}
	return r.Uint64() >> uint(r.Intn(64))
}

// realistic power (consensus power): up to ~10^9
func c15Power(r *rand.Rand) uint64 {
	switch r.Intn(6) {
	case 0:
		return uint64(1 + r.Intn(10))
	case 1:
		return uint64(r.Intn(1000))
	}
	return uint64(r.Int63n(2_000_000_000))
}

func c15Size(r *rand.Rand) int {
	x := r.Intn(100)
	switch {
	case x < 3:
		return 0
	case x < 15:
		return 1
	case x < 55:
		return 2 + r.Intn(5)
	case x < 85:
		return 7 + r.Intn(14)
	case x < 96:
		return 21 + r.Intn(40)
	case x < 99:
		return 100 - r.Intn(3)
	}
	return 101 + r.Intn(30)
}

func c15GenValsetInput(r *rand.Rand, n int, power func() uint64) []c15Val {
	vs := make([]c15Val, n)
	for i := range vs {
		vs[i] = c15Val{addr: c15Addr(r), power: power()}
	}
	if n >= 2 && r.Intn(10) == 0 { // duplicate address (F28: not unique)
		vs[n-1].addr = vs[0].addr
	}
	return vs
}

// powers of n validators whose true sum is exactly total (total may exceed 2^64 only through several members)
func c15SplitPowers(r *rand.Rand, total *big.Int, n int) []uint64 {
	ps := make([]uint64, n)
	rest := new(big.Int).Set(total)
	max64 := new(big.Int).SetUint64(^uint64(0))
	for i := 0; i < n; i++ {
		var p *big.Int
		if i == n-1 {
			p = new(big.Int).Set(rest)
		} else {
			// leave enough for the others to be representable
			lo := bsub(rest, bmul(max64, bi(int64(n-1-i))))
			if lo.Sign() < 0 {
				lo = bi(0)
			}
			hi := rest
			if hi.Cmp(max64) > 0 {
				hi = max64
			}
			p = badd(lo, bigRand(r, badd(bsub(hi, lo), bi(1))))
			if r.Intn(3) == 0 {
				p = new(big.Int).Set(lo)
			}
		}
		if p.Cmp(max64) > 0 {
			p = new(big.Int).Set(max64)
		}
		ps[i] = p.Uint64()
		rest = bsub(rest, p)
	}
	return ps
}

// ---- driver 1: validator-set bytes/hash, stored checkpoint params, checkpoint ---------------
func TestC15Valset(t *testing.T) {
	out := newOut(t, "c15_valset")
	defer out.Close()
	r := rand.New(rand.NewSource(seed()))
	e := c15Setup(t)
	sepCheckpoint := c15SolConstant(t, "VALIDATOR_SET_HASH_DOMAIN_SEPARATOR")

	emitValset := func(vs []c15Val, tags ...string) {
		enc, hash, err := e.k.EncodeAndHashValidatorSet(e.ctx, c15Valset(vs))
		if err != nil {
			t.Fatalf("EncodeAndHashValidatorSet: %v", err)
		}
		distinct := map[uint64]bool{}
		regular := true
		for _, v := range vs {
			distinct[v.power] = true
			if len(v.addr) != 20 {
				regular = false
			}
		}
		kind := "regular"
		if !regular {
			kind = "odd-address-length"
		}
		out.Emit(Case{
			Coq:        fmt.Sprintf("ValsetCase %s %s %s %s", c15CoqValset(vs), c15hex(enc), c15hex(hash), c15hex(c15GenValset(vs))),
			Kind:       fmt.Sprintf("valset/%s/n%s", kind, c15Bucket(len(vs))),
			Nontrivial: regular && len(vs) >= 2 && len(distinct) >= 2,
			Key:        c15ValsetKey(vs), Tags: tags,
			Human: map[string]interface{}{"validators": len(vs), "hash": hex.EncodeToString(hash)},
		})
	}

	emitParams := func(vs []c15Val, ms int64, chain bool, ctx sdk.Context, tags ...string) sdk.Context {
		if !chain {
			ctx, _ = e.ctx.CacheContext()
		}
		ctx = ctx.WithBlockTime(time.UnixMilli(ms))
		err := e.k.SetBridgeValidatorParams(ctx, c15Valset(vs))
		total := new(big.Int)
		for _, v := range vs {
			total.Add(total, c15u256(v.power))
		}
		kind := "sum<2^63"
		if total.Cmp(pow2(64)) >= 0 {
			kind = "sum>=2^64"
		} else if total.Cmp(pow2(63)) >= 0 {
			kind = "sum>=2^63"
		}
		kind += fmt.Sprintf("/mod3=%d", new(big.Int).Mod(total, bi(3)).Int64())
		if chain {
			kind += "/chained"
		}
		var coq string
		if err != nil {
			coq = fmt.Sprintf("ParamsCase %s %s true 0 0 \"\" \"\" \"\"", c15CoqValset(vs), czi(ms))
			kind += "/error"
		} else {
			p, perr := e.k.ValidatorCheckpointParamsMap.Get(ctx, uint64(ms))
			if perr != nil {
				t.Fatalf("checkpoint params not stored: %v", perr)
			}
			cp, cerr := e.k.ValidatorCheckpoint.Get(ctx)
			if cerr != nil {
				t.Fatalf("checkpoint not stored: %v", cerr)
			}
			coq = fmt.Sprintf("ParamsCase %s %s false %s %s %s %s %s", c15CoqValset(vs), czi(ms), czu(p.PowerThreshold), czu(p.Timestamp),
				c15hex(p.ValsetHash), c15hex(p.Checkpoint), c15hex(cp.Checkpoint))
		}
		out.Emit(Case{
			Coq: coq, Kind: "params/" + kind, Nontrivial: len(vs) >= 2 && err == nil,
			Key: fmt.Sprintf("%s|%d|%v", c15ValsetKey(vs), ms, chain), Tags: tags,
			Human: map[string]interface{}{"validators": len(vs), "total_power": total.String(), "block_ms": ms, "error": err != nil},
		})
		return ctx
	}

	emitCheckpoint := func(thr, ts uint64, hash []byte, tags ...string) {
		ctx, _ := e.ctx.CacheContext()
		cp, err := e.k.CalculateValidatorSetCheckpoint(ctx, thr, ts, hash)
		if err != nil {
			t.Fatalf("CalculateValidatorSetCheckpoint: %v", err)
		}
		gen := c15Pack([]abi.Type{c15TyBytes32, c15TyUint256, c15TyUint256, c15TyBytes32}, c15b32(sepCheckpoint), c15u256(thr), c15u256(ts), c15b32(hash))
		out.Emit(Case{
			Coq:        fmt.Sprintf("CheckpointCase %s %s %s %s %s", czu(thr), czu(ts), c15hex(hash), c15hex(cp), c15hex(gen)),
			Kind:       fmt.Sprintf("checkpoint/hashlen=%s", c15LenBucket(len(hash), 32)),
			Nontrivial: len(hash) == 32 && thr != ts,
			Key:        fmt.Sprintf("%d|%d|%x", thr, ts, hash), Tags: tags,
			Human: map[string]interface{}{"threshold": thr, "timestamp": ts},
		})
	}

	addr := func(b byte) []byte {
		a := make([]byte, 20)
		for i := range a {
			a[i] = b
		}
		return a
	}
	// ---- corpus
	emitValset(nil, "corpus")
	emitValset([]c15Val{{addr(0x11), 1}}, "corpus")
	emitValset([]c15Val{{addr(0x11), 100}, {addr(0x22), 200}, {addr(0x33), 300}}, "corpus")
	emitValset([]c15Val{{addr(0xff), 1<<64 - 1}, {addr(0), 0}}, "corpus")
	emitValset([]c15Val{{[]byte("validator1"), 100}}, "corpus") // the repo's own test vector (10-byte address)
	emitParams([]c15Val{{addr(0x11), 100}, {addr(0x22), 200}, {addr(0x33), 300}}, 1_700_000_000_000, false, e.ctx, "corpus")
	emitParams([]c15Val{{addr(0x11), 1}}, 1, false, e.ctx, "corpus")                                // threshold 0
	emitParams([]c15Val{{addr(0x11), 2}}, 2, false, e.ctx, "corpus")                                // 4/3 = 1
	emitParams([]c15Val{{addr(0x11), 1<<63 - 1}}, 3, false, e.ctx, "corpus")                        // largest total below the wrap
	emitParams([]c15Val{{addr(0x11), 1 << 63}}, 4, false, e.ctx, "corpus:F25")                     // doubling wraps to 0
	emitParams([]c15Val{{addr(0x11), 1 << 62}, {addr(0x22), 1 << 62}}, 5, false, e.ctx, "corpus:F25") // same through two members
	emitParams([]c15Val{{addr(0x11), 1<<63 + 1}}, 6, false, e.ctx, "corpus:F25")
	emitParams([]c15Val{{addr(0x11), 1<<64 - 1}}, 7, false, e.ctx, "corpus:F25")
	emitParams([]c15Val{{addr(0x11), 1<<64 - 1}, {addr(0x22), 1}}, 8, false, e.ctx, "corpus:F25") // the sum itself wraps
	emitCheckpoint(1, 2, addr(0x33)[:20], "corpus") // 20-byte "hash": Go pads, no contract counterpart
	emitCheckpoint(200, 1_700_000_000_000, c15RandBytes(r, 32), "corpus")
	emitCheckpoint(1<<64-1, 1<<64-1, c15RandBytes(r, 32), "corpus")

	// ---- generated
	n := count(300, 8000)
	for i := 0; i < n; i++ {
		size := c15Size(r)
		if !thorough() && size > 24 && r.Intn(4) != 0 {
			size = 2 + r.Intn(8)
		}
		switch x := r.Intn(10); {
		case x < 4:
			p := func() uint64 { return c15Power(r) }
			if r.Intn(4) == 0 {
				p = func() uint64 { return c15U64(r) }
			}
			emitValset(c15GenValsetInput(r, size, p))
		case x < 8:
			if size == 0 {
				size = 1
			}
			var vs []c15Val
			switch r.Intn(10) {
			case 0, 1, 2, 3: // realistic powers; total placed at each residue mod 3
				vs = c15GenValsetInput(r, size, func() uint64 { return c15Power(r) })
			case 4, 5: // tiny totals (threshold 0, 1, 2)
				vs = c15GenValsetInput(r, size, func() uint64 { return uint64(r.Intn(3)) })
			case 6, 7: // total at 2^63 -2..+2
				total := badd(pow2(63), bi(int64(r.Intn(5)-2)))
				vs = c15GenValsetInput(r, size, func() uint64 { return 0 })
				for j, p := range c15SplitPowers(r, total, size) {
					vs[j].power = p
				}
			case 8: // total in [2^63, 2^64)
				total := badd(pow2(63), bigRand(r, pow2(63)))
				if r.Intn(3) == 0 {
					total = bsub(pow2(64), bi(int64(1+r.Intn(3))))
				}
				vs = c15GenValsetInput(r, size, func() uint64 { return 0 })
				for j, p := range c15SplitPowers(r, total, size) {
					vs[j].power = p
				}
			default: // the true sum reaches 2^64 (needs >= 2 members)
				if size < 2 {
					size = 2
				}
				total := badd(pow2(64), bigRand(r, pow2(62)))
				if r.Intn(2) == 0 {
					total = badd(pow2(64), bi(int64(r.Intn(3))))
				}
				vs = c15GenValsetInput(r, size, func() uint64 { return 0 })
				for j, p := range c15SplitPowers(r, total, size) {
					vs[j].power = p
				}
			}
			ms := pick(r, int64(0), 1, 999, 1000, 1_700_000_000_000+r.Int63n(1_000_000_000), r.Int63n(1<<53), 1<<62+r.Int63n(1000))
			ctx := emitParams(vs, ms, false, e.ctx)
			if r.Intn(4) == 0 { // a second set on top of the first (index > 0 path)
				vs2 := c15GenValsetInput(r, 1+r.Intn(6), func() uint64 { return c15Power(r) })
				emitParams(vs2, ms+1+r.Int63n(1000), true, ctx)
			}
		default:
			hl := 32
			if r.Intn(8) == 0 {
				hl = pick(r, 0, 1, 31, 33, 64)
			}
			emitCheckpoint(c15U64(r), c15U64(r), c15RandBytes(r, hl))
		}
	}
}

func c15Bucket(n int) string {
	switch {
	case n == 0:
		return "0"
	case n == 1:
		return "1"
	case n <= 6:
		return "2-6"
	case n <= 20:
		return "7-20"
	case n <= 60:
		return "21-60"
	case n <= 100:
		return "61-100"
	}
	return ">100"
}

func c15LenBucket(n, want int) string {
	switch {
	case n == want:
		return fmt.Sprint(want)
	case n < want:
		return "<" + fmt.Sprint(want)
	}
	return ">" + fmt.Sprint(want)
}

// ---- driver 2: attestation digest (direct) and CreateSnapshot (end to end) ------------------
func c15Value(r *rand.Rand) (string, string) {
	n := pick(r, 0, 1, 31, 32, 33, 63, 64, 65, 96, 100, 128, 200, r.Intn(201), r.Intn(201), r.Intn(64))
	b := c15RandBytes(r, n)
	s := hex.EncodeToString(b)
	switch r.Intn(25) {
	case 0:
		return strings.ToUpper(s), "upper"
	case 1:
		return "0x" + s, "0x-prefix" // hex.DecodeString fails
	case 2:
		return s + "a", "odd-length"
	case 3:
		return s + "zz", "non-hex"
	}
	return s, "hex"
}

func TestC15Attest(t *testing.T) {
	out := newOut(t, "c15_attest")
	defer out.Close()
	r := rand.New(rand.NewSource(seed()))
	e := c15Setup(t)
	sepReport := c15SolConstant(t, "NEW_REPORT_ATTESTATION_DOMAIN_SEPARATOR")
	attestTypes := []abi.Type{c15TyBytes32, c15TyBytes32, c15TyBytes, c15TyUint256, c15TyUint256, c15TyUint256, c15TyUint256, c15TyBytes32, c15TyUint256}

	emitAttest := func(qid []byte, value string, ts, power, prev, next uint64, cp []byte, ats uint64, vkind string, tags ...string) {
		dig, err := e.k.EncodeOracleAttestationData(qid, value, ts, power, prev, next, cp, ats)
		gen := []byte{}
		if vb, herr := hex.DecodeString(value); herr == nil {
			gen = c15Pack(attestTypes, c15b32(sepReport), c15b32(qid), vb, c15u256(ts), c15u256(power), c15u256(prev), c15u256(next), c15b32(cp), c15u256(ats))
		}
		regular := len(qid) == 32 && len(cp) == 32
		out.Emit(Case{
			Coq: fmt.Sprintf("AttestCase %s %s %s %s %s %s %s %s %s %s %s", c15hex(qid), cstr(value), czu(ts), czu(power), czu(prev), czu(next),
				c15hex(cp), czu(ats), cbool(err != nil), c15hex(dig), c15hex(gen)),
			Kind:       fmt.Sprintf("attest/%s/vlen%%32=%s/qid%s/cp%s", vkind, c15Mod32(len(value)/2), c15LenBucket(len(qid), 32), c15LenBucket(len(cp), 32)),
			Nontrivial: regular && err == nil && len(value) > 0,
			Key:        fmt.Sprintf("%x|%s|%d|%d|%d|%d|%x|%d", qid, value, ts, power, prev, next, cp, ats), Tags: tags,
			Human: map[string]interface{}{"value_len": len(value) / 2, "error": err != nil},
		})
	}

	emitSnapshot := func(qid []byte, value string, power uint64, tsMs int64, prev, next *int64, cp []byte, blockMs int64, nvals int, vkind string, tags ...string) {
		ctx, _ := e.ctx.CacheContext()
		ctx = ctx.WithBlockTime(time.UnixMilli(blockMs)).WithBlockHeight(7)
		e.ok.agg = oracletypes.Aggregate{QueryId: qid, AggregateValue: value, ReporterPower: power}
		e.ok.before, e.ok.after = nil, nil
		if prev != nil {
			tm := time.UnixMilli(*prev)
			e.ok.before = &tm
		}
		if next != nil {
			tm := time.UnixMilli(*next)
			e.ok.after = &tm
		}
		must := func(err error) {
			if err != nil {
				t.Fatal(err)
			}
		}
		must(e.k.ValidatorCheckpoint.Set(ctx, bridgetypes.ValidatorCheckpoint{Checkpoint: cp}))
		vs := make([]c15Val, nvals)
		for i := range vs {
			vs[i] = c15Val{c15RandBytes(r, 20), 1}
		}
		must(e.k.BridgeValset.Set(ctx, *c15Valset(vs)))
		must(e.k.SnapshotLimit.Set(ctx, bridgetypes.SnapshotLimit{Limit: 10}))
		err := e.k.CreateSnapshot(ctx, qid, time.UnixMilli(tsMs), false)
		snap := []byte{}
		data := bridgetypes.AttestationSnapshotData{}
		listed := false
		if err == nil {
			reqs, rerr := e.k.AttestRequestsByHeightMap.Get(ctx, 7)
			if rerr != nil || len(reqs.Requests) != 1 {
				t.Fatalf("attestation request not recorded: %v", rerr)
			}
			snap = reqs.Requests[0].Snapshot
			data, _ = e.k.AttestSnapshotDataMap.Get(ctx, snap)
			key := ethcrypto.Keccak256([]byte(hex.EncodeToString(qid) + fmt.Sprint(tsMs)))
			byRep, berr := e.k.AttestSnapshotsByReportMap.Get(ctx, key)
			atts, aerr := e.k.SnapshotToAttestationsMap.Get(ctx, snap)
			listed = berr == nil && len(byRep.Snapshots) == 1 && string(byRep.Snapshots[0]) == string(snap) &&
				aerr == nil && len(atts.Attestations) == nvals
		}
		o := func(p *int64) string {
			if p == nil {
				return "None"
			}
			return copt(true, czi(*p))
		}
		regular := len(qid) == 32 && len(cp) == 32
		out.Emit(Case{
			Coq: fmt.Sprintf("SnapshotCase %s %s %s %s %s %s %s %s %s %s (SD %s %s %s %s %s %s) %s", c15hex(qid), cstr(value), czu(power), czi(tsMs),
				o(prev), o(next), c15hex(cp), czi(blockMs), cbool(err != nil), c15hex(snap),
				c15hex(data.ValidatorCheckpoint), czu(data.AttestationTimestamp), czu(data.PrevReportTimestamp), czu(data.NextReportTimestamp),
				c15hex(data.QueryId), czu(data.Timestamp), cbool(listed)),
			Kind:       fmt.Sprintf("snapshot/%s/prev=%v/next=%v", vkind, prev != nil, next != nil),
			Nontrivial: regular && err == nil && len(value) > 0,
			Key:        fmt.Sprintf("%x|%s|%d|%d|%v|%v|%x|%d", qid, value, power, tsMs, o(prev), o(next), cp, blockMs), Tags: tags,
			Human: map[string]interface{}{"value_len": len(value) / 2, "error": err != nil},
		})
	}

	q32 := func(b byte) []byte {
		a := make([]byte, 32)
		for i := range a {
			a[i] = b
		}
		return a
	}
	i64 := func(v int64) *int64 { return &v }
	// ---- corpus: every field a recognisable value
	emitAttest(q32(0xa1), "", 1, 2, 3, 4, q32(0xc1), 5, "hex", "corpus")
	emitAttest(q32(0xa1), "00", 1, 2, 3, 4, q32(0xc1), 5, "hex", "corpus")
	emitAttest(q32(0xa1), strings.Repeat("ab", 32), 101, 102, 103, 104, q32(0xc1), 105, "hex", "corpus")
	emitAttest(q32(0xa1), strings.Repeat("ab", 33), 1<<64-1, 1<<64-2, 1<<64-3, 1<<64-4, q32(0xc1), 1<<64-5, "hex", "corpus")
	emitAttest(q32(0xa1), "0x"+strings.Repeat("ab", 32), 1, 2, 3, 4, q32(0xc1), 5, "0x-prefix", "corpus")
	emitAttest([]byte("queryId"), "5000", 100000, 100, 0, 0, []byte("checkpoint"), 0, "hex", "corpus") // the repo's test vector
	emitSnapshot(q32(0xa1), strings.Repeat("cd", 32), 77, 1000, i64(900), i64(1100), q32(0xc1), 2000, 3, "hex", "corpus")
	emitSnapshot(q32(0xa1), strings.Repeat("cd", 32), 77, 1000, nil, nil, q32(0xc1), 2000, 1, "hex", "corpus")

	n := count(380, 12000)
	for i := 0; i < n; i++ {
		ql, cl := 32, 32
		if r.Intn(12) == 0 {
			ql = pick(r, 0, 7, 31, 33, 40)
		}
		if r.Intn(12) == 0 {
			cl = pick(r, 0, 10, 31, 33, 64)
		}
		value, vkind := c15Value(r)
		qid, cp := c15RandBytes(r, ql), c15RandBytes(r, cl)
		if r.Intn(2) == 0 {
			emitAttest(qid, value, c15U64(r), c15U64(r), c15U64(r), c15U64(r), cp, c15U64(r), vkind)
			continue
		}
		ts := 1_600_000_000_000 + r.Int63n(200_000_000_000)
		var prev, next *int64
		if r.Intn(4) != 0 {
			prev = i64(ts - 1 - r.Int63n(1_000_000))
		}
		if r.Intn(3) == 0 {
			next = i64(ts + 1 + r.Int63n(1_000_000))
		}
		emitSnapshot(qid, value, c15U64(r), ts, prev, next, cp, ts+r.Int63n(100_000_000), 1+r.Intn(5), vkind)
	}
}

func c15Mod32(n int) string {
	switch {
	case n == 0:
		return "empty"
	case n%32 == 0:
		return "0"
	}
	return "non0"
}

// ---- driver 3: token bridge query ids, withdrawal report value, msgServer.WithdrawTokens ------
func TestC15Token(t *testing.T) {
	out := newOut(t, "c15_token")
	defer out.Close()
	r := rand.New(rand.NewSource(seed()))
	e := c15Setup(t)
	ms := bridgekeeper.NewMsgServerImpl(e.k)

	emitQid := func(deposit bool, id uint64, tags ...string) {
		var q []byte
		var err error
		if deposit {
			q, err = e.k.GetDepositQueryId(id)
		} else {
			q, err = e.k.GetWithdrawalQueryId(id)
		}
		if err != nil {
			t.Fatal(err)
		}
		inner := c15Pack([]abi.Type{c15TyBool, c15TyUint256}, deposit, c15u256(id))
		gen := c15Pack([]abi.Type{c15TyString, c15TyBytes}, "TRBBridge", inner)
		out.Emit(Case{
			Coq:  fmt.Sprintf("QueryIdCase %s %s %s %s", cbool(deposit), czu(id), c15hex(q), c15hex(gen)),
			Kind: fmt.Sprintf("queryid/deposit=%v", deposit), Nontrivial: id > 0,
			Key: fmt.Sprintf("%v|%d", deposit, id), Tags: tags, Human: map[string]interface{}{"deposit": deposit, "id": id},
		})
	}
	emitValue := func(amount uint64, sender sdk.AccAddress, recipient []byte, tags ...string) {
		v, err := e.k.GetWithdrawalReportValue(sdk.NewCoin("loya", math.NewIntFromUint64(amount)), sender, recipient)
		if err != nil {
			t.Fatal(err)
		}
		s := sender.String()
		gen := c15Pack([]abi.Type{c15TyAddress, c15TyString, c15TyUint256, c15TyUint256}, common.BytesToAddress(recipient), s, c15u256(amount), c15u256(0))
		out.Emit(Case{
			Coq:        fmt.Sprintf("WithdrawValueCase %s %s %s %s %s", czu(amount), cstr(s), c15hex(recipient), c15hex(v), c15hex(gen)),
			Kind:       fmt.Sprintf("withdraw-value/recipient%s/sender%%32=%s", c15LenBucket(len(recipient), 20), c15Mod32(len(s))),
			Nontrivial: len(recipient) == 20 && len(s) > 0 && amount > 0,
			Key:        fmt.Sprintf("%d|%s|%x", amount, s, recipient), Tags: tags,
			Human: map[string]interface{}{"amount": amount, "sender": s, "recipient": hex.EncodeToString(recipient)},
		})
	}
	emitWithdraw := func(prevID *uint64, amount uint64, sender sdk.AccAddress, recipientHex string, bonded uint64, tags ...string) {
		ctx, _ := e.ctx.CacheContext()
		ctx = ctx.WithBlockHeight(9)
		if prevID != nil {
			if err := e.k.WithdrawalId.Set(ctx, bridgetypes.WithdrawalId{Id: *prevID}); err != nil {
				t.Fatal(err)
			}
		}
		e.sk.total = math.NewIntFromUint64(bonded)
		e.ok.captured = nil
		_, err := ms.WithdrawTokens(ctx, &bridgetypes.MsgWithdrawTokens{Creator: sender.String(), Recipient: recipientHex,
			Amount: sdk.NewCoin("loya", math.NewIntFromUint64(amount))})
		prev := "None"
		if prevID != nil {
			prev = copt(true, czu(*prevID))
		}
		recipient, _ := hex.DecodeString(recipientHex)
		var coq string
		if err != nil || e.ok.captured == nil {
			coq = fmt.Sprintf("WithdrawCase %s %s %s %s true 0 \"\" \"\" 0 %s", prev, czu(amount), cstr(sender.String()), c15hex(recipient), czu(bonded))
		} else {
			id, _ := e.k.WithdrawalId.Get(ctx)
			a := e.ok.captured
			coq = fmt.Sprintf("WithdrawCase %s %s %s %s false %s %s %s %s %s", prev, czu(amount), cstr(sender.String()), c15hex(recipient),
				czu(id.Id), c15hex(a.QueryId), cstr(a.AggregateValue), czu(a.ReporterPower), czu(bonded))
		}
		out.Emit(Case{
			Coq: coq, Kind: fmt.Sprintf("withdraw/first=%v/recipient%s", prevID == nil, c15LenBucket(len(recipient), 20)),
			Nontrivial: err == nil && len(recipient) == 20,
			Key:        fmt.Sprintf("%v|%d|%s|%s|%d", prev, amount, sender, recipientHex, bonded), Tags: tags,
			Human: map[string]interface{}{"amount": amount, "sender": sender.String(), "recipient": recipientHex, "error": err != nil},
		})
	}

	u := func(v uint64) *uint64 { return &v }
	// ---- corpus
	for _, id := range []uint64{0, 1, 2, 255, 256, 1<<32 - 1, 1 << 32, 1<<63 - 1, 1 << 63, 1<<64 - 1} {
		emitQid(true, id, "corpus")
		emitQid(false, id, "corpus")
	}
	emitValue(100, sdk.AccAddress("operatorAddr1"), []byte("evmAddress1"), "corpus") // the repo's test vector (11-byte recipient)
	emitValue(1, sdk.AccAddress(c15RandBytes(r, 20)), c15RandBytes(r, 20), "corpus")
	emitValue(1<<64-1, sdk.AccAddress(c15RandBytes(r, 20)), c15RandBytes(r, 20), "corpus")
	emitValue(5, sdk.AccAddress{}, c15RandBytes(r, 20), "corpus") // empty sender string
	emitWithdraw(nil, 1000, sdk.AccAddress(c15RandBytes(r, 20)), hex.EncodeToString(c15RandBytes(r, 20)), 5_000_000, "corpus")
	emitWithdraw(u(1), 1000, sdk.AccAddress(c15RandBytes(r, 20)), hex.EncodeToString(c15RandBytes(r, 20)), 5_000_000, "corpus")
	emitWithdraw(u(1<<64-2), 1, sdk.AccAddress(c15RandBytes(r, 20)), hex.EncodeToString(c15RandBytes(r, 20)), 1<<64-1, "corpus")

	n := count(450, 15000)
	for i := 0; i < n; i++ {
		switch x := r.Intn(10); {
		case x < 3:
			emitQid(r.Intn(2) == 0, c15U64(r))
		case x < 7:
			// sender strings of any length: address bytes 0..255 (bech32 string 0..~420 chars)
			sl := pick(r, 20, 20, 20, 32, 0, 1, 2, 5, 11, 12, 13, 14, 15, 16, 17, 18, 19, 21, 31, 33, 64, 100, 255, 1+r.Intn(60))
			rl := 20
			if r.Intn(8) == 0 {
				rl = pick(r, 0, 1, 19, 21, 32, 40)
			}
			emitValue(c15U64(r), sdk.AccAddress(c15RandBytes(r, sl)), c15RandBytes(r, rl))
		default:
			var prev *uint64
			if r.Intn(4) != 0 {
				prev = u(pick(r, uint64(1), 2, uint64(r.Intn(1000)), 1<<32, 1<<63-1, 1<<63, 1<<64-2, c15U64(r)))
				if *prev == 1<<64-1 {
					prev = u(1<<64 - 2)
				}
			}
			rl := 20
			if r.Intn(8) == 0 {
				rl = pick(r, 0, 1, 19, 21, 32)
			}
			amount := c15U64(r)
			if amount == 0 {
				amount = 1
			}
			rh := hex.EncodeToString(c15RandBytes(r, rl))
			if r.Intn(10) == 0 {
				rh = strings.ToUpper(rh)
			}
			emitWithdraw(prev, amount, sdk.AccAddress(c15RandBytes(r, pick(r, 20, 20, 32, 1, 33, 255))), rh, c15U64(r))
		}
	}
}

// ---- driver 4: the signing convention ---------------------------------------------------------
// the EVM ecrecover precompile as go-ethereum implements it (core/vm/contracts.go: ecrecover.Run)
func c15EvmEcrecover(hash []byte, v byte, rr, ss []byte) string {
	if v != 27 && v != 28 {
		return ""
	}
	if !ethcrypto.ValidateSignatureValues(v-27, new(big.Int).SetBytes(rr), new(big.Int).SetBytes(ss), false) {
		return ""
	}
	sig := append(append(append([]byte{}, rr...), ss...), v-27)
	pub, err := ethcrypto.Ecrecover(hash, sig)
	if err != nil {
		return ""
	}
	return hex.EncodeToString(ethcrypto.Keccak256(pub[1:])[12:])
}

func TestC15Sign(t *testing.T) {
	out := newOut(t, "c15_sign")
	defer out.Close()
	r := rand.New(rand.NewSource(seed()))
	e := c15Setup(t)

	reg := codectypes.NewInterfaceRegistry()
	cryptocodec.RegisterInterfaces(reg)
	cdc := codec.NewProtoCodec(reg)
	dir := t.TempDir()
	kr, err := keyring.New(sdk.KeyringServiceName(), "test", dir, os.Stdin, cdc)
	if err != nil {
		t.Fatal(err)
	}
	nkeys := count(24, 48) // enough keys for every combination of the two recovery ids of the initial signatures
	signers := map[string]string{}
	var names []string
	for i := 0; i < nkeys; i++ {
		name := fmt.Sprintf("c15key%d", i)
		rec, _, err := kr.NewMnemonic(name, keyring.English, sdk.FullFundraiserPath, keyring.DefaultBIP39Passphrase, hd.Secp256k1)
		if err != nil {
			t.Fatal(err)
		}
		pk, err := rec.GetPubKey()
		if err != nil {
			t.Fatal(err)
		}
		ep, err := ethcrypto.DecompressPubkey(pk.Bytes())
		if err != nil {
			t.Fatal(err)
		}
		signers[name] = hex.EncodeToString(ethcrypto.PubkeyToAddress(*ep).Bytes())
		names = append(names, name)
	}
	viper.Reset()
	defer viper.Reset()
	viper.Set("keyring-backend", "test")
	viper.Set("keyring-dir", dir)
	h := app.NewVoteExtHandler(log.NewNopLogger(), cdc, nil, nil)

	emit := func(name string, digest []byte, how string, tags ...string) {
		viper.Set("key-name", name)
		var sig []byte
		var err error
		if how == "checkpoint" {
			sig, err = h.EncodeAndSignMessage(hex.EncodeToString(digest))
		} else {
			sig, err = h.SignMessage(digest)
		}
		if err != nil {
			t.Fatalf("sign: %v", err)
		}
		payload := sha256.Sum256(digest)
		e27, e28, c0, c1 := "", "", "", ""
		if len(sig) >= 64 {
			e27 = c15EvmEcrecover(payload[:], 27, sig[:32], sig[32:64])
			e28 = c15EvmEcrecover(payload[:], 28, sig[:32], sig[32:64])
			if addrs, rerr := e.k.TryRecoverAddressWithBothIDs(append([]byte{}, sig...), payload[:]); rerr == nil && len(addrs) == 2 {
				c0, c1 = hex.EncodeToString(addrs[0].Bytes()), hex.EncodeToString(addrs[1].Bytes())
			}
		}
		out.Emit(Case{
			Coq: fmt.Sprintf("SignCase %s %s %s %s %s %s %s %s", c15hex(digest), c15hex(sig), cstr(signers[name]), c15hex(payload[:]),
				cstr(e27), cstr(e28), cstr(c0), cstr(c1)),
			Kind: "sign/" + how, Nontrivial: len(digest) == 32, Key: fmt.Sprintf("%s|%x", name, digest), Tags: tags,
			Human: map[string]interface{}{"key": name, "digest": hex.EncodeToString(digest)},
		})
	}
	emitInit := func(name string) {
		viper.Set("key-name", name)
		sa, sb, err := h.SignInitialMessage()
		if err != nil {
			t.Fatalf("SignInitialMessage: %v", err)
		}
		addr, aerr := e.k.EVMAddressFromSignatures(e.ctx, sa, sb)
		out.Emit(Case{
			Coq:  fmt.Sprintf("InitSigCase %s %s %s", cstr(signers[name]), cbool(aerr != nil), cstr(hex.EncodeToString(addr.Bytes()))),
			Kind: "sign/initial", Nontrivial: true, Key: name, Human: map[string]interface{}{"key": name},
		})
	}

	z := make([]byte, 32)
	f := make([]byte, 32)
	for i := range f {
		f[i] = 0xff
	}
	emit(names[0], z, "attestation", "corpus")
	emit(names[0], f, "attestation", "corpus")
	for _, nm := range names {
		emitInit(nm)
	}
	n := count(120, 2500)
	for i := 0; i < n; i++ {
		name := names[r.Intn(len(names))]
		var digest []byte
		how := "attestation"
		switch r.Intn(3) {
		case 0: // a real attestation digest
			digest, _ = e.k.EncodeOracleAttestationData(c15RandBytes(r, 32), hex.EncodeToString(c15RandBytes(r, r.Intn(70))), c15U64(r), c15U64(r), c15U64(r), c15U64(r), c15RandBytes(r, 32), c15U64(r))
		case 1: // a real checkpoint
			ctx, _ := e.ctx.CacheContext()
			digest, _ = e.k.CalculateValidatorSetCheckpoint(ctx, c15U64(r), c15U64(r), c15RandBytes(r, 32))
			how = "checkpoint"
		default:
			digest = c15RandBytes(r, 32)
		}
		emit(name, digest, how)
	}
}

// ---- driver 5: the Solidity sources the contract-side model was transcribed from --------------
func c15ReadSol(t testing.TB, rel string) string {
	root := os.Getenv("VERIF_REPO")
	if root == "" {
		root = "/repo"
	}
	b, err := os.ReadFile(filepath.Join(root, rel))
	if err != nil {
		t.Fatal(err)
	}
	src := string(b)
	src = regexp.MustCompile(`(?s)/\*.*?\*/`).ReplaceAllString(src, "")
	src = regexp.MustCompile(`//[^\n]*`).ReplaceAllString(src, "")
	return strings.Join(strings.Fields(src), "")
}

func TestC15SolSource(t *testing.T) {
	out := newOut(t, "c15_solsource")
	defer out.Close()
	consts := c15ReadSol(t, "evm/contracts/bridge/Constants.sol")
	blob := c15ReadSol(t, "evm/contracts/bridge/BlobstreamO.sol")
	tb := c15ReadSol(t, "evm/contracts/token-bridge/TokenBridge.sol")
	type fact struct{ name, src, re string }
	facts := []fact{
		{"NEW_REPORT_ATTESTATION_DOMAIN_SEPARATOR", consts, `bytes32constantNEW_REPORT_ATTESTATION_DOMAIN_SEPARATOR=(0x[0-9a-fA-F]+);`},
		{"VALIDATOR_SET_HASH_DOMAIN_SEPARATOR", consts, `bytes32constantVALIDATOR_SET_HASH_DOMAIN_SEPARATOR=(0x[0-9a-fA-F]+);`},
		{"struct Validator", blob, `structValidator\{([^}]*)\}`},
		{"valset hash", blob, `bytes32_currentValidatorSetHash=([^;]*);`},
		{"domain separate", blob, `function_domainSeparateValidatorSetHash\([^)]*\)internalpurereturns\(bytes32\)\{return([^;]*);\}`},
		{"domain separate params", blob, `function_domainSeparateValidatorSetHash\(([^)]*)\)`},
		{"data digest", blob, `bytes32_dataDigest=([^;]*);`},
		{"struct OracleAttestationData", blob, `structOracleAttestationData\{([^}]*)\}`},
		{"struct ReportData", blob, `structReportData\{([^}]*)\}`},
		{"verify sig", blob, `function_verifySig\([^)]*\)internalpurereturns\(bool\)\{([^}]*)\}`},
		{"power check", blob, `_cumulativePower\+=_currentValidators\[_i\]\.power;(if\(_cumulativePower>=_powerThreshold\)\{break;\})`},
		{"withdraw query id", tb, `require\((_attestData\.queryId==[^;]*?),"TokenBridge:invalidqueryId"\);`},
		{"withdraw value decode", tb, `\)=(abi\.decode\([^;]*);`},
		{"withdraw amount", tb, `(uint256_amountConverted=_amountLoya\*[^;]*;)`},
	}
	items := []string{}
	human := map[string]interface{}{}
	for _, f := range facts {
		ms := regexp.MustCompile(f.re).FindAllStringSubmatch(f.src, -1)
		val := "<absent>"
		if len(ms) > 0 {
			val = ms[0][1]
			for _, m := range ms[1:] { // every occurrence must read the same
				if m[1] != val {
					val = val + "|" + m[1]
				}
			}
		}
		items = append(items, fmt.Sprintf("(%s, %s)", cstr(f.name), cstr(val)))
		human[f.name] = val
	}
	out.Emit(Case{Coq: "SolSourceCase " + clist(items), Kind: "solsource", Nontrivial: true, Key: "solsource", Human: human})
}
