package harness

import (
	"context"
	"fmt"
	"math/big"
	"math/rand"
	"testing"
	"time"

	"github.com/stretchr/testify/mock"
	keepertest "github.com/tellor-io/layer/testutil/keeper"
	rante "github.com/tellor-io/layer/x/reporter/ante"
	rtypes "github.com/tellor-io/layer/x/reporter/types"
	"google.golang.org/protobuf/proto"

	"cosmossdk.io/math"

	sdk "github.com/cosmos/cosmos-sdk/types"
	stakingtypes "github.com/cosmos/cosmos-sdk/x/staking/types"
)

// fakeStaking: only TotalBondedTokens is used by the decorator
type fakeStaking struct {
	rtypes.StakingKeeper
	total math.Int
}

func (f *fakeStaking) TotalBondedTokens(context.Context) (math.Int, error) { return f.total, nil }

type fakeTx struct{ msgs []sdk.Msg }

func (f fakeTx) GetMsgs() []sdk.Msg                    { return f.msgs }
func (f fakeTx) GetMsgsV2() ([]proto.Message, error) { return nil, nil }

type c18msg struct {
	kind string // create delegate redelegate cancel undelegate other
	amt  *big.Int
}

func (m c18msg) coq() string {
	switch m.kind {
	case "create":
		return "MCreate " + cz(m.amt)
	case "delegate":
		return "MDelegate " + cz(m.amt)
	case "redelegate":
		return "MRedelegate " + cz(m.amt)
	case "cancel":
		return "MCancelUnbond " + cz(m.amt)
	case "undelegate":
		return "MUndelegate " + cz(m.amt)
	}
	return "MOther"
}

func (m c18msg) sdk() sdk.Msg {
	c := sdk.Coin{Denom: "loya", Amount: math.NewIntFromBigInt(m.amt)}
	switch m.kind {
	case "create":
		return &stakingtypes.MsgCreateValidator{Value: c}
	case "delegate":
		return &stakingtypes.MsgDelegate{Amount: c}
	case "redelegate":
		return &stakingtypes.MsgBeginRedelegate{Amount: c}
	case "cancel":
		return &stakingtypes.MsgCancelUnbondingDelegation{Amount: c}
	case "undelegate":
		return &stakingtypes.MsgUndelegate{Amount: c}
	}
	return &rtypes.MsgUpdateParams{}
}

// split total into k non-negative parts
func splitBig(r *rand.Rand, total *big.Int, k int) []*big.Int {
	parts := make([]*big.Int, k)
	rest := new(big.Int).Set(total)
	for i := 0; i < k-1; i++ {
		p := bigRand(r, badd(rest, bi(1)))
		if r.Intn(3) == 0 {
			p = bquo(rest, bi(int64(k-i)))
		}
		parts[i] = p
		rest = bsub(rest, p)
	}
	parts[k-1] = rest
	return parts
}

func TestC18Ante(t *testing.T) {
	out := newOut(t, "c18_ante")
	defer out.Close()
	r := rand.New(rand.NewSource(seed()))
	k, skMock, _, _, ctx, _ := keepertest.ReporterKeeper(t)
	fs := &fakeStaking{}
	// should the keeper itself ever ask the staking module for the live bonded total during admission, it gets the
	// same total as the decorator's staking keeper
	skMock.On("TotalBondedTokens", mock.Anything).Return(func(context.Context) (math.Int, error) { return fs.total, nil }).Maybe()
	dec := rante.NewTrackStakeChangesDecorator(k, fs)
	n := count(6000, 200000)
	incKinds := []string{"create", "delegate", "redelegate", "cancel"}

	emit := func(trackerPresent bool, A, cur *big.Int, msgs []c18msg, tags ...string) {
		if trackerPresent {
			// the admission check uses the recorded amount whether or not its 12 hours have passed (only the end blocker
			// refreshes it): the block time is put before, at and after the expiration
			now := time.Unix(1_700_000_000, 0).UTC()
			ctx = ctx.WithBlockTime(now)
			exp := now.Add(pick(r, -time.Hour, -time.Nanosecond, 0, time.Nanosecond, time.Hour, 12*time.Hour))
			if err := k.Tracker.Set(ctx, rtypes.StakeTracker{Expiration: &exp, Amount: math.NewIntFromBigInt(A)}); err != nil {
				t.Fatal(err)
			}
		} else {
			_ = k.Tracker.Remove(ctx)
		}
		fs.total = math.NewIntFromBigInt(cur)
		sm := make([]sdk.Msg, len(msgs))
		cm := make([]string, len(msgs))
		nStake := 0
		kinds := map[string]bool{}
		for i, m := range msgs {
			sm[i] = m.sdk()
			cm[i] = m.coq()
			if m.kind != "other" {
				nStake++
			}
			kinds[m.kind] = true
		}
		nextCalled := false
		_, err := dec.AnteHandle(ctx, fakeTx{sm}, false, func(c sdk.Context, _ sdk.Tx, _ bool) (sdk.Context, error) {
			nextCalled = true
			return c, nil
		})
		kind := "admit"
		if err != nil {
			kind = "reject"
		}
		if !trackerPresent {
			kind = "no-tracker"
		}
		out.Emit(Case{
			Coq: fmt.Sprintf("AnteCase %s %s %s %s %s", copt(trackerPresent, cz(A)), cz(cur), clist(cm),
				cbool(err != nil), cbool(nextCalled)),
			Kind:       fmt.Sprintf("%s/%dmsg", kind, nStake),
			Nontrivial: nStake >= 2 && trackerPresent,
			Key:        fmt.Sprintf("%v|%s|%s|%v", trackerPresent, A, cur, cm),
			Tags:       tags,
			Human:      map[string]interface{}{"A": A.String(), "current": cur.String(), "msgs": cm, "rejected": err != nil},
		})
	}

	// corpus first: the recorded witness of F29 and neighbours
	emit(true, bi(1000), bi(1000), []c18msg{{"delegate", bi(40)}, {"delegate", bi(40)}}, "corpus:F29")
	emit(true, bi(1000), bi(1000), []c18msg{{"delegate", bi(80)}}, "corpus")
	emit(true, bi(1000), bi(1000), []c18msg{{"undelegate", bi(40)}, {"undelegate", bi(40)}}, "corpus:F29")
	emit(true, bi(1000), bi(1000), []c18msg{{"delegate", bi(50)}, {"undelegate", bi(50)}}, "corpus")
	emit(true, bi(1000), bi(1000), []c18msg{{"create", bi(25)}, {"redelegate", bi(25)}, {"cancel", bi(1)}}, "corpus:F29")
	emit(false, bi(0), bi(1000), []c18msg{{"delegate", bi(500)}}, "corpus:F30")

	for i := 0; i < n; i++ {
		// baseline
		var A *big.Int
		switch r.Intn(6) {
		case 0:
			A = bi(int64(pick(r, 0, 1, 19, 20, 21, 39, 40, 41, 100)))
		case 1:
			A = bigRand(r, pow10(4))
		case 2:
			A = bmul(bigRand(r, pow10(9)), bi(20))
		default:
			A = bigRand(r, pow10(pick(r, 6, 9, 12, 15, 21)))
		}
		q := bquo(A, bi(20))
		// current total within about +-6 % of A
		cur := badd(bsub(A, q), bigRand(r, badd(bmul(q, bi(2)), bi(3))))
		if r.Intn(8) == 0 {
			cur = new(big.Int).Set(A)
		}
		if r.Intn(30) == 0 {
			cur = badd(A, bmul(q, bi(2))) // already outside the band
		}
		upper := badd(A, q)
		lower := bsub(A, q)
		nInc, nDec, nOther := r.Intn(4), r.Intn(3), r.Intn(2)
		if nInc+nDec == 0 {
			nInc = 1
		}
		var msgs []c18msg
		// combined increase around the upper boundary
		if nInc > 0 {
			room := bsub(upper, cur)
			tot := badd(room, bi(int64(pick(r, -1, 0, 0, 1, 1, 2))))
			if r.Intn(4) == 0 {
				tot = bigRand(r, badd(bmul(q, bi(3)), bi(2)))
			}
			if tot.Sign() < 0 {
				tot = bi(0)
			}
			for _, p := range splitBig(r, tot, nInc) {
				msgs = append(msgs, c18msg{pick(r, incKinds...), p})
			}
		}
		if nDec > 0 {
			room := bsub(cur, lower)
			tot := badd(room, bi(int64(pick(r, -1, 0, 0, 1, 1, 2))))
			if r.Intn(4) == 0 {
				tot = bigRand(r, badd(bmul(q, bi(3)), bi(2)))
			}
			if tot.Sign() < 0 {
				tot = bi(0)
			}
			for _, p := range splitBig(r, tot, nDec) {
				msgs = append(msgs, c18msg{"undelegate", p})
			}
		}
		for j := 0; j < nOther; j++ {
			msgs = append(msgs, c18msg{"other", bi(0)})
		}
		r.Shuffle(len(msgs), func(a, b int) { msgs[a], msgs[b] = msgs[b], msgs[a] })
		emit(r.Intn(40) != 0, A, cur, msgs)
	}
}

func TestC18Track(t *testing.T) {
	out := newOut(t, "c18_track")
	defer out.Close()
	r := rand.New(rand.NewSource(seed() + 7))
	k, sk, _, _, ctx, _ := keepertest.ReporterKeeper(t)
	var total math.Int
	sk.On("TotalBondedTokens", mock.Anything).Return(func(context.Context) math.Int { return total }, nil)
	n := count(1500, 50000)
	base := int64(1_700_000_000_000_000_000)
	for i := 0; i < n; i++ {
		exp := base + r.Int63n(int64(48*time.Hour))
		now := exp + int64(pick(r, -2, -1, 0, 1, 2))
		if r.Intn(3) == 0 {
			now = exp - int64(12*time.Hour) + r.Int63n(int64(24*time.Hour))
		}
		amount := bigRand(r, pow10(15))
		tot := bigRand(r, pow10(15))
		switch r.Intn(6) {
		case 0: // a quiet period: the bonded stake is exactly the recorded amount
			tot = new(big.Int).Set(amount)
		case 1:
			tot = badd(amount, bi(int64(pick(r, -1, 1))))
			if tot.Sign() < 0 {
				tot = bi(0)
			}
		}
		total = math.NewIntFromBigInt(tot)
		e := time.Unix(0, exp).UTC()
		if err := k.Tracker.Set(ctx, rtypes.StakeTracker{Expiration: &e, Amount: math.NewIntFromBigInt(amount)}); err != nil {
			t.Fatal(err)
		}
		c := ctx.WithBlockTime(time.Unix(0, now).UTC())
		if err := k.TrackStakeChange(c); err != nil {
			t.Fatal(err)
		}
		got, err := k.Tracker.Get(c)
		if err != nil {
			t.Fatal(err)
		}
		kind := "kept"
		if now >= exp {
			kind = "refresh-due"
		}
		out.Emit(Case{
			Coq: fmt.Sprintf("TrackCase %s %s %s %s %s %s", czi(now), cz(tot), cz(amount), czi(exp),
				cz(got.Amount.BigInt()), czi(got.Expiration.UnixNano())),
			Kind:       fmt.Sprintf("%s/d=%d", kind, clampDelta(now-exp)),
			Nontrivial: true,
			Key:        fmt.Sprintf("%d|%d|%s|%s", now, exp, amount, tot),
			Human:      map[string]interface{}{"now": now, "expiration": exp, "amount": amount.String(), "total": tot.String(), "got_amount": got.Amount.String(), "got_expiration": got.Expiration.UnixNano()},
		})
	}
}

func clampDelta(d int64) int64 {
	if d > 2 {
		return 3
	}
	if d < -2 {
		return -3
	}
	return d
}
