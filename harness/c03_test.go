package harness

// C03 — token supply changes only by the documented, exactly quantified events.
// Drivers: (1) the real Minter.CalculateBlockProvision on boundary-biased time gaps,
// (2) the real mint.BeginBlocker / MsgInit on the real mint keeper (recording mock bank) over
// sequences of block times, (3) histories of supply-relevant operations on the full fixture
// with the real bank, (4) a go/ast scan of every MintCoins/BurnCoins call in x/ and app/ plus
// the module-account permissions of the production app.

import (
	"context"
	"encoding/hex"
	"encoding/json"
	"fmt"
	"go/ast"
	"go/parser"
	"go/token"
	"math/big"
	"math/rand"
	"os"
	"path/filepath"
	"sort"
	"strings"
	"testing"
	"time"

	abci "github.com/cometbft/cometbft/abci/types"
	cmtproto "github.com/cometbft/cometbft/proto/tendermint/types"
	cmttypes "github.com/cometbft/cometbft/types"
	dbm "github.com/cosmos/cosmos-db"
	"github.com/ethereum/go-ethereum/accounts/abi"
	"github.com/ethereum/go-ethereum/common"
	"github.com/stretchr/testify/mock"
	"github.com/tellor-io/layer/app"
	setup "github.com/tellor-io/layer/tests"
	keepertest "github.com/tellor-io/layer/testutil/keeper"
	bridgekeeper "github.com/tellor-io/layer/x/bridge/keeper"
	bridgetypes "github.com/tellor-io/layer/x/bridge/types"
	disputetypes "github.com/tellor-io/layer/x/dispute/types"
	"github.com/tellor-io/layer/x/mint"
	mintkeeper "github.com/tellor-io/layer/x/mint/keeper"
	minttypes "github.com/tellor-io/layer/x/mint/types"
	oraclekeeper "github.com/tellor-io/layer/x/oracle/keeper"
	oracletypes "github.com/tellor-io/layer/x/oracle/types"

	"cosmossdk.io/log"
	"cosmossdk.io/math"

	"github.com/cosmos/cosmos-sdk/baseapp"
	"github.com/cosmos/cosmos-sdk/client/flags"
	"github.com/cosmos/cosmos-sdk/crypto/keys/secp256k1"
	"github.com/cosmos/cosmos-sdk/server"
	sdkmock "github.com/cosmos/cosmos-sdk/testutil/mock"
	simtestutil "github.com/cosmos/cosmos-sdk/testutil/sims"
	sdk "github.com/cosmos/cosmos-sdk/types"
	authtypes "github.com/cosmos/cosmos-sdk/x/auth/types"
	bankkeeper "github.com/cosmos/cosmos-sdk/x/bank/keeper"
	banktypes "github.com/cosmos/cosmos-sdk/x/bank/types"
	stakingkeeper "github.com/cosmos/cosmos-sdk/x/staking/keeper"
	stakingtypes "github.com/cosmos/cosmos-sdk/x/staking/types"
)

// ---- times ------------------------------------------------------------------------------
// A time is (unix seconds, nanoseconds); the Coq side sees sec*10^9+nsec.
type c03Time struct{ sec, nsec int64 }

func (t c03Time) goTime() time.Time { return time.Unix(t.sec, t.nsec).UTC() }
func (t c03Time) big() *big.Int {
	return badd(bmul(bi(t.sec), bi(1_000_000_000)), bi(t.nsec))
}
func c03FromBig(ns *big.Int) c03Time {
	q, m := new(big.Int).DivMod(ns, bi(1_000_000_000), new(big.Int)) // floor division: 0 <= m < 10^9
	return c03Time{q.Int64(), m.Int64()}
}
func c03FromGo(t time.Time) c03Time { return c03Time{t.Unix(), int64(t.Nanosecond())} }
func (t c03Time) add(ns *big.Int) c03Time { return c03FromBig(badd(t.big(), ns)) }

const (
	c03MinSec = -62135596800 // 0001-01-01
	c03MaxSec = 253402300799 // 9999-12-31
)

var (
	c03Ms       = bi(1_000_000)
	c03Day      = bmul(bi(86_400_000), bi(1_000_000))
	c03LastGood = bi(62769647725) // largest ms with 146940000*ms < 2^63
	c03Wrap64   = bi(125539295451) // largest ms with 146940000*ms < 2^64
)

func c03MsNs(ms *big.Int) *big.Int { return bmul(ms, c03Ms) }

// boundary-biased forward gap in nanoseconds. small = gaps a chain actually sees.
func c03Gap(r *rand.Rand, small bool) (*big.Int, string) {
	jitter := func(g *big.Int) *big.Int { // +- sub-millisecond noise
		switch r.Intn(4) {
		case 0:
			return badd(g, bi(r.Int63n(1_000_000)))
		case 1:
			return badd(g, bi(999_999))
		}
		return g
	}
	k := r.Intn(100)
	if small {
		switch {
		case k < 8:
			return bi(pick(r, int64(0), 1, 999_999, 1_000_000, 1_000_001, 1_999_999)), "sub-2ms"
		case k < 20: // provisions 1..8 loya: 1..5 ms
			return jitter(c03MsNs(bi(int64(1 + r.Intn(5))))), "1-5ms"
		case k < 30: // around the steps of the floor: ms with 146940000*ms mod 86400000 near 0
			m := int64(1+r.Intn(2000)) * 1440 // 1440 ms * 146940000 = 2449 * 86400000 exactly
			return jitter(c03MsNs(bi(m + int64(pick(r, -1, 0, 0, 1))))), "floor-step"
		case k < 70:
			return jitter(c03MsNs(bi(500 + r.Int63n(10_000)))), "0.5-10s"
		case k < 85:
			return jitter(c03MsNs(bi(r.Int63n(3_600_000)))), "<1h"
		case k < 95:
			d := bmul(c03Day, bi(int64(pick(r, 1, 1, 2, 7, 21))))
			return badd(d, bmul(c03Ms, bi(int64(pick(r, -1, 0, 0, 1))))), "days"
		default:
			return jitter(c03MsNs(bigRand(r, bi(86_400_000*30)))), "<30d"
		}
	}
	switch {
	case k < 6:
		return bi(pick(r, int64(0), 1, 999_999, 1_000_000, 1_000_001, 1_999_999, 2_000_000)), "sub-2ms"
	case k < 14:
		return jitter(c03MsNs(bi(int64(1 + r.Intn(8))))), "1-8ms"
	case k < 24:
		m := int64(1+r.Intn(100000)) * 1440
		return jitter(c03MsNs(bi(m + int64(pick(r, -1, 0, 0, 1))))), "floor-step"
	case k < 40:
		return jitter(c03MsNs(bi(r.Int63n(60_000)))), "<1min"
	case k < 52:
		d := bmul(c03Day, bi(int64(pick(r, 1, 1, 2, 7, 21, 365))))
		return badd(d, bmul(c03Ms, bi(int64(pick(r, -1, 0, 0, 1))))), "days"
	case k < 64: // around the int64 boundary of the product (726.5 days)
		m := badd(c03LastGood, bi(int64(pick(r, -2, -1, 0, 1, 2, 3))))
		return jitter(c03MsNs(m)), "int64-boundary"
	case k < 70: // around the 2^64 boundary: the wrapped product is positive again
		m := badd(c03Wrap64, bi(int64(pick(r, -1, 0, 1, 2))))
		return jitter(c03MsNs(m)), "2^64-boundary"
	case k < 76: // around the saturation of time.Duration (2^63-1 ns = 292 years)
		return badd(pow2(63), bi(int64(pick(r, -2, -1, 0, 1, 1_000_000)))), "duration-saturation"
	case k < 80:
		return bmul(bigRand(r, bi(7000*365)), c03Day), "centuries"
	case k < 90: // log-uniform below the boundary
		return jitter(bigRand(r, pow10(pick(r, 7, 9, 11, 13, 15, 16)))), "log-uniform"
	default: // uniform up to 4 * boundary
		return jitter(c03MsNs(bigRand(r, bmul(c03LastGood, bi(4))))), "<=2900d"
	}
}

func c03ProvCoq(amt *big.Int, err error, panicked bool) string {
	switch {
	case panicked:
		return "PPanic"
	case err != nil:
		return "PErr"
	}
	return "(PCoin " + cz(amt) + ")"
}

// ---- driver 1: Minter.CalculateBlockProvision ----------------------------------------------
func TestC03Provision(t *testing.T) {
	out := newOut(t, "c03_provision")
	defer out.Close()
	r := rand.New(rand.NewSource(seed()))
	m := minttypes.DefaultMinter()

	call := func(cur, prev time.Time) (amt *big.Int, err error, panicked bool) {
		defer func() {
			if rec := recover(); rec != nil {
				panicked = true
			}
		}()
		c, e := m.CalculateBlockProvision(cur, prev)
		if e != nil {
			return nil, e, false
		}
		return c.Amount.BigInt(), nil, false
	}
	emit := func(prev, cur c03Time, kind string, tags ...string) {
		amt, err, pan := call(cur.goTime(), prev.goTime())
		gap := bsub(cur.big(), prev.big())
		res := "coin"
		if pan {
			res = "panic"
		} else if err != nil {
			res = "error"
		}
		human := map[string]interface{}{"prev_ns": prev.big().String(), "cur_ns": cur.big().String(), "gap_ns": gap.String(), "result": res}
		if amt != nil {
			human["amount"] = amt.String()
		}
		out.Emit(Case{
			Coq:        fmt.Sprintf("ProvCase %s %s %s", cz(prev.big()), cz(cur.big()), c03ProvCoq(amt, err, pan)),
			Kind:       kind + "/" + res,
			Nontrivial: amt != nil && amt.Sign() > 0,
			Key:        prev.big().String() + "|" + cur.big().String(),
			Tags:       tags,
			Human:      human,
		})
	}
	base := c03Time{1_700_000_000, 0}
	// corpus: the gaps named in the design, the int64 boundary, backwards time
	for _, g := range []*big.Int{bi(0), bi(1), bi(999_999), bi(1_000_000), bi(1_000_001), bi(1_999_999), bi(2_000_000), bi(3_000_000),
		bi(1_000_000_000), bi(5_000_000_000), c03Day, bsub(c03Day, c03Ms), badd(c03Day, c03Ms), bmul(c03Day, bi(21)),
		c03MsNs(bsub(c03LastGood, bi(1))), c03MsNs(c03LastGood), badd(c03MsNs(c03LastGood), bi(999_999)),
		c03MsNs(badd(c03LastGood, bi(1))), c03MsNs(badd(c03LastGood, bi(2))),
		c03MsNs(c03Wrap64), c03MsNs(badd(c03Wrap64, bi(1))), bsub(pow2(63), bi(1)), pow2(63), badd(pow2(63), bi(1))} {
		emit(base, base.add(g), "corpus", "corpus")
	}
	emit(base, base.add(bi(-1)), "corpus", "corpus")
	emit(base, base.add(bi(-1_000_000)), "corpus", "corpus")
	emit(c03Time{c03MinSec, 0}, c03Time{c03MaxSec, 999_999_999}, "corpus", "corpus")

	n := count(3500, 100000)
	for i := 0; i < n; i++ {
		gap, kind := c03Gap(r, false)
		// previous time: mostly "now"-like, sometimes sub-ms offsets, sometimes far in the past
		var prev c03Time
		switch r.Intn(10) {
		case 0:
			prev = c03Time{0, 0}
		case 1:
			prev = c03Time{c03MinSec + r.Int63n(1000), r.Int63n(1_000_000_000)}
		default:
			prev = c03Time{1_600_000_000 + r.Int63n(400_000_000), pick(r, int64(0), 1, 999_999, 500_000_000, r.Int63n(1_000_000_000))}
		}
		if r.Intn(25) == 0 { // time goes backwards
			back := bi(pick(r, int64(1), 999_999, 1_000_000, 1+r.Int63n(1_000_000_000_000)))
			emit(prev, prev.add(new(big.Int).Neg(back)), "backwards")
			continue
		}
		cur := prev.add(gap)
		if cur.sec > c03MaxSec { // keep inside the range of a protobuf timestamp
			prev = c03Time{c03MinSec + r.Int63n(1000), prev.nsec}
			cur = prev.add(gap)
			if cur.sec > c03MaxSec {
				continue
			}
		}
		emit(prev, cur, kind)
	}
}

// ---- driver 2: mint.BeginBlocker / MsgInit on the real keeper, recording bank -------------------
type c03Bank struct {
	minted *big.Int
	tbr    *big.Int
	fee    *big.Int
	other  bool // a call the property does not document (wrong module, address or denom)
}

func (b *c03Bank) reset() { b.minted, b.tbr, b.fee, b.other = bi(0), bi(0), bi(0), false }

func c03Opt(t *time.Time) string {
	if t == nil {
		return "None"
	}
	return copt(true, cz(c03FromGo(*t).big()))
}

func TestC03Blocks(t *testing.T) {
	out := newOut(t, "c03_blocks")
	defer out.Close()
	r := rand.New(rand.NewSource(seed() + 3))
	k, _, bk, ctx := keepertest.MintKeeper(t)
	rec := &c03Bank{}
	rec.reset()
	tbrAddr := authtypes.NewModuleAddress(minttypes.TimeBasedRewards).String()
	feeAddr := authtypes.NewModuleAddress(authtypes.FeeCollectorName).String()
	mintAddr := authtypes.NewModuleAddress(minttypes.ModuleName).String()
	bk.On("MintCoins", mock.Anything, mock.Anything, mock.Anything).Return(
		func(_ context.Context, name string, amt sdk.Coins) error {
			if name != minttypes.ModuleName || len(amt) != 1 || amt[0].Denom != "loya" {
				rec.other = true
			}
			rec.minted = badd(rec.minted, amt.AmountOf("loya").BigInt())
			return nil
		})
	bk.On("InputOutputCoins", mock.Anything, mock.Anything, mock.Anything).Return(
		func(_ context.Context, in banktypes.Input, outs []banktypes.Output) error {
			// the first thing the real bank keeper does
			if err := banktypes.ValidateInputOutputs(in, outs); err != nil {
				return err
			}
			if in.Address != mintAddr {
				rec.other = true
			}
			for _, o := range outs {
				switch o.Address {
				case tbrAddr:
					rec.tbr = badd(rec.tbr, o.Coins.AmountOf("loya").BigInt())
				case feeAddr:
					rec.fee = badd(rec.fee, o.Coins.AmountOf("loya").BigInt())
				default:
					rec.other = true
				}
			}
			return nil
		})
	bk.On("SendCoinsFromModuleToModule", mock.Anything, mock.Anything, mock.Anything, mock.Anything).Return(
		func(context.Context, string, string, sdk.Coins) error { rec.other = true; return nil })
	srv := mintkeeper.NewMsgServerImpl(k)

	beginBlock := func(c sdk.Context) (status int, err error) {
		defer func() {
			if p := recover(); p != nil {
				status = 2
			}
		}()
		if e := mint.BeginBlocker(c, k); e != nil {
			return 1, e
		}
		return 0, nil
	}

	type step struct {
		init    bool
		authOK  bool
		zero    bool
		gap     *big.Int // relative to the previous block time of the sequence (may be negative)
		gapKind string
	}
	run := func(init0 bool, prev0 *c03Time, first c03Time, steps []step, tags ...string) {
		m0 := minttypes.Minter{BondDenom: "loya", Initialized: init0}
		if prev0 != nil {
			tt := prev0.goTime()
			m0.PreviousBlockTime = &tt
		}
		if err := k.Minter.Set(ctx, m0); err != nil {
			t.Fatal(err)
		}
		cur := first
		var items []string
		kinds := map[string]bool{}
		nMint, nBlocks := 0, 0
		var human []string
		for _, s := range steps {
			bk.Calls = nil
			if s.init {
				auth := k.GetAuthority()
				if !s.authOK {
					auth = authtypes.NewModuleAddress("someone").String()
				}
				_, err := srv.Init(ctx, &minttypes.MsgInit{Authority: auth})
				mm, e2 := k.Minter.Get(ctx)
				if e2 != nil {
					t.Fatal(e2)
				}
				items = append(items, fmt.Sprintf("BInit %s %s %s %s", cbool(s.authOK), cbool(err != nil), cbool(mm.Initialized), c03Opt(mm.PreviousBlockTime)))
				human = append(human, fmt.Sprintf("init(auth=%v)->err=%v", s.authOK, err != nil))
				continue
			}
			var now c03Time
			var c sdk.Context
			if s.zero {
				c = ctx.WithBlockTime(time.Time{})
				now = c03FromGo(time.Time{})
			} else {
				cur = cur.add(s.gap)
				if cur.sec > c03MaxSec-1 || cur.sec < c03MinSec+1 {
					cur = first
				}
				now = cur
				c = ctx.WithBlockTime(now.goTime())
			}
			rec.reset()
			status, _ := beginBlock(c)
			mm, e2 := k.Minter.Get(ctx)
			if e2 != nil {
				t.Fatal(e2)
			}
			if rec.other {
				status = 3 // an undocumented bank call: no model status matches
			}
			items = append(items, fmt.Sprintf("BBlock %s %d %s %s %s %s %s", cz(now.big()), status, cz(rec.minted), cz(rec.tbr), cz(rec.fee),
				cbool(mm.Initialized), c03Opt(mm.PreviousBlockTime)))
			human = append(human, fmt.Sprintf("block(+%sns %s)->status=%d minted=%s tbr=%s fee=%s", s.gap, s.gapKind, status, rec.minted, rec.tbr, rec.fee))
			kinds[s.gapKind] = true
			nBlocks++
			if rec.minted.Sign() > 0 {
				nMint++
			}
		}
		kind := "uninit"
		if init0 {
			kind = "init"
		}
		out.Emit(Case{
			Coq: fmt.Sprintf("BlocksCase %s %s %s", cbool(init0), func() string {
				if prev0 == nil {
					return "None"
				}
				return copt(true, cz(prev0.big()))
			}(), clist(items)),
			Kind:       fmt.Sprintf("%s/%d-minting-blocks", kind, min(nMint, 4)),
			Nontrivial: nMint >= 1,
			Key:        strings.Join(items, ";"),
			Tags:       tags,
			Human:      map[string]interface{}{"init0": init0, "steps": human},
		})
	}
	blk := func(g int64) step { return step{gap: bi(g), gapKind: "corpus"} }
	base := c03Time{1_700_000_000, 0}
	// corpus
	run(false, nil, base, []step{blk(0), blk(6_000_000_000), {init: true, authOK: false}, {init: true, authOK: true}, blk(6_000_000_000), blk(6_000_000_000), blk(5_999_999_999)}, "corpus")
	run(true, &base, base, []step{blk(1_000_000)}, "corpus:F37")   // provision 1 loya
	run(true, &base, base, []step{blk(2_000_000)}, "corpus:F37")   // provision 3 loya
	run(true, &base, base, []step{blk(3_000_000)}, "corpus")       // provision 5 loya: 4 + 1
	run(true, &base, base, []step{blk(999_999), blk(1), blk(588_000), blk(588_000)}, "corpus") // sub-ms gaps are lost
	run(true, &base, base, []step{blk(86_400_000_000_000), blk(-1), blk(1_000_000_000)}, "corpus")
	run(true, &base, base, []step{{gap: c03MsNs(c03LastGood), gapKind: "corpus"}}, "corpus")
	run(true, &base, base, []step{{gap: c03MsNs(badd(c03LastGood, bi(1))), gapKind: "corpus"}, blk(1_000_000_000)}, "corpus")
	run(true, nil, base, []step{{zero: true, gap: bi(0), gapKind: "zero-time"}, blk(0), blk(7_000_000_000)}, "corpus")
	run(true, &base, base, []step{{init: true, authOK: true}, blk(7_000_000_000)}, "corpus")

	n := count(1500, 40000)
	for i := 0; i < n; i++ {
		var init0 bool
		var prev0 *c03Time
		first := c03Time{1_600_000_000 + r.Int63n(400_000_000), pick(r, int64(0), 999_999, r.Int63n(1_000_000_000))}
		switch q := r.Intn(100); {
		case q < 22:
		case q < 25: // not reachable from genesis (a recorded time without Initialized); still must not mint
			p := first
			prev0 = &p
		case q < 40:
			init0 = true
		default:
			init0 = true
			p := first
			prev0 = &p
		}
		ns := 2 + r.Intn(7)
		steps := make([]step, 0, ns)
		for j := 0; j < ns; j++ {
			q := r.Intn(100)
			switch {
			case q < 8 || (!init0 && q < 22):
				steps = append(steps, step{init: true, authOK: r.Intn(6) != 0})
			case q >= 97:
				steps = append(steps, step{zero: true, gap: bi(0), gapKind: "zero-time"})
			case q >= 94:
				steps = append(steps, step{gap: bi(-pick(r, int64(1), 1_000_000, 1+r.Int63n(10_000_000_000))), gapKind: "backwards"})
			case q >= 90:
				g, kd := c03Gap(r, false)
				steps = append(steps, step{gap: g, gapKind: kd})
			default:
				g, kd := c03Gap(r, true)
				steps = append(steps, step{gap: g, gapKind: kd})
			}
		}
		run(init0, prev0, first, steps)
	}
}

// ---- driver 4: every MintCoins / BurnCoins call site (go/ast) ------------------------------------
func c03Repo() string {
	if p := os.Getenv("VERIF_REPO"); p != "" {
		return p
	}
	return "/repo"
}

func c03RecvName(fd *ast.FuncDecl) string {
	if fd.Recv == nil || len(fd.Recv.List) == 0 {
		return fd.Name.Name
	}
	tp := fd.Recv.List[0].Type
	if s, ok := tp.(*ast.StarExpr); ok {
		tp = s.X
	}
	if ix, ok := tp.(*ast.IndexExpr); ok {
		tp = ix.X
	}
	if id, ok := tp.(*ast.Ident); ok {
		return id.Name + "." + fd.Name.Name
	}
	return "?." + fd.Name.Name
}

func c03ScanSites(t *testing.T) [][3]string {
	root := c03Repo()
	var sites [][3]string
	fset := token.NewFileSet()
	for _, top := range []string{"x", "app"} {
		err := filepath.Walk(filepath.Join(root, top), func(path string, info os.FileInfo, err error) error {
			if err != nil {
				return err
			}
			if info.IsDir() {
				switch info.Name() {
				case "mocks", "testutil", "testutils", "simulation":
					return filepath.SkipDir
				}
				return nil
			}
			if !strings.HasSuffix(path, ".go") || strings.HasSuffix(path, "_test.go") {
				return nil
			}
			f, err := parser.ParseFile(fset, path, nil, 0)
			if err != nil {
				return err
			}
			dir, _ := filepath.Rel(root, filepath.Dir(path))
			visit := func(encl string, body ast.Node) {
				ast.Inspect(body, func(n ast.Node) bool {
					call, ok := n.(*ast.CallExpr)
					if !ok {
						return true
					}
					name := ""
					switch fn := call.Fun.(type) {
					case *ast.SelectorExpr:
						name = fn.Sel.Name
					case *ast.Ident:
						name = fn.Name
					}
					if name == "MintCoins" || name == "BurnCoins" {
						sites = append(sites, [3]string{filepath.ToSlash(dir), encl, name})
					}
					return true
				})
			}
			for _, d := range f.Decls {
				switch dd := d.(type) {
				case *ast.FuncDecl:
					if dd.Body != nil {
						visit(c03RecvName(dd), dd.Body)
					}
				case *ast.GenDecl:
					visit("(package level)", dd)
				}
			}
			return nil
		})
		if err != nil {
			t.Fatal(err)
		}
	}
	sort.Slice(sites, func(i, j int) bool {
		return strings.Join(sites[i][:], "|") < strings.Join(sites[j][:], "|")
	})
	return sites
}

func TestC03Sites(t *testing.T) {
	out := newOut(t, "c03_sites")
	defer out.Close()
	sites := c03ScanSites(t)
	items := make([]string, len(sites))
	hs := make([]string, len(sites))
	for i, s := range sites {
		items[i] = fmt.Sprintf("(%s, %s, %s)", cstr(s[0]), cstr(s[1]), cstr(s[2]))
		hs[i] = s[0] + ":" + s[1] + ":" + s[2]
	}
	// module-account permissions of the production app (the maccPerms table as wired)
	a := c03NewApp(t, nil)
	var minters, burners []string
	for name, p := range a.app.AccountKeeper.GetModulePermissions() {
		if p.HasPermission(authtypes.Minter) {
			minters = append(minters, name)
		}
		if p.HasPermission(authtypes.Burner) {
			burners = append(burners, name)
		}
	}
	sort.Strings(minters)
	sort.Strings(burners)
	cs := func(xs []string) string {
		it := make([]string, len(xs))
		for i, x := range xs {
			it[i] = cstr(x)
		}
		return clist(it)
	}
	out.Emit(Case{
		Coq:        fmt.Sprintf("SitesCase %s %s %s", clist(items), cs(minters), cs(burners)),
		Kind:       fmt.Sprintf("%d-sites", len(sites)),
		Nontrivial: len(sites) > 0,
		Key:        strings.Join(hs, ";"),
		Human:      map[string]interface{}{"sites": hs, "minters": minters, "burners": burners},
	})
}

// ---- driver 3: histories of supply-relevant operations on the real bank ----------------------------
const c03EthQueryData = "00000000000000000000000000000000000000000000000000000000000000400000000000000000000000000000000000000000000000000000000000000080000000000000000000000000000000000000000000000000000000000000000953706F745072696365000000000000000000000000000000000000000000000000000000000000000000000000000000000000000000000000000000000000C0000000000000000000000000000000000000000000000000000000000000004000000000000000000000000000000000000000000000000000000000000000800000000000000000000000000000000000000000000000000000000000000003657468000000000000000000000000000000000000000000000000000000000000000000000000000000000000000000000000000000000000000000000000037573640000000000000000000000000000000000000000000000000000000000"

// the fixture a history runs on: the production app (app.New + InitChain: real wiring of every
// module, including bridge) or the integration fixture of /repo/tests (setup.SharedSetup)
type c03Fixture struct {
	app      *app.App // nil on SharedSetup
	ctx      sdk.Context
	bank     bankkeeper.Keeper
	mintK    mintkeeper.Keeper
	oracleK  oraclekeeper.Keeper
	bridgeK  *bridgekeeper.Keeper
	staking  *stakingkeeper.Keeper
	users    []sdk.AccAddress
	shared   *setup.SharedSetup
	mintAuth string
}

func c03NewApp(t *testing.T, balances []*big.Int) *c03Fixture {
	sdk.DefaultBondDenom = "loya"
	a := app.New(log.NewNopLogger(), dbm.NewMemDB(), nil, true,
		simtestutil.AppOptionsMap{flags.FlagHome: t.TempDir(), server.FlagInvCheckPeriod: uint(0)}, baseapp.SetChainID("c03"))
	pubKey, err := sdkmock.NewPV().GetPubKey()
	if err != nil {
		t.Fatal(err)
	}
	valSet := cmttypes.NewValidatorSet([]*cmttypes.Validator{cmttypes.NewValidator(pubKey, 1)})
	var accs []authtypes.GenesisAccount
	var bals []banktypes.Balance
	var users []sdk.AccAddress
	if len(balances) == 0 {
		balances = []*big.Int{bi(1)}
	}
	for _, b := range balances {
		priv := secp256k1.GenPrivKey()
		acc := authtypes.NewBaseAccount(priv.PubKey().Address().Bytes(), priv.PubKey(), 0, 0)
		accs = append(accs, acc)
		users = append(users, acc.GetAddress())
		bals = append(bals, banktypes.Balance{Address: acc.GetAddress().String(), Coins: sdk.NewCoins(sdk.NewCoin("loya", math.NewIntFromBigInt(b)))})
	}
	gs, err := simtestutil.GenesisStateWithValSet(a.AppCodec(), a.BasicModuleManager.DefaultGenesis(a.AppCodec()), valSet, accs, bals...)
	if err != nil {
		t.Fatal(err)
	}
	stateBytes, err := json.Marshal(gs)
	if err != nil {
		t.Fatal(err)
	}
	cp := simtestutil.DefaultConsensusParams
	cp.Abci = &cmtproto.ABCIParams{VoteExtensionsEnableHeight: 1}
	genesisTime := time.Unix(1_700_000_000, 0).UTC()
	if _, err = a.InitChain(&abci.RequestInitChain{ChainId: "c03", Validators: []abci.ValidatorUpdate{}, ConsensusParams: cp, AppStateBytes: stateBytes, Time: genesisTime}); err != nil {
		t.Fatal(err)
	}
	ctx := a.BaseApp.NewContextLegacy(false, cmtproto.Header{ChainID: "c03", Height: 1, Time: genesisTime})
	return &c03Fixture{app: a, ctx: ctx, bank: a.BankKeeper, mintK: a.MintKeeper, oracleK: a.OracleKeeper, bridgeK: &a.BridgeKeeper,
		staking: a.StakingKeeper, users: users, mintAuth: a.MintKeeper.GetAuthority()}
}

func c03NewShared(t *testing.T, nUsers int) *c03Fixture {
	s := &setup.SharedSetup{}
	s.SetupTest(t)
	var users []sdk.AccAddress
	for i := 0; i < nUsers; i++ {
		users = append(users, sdk.AccAddress(secp256k1.GenPrivKey().PubKey().Address()))
	}
	ctx := s.Ctx.WithBlockHeight(1).WithBlockTime(time.Unix(1_700_000_000, 0).UTC())
	s.Ctx = ctx
	return &c03Fixture{ctx: ctx, bank: s.Bankkeeper, mintK: s.Mintkeeper, oracleK: s.Oraclekeeper, staking: s.Stakingkeeper,
		users: users, shared: s, mintAuth: s.Mintkeeper.GetAuthority()}
}

// model addresses: 0 = everything untracked, 1.. = module accounts, 100+i = users
func (f *c03Fixture) tracked() ([]string, []sdk.AccAddress) {
	names := []string{"1", "2", "3", "4", "5", "6", "7"}
	addrs := []sdk.AccAddress{
		authtypes.NewModuleAddress(minttypes.ModuleName), authtypes.NewModuleAddress(minttypes.TimeBasedRewards),
		authtypes.NewModuleAddress(authtypes.FeeCollectorName), authtypes.NewModuleAddress(oracletypes.ModuleName),
		authtypes.NewModuleAddress(bridgetypes.ModuleName), authtypes.NewModuleAddress(disputetypes.ModuleName),
		authtypes.NewModuleAddress(authtypes.Minter),
	}
	for i, u := range f.users {
		names = append(names, fmt.Sprint(100+i))
		addrs = append(addrs, u)
	}
	return names, addrs
}

type c03Obs struct {
	supply, sum *big.Int
	broken      bool
	bals        []*big.Int // rest first, then the tracked accounts
	init        bool
	prev        *time.Time
}

func (f *c03Fixture) observe(t *testing.T) c03Obs {
	ctx := f.ctx
	o := c03Obs{supply: f.bank.GetSupply(ctx, "loya").Amount.BigInt(), sum: bi(0)}
	f.bank.IterateAllBalances(ctx, func(_ sdk.AccAddress, c sdk.Coin) bool {
		if c.Denom == "loya" {
			o.sum = badd(o.sum, c.Amount.BigInt())
		}
		return false
	})
	_, o.broken = bankkeeper.TotalSupply(f.bank)(ctx)
	_, addrs := f.tracked()
	tot := bi(0)
	for _, a := range addrs {
		b := f.bank.GetBalance(ctx, a, "loya").Amount.BigInt()
		o.bals = append(o.bals, b)
		tot = badd(tot, b)
	}
	o.bals = append([]*big.Int{bsub(o.sum, tot)}, o.bals...)
	m, err := f.mintK.Minter.Get(ctx)
	if err != nil {
		t.Fatal(err)
	}
	o.init, o.prev = m.Initialized, m.PreviousBlockTime
	return o
}

func c03Bals(bs []*big.Int) string {
	it := make([]string, len(bs))
	for i, b := range bs {
		it[i] = cz(b)
	}
	return clist(it)
}

// run executes one operation atomically (cache context; written back only on success; a panic
// counts as a failure, as in baseapp's runTx / a failed block)
func (f *c03Fixture) run(ctx sdk.Context, op func(sdk.Context) error) (err error) {
	cctx, write := ctx.CacheContext()
	defer func() {
		if p := recover(); p != nil {
			err = fmt.Errorf("panic: %v", p)
		}
	}()
	if err = op(cctx); err == nil {
		write()
	}
	return err
}

func c03DepositValue(recipient string, amountWei, tipWei *big.Int) string {
	addrT, _ := abi.NewType("address", "", nil)
	strT, _ := abi.NewType("string", "", nil)
	u256, _ := abi.NewType("uint256", "", nil)
	b, err := abi.Arguments{{Type: addrT}, {Type: strT}, {Type: u256}, {Type: u256}}.Pack(common.HexToAddress("0x00000000000000000000000000000000000000aa"), recipient, amountWei, tipWei)
	if err != nil {
		panic(err)
	}
	return hex.EncodeToString(b)
}

func TestC03Supply(t *testing.T) {
	out := newOut(t, "c03_supply")
	defer out.Close()
	r := rand.New(rand.NewSource(seed() + 5))
	queryData, err := hex.DecodeString(c03EthQueryData)
	if err != nil {
		t.Fatal(err)
	}
	n := count(240, 6000)
	wei := pow10(12)
	for h := 0; h < n; h++ {
		prod := h%3 != 2 // two thirds on the production app, one third on the integration fixture
		var f *c03Fixture
		if prod {
			bs := make([]*big.Int, 3)
			for i := range bs {
				bs[i] = pick(r, bi(0), bi(49), bi(1000), bi(1_000_000), bigRand(r, pow10(9)), bigRand(r, pow10(12)))
			}
			f = c03NewApp(t, bs)
		} else {
			f = c03NewShared(t, 3)
		}
		names, _ := f.tracked()
		o0 := f.observe(t)
		now := c03Time{1_700_000_000 + r.Int63n(1000), pick(r, int64(0), 999_999, r.Int63n(1_000_000_000))}
		nextDeposit := uint64(1)
		var claimed []uint64
		var items, human []string
		kinds := map[string]bool{}
		nChange := 0
		prevSupply := o0.supply
		user := func() (int, sdk.AccAddress) { i := r.Intn(len(f.users)); return i, f.users[i] }
		amountFor := func(u sdk.AccAddress) *big.Int { // around the balance and around the 2 % rounding steps
			b := f.bank.GetBalance(f.ctx, u, "loya").Amount.BigInt()
			switch r.Intn(10) {
			case 0:
				return b
			case 1:
				return badd(b, bi(1))
			case 2:
				if b.Sign() > 0 {
					return bsub(b, bi(1))
				}
				return bi(0)
			case 3:
				return bi(int64(pick(r, 0, 1, 49, 50, 51, 99, 100, 101, 149, 150)))
			case 4:
				return badd(bmul(bi(50), bi(r.Int63n(1000))), bi(int64(pick(r, -1, 0, 1))))
			default:
				return bigRand(r, badd(b, bi(2)))
			}
		}
		nOps := 8 + r.Intn(10)
		for j := 0; j < nOps; j++ {
			var coqOp, desc string
			var opErr error
			q := r.Intn(100)
			switch {
			case q < 8: // MsgInit
				ok := r.Intn(5) != 0
				auth := f.mintAuth
				if !ok {
					auth = f.users[0].String()
				}
				opErr = f.run(f.ctx, func(c sdk.Context) error {
					_, e := mintkeeper.NewMsgServerImpl(f.mintK).Init(c, &minttypes.MsgInit{Authority: auth})
					return e
				})
				coqOp, desc = "LInit "+cbool(ok), "init"
			case q < 36: // mint BeginBlocker at the next block time
				g, kd := c03Gap(r, true)
				if r.Intn(12) == 0 {
					g = bi(-1 - r.Int63n(1_000_000_000))
					kd = "backwards"
				}
				now = now.add(g)
				c := f.ctx.WithBlockTime(now.goTime()).WithBlockHeight(f.ctx.BlockHeight() + 1)
				opErr = f.run(c, func(c sdk.Context) error { return mint.BeginBlocker(c, f.mintK) })
				if opErr == nil {
					f.ctx = f.ctx.WithBlockHeight(c.BlockHeight())
				}
				coqOp, desc = "LBeginBlock "+cz(now.big()), "beginblock/"+kd
			case q < 64: // oracle MsgTip
				i, u := user()
				amt := amountFor(u)
				if r.Intn(25) == 0 {
					amt = bi(-5)
				}
				opErr = f.run(f.ctx, func(c sdk.Context) error {
					_, e := oraclekeeper.NewMsgServerImpl(f.oracleK).Tip(c, &oracletypes.MsgTip{Tipper: u.String(), QueryData: queryData,
						Amount: sdk.Coin{Denom: "loya", Amount: math.NewIntFromBigInt(amt)}})
					return e
				})
				coqOp, desc = fmt.Sprintf("LTip %d %s", 100+i, cz(amt)), "tip"
			case q < 72: // bank send between users
				i, u := user()
				k, v := user()
				amt := amountFor(u)
				opErr = f.run(f.ctx, func(c sdk.Context) error {
					return f.bank.SendCoins(c, u, v, sdk.NewCoins(sdk.NewCoin("loya", math.NewIntFromBigInt(amt))))
				})
				coqOp, desc = fmt.Sprintf("LSend %d %d %s", 100+i, 100+k, cz(amt)), "send"
			case q < 78 && f.staking != nil && prod: // staking delegation: user -> bonded pool (untracked)
				i, u := user()
				amt := amountFor(u)
				if amt.Sign() <= 0 {
					amt = bi(1)
				}
				vals, e := f.staking.GetAllValidators(f.ctx)
				if e != nil || len(vals) == 0 {
					t.Fatal("no validator", e)
				}
				opErr = f.run(f.ctx, func(c sdk.Context) error {
					_, e := stakingkeeper.NewMsgServerImpl(f.staking).Delegate(c, &stakingtypes.MsgDelegate{DelegatorAddress: u.String(),
						ValidatorAddress: vals[0].OperatorAddress, Amount: sdk.NewCoin("loya", math.NewIntFromBigInt(amt))})
					return e
				})
				coqOp, desc = fmt.Sprintf("LSend %d 0 %s", 100+i, cz(amt)), "delegate"
			case q < 90 && f.bridgeK != nil: // bridge MsgWithdrawTokens
				i, u := user()
				amt := amountFor(u)
				if r.Intn(25) == 0 {
					amt = bi(-5)
				}
				opErr = f.run(f.ctx, func(c sdk.Context) error {
					_, e := bridgekeeper.NewMsgServerImpl(*f.bridgeK).WithdrawTokens(c, &bridgetypes.MsgWithdrawTokens{Creator: u.String(),
						Recipient: "00000000000000000000000000000000000000aa", Amount: sdk.Coin{Denom: "loya", Amount: math.NewIntFromBigInt(amt)}})
					return e
				})
				coqOp, desc = fmt.Sprintf("LWithdraw %d %s", 100+i, cz(amt)), "withdraw"
			case q < 100 && f.bridgeK != nil: // bridge MsgClaimDeposits of a planted deposit report
				ci, cu := user()
				ri, ru := user()
				amountWei := badd(bmul(bigRand(r, pow10(pick(r, 1, 4, 9))), wei), bigRand(r, wei))
				tipWei := bi(0)
				switch r.Intn(6) {
				case 0:
					tipWei = new(big.Int).Set(amountWei)
				case 1:
					tipWei = badd(amountWei, wei) // tip above the amount
				case 2, 3:
					tipWei = bigRand(r, badd(amountWei, bi(1)))
				case 4:
					tipWei = bigRand(r, wei) // below one loya
				}
				id := nextDeposit
				fresh := true
				if len(claimed) > 0 && r.Intn(5) == 0 { // claim again
					id = claimed[r.Intn(len(claimed))]
					fresh = false
				} else {
					nextDeposit++
				}
				qid, e := f.bridgeK.GetDepositQueryId(id)
				if e != nil {
					t.Fatal(e)
				}
				reportTime := time.Unix(1_690_000_000+int64(id)*1000, 0).UTC()
				if fresh {
					// plant the oracle side (subject of C14): an aggregate for the deposit query and a
					// validator checkpoint before it
					c := f.ctx.WithBlockTime(reportTime)
					if e := f.bridgeK.ValidatorCheckpointParamsMap.Set(c, uint64(reportTime.UnixMilli())-5, bridgetypes.ValidatorCheckpointParams{
						Checkpoint: []byte("cp"), ValsetHash: []byte("vh"), Timestamp: uint64(reportTime.UnixMilli()) - 5, PowerThreshold: 10}); e != nil {
						t.Fatal(e)
					}
					if e := f.oracleK.SetAggregate(c, &oracletypes.Aggregate{QueryId: qid, AggregateValue: c03DepositValue(ru.String(), amountWei, tipWei), ReporterPower: 100}); e != nil {
						t.Fatal(e)
					}
				}
				c := f.ctx.WithBlockTime(reportTime.Add(13 * time.Hour))
				opErr = f.run(c, func(c sdk.Context) error {
					_, e := bridgekeeper.NewMsgServerImpl(*f.bridgeK).ClaimDeposits(c, &bridgetypes.MsgClaimDepositsRequest{Creator: cu.String(), DepositIds: []uint64{id}, Indices: []uint64{0}})
					return e
				})
				if opErr == nil {
					claimed = append(claimed, id)
				}
				coqOp, desc = fmt.Sprintf("LClaim %s %d %d %s %s", cbool(fresh), 100+ci, 100+ri, cz(amountWei), cz(tipWei)), "claim"
			default: // fixture funding (SharedSetup.MintTokens) / on the app: another send
				i, u := user()
				if f.shared != nil {
					amt := pick(r, bi(0), bi(1), bi(1000), bigRand(r, pow10(9)), bigRand(r, pow10(13)))
					opErr = f.run(f.ctx, func(c sdk.Context) error {
						f.shared.Ctx = c
						f.shared.MintTokens(u, math.NewIntFromBigInt(amt))
						return nil
					})
					f.shared.Ctx = f.ctx
					coqOp, desc = fmt.Sprintf("LFund %d %s", 100+i, cz(amt)), "fund"
				} else {
					k, v := user()
					amt := amountFor(u)
					opErr = f.run(f.ctx, func(c sdk.Context) error {
						return f.bank.SendCoins(c, u, v, sdk.NewCoins(sdk.NewCoin("loya", math.NewIntFromBigInt(amt))))
					})
					coqOp, desc = fmt.Sprintf("LSend %d %d %s", 100+i, 100+k, cz(amt)), "send"
				}
			}
			o := f.observe(t)
			items = append(items, fmt.Sprintf("LObs (%s) %s %s %s %s %s %s %s", coqOp, cbool(opErr != nil), cz(o.supply), cz(o.sum), cbool(o.broken),
				c03Bals(o.bals), cbool(o.init), c03Opt(o.prev)))
			d := bsub(o.supply, prevSupply)
			if d.Sign() != 0 {
				nChange++
			}
			prevSupply = o.supply
			res := "ok"
			if opErr != nil {
				res = "err"
			}
			kinds[strings.SplitN(desc, "/", 2)[0]] = true
			human = append(human, fmt.Sprintf("%s %s -> %s supply%+d", desc, coqOp, res, d))
		}
		fx := "sharedsetup"
		if prod {
			fx = "app"
		}
		ks := make([]string, 0, len(kinds))
		for k := range kinds {
			ks = append(ks, k)
		}
		sort.Strings(ks)
		out.Emit(Case{
			Coq: fmt.Sprintf("LedgerCase %s %s %s %s %s %s", clist(append([]string{"0"}, names...)), c03Bals(o0.bals), cz(o0.supply),
				cbool(o0.init), c03Opt(o0.prev), clist(items)),
			Kind:       fmt.Sprintf("%s/%d-supply-changes", fx, min(nChange, 6)),
			Nontrivial: nChange >= 2,
			Key:        strings.Join(items, ";"),
			Human:      map[string]interface{}{"fixture": fx, "ops": human, "kinds": ks},
		})
	}
}
