package harness

import (
	"fmt"
	"go/ast"
	"go/parser"
	"go/token"
	"math/big"
	"math/rand"
	"path/filepath"
	"strings"
	"testing"
	"time"

	bridgetypes "github.com/tellor-io/layer/x/bridge/types"
	disputetypes "github.com/tellor-io/layer/x/dispute/types"
	minttypes "github.com/tellor-io/layer/x/mint/types"
	oracletypes "github.com/tellor-io/layer/x/oracle/types"
	registrytypes "github.com/tellor-io/layer/x/registry/types"
	reportertypes "github.com/tellor-io/layer/x/reporter/types"

	"cosmossdk.io/math"

	sdk "github.com/cosmos/cosmos-sdk/types"
	authtypes "github.com/cosmos/cosmos-sdk/x/auth/types"
	stakingtypes "github.com/cosmos/cosmos-sdk/x/staking/types"
)

// privileged messages sent by {authority, near misses, module accounts, plain accounts, team}
func TestC19Priv(t *testing.T) {
	out := newOut(t, "c19_priv")
	defer out.Close()
	n := count(12, 300)
	for i := 0; i < n; i++ {
		r := rand.New(rand.NewSource(seed()*104729 + int64(i)))
		w := newWorld(t, r, 2, 3)
		s := w.s
		digest := func() string {
			op, _ := s.Oraclekeeper.Params.Get(w.ctx)
			rp, _ := s.Reporterkeeper.Params.Get(w.ctx)
			dp, _ := s.Disputekeeper.Params.Get(w.ctx)
			cl, _ := s.Oraclekeeper.GetCyclelist(w.ctx)
			sp, _ := s.Registrykeeper.GetSpec(w.ctx, "spotprice")
			mn, _ := s.Mintkeeper.Minter.Get(w.ctx)
			sl, _ := s.Bridgekeeper.SnapshotLimit.Get(w.ctx)
			return fmt.Sprintf("%v|%v|%x|%x|%v|%v|%v", op, rp, dp.TeamAddress, cl, sp, mn.Initialized, sl)
		}
		for j := 0; j < 40; j++ {
			name := pick(r, "oracle.UpdateParams", "UpdateCyclelist", "UpdateDataSpec", "reporter.UpdateParams", "mint.Init", "UpdateSnapshotLimit", "UpdateTeam", "RegisterSpec")
			authority := w.authority
			if name == "UpdateSnapshotLimit" {
				authority = s.Bridgekeeper.GetAuthority()
			}
			if name == "UpdateTeam" {
				authority = w.accts[w.team].String()
			}
			sender := authority
			kind := "authority"
			if r.Intn(3) != 0 {
				kind = pick(r, "account", "module", "upper", "space", "team", "empty")
				switch kind {
				case "account":
					sender = w.accts[r.Intn(len(w.accts))].String()
				case "module":
					sender = authtypes.NewModuleAddress(pick(r, "oracle", "dispute", "bridge", "mint", "bonded_tokens_pool")).String()
				case "upper":
					sender = strings.ToUpper(authority)
				case "space":
					sender = authority + " "
				case "team":
					sender = w.accts[w.team].String()
				case "empty":
					sender = ""
				}
			}
			byAuth := sender == authority
			if name == "UpdateTeam" { // the handler compares decoded addresses (bech32 may be upper case)
				if a, err := sdk.AccAddressFromBech32(sender); err == nil && a.Equals(w.accts[w.team]) {
					byAuth = true
				}
			}
			before := digest()
			res := w.deliver(name, -3, nil, func(ctx sdk.Context) error {
				var err error
				switch name {
				case "oracle.UpdateParams":
					p := oracletypes.DefaultParams()
					p.MinStakeAmount = math.NewInt(int64(1+r.Intn(3)) * loyaPerTRB)
					_, err = w.oracleMS.UpdateParams(ctx, &oracletypes.MsgUpdateParams{Authority: sender, Params: p})
				case "UpdateCyclelist":
					_, err = w.oracleMS.UpdateCyclelist(ctx, &oracletypes.MsgUpdateCyclelist{Authority: sender, Cyclelist: [][]byte{w.queries[r.Intn(len(w.queries))], w.queries[r.Intn(len(w.queries))]}})
				case "UpdateDataSpec":
					spec, _ := s.Registrykeeper.GetSpec(ctx, "spotprice")
					spec.ReportBlockWindow = uint64(1 + r.Intn(50))
					_, err = w.registryMS.UpdateDataSpec(ctx, &registrytypes.MsgUpdateDataSpec{Authority: sender, QueryType: "spotprice", Spec: spec})
				case "reporter.UpdateParams":
					p := reportertypes.DefaultParams()
					p.MaxSelectors = uint64(1 + r.Intn(100))
					_, err = w.reporterMS.UpdateParams(ctx, &reportertypes.MsgUpdateParams{Authority: sender, Params: p})
				case "mint.Init":
					_, err = w.mintMS.Init(ctx, &minttypes.MsgInit{Authority: sender})
				case "UpdateSnapshotLimit":
					_, err = w.bridgeMS.UpdateSnapshotLimit(ctx, &bridgetypes.MsgUpdateSnapshotLimit{Authority: sender, Limit: uint64(1 + r.Intn(50))})
				case "UpdateTeam":
					nt := r.Intn(len(w.accts))
					_, err = w.disputeMS.UpdateTeam(ctx, &disputetypes.MsgUpdateTeam{CurrentTeamAddress: sender, NewTeamAddress: w.accts[nt].String()})
					if err == nil {
						w.team = nt
					}
				case "RegisterSpec":
					// re-registration of an existing (case-insensitively equal) query type
					qt := pick(r, "spotprice", "SpotPrice", "SPOTPRICE", "trbbridge", "TRBBridge")
					_, err = w.registryMS.RegisterSpec(ctx, &registrytypes.MsgRegisterSpec{Registrar: w.accts[0].String(), QueryType: qt, Spec: registrytypes.DataSpec{
						DocumentHash: "evil", ResponseValueType: "uint256", AggregationMethod: "weighted-mode", Registrar: w.accts[0].String(), ReportBlockWindow: 1,
						AbiComponents: []*registrytypes.ABIComponent{{Name: "a", FieldType: "string"}}}})
					byAuth = false
				}
				return err
			})
			after := digest()
			out.Emit(Case{Coq: fmt.Sprintf("PrivCase %s %s %s %s", cstr(name), cbool(byAuth), cbool(res.result == 0), cbool(before != after)),
				Kind: fmt.Sprintf("%s/%s/%d", name, kind, res.result), Nontrivial: !byAuth, Key: fmt.Sprint(i, j, name, kind)})
		}
	}
}

// source scan: each governance-gated handler starts with the authority comparison
func TestC19Guards(t *testing.T) {
	out := newOut(t, "c19_guards")
	defer out.Close()
	handlers := [][2]string{
		{"x/oracle/keeper/msg_update_params.go", "UpdateParams"},
		{"x/oracle/keeper/msg_update_cyclelist.go", "UpdateCyclelist"},
		{"x/registry/keeper/msg_update_spec.go", "UpdateDataSpec"},
		{"x/reporter/keeper/msg_update_params.go", "UpdateParams"},
		{"x/mint/keeper/msg_server.go", "Init"},
		{"x/bridge/keeper/msg_server_update_snapshot_limit.go", "UpdateSnapshotLimit"},
	}
	var items []string
	human := map[string]interface{}{}
	for _, h := range handlers {
		fset := token.NewFileSet()
		f, err := parser.ParseFile(fset, filepath.Join(repoDir(), h[0]), nil, 0)
		ok := false
		if err == nil {
			for _, d := range f.Decls {
				fd, isF := d.(*ast.FuncDecl)
				if !isF || fd.Name.Name != h[1] || fd.Body == nil || len(fd.Body.List) == 0 {
					continue
				}
				// first statement: if <x>.GetAuthority() != <req>.Authority { return nil, <err> }
				if is, isIf := fd.Body.List[0].(*ast.IfStmt); isIf {
					if be, isB := is.Cond.(*ast.BinaryExpr); isB && be.Op == token.NEQ {
						src := exprString(be.X) + "|" + exprString(be.Y)
						if strings.Contains(src, "GetAuthority()") && strings.Contains(src, ".Authority") && len(is.Body.List) == 1 {
							if rs, isR := is.Body.List[0].(*ast.ReturnStmt); isR && len(rs.Results) == 2 && exprString(rs.Results[0]) == "nil" && exprString(rs.Results[1]) != "nil" {
								ok = true
							}
						}
					}
				}
			}
		}
		items = append(items, fmt.Sprintf("(%s, %s)", cstr(h[0]+":"+h[1]), cbool(ok)))
		human[h[0]+":"+h[1]] = ok
	}
	out.Emit(Case{Coq: fmt.Sprintf("GuardCase %s", clist(items)), Kind: "guards", Nontrivial: true, Key: "guards", Human: human})
}

func exprString(e ast.Expr) string {
	switch x := e.(type) {
	case *ast.Ident:
		return x.Name
	case *ast.SelectorExpr:
		return exprString(x.X) + "." + x.Sel.Name
	case *ast.CallExpr:
		return exprString(x.Fun) + "()"
	}
	return "?"
}

// TestC19Register: registered data specs cannot be replaced by re-registration, whatever the spelling of
// the query type (case, surrounding / inner white space, control characters) — real registry msg server.
func TestC19Register(t *testing.T) {
	out := newOut(t, "c19_register")
	defer out.Close()
	r := rand.New(rand.NewSource(seed() + 19))
	w := newWorld(t, r, 2, 1)
	n := count(60, 1500)
	letters := "abcdefghijklmnopqrstuvwxyzABCDEFGHIJKLMNOPQRSTUVWXYZ"
	for i := 0; i < n; i++ {
		base := ""
		for k := 0; k < 4+r.Intn(8); k++ {
			base += string(letters[r.Intn(len(letters))])
		}
		base += fmt.Sprint(i)
		mk := func(window uint64, vt string) registrytypes.DataSpec {
			return registrytypes.DataSpec{DocumentHash: "hash" + vt, ResponseValueType: vt, AggregationMethod: "weighted-median", Registrar: w.accts[0].String(),
				ReportBlockWindow: window, AbiComponents: []*registrytypes.ABIComponent{{Name: "a", FieldType: "string"}}}
		}
		orig := mk(2, "uint256")
		if _, err := w.registryMS.RegisterSpec(w.ctx, &registrytypes.MsgRegisterSpec{Registrar: w.accts[0].String(), QueryType: base, Spec: orig}); err != nil {
			t.Fatalf("register %q: %v", base, err)
		}
		// in half of the cases governance updates the spec first (also with fields left empty, as a partial update would)
		if r.Intn(2) == 0 {
			upd := mk(uint64(3+r.Intn(5)), pick(r, "uint256", "bytes32", "string"))
			upd.Registrar = pick(r, "", "", w.accts[0].String())
			upd.DocumentHash = pick(r, "", "updated")
			if _, err := w.registryMS.UpdateDataSpec(w.ctx, &registrytypes.MsgUpdateDataSpec{Authority: w.authority, QueryType: base, Spec: upd}); err != nil {
				t.Fatalf("update %q: %v", base, err)
			}
		}
		stored, err := w.s.Registrykeeper.GetSpec(w.ctx, strings.ToLower(base))
		if err != nil {
			t.Fatal(err)
		}
		variants := []string{base, strings.ToLower(base), strings.ToUpper(base), base + " ", " " + base, "\t" + base + "\n", base + " ", " " + strings.ToUpper(base) + "  ",
			base[:2] + " " + base[2:], base + "\x00", strings.Title(strings.ToLower(base))}
		for _, v := range variants {
			other := mk(7, "bytes")
			cctx, write := w.ctx.CacheContext()
			accepted := false
			func() {
				defer func() { _ = recover() }()
				if _, err := w.registryMS.RegisterSpec(cctx, &registrytypes.MsgRegisterSpec{Registrar: w.accts[1].String(), QueryType: v, Spec: other}); err == nil {
					accepted = true
					write()
				}
			}()
			now, err := w.s.Registrykeeper.GetSpec(w.ctx, strings.ToLower(base))
			changed := err != nil || now.ResponseValueType != stored.ResponseValueType || now.ReportBlockWindow != stored.ReportBlockWindow || now.DocumentHash != stored.DocumentHash || now.Registrar != stored.Registrar
			// non-printable characters are spelled out for the Coq term (equality with the registered name is unaffected)
			vp := strings.NewReplacer("\t", "<TAB>", "\n", "<NL>", "\x00", "<NUL>", "\u00a0", "<NBSP>").Replace(v)
			out.Emit(Case{Coq: fmt.Sprintf("RegCase %s %s %s %s", cstr(base), cstr(vp), cbool(accepted), cbool(changed)), Kind: fmt.Sprintf("register/accepted=%v", accepted),
				Nontrivial: v != base, Key: fmt.Sprint(seed(), i, v), Human: map[string]interface{}{"registered": base, "attempt": vp, "accepted": accepted, "changed": changed}})
			if changed {
				// restore for the next variants
				_ = w.s.Registrykeeper.SetDataSpec(w.ctx, strings.ToLower(base), stored)
			}
		}
	}
}

// TestC19Remove: MsgRemoveSelector by a third party succeeds only for a selector whose bonded stake fell
// below its reporter's minimum while the reporter is over the selector cap.  The stake is recomputed here
// from the staking keeper (all delegations to bonded validators), independently of the keeper's HasMin.
func TestC19Remove(t *testing.T) {
	out := newOut(t, "c19_remove")
	defer out.Close()
	n := count(40, 1200)
	for i := 0; i < n; i++ {
		r := rand.New(rand.NewSource(seed()*104729 + int64(i)))
		nVals := 3
		w := newWorld(t, r, nVals, 5)
		minReq := int64(pick(r, 1, 2, 5)) * loyaPerTRB
		// reporter = a plain account with its own stake
		rep := nVals
		_, _ = w.stakingMS.Delegate(w.ctx, &stakingtypes.MsgDelegate{DelegatorAddress: w.accts[rep].String(), ValidatorAddress: w.valOps[0].String(), Amount: w.coin(bi(10 * loyaPerTRB))})
		if _, err := w.reporterMS.CreateReporter(w.ctx, &reportertypes.MsgCreateReporter{ReporterAddress: w.accts[rep].String(), CommissionRate: math.LegacyZeroDec(), MinTokensRequired: math.NewInt(minReq)}); err != nil {
			t.Fatal(err)
		}
		sels := []int{nVals + 1, nVals + 2, nVals + 3, nVals + 4}
		for _, a := range sels {
			// one or two delegations; amounts around the minimum, split so that one part alone may or may not reach it
			v1 := r.Intn(nVals)
			v2 := (v1 + 1 + r.Intn(nVals-1)) % nVals
			a1 := pick(r, bi(minReq), bi(minReq-1), bi(minReq/2), bi(minReq+1), bi(2*minReq), bi(1))
			_, _ = w.stakingMS.Delegate(w.ctx, &stakingtypes.MsgDelegate{DelegatorAddress: w.accts[a].String(), ValidatorAddress: w.valOps[v1].String(), Amount: w.coin(a1)})
			if r.Intn(2) == 0 {
				a2 := pick(r, bi(minReq), bi(minReq/2), bi(minReq-1), bi(2*minReq), bi(1))
				_, _ = w.stakingMS.Delegate(w.ctx, &stakingtypes.MsgDelegate{DelegatorAddress: w.accts[a].String(), ValidatorAddress: w.valOps[v2].String(), Amount: w.coin(a2)})
			}
			_, _ = w.reporterMS.SelectReporter(w.ctx, &reportertypes.MsgSelectReporter{SelectorAddress: w.accts[a].String(), ReporterAddress: w.accts[rep].String()})
		}
		// some validators leave the bonded set, some selectors undelegate
		w.beginBlock(time.Second)
		for k := 0; k < 2; k++ {
			if r.Intn(2) == 0 {
				vi := r.Intn(nVals)
				if v, err := w.s.Stakingkeeper.GetValidator(w.ctx, w.valOps[vi]); err == nil && !v.Jailed {
					if cons, err := v.GetConsAddr(); err == nil {
						func() {
							defer func() { _ = recover() }()
							_ = w.s.Stakingkeeper.Jail(w.ctx, cons)
						}()
					}
				}
			}
		}
		for _, a := range sels {
			if r.Intn(3) == 0 {
				if v, amt, ok := w.someDelegation(a); ok {
					x := pick(r, amt, bquo(amt, bi(2)), bi(1))
					if x.Sign() > 0 {
						_, _ = w.stakingMS.Undelegate(w.ctx, &stakingtypes.MsgUndelegate{DelegatorAddress: w.accts[a].String(), ValidatorAddress: v.String(), Amount: w.coin(x)})
					}
				}
			}
		}
		w.endBlock()
		w.beginBlock(time.Second)
		// governance lowers (or keeps) the cap
		p := reportertypes.DefaultParams()
		p.MaxSelectors = uint64(pick(r, 0, 1, 2, 3, 4, 5, 100))
		if _, err := w.reporterMS.UpdateParams(w.ctx, &reportertypes.MsgUpdateParams{Authority: w.authority, Params: p}); err != nil {
			t.Fatal(err)
		}
		third := 0
		for _, a := range append(sels, rep) {
			sel, err := w.s.Reporterkeeper.Selectors.Get(w.ctx, w.accts[a].Bytes())
			if err != nil {
				continue
			}
			// independent recomputation of the bonded stake
			stake := new(big.Int)
			_ = w.s.Stakingkeeper.IterateDelegatorDelegations(w.ctx, w.accts[a], func(d stakingtypes.Delegation) bool {
				va, _ := sdk.ValAddressFromBech32(d.ValidatorAddress)
				val, err := w.s.Stakingkeeper.GetValidator(w.ctx, va)
				if err == nil && val.IsBonded() {
					stake.Add(stake, val.TokensFromShares(d.Shares).TruncateInt().BigInt())
				}
				return false
			})
			nsel := 0
			_ = w.s.Reporterkeeper.Selectors.Walk(w.ctx, nil, func(_ []byte, s reportertypes.Selection) (bool, error) {
				if string(s.Reporter) == string(sel.Reporter) {
					nsel++
				}
				return false, nil
			})
			res := w.deliver("RemoveSelector", third, nil, func(ctx sdk.Context) error {
				_, err := w.reporterMS.RemoveSelector(ctx, &reportertypes.MsgRemoveSelector{AnyAddress: w.accts[third].String(), SelectorAddress: w.accts[a].String()})
				return err
			})
			_, errAfter := w.s.Reporterkeeper.Selectors.Get(w.ctx, w.accts[a].Bytes())
			changed := errAfter != nil
			out.Emit(Case{Coq: fmt.Sprintf("RemoveCase %s %d %d %d %s %s", cz(stake), minReq, nsel, p.MaxSelectors, cbool(res.result == 0), cbool(changed)),
				Kind: fmt.Sprintf("remove/accepted=%v", res.result == 0), Nontrivial: nsel > int(p.MaxSelectors), Key: fmt.Sprint(seed(), i, a),
				Human: map[string]interface{}{"stake": stake.String(), "min": minReq, "selectors": nsel, "cap": p.MaxSelectors, "accepted": res.result == 0, "error": res.errMsg}})
		}
	}
}
