package harness

import (
	"fmt"
	"go/ast"
	"go/parser"
	"go/token"
	"math/rand"
	"path/filepath"
	"strings"
	"testing"

	bridgetypes "github.com/tellor-io/layer/x/bridge/types"
	disputetypes "github.com/tellor-io/layer/x/dispute/types"
	minttypes "github.com/tellor-io/layer/x/mint/types"
	oracletypes "github.com/tellor-io/layer/x/oracle/types"
	registrytypes "github.com/tellor-io/layer/x/registry/types"
	reportertypes "github.com/tellor-io/layer/x/reporter/types"

	"cosmossdk.io/math"

	sdk "github.com/cosmos/cosmos-sdk/types"
	authtypes "github.com/cosmos/cosmos-sdk/x/auth/types"
)

// privileged messages sent by {authority, near misses, module accounts, plain accounts, team}
func TestC19Priv(t *testing.T) {
	out := newOut(t, "c19_priv")
	defer out.Close()
	n := count(12, 300)
	for i := 0; i < n; i++ {
		r := rand.New(rand.NewSource(seed()*104729 + int64(i)))
		w := newWorld(t, r, 2, 3)
		s := w.s
		digest := func() string {
			op, _ := s.Oraclekeeper.Params.Get(w.ctx)
			rp, _ := s.Reporterkeeper.Params.Get(w.ctx)
			dp, _ := s.Disputekeeper.Params.Get(w.ctx)
			cl, _ := s.Oraclekeeper.GetCyclelist(w.ctx)
			sp, _ := s.Registrykeeper.GetSpec(w.ctx, "spotprice")
			mn, _ := s.Mintkeeper.Minter.Get(w.ctx)
			sl, _ := s.Bridgekeeper.SnapshotLimit.Get(w.ctx)
			return fmt.Sprintf("%v|%v|%x|%x|%v|%v|%v", op, rp, dp.TeamAddress, cl, sp, mn.Initialized, sl)
		}
		for j := 0; j < 40; j++ {
			name := pick(r, "oracle.UpdateParams", "UpdateCyclelist", "UpdateDataSpec", "reporter.UpdateParams", "mint.Init", "UpdateSnapshotLimit", "UpdateTeam", "RegisterSpec")
			authority := w.authority
			if name == "UpdateSnapshotLimit" {
				authority = s.Bridgekeeper.GetAuthority()
			}
			if name == "UpdateTeam" {
				authority = w.accts[w.team].String()
			}
			sender := authority
			kind := "authority"
			if r.Intn(3) != 0 {
				kind = pick(r, "account", "module", "upper", "space", "team", "empty")
				switch kind {
				case "account":
					sender = w.accts[r.Intn(len(w.accts))].String()
				case "module":
					sender = authtypes.NewModuleAddress(pick(r, "oracle", "dispute", "bridge", "mint", "bonded_tokens_pool")).String()
				case "upper":
					sender = strings.ToUpper(authority)
				case "space":
					sender = authority + " "
				case "team":
					sender = w.accts[w.team].String()
				case "empty":
					sender = ""
				}
			}
			byAuth := sender == authority
			if name == "UpdateTeam" { // the handler compares decoded addresses (bech32 may be upper case)
				if a, err := sdk.AccAddressFromBech32(sender); err == nil && a.Equals(w.accts[w.team]) {
					byAuth = true
				}
			}
			before := digest()
			res := w.deliver(name, -3, nil, func(ctx sdk.Context) error {
				var err error
				switch name {
				case "oracle.UpdateParams":
					p := oracletypes.DefaultParams()
					p.MinStakeAmount = math.NewInt(int64(1+r.Intn(3)) * loyaPerTRB)
					_, err = w.oracleMS.UpdateParams(ctx, &oracletypes.MsgUpdateParams{Authority: sender, Params: p})
				case "UpdateCyclelist":
					_, err = w.oracleMS.UpdateCyclelist(ctx, &oracletypes.MsgUpdateCyclelist{Authority: sender, Cyclelist: [][]byte{w.queries[r.Intn(len(w.queries))], w.queries[r.Intn(len(w.queries))]}})
				case "UpdateDataSpec":
					spec, _ := s.Registrykeeper.GetSpec(ctx, "spotprice")
					spec.ReportBlockWindow = uint64(1 + r.Intn(50))
					_, err = w.registryMS.UpdateDataSpec(ctx, &registrytypes.MsgUpdateDataSpec{Authority: sender, QueryType: "spotprice", Spec: spec})
				case "reporter.UpdateParams":
					p := reportertypes.DefaultParams()
					p.MaxSelectors = uint64(1 + r.Intn(100))
					_, err = w.reporterMS.UpdateParams(ctx, &reportertypes.MsgUpdateParams{Authority: sender, Params: p})
				case "mint.Init":
					_, err = w.mintMS.Init(ctx, &minttypes.MsgInit{Authority: sender})
				case "UpdateSnapshotLimit":
					_, err = w.bridgeMS.UpdateSnapshotLimit(ctx, &bridgetypes.MsgUpdateSnapshotLimit{Authority: sender, Limit: uint64(1 + r.Intn(50))})
				case "UpdateTeam":
					nt := r.Intn(len(w.accts))
					_, err = w.disputeMS.UpdateTeam(ctx, &disputetypes.MsgUpdateTeam{CurrentTeamAddress: sender, NewTeamAddress: w.accts[nt].String()})
					if err == nil {
						w.team = nt
					}
				case "RegisterSpec":
					// re-registration of an existing (case-insensitively equal) query type
					qt := pick(r, "spotprice", "SpotPrice", "SPOTPRICE", "trbbridge", "TRBBridge")
					_, err = w.registryMS.RegisterSpec(ctx, &registrytypes.MsgRegisterSpec{Registrar: w.accts[0].String(), QueryType: qt, Spec: registrytypes.DataSpec{
						DocumentHash: "evil", ResponseValueType: "uint256", AggregationMethod: "weighted-mode", Registrar: w.accts[0].String(), ReportBlockWindow: 1,
						AbiComponents: []*registrytypes.ABIComponent{{Name: "a", FieldType: "string"}}}})
					byAuth = false
				}
				return err
			})
			after := digest()
			out.Emit(Case{Coq: fmt.Sprintf("PrivCase %s %s %s %s", cstr(name), cbool(byAuth), cbool(res.result == 0), cbool(before != after)),
				Kind: fmt.Sprintf("%s/%s/%d", name, kind, res.result), Nontrivial: !byAuth, Key: fmt.Sprint(i, j, name, kind)})
		}
	}
}

// source scan: each governance-gated handler starts with the authority comparison
func TestC19Guards(t *testing.T) {
	out := newOut(t, "c19_guards")
	defer out.Close()
	handlers := [][2]string{
		{"x/oracle/keeper/msg_update_params.go", "UpdateParams"},
		{"x/oracle/keeper/msg_update_cyclelist.go", "UpdateCyclelist"},
		{"x/registry/keeper/msg_update_spec.go", "UpdateDataSpec"},
		{"x/reporter/keeper/msg_update_params.go", "UpdateParams"},
		{"x/mint/keeper/msg_server.go", "Init"},
		{"x/bridge/keeper/msg_server_update_snapshot_limit.go", "UpdateSnapshotLimit"},
	}
	var items []string
	human := map[string]interface{}{}
	for _, h := range handlers {
		fset := token.NewFileSet()
		f, err := parser.ParseFile(fset, filepath.Join(repoDir(), h[0]), nil, 0)
		ok := false
		if err == nil {
			for _, d := range f.Decls {
				fd, isF := d.(*ast.FuncDecl)
				if !isF || fd.Name.Name != h[1] || fd.Body == nil || len(fd.Body.List) == 0 {
					continue
				}
				// first statement: if <x>.GetAuthority() != <req>.Authority { return nil, <err> }
				if is, isIf := fd.Body.List[0].(*ast.IfStmt); isIf {
					if be, isB := is.Cond.(*ast.BinaryExpr); isB && be.Op == token.NEQ {
						src := exprString(be.X) + "|" + exprString(be.Y)
						if strings.Contains(src, "GetAuthority()") && strings.Contains(src, ".Authority") && len(is.Body.List) == 1 {
							if rs, isR := is.Body.List[0].(*ast.ReturnStmt); isR && len(rs.Results) == 2 && exprString(rs.Results[0]) == "nil" && exprString(rs.Results[1]) != "nil" {
								ok = true
							}
						}
					}
				}
			}
		}
		items = append(items, fmt.Sprintf("(%s, %s)", cstr(h[0]+":"+h[1]), cbool(ok)))
		human[h[0]+":"+h[1]] = ok
	}
	out.Emit(Case{Coq: fmt.Sprintf("GuardCase %s", clist(items)), Kind: "guards", Nontrivial: true, Key: "guards", Human: human})
}

func exprString(e ast.Expr) string {
	switch x := e.(type) {
	case *ast.Ident:
		return x.Name
	case *ast.SelectorExpr:
		return exprString(x.X) + "." + x.Sel.Name
	case *ast.CallExpr:
		return exprString(x.Fun) + "()"
	}
	return "?"
}
