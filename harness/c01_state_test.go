package harness

// C01 — node-local state: the outcome of a block must be a function of the replicated stores and the block alone.
// This scan re-extracts from /repo's source, on every run, every place where a consensus object could carry state
// from one block (or one transaction) to the next outside the stores:
//   - fields of struct types in the consensus packages whose type is (or contains, through structs declared in the
//     module) a map, a channel, a sync primitive, an atomic, or a pointer to a struct declared in the module
//     (interfaces, collections, codecs, store services and loggers are not state of this kind);
//   - package-level variables of map, slice, pointer or struct-with-such type that are not error values,
//     interface assertions or generated registries.
// The Coq side (SitesCase) holds the list of the ones that exist and are justified; a new one has no justification.

import (
	"fmt"
	"go/ast"
	"go/token"
	"go/types"
	"sort"
	"strings"
)

const layerMod = "github.com/tellor-io/layer"

// does the type hold mutable in-memory state of its own?  (depth-limited walk through module structs)
func stateful(t types.Type, depth int) (bool, string) {
	if depth > 4 {
		return false, ""
	}
	switch x := t.(type) {
	case *types.Map:
		return true, "map"
	case *types.Chan:
		return true, "chan"
	case *types.Pointer:
		if n, ok := x.Elem().(*types.Named); ok {
			if n.Obj().Pkg() != nil {
				pp := n.Obj().Pkg().Path()
				if pp == "sync" || pp == "sync/atomic" {
					return true, pp
				}
				if strings.HasPrefix(pp, layerMod) {
					if _, isStruct := n.Underlying().(*types.Struct); isStruct {
						return true, "pointer to " + n.Obj().Name()
					}
				}
			}
			return false, ""
		}
		if _, ok := x.Elem().(*types.Basic); ok {
			return true, "pointer to basic"
		}
		return stateful(x.Elem(), depth+1)
	case *types.Named:
		if x.Obj().Pkg() != nil {
			pp := x.Obj().Pkg().Path()
			if pp == "sync" || pp == "sync/atomic" {
				return true, pp
			}
			if strings.HasPrefix(pp, layerMod) {
				if st, ok := x.Underlying().(*types.Struct); ok {
					for i := 0; i < st.NumFields(); i++ {
						if ok, why := stateful(st.Field(i).Type(), depth+1); ok {
							return true, x.Obj().Name() + "." + st.Field(i).Name() + ": " + why
						}
					}
				}
				if _, ok := x.Underlying().(*types.Map); ok {
					return true, "map"
				}
			}
		}
		return false, ""
	case *types.Struct:
		for i := 0; i < x.NumFields(); i++ {
			if ok, why := stateful(x.Field(i).Type(), depth+1); ok {
				return true, why
			}
		}
	}
	return false, ""
}

func collectStateSites(pkgs []*pkgT) []string {
	seen := map[string]bool{}
	for _, p := range pkgs {
		short := strings.TrimPrefix(p.PkgPath, layerMod+"/")
		if strings.HasSuffix(short, "/types") || strings.Contains(short, "/types/") {
			// message and parameter types (generated or plain data): no consensus object lives here
			if !strings.HasPrefix(short, "daemons/") {
				continue
			}
		}
		for _, f := range p.Syntax {
			fname := p.Fset.Position(f.Pos()).Filename
			if strings.HasSuffix(fname, "_test.go") || strings.HasSuffix(fname, ".pb.go") || strings.HasSuffix(fname, ".pb.gw.go") || strings.HasSuffix(fname, "_verif.go") ||
				strings.HasSuffix(fname, ".pulsar.go") {
				continue
			}
			for _, d := range f.Decls {
				gd, ok := d.(*ast.GenDecl)
				if !ok {
					continue
				}
				for _, sp := range gd.Specs {
					switch x := sp.(type) {
					case *ast.TypeSpec:
						if gd.Tok != token.TYPE {
							continue
						}
						obj := p.TypesInfo.Defs[x.Name]
						if obj == nil {
							continue
						}
						st, ok := obj.Type().Underlying().(*types.Struct)
						if !ok {
							continue
						}
						for i := 0; i < st.NumFields(); i++ {
							if ok, why := stateful(st.Field(i).Type(), 0); ok {
								seen[fmt.Sprintf("field:%s:%s.%s (%s)", short, x.Name.Name, st.Field(i).Name(), why)] = true
							}
						}
					case *ast.ValueSpec:
						if gd.Tok != token.VAR {
							continue
						}
						for _, nm := range x.Names {
							if nm.Name == "_" {
								continue
							}
							obj := p.TypesInfo.Defs[nm]
							if obj == nil {
								continue
							}
							t := obj.Type()
							if types.Identical(t, types.Universe.Lookup("error").Type()) {
								continue
							}
							if _, isIface := t.Underlying().(*types.Interface); isIface {
								continue
							}
							why := ""
							switch u := t.Underlying().(type) {
							case *types.Map:
								why = "map"
							case *types.Slice:
								why = "slice"
							case *types.Pointer:
								_ = u
								why = "pointer"
							default:
								if ok, w := stateful(t, 0); ok {
									why = w
								}
							}
							if why != "" {
								seen[fmt.Sprintf("var:%s:%s (%s)", short, nm.Name, why)] = true
							}
						}
					}
				}
			}
		}
	}
	var out []string
	for s := range seen {
		out = append(out, s)
	}
	sort.Strings(out)
	return out
}
