package harness

// Structural facts re-extracted from /repo's source on every run (go/packages + go/types):
// every `range` over a map, every call of time.Now / math/rand / crypto/rand / os.Getenv,
// every go statement and select in the consensus packages.  The Coq side checks that each
// is one of the sites for which an order-independence theorem (or an off-consensus
// justification) exists.

import (
	"fmt"
	"go/ast"
	"go/types"
	"os"
	"sort"
	"strings"
	"testing"

	"golang.org/x/tools/go/packages"
)

type pkgT = packages.Package

func repoDir() string {
	if d := os.Getenv("VERIF_REPO"); d != "" {
		return d
	}
	return "/repo"
}

func loadConsensusPackages(t *testing.T) []*packages.Package {
	cfg := &packages.Config{
		Mode: packages.NeedName | packages.NeedFiles | packages.NeedSyntax | packages.NeedTypes | packages.NeedTypesInfo | packages.NeedImports | packages.NeedDeps,
		Dir:  repoDir(),
		Env:  append(os.Environ(), "GOFLAGS=-mod=mod", "GOPROXY=off", "GOSUMDB=off", "GOTOOLCHAIN=local"),
	}
	pkgs, err := packages.Load(cfg,
		"github.com/tellor-io/layer/x/...", "github.com/tellor-io/layer/app", "github.com/tellor-io/layer/lib/...",
		"github.com/tellor-io/layer/daemons/server/types/pricefeed", "github.com/tellor-io/layer/daemons/pricefeed/types")
	if err != nil {
		t.Fatal(err)
	}
	var out []*packages.Package
	for _, p := range pkgs {
		path := p.PkgPath
		if strings.Contains(path, "/mocks") || strings.Contains(path, "/simulation") || strings.Contains(path, "/client") ||
			strings.Contains(path, "/testutil") || strings.HasSuffix(path, "/types") && false {
			continue
		}
		out = append(out, p)
	}
	return out
}

func enclosingFunc(file *ast.File, pos ast.Node) string {
	name := "?"
	ast.Inspect(file, func(n ast.Node) bool {
		if fd, ok := n.(*ast.FuncDecl); ok {
			if fd.Pos() <= pos.Pos() && pos.End() <= fd.End() {
				name = fd.Name.Name
				if fd.Recv != nil && len(fd.Recv.List) > 0 {
					switch rt := fd.Recv.List[0].Type.(type) {
					case *ast.StarExpr:
						if id, ok := rt.X.(*ast.Ident); ok {
							name = id.Name + "." + name
						}
					case *ast.Ident:
						name = rt.Name + "." + name
					}
				}
			}
		}
		return true
	})
	return name
}

func TestC01Sites(t *testing.T) {
	out := newOut(t, "c01_sites")
	defer out.Close()
	pkgs := loadConsensusPackages(t)
	var mapSites, nondet []string
	for _, p := range pkgs {
		short := strings.TrimPrefix(p.PkgPath, "github.com/tellor-io/layer/")
		for i, f := range p.Syntax {
			_ = i
			fname := p.Fset.Position(f.Pos()).Filename
			if strings.HasSuffix(fname, "_test.go") || strings.HasSuffix(fname, ".pb.go") || strings.HasSuffix(fname, ".pb.gw.go") || strings.HasSuffix(fname, "_verif.go") {
				continue
			}
			ast.Inspect(f, func(n ast.Node) bool {
				switch x := n.(type) {
				case *ast.RangeStmt:
					if tv, ok := p.TypesInfo.Types[x.X]; ok {
						if _, isMap := tv.Type.Underlying().(*types.Map); isMap {
							mapSites = append(mapSites, short+":"+enclosingFunc(f, x))
						}
					}
				case *ast.GoStmt:
					nondet = append(nondet, "go:"+short+":"+enclosingFunc(f, x))
				case *ast.SelectStmt:
					nondet = append(nondet, "select:"+short+":"+enclosingFunc(f, x))
				case *ast.CallExpr:
					if sel, ok := x.Fun.(*ast.SelectorExpr); ok {
						if obj := p.TypesInfo.Uses[sel.Sel]; obj != nil && obj.Pkg() != nil {
							pp := obj.Pkg().Path()
							nm := obj.Name()
							if (pp == "time" && (nm == "Now" || nm == "Since")) || pp == "math/rand" || pp == "crypto/rand" || (pp == "os" && (nm == "Getenv" || nm == "LookupEnv")) {
								nondet = append(nondet, pp+"."+nm+":"+short+":"+enclosingFunc(f, x))
							}
						}
					}
				}
				return true
			})
		}
	}
	sort.Strings(mapSites)
	sort.Strings(nondet)
	ms := make([]string, len(mapSites))
	for i, s := range mapSites {
		ms[i] = cstr(s)
	}
	nd := make([]string, len(nondet))
	for i, s := range nondet {
		nd[i] = cstr(s)
	}
	state := collectStateSites(pkgs)
	ss := make([]string, len(state))
	for i, s := range state {
		ss[i] = cstr(s)
	}
	out.Emit(Case{Coq: fmt.Sprintf("SitesCase %s %s %s", clist(ms), clist(nd), clist(ss)), Kind: "sites", Nontrivial: true, Key: "sites",
		Human: map[string]interface{}{"map_range_sites": mapSites, "nondeterminism_sources": nondet, "in_memory_state": state, "packages": len(pkgs)}})
}
