package harness

// C01 — whole-history replay: the same generated history (all Layer messages, Begin/EndBlockers, on the full
// application built from fixed keys) is executed twice in one process, on two fresh application instances.
// Go re-randomises map iteration on every range and the scheduler differs between the runs; the observable
// projections after every operation, a digest of every module store and a digest of all emitted events must
// be identical.

import (
	"crypto/sha256"
	"encoding/hex"
	"fmt"
	"sort"
	"testing"

	storetypes "cosmossdk.io/store/types"
)

var c01StoreNames = []string{"acc", "bank", "staking", "slashing", "distribution", "gov", "params", "oracle", "dispute", "reporter", "bridge", "registry", "mint", "globalfee"}

func (w *World) c01StoreDigest() (string, int) {
	h := sha256.New()
	n := 0
	for _, name := range c01StoreNames {
		key := w.s.App.UnsafeFindStoreKey(name)
		if key == nil {
			continue
		}
		func() {
			defer func() { _ = recover() }()
			st := w.ctx.KVStore(key.(*storetypes.KVStoreKey))
			it := st.Iterator(nil, nil)
			defer it.Close()
			for ; it.Valid(); it.Next() {
				h.Write([]byte(name))
				h.Write(it.Key())
				h.Write([]byte{0})
				h.Write(it.Value())
				n++
			}
		}()
	}
	return hex.EncodeToString(h.Sum(nil)), n
}

func c01RunOnce(t *testing.T, hs int64, blocks int, mode int) (string, string, int, string, int, string) {
	var term, halted string
	switch mode {
	case 0:
		term, _, halted = runHistory(t, hs, blocks)
	case 1:
		term, _, halted = runPayoutHistory(t, hs, blocks/3, false)
	default:
		term, _, halted = runDisputeHistory(t, hs)
	}
	w := lastWorld
	store, n := w.c01StoreDigest()
	evh := sha256.New()
	nev := 0
	for _, e := range w.events {
		evh.Write([]byte(e))
		evh.Write([]byte{10})
		nev++
	}
	return term, store, n, hex.EncodeToString(evh.Sum(nil)), nev, halted
}

func TestC01Replay(t *testing.T) {
	out := newOut(t, "c01_replay")
	defer out.Close()
	worldDeterministic = true
	recordEvents = true
	defer func() { worldDeterministic = false; recordEvents = false }()
	n := count(18, 600)
	base := seed()*5_000_011 + 7
	for i := 0; i < n; i++ {
		hs := base + int64(i)
		mode := i % 3
		t1, s1, n1, e1, ne1, h1 := c01RunOnce(t, hs, 20, mode)
		t2, s2, n2, e2, ne2, h2 := c01RunOnce(t, hs, 20, mode)
		firstDiff := ""
		if t1 != t2 {
			k := 0
			for k < len(t1) && k < len(t2) && t1[k] == t2[k] {
				k++
			}
			lo := k - 60
			if lo < 0 {
				lo = 0
			}
			hi := k + 60
			if hi > len(t1) {
				hi = len(t1)
			}
			firstDiff = t1[lo:hi]
		}
		_ = sort.Strings
		out.Emit(Case{Coq: fmt.Sprintf("HistReplayCase %d %s %s %s %s %d %d", hs, cbool(t1 == t2), cbool(s1 == s2 && n1 == n2), cbool(e1 == e2 && ne1 == ne2), cbool(h1 == h2), n1, ne1),
			Kind: fmt.Sprintf("replay/mode=%d", mode), Nontrivial: n1 > 100 && ne1 > 20, Key: fmt.Sprint(hs),
			Human: map[string]interface{}{"history_seed": hs, "mode": mode, "store_entries": n1, "events": ne1, "halted": h1, "first_difference": firstDiff,
				"store_digests": []string{s1, s2}, "event_digests": []string{e1, e2}}})
	}
}
