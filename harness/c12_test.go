package harness

// C12 — drivers for the dispute tally (x/dispute/keeper/tally.go), the vote bookkeeping
// (msg_server_vote.go, vote.go) and Ratio.  The real dispute keeper of keepertest.DisputeKeeper
// runs on a MemDB store; the neighbouring keepers are the repo's testify mocks, stubbed with
// functions that read the generated scenario.

import (
	"context"
	"errors"
	"fmt"
	"math/big"
	"math/rand"
	"strings"
	"testing"
	"time"

	"github.com/stretchr/testify/mock"
	keepertest "github.com/tellor-io/layer/testutil/keeper"
	dkeeper "github.com/tellor-io/layer/x/dispute/keeper"
	dtypes "github.com/tellor-io/layer/x/dispute/types"
	rtypes "github.com/tellor-io/layer/x/reporter/types"

	"cosmossdk.io/collections"
	"cosmossdk.io/math"

	sdk "github.com/cosmos/cosmos-sdk/types"
)

var (
	c12MaxU64 = new(big.Int).SetUint64(^uint64(0))
	c12Day    = int64(24 * time.Hour)
)

type c12in struct {
	prev          int // Votes[id].VoteResult before the call
	team          int // -1 no team vote, else VoteEnum (0 invalid, 1 support, 2 against)
	users         [3]uint64
	reps          [3]uint64
	holders       [3]uint64
	countsPresent bool
	tips, power   *big.Int
	supply        *big.Int
	now           int64
	vend, dend    int64
	extraVoters   int // Voter records besides the team's
	status        dtypes.DisputeStatus
	open, pending bool
}

func c12choice(e int) string {
	switch e {
	case 1:
		return "(Some Support)"
	case 2:
		return "(Some Against)"
	case 0:
		return "(Some Invalid)"
	}
	return "None"
}

func c12counts(c [3]uint64) string {
	return "(C3 " + czu(c[0]) + " " + czu(c[1]) + " " + czu(c[2]) + ")"
}

func c12status(s dtypes.DisputeStatus) string {
	switch s {
	case dtypes.Prevote:
		return "Prevote"
	case dtypes.Voting:
		return "Voting"
	case dtypes.Resolved:
		return "Resolved"
	case dtypes.Unresolved:
		return "Unresolved"
	case dtypes.Failed:
		return "Failed"
	}
	panic("status")
}

func (in c12in) voters() int {
	n := in.extraVoters
	if in.team >= 0 {
		n++
	}
	return n
}

func (in c12in) coq() string {
	return fmt.Sprintf("(TI %d %s %s %s %s %s %s %s %s %s %s %d %s %s %s)", in.prev, c12choice(in.team),
		c12counts(in.users), c12counts(in.reps), c12counts(in.holders), cz(in.tips), cz(in.power), cz(in.supply),
		czi(in.now), czi(in.vend), czi(in.dend), in.voters(), c12status(in.status), cbool(in.open), cbool(in.pending))
}

func c12errName(err error) string {
	switch {
	case err == nil:
		return "TOk"
	case strings.EqualFold(err.Error(), dtypes.ErrNoQuorumStillVoting.Error()):
		return "TStillVoting"
	case err.Error() == "no majority":
		return "TNoMajority"
	case err.Error() == "vote already tallied":
		return "TAlreadyTallied"
	}
	return ""
}

func c12sum(c [3]uint64) *big.Int {
	s := new(big.Int).SetUint64(c[0])
	s.Add(s, new(big.Int).SetUint64(c[1]))
	return s.Add(s, new(big.Int).SetUint64(c[2]))
}

// clamp to uint64
func c12u(v *big.Int) uint64 {
	if v.Sign() < 0 {
		return 0
	}
	if v.Cmp(c12MaxU64) > 0 {
		return ^uint64(0)
	}
	return v.Uint64()
}

type c12env struct {
	t      *testing.T
	k      dkeeper.Keeper
	ctx    sdk.Context
	supply math.Int
	team   sdk.AccAddress
	extras []sdk.AccAddress
}

func newC12env(t *testing.T) *c12env {
	k, _, _, _, bk, ctx := keepertest.DisputeKeeper(t)
	e := &c12env{t: t, k: k, ctx: ctx, supply: math.ZeroInt()}
	bk.On("GetSupply", mock.Anything, "loya").Return(func(context.Context, string) sdk.Coin {
		return sdk.Coin{Denom: "loya", Amount: e.supply}
	})
	team, err := k.GetTeamAddress(ctx)
	if err != nil {
		t.Fatal(err)
	}
	e.team = team
	for i := 0; i < 8; i++ {
		a := make([]byte, 20)
		a[0] = 0xA0
		a[19] = byte(i + 1)
		e.extras = append(e.extras, sdk.AccAddress(a))
	}
	return e
}

// run the real TallyVote on the scenario (in a discarded cache context) and emit the case
func (e *c12env) tally(out *Out, in c12in, tags ...string) {
	t := e.t
	must := func(err error) {
		if err != nil {
			t.Fatal(err)
		}
	}
	ctx, _ := e.ctx.CacheContext()
	ctx = ctx.WithBlockTime(time.Unix(0, in.now).UTC())
	id := uint64(1)
	hash := []byte("hash-c12")
	must(e.k.Votes.Set(ctx, id, dtypes.Vote{Id: id, VoteStart: time.Unix(0, in.vend-2*c12Day).UTC(),
		VoteEnd: time.Unix(0, in.vend).UTC(), VoteResult: dtypes.VoteResult(in.prev)}))
	must(e.k.Disputes.Set(ctx, id, dtypes.Dispute{HashId: hash, DisputeId: id, DisputeStatus: in.status,
		Open: in.open, PendingExecution: in.pending, DisputeEndTime: time.Unix(0, in.dend).UTC(), DisputeRound: 1}))
	must(e.k.BlockInfo.Set(ctx, hash, dtypes.BlockInfo{TotalReporterPower: math.NewIntFromBigInt(in.power),
		TotalUserTips: math.NewIntFromBigInt(in.tips)}))
	if in.countsPresent {
		teamCounts := dtypes.VoteCounts{}
		switch in.team {
		case 1:
			teamCounts.Support = 1
		case 2:
			teamCounts.Against = 1
		case 0:
			teamCounts.Invalid = 1
		}
		must(e.k.VoteCountsByGroup.Set(ctx, id, dtypes.StakeholderVoteCounts{
			Users:        dtypes.VoteCounts{Support: in.users[0], Against: in.users[1], Invalid: in.users[2]},
			Reporters:    dtypes.VoteCounts{Support: in.reps[0], Against: in.reps[1], Invalid: in.reps[2]},
			Tokenholders: dtypes.VoteCounts{Support: in.holders[0], Against: in.holders[1], Invalid: in.holders[2]},
			Team:         teamCounts,
		}))
	}
	if in.team >= 0 {
		must(e.k.Voter.Set(ctx, collections.Join(id, e.team.Bytes()), dtypes.Voter{Vote: dtypes.VoteEnum(in.team),
			VoterPower: math.NewInt(25000000), ReporterPower: math.ZeroInt(), TokenholderPower: math.ZeroInt()}))
	}
	for i := 0; i < in.extraVoters; i++ {
		must(e.k.Voter.Set(ctx, collections.Join(id, e.extras[i].Bytes()), dtypes.Voter{Vote: dtypes.VoteEnum_VOTE_SUPPORT,
			VoterPower: math.OneInt(), ReporterPower: math.ZeroInt(), TokenholderPower: math.ZeroInt()}))
	}
	e.supply = math.NewIntFromBigInt(in.supply)

	err := e.k.TallyVote(ctx, id)
	en := c12errName(err)
	if en == "" {
		t.Fatalf("unexpected TallyVote error %v on %s", err, in.coq())
	}
	v, gerr := e.k.Votes.Get(ctx, id)
	must(gerr)
	d, gerr := e.k.Disputes.Get(ctx, id)
	must(gerr)
	impl := fmt.Sprintf("(TO %s %d %s %s %s %s)", en, int(v.VoteResult), czi(v.VoteEnd.UnixNano()),
		c12status(d.DisputeStatus), cbool(d.Open), cbool(d.PendingExecution))

	groups, choices := 0, [3]bool{}
	if in.team >= 0 {
		groups++
		choices[(in.team+2)%3] = true // support->0, against->1, invalid->2
	}
	for _, g := range [][3]uint64{in.users, in.reps, in.holders} {
		if c12sum(g).Sign() > 0 {
			groups++
		}
		for j := 0; j < 3; j++ {
			if g[j] > 0 {
				choices[j] = true
			}
		}
	}
	nch := 0
	for _, b := range choices {
		if b {
			nch++
		}
	}
	over := c12sum(in.users).Cmp(in.tips) > 0 || c12sum(in.reps).Cmp(in.power) > 0 || c12sum(in.holders).Cmp(in.supply) > 0
	kind := fmt.Sprintf("%s/result%d", en[1:], int(v.VoteResult))
	if in.prev != 0 {
		kind = "already-tallied"
	}
	if over {
		tags = append(tags, "cast>total")
	}
	out.Emit(Case{
		Coq:        "TallyCase " + in.coq() + " " + impl,
		Kind:       kind,
		Nontrivial: in.prev == 0 && groups >= 2 && nch >= 2,
		Key:        in.coq(),
		Tags:       tags,
		Human: map[string]interface{}{"team": c12choice(in.team), "users": in.users, "reporters": in.reps, "tokenholders": in.holders,
			"total_tips": in.tips.String(), "total_reporter_power": in.power.String(), "supply": in.supply.String(),
			"now_minus_vote_end_ns": in.now - in.vend, "now_minus_dispute_end_ns": in.now - in.dend, "voters": in.voters(),
			"error": fmt.Sprint(err), "vote_result": v.VoteResult.String(), "status": d.DisputeStatus.String()},
	})
}

// ---- generators ------------------------------------------------------------------------
func c12total(r *rand.Rand) *big.Int {
	switch r.Intn(12) {
	case 0:
		return bi(0)
	case 1:
		return bi(int64(pick(r, 1, 2, 3, 4, 7, 25, 100)))
	case 2:
		return bmul(bi(int64(1+r.Intn(1000))), pow10(6))
	case 3:
		return badd(pow2(63), bi(int64(pick(r, -1, 0, 1))))
	case 4:
		return bsub(pow2(64), bi(int64(pick(r, 1, 2))))
	case 5:
		return badd(bmul(bi(2), pow10(16)), bi(int64(pick(r, -1, 0, 1, 1000))))
	case 6:
		return badd(bigRand(r, pow2(70)), bi(1))
	default:
		return badd(bigRand(r, pow10(pick(r, 3, 6, 9, 12, 15))), bi(1))
	}
}

// split cast into (s,a,i) by a template
func c12split(r *rand.Rand, cast *big.Int) [3]uint64 {
	c := new(big.Int).Set(cast)
	half := bquo(c, bi(2))
	third := bquo(c, bi(3))
	var p [3]*big.Int
	switch r.Intn(12) {
	case 0:
		p = [3]*big.Int{c, bi(0), bi(0)}
	case 1:
		p = [3]*big.Int{bi(0), c, bi(0)}
	case 2:
		p = [3]*big.Int{bi(0), bi(0), c}
	case 3:
		p = [3]*big.Int{half, bsub(c, half), bi(0)}
	case 4:
		p = [3]*big.Int{half, bi(0), bsub(c, half)}
	case 5:
		p = [3]*big.Int{bi(0), half, bsub(c, half)}
	case 6:
		p = [3]*big.Int{third, third, bsub(c, bmul(third, bi(2)))}
	case 7: // one unit off an even split
		if half.Sign() > 0 {
			p = [3]*big.Int{badd(half, bi(1)), bsub(bsub(c, half), bi(1)), bi(0)}
		} else {
			p = [3]*big.Int{c, bi(0), bi(0)}
		}
	case 8:
		if c.Sign() > 0 {
			p = [3]*big.Int{bi(1), bsub(c, bi(1)), bi(0)}
		} else {
			p = [3]*big.Int{bi(0), bi(0), bi(0)}
		}
	default:
		a := bigRand(r, badd(c, bi(1)))
		b := bigRand(r, badd(bsub(c, a), bi(1)))
		p = [3]*big.Int{a, b, bsub(bsub(c, a), b)}
	}
	if r.Intn(2) == 0 {
		j, k := r.Intn(3), r.Intn(3)
		p[j], p[k] = p[k], p[j]
	}
	return [3]uint64{c12u(p[0]), c12u(p[1]), c12u(p[2])}
}

// smallest cast with floor(25e6*cast/total) >= want
func c12castFor(total *big.Int, want int64) *big.Int {
	if total.Sign() == 0 || want <= 0 {
		return bi(0)
	}
	n := bmul(bi(want), total)
	q, m := new(big.Int).QuoRem(n, bi(25000000), new(big.Int))
	if m.Sign() != 0 {
		q = badd(q, bi(1))
	}
	return q
}

func c12floorRatio(total, cast *big.Int) int64 {
	if total.Sign() == 0 {
		return 0
	}
	return bquo(bmul(bi(25000000), cast), total).Int64()
}

func c12times(r *rand.Rand, in *c12in) {
	start := int64(1_700_000_000_000_000_000) + r.Int63n(1_000_000_000_000)
	in.vend = start + 2*c12Day
	in.dend = start + 3*c12Day
	switch r.Intn(10) {
	case 0, 1:
		in.now = in.vend + int64(pick(r, -1, 0, 1))
	case 2:
		in.now = in.dend + int64(pick(r, -1, 0, 1))
	case 3:
		in.now = start + r.Int63n(2*c12Day)
	case 4, 5:
		in.now = in.vend + 1 + r.Int63n(c12Day-1)
	case 6:
		in.now = in.dend + 1 + r.Int63n(c12Day)
	default:
		in.now = start + r.Int63n(4*c12Day)
	}
	if r.Intn(25) == 0 { // later round: dispute end before the vote end cannot happen, but equal ends can be probed
		in.dend = in.vend
	}
}

func c12fixVoters(r *rand.Rand, in *c12in) {
	any := in.team >= 0 || c12sum(in.users).Sign() > 0 || c12sum(in.reps).Sign() > 0 || c12sum(in.holders).Sign() > 0
	if any {
		in.extraVoters = 1 + r.Intn(3)
		if in.team >= 0 && r.Intn(2) == 0 {
			in.extraVoters = 0
			if c12sum(in.users).Sign() > 0 || c12sum(in.reps).Sign() > 0 || c12sum(in.holders).Sign() > 0 {
				in.extraVoters = 1
			}
		}
	} else {
		in.extraVoters = 0
		if r.Intn(4) == 0 {
			in.extraVoters = 1 // a voter whose weight was moved away: all counters zero
		}
	}
}

func TestC12Tally(t *testing.T) {
	out := newOut(t, "c12_tally")
	defer out.Close()
	r := rand.New(rand.NewSource(seed()))
	e := newC12env(t)
	base := c12in{prev: 0, team: -1, countsPresent: true, tips: bi(0), power: bi(0), supply: bi(0),
		status: dtypes.Voting, open: true}
	start := int64(1_700_000_000_000_000_000)
	mk := func(f func(in *c12in)) c12in {
		in := base
		in.vend, in.dend = start+2*c12Day, start+3*c12Day
		in.now = start + c12Day
		f(&in)
		return in
	}
	M := uint64(1000000)

	// ---- corpus -------------------------------------------------------------------------
	// F03: two reporters of equal stake vote support / against; the vote period ends (+49 h)
	e.tally(out, mk(func(in *c12in) {
		in.reps = [3]uint64{5 * M, 5 * M, 0}
		in.power, in.supply = bi(10_000_000), bi(100_000_000)
		in.extraVoters, in.now = 2, start+49*int64(time.Hour)
	}), "corpus:F03")
	// F03 under quorum: team support, all users against, 4 % of reporters invalid... three-way tie
	e.tally(out, mk(func(in *c12in) {
		in.team, in.users, in.reps = 1, [3]uint64{0, 100, 0}, [3]uint64{0, 0, 100}
		in.tips, in.power, in.supply = bi(100), bi(100), bi(1000)
		in.extraVoters = 2
	}), "corpus:F03")
	// F24: team S, users A (100 %), reporters A (4 %), token holders S (100 %): AGAINST, groups split 2:2
	e.tally(out, mk(func(in *c12in) {
		in.team, in.users, in.reps, in.holders = 1, [3]uint64{0, 100, 0}, [3]uint64{0, 4, 0}, [3]uint64{1000, 0, 0}
		in.tips, in.power, in.supply = bi(100), bi(100), bi(1000)
		in.extraVoters = 3
	}), "corpus:F24")
	// F24: team S, users A, reporters 60 % A / 40 % S, token holders S: four groups give S 2.4 : A 1.6
	e.tally(out, mk(func(in *c12in) {
		in.team, in.users, in.reps, in.holders = 1, [3]uint64{0, 100, 0}, [3]uint64{40, 60, 0}, [3]uint64{1000, 0, 0}
		in.tips, in.power, in.supply = bi(100), bi(100), bi(1000)
		in.extraVoters = 3
	}), "corpus:F24")
	// F24 + F03: team S, users A, reporters I, token holders S
	e.tally(out, mk(func(in *c12in) {
		in.team, in.users, in.reps, in.holders = 1, [3]uint64{0, 100, 0}, [3]uint64{0, 0, 100}, [3]uint64{1000, 0, 0}
		in.tips, in.power, in.supply = bi(100), bi(100), bi(1000)
		in.extraVoters = 3
	}), "corpus:F24", "corpus:F03")
	// the repo's unit-test scenarios (tally_test.go)
	e.tally(out, mk(func(in *c12in) { in.team = 1; in.tips, in.power, in.supply = bi(50*1e6), bi(50*1e6), bi(250*1e6) }), "corpus")
	e.tally(out, mk(func(in *c12in) {
		in.team, in.users = 1, [3]uint64{50 * M, 0, 0}
		in.tips, in.power, in.supply = bi(50*1e6), bi(50*1e6), bi(250*1e6)
		in.extraVoters = 1
	}), "corpus")
	e.tally(out, mk(func(in *c12in) {
		in.team, in.users, in.reps = 1, [3]uint64{50 * M, 0, 0}, [3]uint64{50 * M, 0, 0}
		in.tips, in.power, in.supply = bi(50*1e6), bi(50*1e6), bi(250*1e6)
		in.extraVoters = 2
	}), "corpus")
	e.tally(out, mk(func(in *c12in) {
		in.team = 0
		in.users, in.reps, in.holders = [3]uint64{22500000, 22500000, 15000000}, [3]uint64{27500000, 22500000, 10000000}, [3]uint64{22500000, 27500000, 10000000}
		in.tips, in.power, in.supply = bi(60*1e6), bi(60*1e6), bi(60*1e6)
		in.extraVoters = 3
	}), "corpus")
	// nobody voted, period over / not over / dispute expired
	e.tally(out, mk(func(in *c12in) { in.now = in.vend + 1; in.supply = bi(1000) }), "corpus")
	e.tally(out, mk(func(in *c12in) { in.now = in.vend; in.supply = bi(1000) }), "corpus")
	e.tally(out, mk(func(in *c12in) { in.now = in.dend + 1; in.countsPresent = false }), "corpus")
	// exactly 51 %: team + all users + 4 % of the reporters; one unit below
	e.tally(out, mk(func(in *c12in) {
		in.team, in.users, in.reps = 2, [3]uint64{100, 0, 0}, [3]uint64{4, 0, 0}
		in.tips, in.power, in.supply = bi(100), bi(100), bi(1000)
		in.extraVoters = 2
	}), "corpus")
	e.tally(out, mk(func(in *c12in) {
		in.team, in.users, in.reps = 2, [3]uint64{100, 0, 0}, [3]uint64{39999, 0, 0}
		in.tips, in.power, in.supply = bi(100), bi(1000000), bi(1000)
		in.extraVoters = 2
	}), "corpus")
	// already tallied
	e.tally(out, mk(func(in *c12in) { in.prev = 3; in.team = 1; in.status = dtypes.Resolved; in.open = false; in.pending = true }), "corpus")

	n := count(3200, 150000)
	for it := 0; it < n; it++ {
		in := base
		c12times(r, &in)
		in.tips, in.power, in.supply = c12total(r), c12total(r), c12total(r)
		in.team = pick(r, -1, -1, 0, 1, 2)
		tag := ""
		switch mode := r.Intn(10); {
		case mode < 3:
			// grid: every counter from {0, 1, 2, total/2, total}
			tag = "grid"
			tot := [3]*big.Int{in.tips, in.power, in.supply}
			dst := [3]*[3]uint64{&in.users, &in.reps, &in.holders}
			for g := 0; g < 3; g++ {
				for j := 0; j < 3; j++ {
					var v *big.Int
					switch r.Intn(6) {
					case 0, 1:
						v = bi(0)
					case 2:
						v = bi(1)
					case 3:
						v = bi(2)
					case 4:
						v = bquo(tot[g], bi(2))
					default:
						v = new(big.Int).Set(tot[g])
					}
					dst[g][j] = c12u(v)
				}
			}
		case mode < 7:
			// participation placed at the 51 % boundary of the first or the second check
			tag = "quorum-boundary"
			withHolders := r.Intn(2) == 0
			if in.tips.Sign() == 0 && r.Intn(2) == 0 {
				in.tips = bi(100)
			}
			if in.power.Sign() == 0 {
				in.power = bi(int64(1 + r.Intn(1000000)))
			}
			if in.supply.Sign() == 0 {
				in.supply = bi(int64(1 + r.Intn(1000000)))
			}
			if in.team < 0 && r.Intn(3) != 0 {
				in.team = r.Intn(3)
			}
			acc := int64(0)
			if in.team >= 0 {
				acc = 25000000
			}
			ucast := bquo(bmul(in.tips, bi(int64(pick(r, 0, 1, 2, 2, 3, 4, 4)))), bi(4))
			acc += c12floorRatio(in.tips, ucast)
			target := 51000000 + int64(pick(r, -2, -1, 0, 0, 1))
			var rcast, hcast *big.Int
			if withHolders {
				rcast = bquo(bmul(in.power, bi(int64(pick(r, 0, 1, 2, 3)))), bi(4))
				acc += c12floorRatio(in.power, rcast)
				hcast = c12castFor(in.supply, target-acc)
			} else {
				rcast = c12castFor(in.power, target-acc)
				hcast = bquo(bmul(in.supply, bi(int64(pick(r, 0, 0, 1, 4)))), bi(4))
			}
			in.users, in.reps, in.holders = c12split(r, ucast), c12split(r, rcast), c12split(r, hcast)
		case mode < 9:
			// ties and near ties between groups
			tag = "tie"
			casts := [3]*big.Int{}
			for g, tot := range []*big.Int{in.tips, in.power, in.supply} {
				switch r.Intn(5) {
				case 0:
					casts[g] = bi(0)
				case 1:
					casts[g] = bi(int64(pick(r, 1, 2, 3, 4, 6, 12)))
				case 2:
					casts[g] = new(big.Int).Set(tot)
				case 3:
					casts[g] = bquo(tot, bi(int64(pick(r, 2, 3, 10, 25))))
				default:
					casts[g] = bigRand(r, badd(tot, bi(1)))
				}
			}
			in.users, in.reps, in.holders = c12split(r, casts[0]), c12split(r, casts[1]), c12split(r, casts[2])
		default:
			tag = "random"
			in.users = c12split(r, bigRand(r, badd(in.tips, bi(2))))
			in.reps = c12split(r, bigRand(r, badd(in.power, bi(2))))
			in.holders = c12split(r, bigRand(r, badd(in.supply, bi(2))))
			if r.Intn(6) == 0 { // counters near the top of uint64
				in.reps = [3]uint64{^uint64(0) - uint64(r.Intn(3)), uint64(r.Intn(3)), ^uint64(0)}
			}
		}
		c12fixVoters(r, &in)
		if r.Intn(40) == 0 {
			in.prev = 1 + r.Intn(6)
		}
		if r.Intn(30) == 0 {
			in.open = false
		}
		if r.Intn(50) == 0 && in.voters() > 0 {
			in.extraVoters = 0 // inconsistent on purpose: counters without voter records (model comparison only)
			in.team = -1
		}
		if in.team < 0 && c12sum(in.users).Sign() == 0 && c12sum(in.reps).Sign() == 0 && c12sum(in.holders).Sign() == 0 && r.Intn(2) == 0 {
			in.countsPresent = false
		}
		e.tally(out, in, tag)
	}
}

func TestC12Ratio(t *testing.T) {
	out := newOut(t, "c12_ratio")
	defer out.Close()
	r := rand.New(rand.NewSource(seed() + 3))
	emit := func(total, part *big.Int, tags ...string) {
		got := dkeeper.Ratio(math.NewIntFromBigInt(total), math.NewIntFromBigInt(part))
		kind := "total<2e16"
		if total.Sign() == 0 {
			kind = "total=0"
		} else if total.Cmp(bmul(bi(2), pow10(16))) >= 0 {
			kind = "total>=2e16"
		}
		out.Emit(Case{
			Coq:        fmt.Sprintf("RatioCase %s %s %s", cz(total), cz(part), cz(got.BigInt())),
			Kind:       kind,
			Nontrivial: total.Sign() > 0 && part.Sign() > 0,
			Key:        total.String() + "|" + part.String(),
			Tags:       tags,
			Human:      map[string]interface{}{"total": total.String(), "part": part.String(), "ratio": got.String()},
		})
	}
	for _, c := range [][2]int64{{25, 10}, {25, 25}, {25, 0}, {0, 25}, {1000000, 1000000}, {100000000000000, 100000000000000}, {3, 1}, {3, 2}, {7, 3}} {
		emit(bi(c[0]), bi(c[1]), "corpus")
	}
	n := count(900, 40000)
	for i := 0; i < n; i++ {
		total := c12total(r)
		var part *big.Int
		switch r.Intn(8) {
		case 0:
			part = bi(int64(pick(r, 0, 1, 2)))
		case 1:
			part = badd(total, bi(int64(pick(r, -1, 0, 1))))
		case 2:
			part = bquo(total, bi(int64(pick(r, 2, 3, 4, 25))))
		case 3, 4:
			// around the point where the ratio reaches a whole number of units
			part = badd(c12castFor(total, int64(pick(r, 1, 1000000, 25000000, 12345678, 999999))), bi(int64(pick(r, -1, 0, 1))))
		case 5:
			part = bigRand(r, badd(bmul(total, bi(2)), bi(1)))
		default:
			part = bigRand(r, badd(total, bi(1)))
		}
		if part.Sign() < 0 {
			part = bi(0)
		}
		emit(total, part)
	}
}

// ---- vote histories: the real msgServer.Vote on sequences of votes -------------------------
type c12acct struct {
	tips      *big.Int
	sel       int // -1 none, else id of the selected reporter
	repTokens *big.Int
	selTokens *big.Int
}

type c12op struct {
	now    int64
	who    int
	choice int // VoteEnum
	bal    *big.Int
}

type c12hist struct {
	accts               []c12acct // id = index; id 0 is the team
	tips, power, supply *big.Int
	vend, dend          int64
	ops                 []c12op
}

func c12choiceName(e int) string {
	switch e {
	case 1:
		return "Support"
	case 2:
		return "Against"
	}
	return "Invalid"
}

func (h c12hist) envCoq() string {
	as := make([]string, len(h.accts))
	for i, a := range h.accts {
		as[i] = fmt.Sprintf("(%d, AC %s %s %s %s)", i, cz(a.tips), copt(a.sel >= 0, fmt.Sprint(a.sel)), cz(a.repTokens), cz(a.selTokens))
	}
	return fmt.Sprintf("(RE 0 %s %s %s %s %s)", clist(as), cz(h.tips), cz(h.power), cz(h.supply), czi(h.dend))
}

func (h c12hist) opsCoq() string {
	os := make([]string, len(h.ops))
	for i, o := range h.ops {
		os[i] = fmt.Sprintf("VO %s %d %s %s", czi(o.now), o.who, c12choiceName(o.choice), cz(o.bal))
	}
	return clist(os)
}

type c12voteEnv struct {
	t       *testing.T
	k       dkeeper.Keeper
	ctx     sdk.Context
	addrs   []sdk.AccAddress
	cur     *c12hist
	bal     *big.Int
	blockOK bool
}

const c12Block = uint64(77)

func (e *c12voteEnv) id(addr []byte) int {
	for i, a := range e.addrs {
		if string(a) == string(addr) {
			return i
		}
	}
	e.t.Fatalf("unknown address %x", addr)
	return -1
}

func newC12voteEnv(t *testing.T) *c12voteEnv {
	k, ok, rk, _, bk, ctx := keepertest.DisputeKeeper(t)
	e := &c12voteEnv{t: t, k: k, ctx: ctx}
	team, err := k.GetTeamAddress(ctx)
	if err != nil {
		t.Fatal(err)
	}
	e.addrs = append(e.addrs, team)
	for i := 1; i < 10; i++ {
		a := make([]byte, 20)
		a[0] = 0xB0
		a[19] = byte(i)
		e.addrs = append(e.addrs, sdk.AccAddress(a))
	}
	bk.On("GetSupply", mock.Anything, "loya").Return(func(context.Context, string) sdk.Coin {
		return sdk.Coin{Denom: "loya", Amount: math.NewIntFromBigInt(e.cur.supply)}
	})
	bk.On("GetBalance", mock.Anything, mock.Anything, "loya").Return(func(_ context.Context, a sdk.AccAddress, _ string) sdk.Coin {
		e.id(a)
		return sdk.Coin{Denom: "loya", Amount: math.NewIntFromBigInt(e.bal)}
	})
	ok.On("GetTipsAtBlockForTipper", mock.Anything, mock.Anything, mock.Anything).Return(
		func(_ context.Context, block uint64, a sdk.AccAddress) (math.Int, error) {
			if block != c12Block {
				e.blockOK = false
			}
			tips := e.cur.accts[e.id(a)].tips
			if tips.Sign() == 0 && len(e.cur.ops)%2 == 0 {
				return math.Int{}, collections.ErrNotFound
			}
			return math.NewIntFromBigInt(tips), nil
		})
	rk.On("Delegation", mock.Anything, mock.Anything).Return(
		func(_ context.Context, a sdk.AccAddress) (rtypes.Selection, error) {
			s := e.cur.accts[e.id(a)].sel
			if s < 0 {
				return rtypes.Selection{}, collections.ErrNotFound
			}
			return rtypes.Selection{Reporter: e.addrs[s]}, nil
		})
	rk.On("GetReporterTokensAtBlock", mock.Anything, mock.Anything, mock.Anything).Return(
		func(_ context.Context, a []byte, block uint64) (math.Int, error) {
			if block != c12Block {
				e.blockOK = false
			}
			return math.NewIntFromBigInt(e.cur.accts[e.id(a)].repTokens), nil
		})
	rk.On("GetDelegatorTokensAtBlock", mock.Anything, mock.Anything, mock.Anything).Return(
		func(_ context.Context, a []byte, block uint64) (math.Int, error) {
			if block != c12Block {
				e.blockOK = false
			}
			ac := e.cur.accts[e.id(a)]
			if ac.sel < 0 {
				return math.Int{}, collections.ErrNotFound
			}
			return math.NewIntFromBigInt(ac.selTokens), nil
		})
	return e
}

func c12voteRes(err error, panicked bool) string {
	switch {
	case panicked:
		return "VPanic"
	case err == nil:
		return "VAccepted"
	case errors.Is(err, dtypes.ErrDisputeNotInVotingState):
		return "VNotVoting"
	case errors.Is(err, dtypes.ErrVoterHasAlreadyVoted):
		return "VAlreadyVoted"
	case errors.Is(err, dtypes.ErrVotingPeriodEnded):
		return "VPeriodEnded"
	case err.Error() == "voter power is zero":
		return "VZeroPower"
	case err.Error() == "no majority" || err.Error() == "vote already tallied":
		return "VTallyError"
	}
	return ""
}

func (e *c12voteEnv) run(out *Out, h c12hist, tags ...string) {
	t := e.t
	must := func(err error) {
		if err != nil {
			t.Fatal(err)
		}
	}
	e.cur = &h
	e.blockOK = true
	ctx, _ := e.ctx.CacheContext()
	id := uint64(1)
	hash := []byte("hash-c12v")
	must(e.k.Votes.Set(ctx, id, dtypes.Vote{Id: id, VoteStart: time.Unix(0, h.vend-2*c12Day).UTC(), VoteEnd: time.Unix(0, h.vend).UTC()}))
	must(e.k.Disputes.Set(ctx, id, dtypes.Dispute{HashId: hash, DisputeId: id, DisputeStatus: dtypes.Voting, Open: true,
		DisputeEndTime: time.Unix(0, h.dend).UTC(), DisputeRound: 1, BlockNumber: c12Block}))
	must(e.k.BlockInfo.Set(ctx, hash, dtypes.BlockInfo{TotalReporterPower: math.NewIntFromBigInt(h.power), TotalUserTips: math.NewIntFromBigInt(h.tips)}))
	srv := dkeeper.NewMsgServerImpl(e.k)
	results := make([]string, len(h.ops))
	nAcc := 0
	for i, o := range h.ops {
		e.bal = o.bal
		tx, write := ctx.CacheContext()
		tx = tx.WithBlockTime(time.Unix(0, o.now).UTC())
		var err error
		panicked := false
		func() {
			defer func() {
				if r := recover(); r != nil {
					panicked = true
				}
			}()
			_, err = srv.Vote(tx, &dtypes.MsgVote{Voter: e.addrs[o.who].String(), Id: id, Vote: dtypes.VoteEnum(o.choice)})
		}()
		results[i] = c12voteRes(err, panicked)
		if results[i] == "" {
			t.Fatalf("unexpected Vote error %v", err)
		}
		if err == nil && !panicked {
			write()
			nAcc++
		}
	}
	// final records
	vc, err := e.k.VoteCountsByGroup.Get(ctx, id)
	if err != nil {
		vc = dtypes.StakeholderVoteCounts{}
	}
	cnt := func(c dtypes.VoteCounts) string { return c12counts([3]uint64{c.Support, c.Against, c.Invalid}) }
	var voters, before []string
	for i, a := range e.addrs {
		if v, err := e.k.Voter.Get(ctx, collections.Join(id, a.Bytes())); err == nil {
			voters = append(voters, fmt.Sprintf("(%d, VR %s %s %s %s)", i, c12choiceName(int(v.Vote)), cz(v.VoterPower.BigInt()),
				cz(v.ReporterPower.BigInt()), cz(v.TokenholderPower.BigInt())))
		}
		if b, err := e.k.ReportersWithDelegatorsVotedBefore.Get(ctx, collections.Join(a.Bytes(), id)); err == nil {
			before = append(before, fmt.Sprintf("(%d, %s)", i, cz(b.BigInt())))
		}
	}
	all, err := e.k.GetVoters(ctx, id)
	must(err)
	if len(all) != len(voters) {
		t.Fatalf("voter records of unknown addresses: %d vs %d", len(all), len(voters))
	}
	v, err := e.k.Votes.Get(ctx, id)
	must(err)
	d, err := e.k.Disputes.Get(ctx, id)
	must(err)
	impl := fmt.Sprintf("(RS %s %s %s %s %s %s %d %s %s %s %s)", cnt(vc.Team), cnt(vc.Users), cnt(vc.Reporters), cnt(vc.Tokenholders),
		clist(voters), clist(before), int(v.VoteResult), czi(v.VoteEnd.UnixNano()), c12status(d.DisputeStatus), cbool(d.Open), cbool(d.PendingExecution))
	kinds := map[string]int{}
	for _, r := range results {
		kinds[r]++
	}
	kind := fmt.Sprintf("accepted=%d/result%d", min(nAcc, 4), int(v.VoteResult))
	for _, r := range []string{"VPanic", "VTallyError"} {
		if kinds[r] > 0 {
			kind += "/" + r[1:]
		}
	}
	out.Emit(Case{
		Coq: fmt.Sprintf("VoteCase %s %s %s %s %s %s", h.envCoq(), czi(h.vend), h.opsCoq(), cbool(e.blockOK),
			clist(results), impl),
		Kind:       kind,
		Nontrivial: nAcc >= 2,
		Key:        h.envCoq() + h.opsCoq(),
		Tags:       tags,
		Human: map[string]interface{}{"ops": h.opsCoq(), "results": results, "reporter_counts": vc.Reporters.String(),
			"vote_result": v.VoteResult.String(), "voters": voters},
	})
}

func TestC12Votes(t *testing.T) {
	out := newOut(t, "c12_votes")
	defer out.Close()
	r := rand.New(rand.NewSource(seed() + 11))
	e := newC12voteEnv(t)
	start := int64(1_700_000_000_000_000_000)
	vend, dend := start+2*c12Day, start+3*c12Day
	z := func() *big.Int { return bi(0) }
	M := int64(1000000)

	// ---- corpus ---------------------------------------------------------------------------
	// reporter 1 (own 60, selector 2 with 40) votes, then its selector: 40 moves from support to against
	h := c12hist{accts: []c12acct{{z(), -1, z(), z()}, {z(), 1, bi(100 * M), bi(60 * M)}, {z(), 1, z(), bi(40 * M)}},
		tips: bi(0), power: bi(1000 * M), supply: bi(100000 * M), vend: vend, dend: dend,
		ops: []c12op{{start + 10, 1, 1, bi(5)}, {start + 20, 2, 2, bi(7)}, {start + 30, 2, 1, bi(7)}}}
	e.run(out, h, "corpus")
	// selector first, then the reporter
	h.ops = []c12op{{start + 10, 2, 2, bi(7)}, {start + 20, 1, 1, bi(5)}, {start + 30, 1, 1, bi(5)}}
	e.run(out, h, "corpus")
	// votes at the vote end -1, 0, +1 ns
	h.ops = []c12op{{vend - 1, 1, 1, bi(5)}, {vend, 2, 2, bi(7)}, {vend + 1, 0, 1, bi(1)}}
	e.run(out, h, "corpus")
	// team, a tipper and a holder reach quorum (team + all tips + all reporter power): later votes are refused
	h = c12hist{accts: []c12acct{{z(), -1, z(), z()}, {bi(50), -1, z(), z()}, {z(), 2, bi(10 * M), bi(10 * M)}, {z(), -1, z(), z()}},
		tips: bi(50), power: bi(10 * M), supply: bi(1000 * M), vend: vend, dend: dend,
		ops: []c12op{{start + 1, 0, 1, bi(0)}, {start + 2, 1, 1, bi(0)}, {start + 3, 2, 2, bi(3)}, {start + 4, 3, 1, bi(9)}}}
	e.run(out, h, "corpus")
	// F03 inside a transaction: team support + all users against + all reporters invalid would reach quorum with a three-way tie
	h = c12hist{accts: []c12acct{{z(), -1, z(), z()}, {bi(50), -1, z(), z()}, {z(), 2, bi(10 * M), bi(10 * M)}},
		tips: bi(50), power: bi(10 * M), supply: bi(1000 * M), vend: vend, dend: dend,
		ops: []c12op{{start + 1, 0, 1, bi(0)}, {start + 2, 1, 2, bi(0)}, {start + 3, 2, 0, bi(0)}, {start + 4, 2, 2, bi(0)}}}
	e.run(out, h, "corpus:F03")
	// zero power
	h.ops = []c12op{{start + 1, 0, 1, bi(0)}, {start + 2, 1, 2, bi(0)}}
	h.accts[1].tips = z()
	e.run(out, h, "corpus")

	n := count(450, 15000)
	for it := 0; it < n; it++ {
		na := 3 + r.Intn(6)
		h := c12hist{accts: make([]c12acct, na), vend: vend, dend: dend}
		scale := pow10(pick(r, 0, 3, 6, 6, 9, 12))
		amount := func() *big.Int {
			switch r.Intn(6) {
			case 0:
				return bi(0)
			case 1:
				return bi(int64(1 + r.Intn(3)))
			default:
				return bmul(bi(int64(1+r.Intn(1000))), scale)
			}
		}
		// roles: reporters select themselves; selectors select a reporter
		var reporters []int
		for i := range h.accts {
			h.accts[i] = c12acct{tips: z(), sel: -1, repTokens: z(), selTokens: z()}
			if r.Intn(3) == 0 {
				h.accts[i].tips = amount()
			}
		}
		for i := range h.accts {
			if r.Intn(3) == 0 || (i == na-1 && len(reporters) == 0) {
				reporters = append(reporters, i)
				h.accts[i].sel = i
				h.accts[i].selTokens = amount()
				h.accts[i].repTokens = new(big.Int).Set(h.accts[i].selTokens)
			}
		}
		for i := range h.accts {
			if h.accts[i].sel < 0 && r.Intn(2) == 0 {
				rep := pick(r, reporters...)
				h.accts[i].sel = rep
				h.accts[i].selTokens = amount()
				h.accts[rep].repTokens = badd(h.accts[rep].repTokens, h.accts[i].selTokens)
			}
		}
		tag := "consistent"
		switch r.Intn(12) {
		case 0: // snapshot mismatch: a reporter's tokens at the block do not cover its selectors
			rep := pick(r, reporters...)
			h.accts[rep].repTokens = bquo(h.accts[rep].repTokens, bi(int64(pick(r, 2, 3, 1000))))
			tag = "mismatch"
		case 1: // amounts at the top of uint64
			i := r.Intn(na)
			h.accts[i].tips = badd(pow2(64), bi(int64(pick(r, -2, -1, 0, 1))))
			tag = "u64-edge"
		}
		sumTips, sumPower, sumAll := bi(0), bi(0), bi(0)
		for i, a := range h.accts {
			sumTips = badd(sumTips, a.tips)
			if a.sel == i {
				sumPower = badd(sumPower, a.repTokens)
			}
			sumAll = badd(sumAll, badd(a.repTokens, a.tips))
		}
		mult := int64(pick(r, 1, 1, 2, 4, 100))
		h.tips, h.power = bmul(sumTips, bi(mult)), bmul(sumPower, bi(mult))
		if r.Intn(8) == 0 {
			h.tips = bi(0)
		}
		maxBal := bmul(bi(1000), scale)
		h.supply = bmul(badd(sumAll, bmul(maxBal, bi(int64(na)))), bi(int64(pick(r, 1, 2, 10))))
		// operations
		nops := 2 + r.Intn(9)
		now := start + r.Int63n(c12Day)
		for j := 0; j < nops; j++ {
			switch r.Intn(8) {
			case 0:
				now = vend + int64(pick(r, -1, 0, 1))
			case 1:
				// same block
			default:
				now += 1 + r.Int63n(c12Day/3)
			}
			o := c12op{now: now, who: r.Intn(na), choice: r.Intn(3), bal: bi(0)}
			if r.Intn(3) != 0 {
				o.bal = bigRand(r, maxBal)
			}
			if j > 0 && r.Intn(6) == 0 {
				o.who = h.ops[r.Intn(j)].who // votes again
			}
			if j > 0 && r.Intn(3) == 0 { // the reporter of an earlier voter, or one of its selectors
				prev := h.ops[r.Intn(j)].who
				if s := h.accts[prev].sel; s >= 0 {
					o.who = s
				}
			}
			h.ops = append(h.ops, o)
		}
		e.run(out, h, tag)
	}
}
