package harness

// C01 — restarted node.  TestC01Replay executes a history twice on two FRESH applications: both executions have the
// same in-memory past, so state that a keeper object carries in memory from one block to the next (a cache refreshed by
// a write that is later rolled back, a memoised parameter, a counter) is the same stale memory in both and stays
// invisible.  Here one history is executed (a) straight through and (b) with the Layer keepers "restarted" at block
// boundaries: NEW keeper objects (registry, reporter, oracle, dispute, bridge, mint, in the construction order of
// app/app.go, through the public NewKeeper constructors, over the SAME store keys of the same multistore, same codec,
// authorities and SDK neighbours), new message servers, new module objects.  A node that kept running and a node that
// was restarted (or state-synced) hold the same stores; the property says they must agree on everything afterwards.
// Compared after every block: a digest of every module store, a digest of the block's events, every operation's result
// (and, at the end, the projection after every operation).
//
// How "nothing that holds a Layer keeper was missed" is known: every rebuilt keeper gets a store service that carries
// the number of the restart (c01StoreService, a wrapper that only delegates OpenKVStore); after every restart a
// reflective walk over everything reachable from the World (the fixture, the runtime.App with its module manager, the
// SDK keepers with their hooks, the message servers; unexported fields included, function values excluded) lists every
// value of a Layer keeper type and fails the driver if one of them is not of the current generation.

import (
	"bytes"
	"crypto/sha256"
	"encoding/hex"
	"fmt"
	"math/rand"
	"os"
	"reflect"
	"sort"
	"strings"
	"testing"
	"unsafe"

	"github.com/tellor-io/layer/x/bridge"
	bridgekeeper "github.com/tellor-io/layer/x/bridge/keeper"
	bridgetypes "github.com/tellor-io/layer/x/bridge/types"
	"github.com/tellor-io/layer/x/dispute"
	disputekeeper "github.com/tellor-io/layer/x/dispute/keeper"
	disputetypes "github.com/tellor-io/layer/x/dispute/types"
	"github.com/tellor-io/layer/x/mint"
	mintkeeper "github.com/tellor-io/layer/x/mint/keeper"
	minttypes "github.com/tellor-io/layer/x/mint/types"
	"github.com/tellor-io/layer/x/oracle"
	oraclekeeper "github.com/tellor-io/layer/x/oracle/keeper"
	oracletypes "github.com/tellor-io/layer/x/oracle/types"
	registrykeeper "github.com/tellor-io/layer/x/registry/keeper"
	registrymodule "github.com/tellor-io/layer/x/registry/module"
	registrytypes "github.com/tellor-io/layer/x/registry/types"
	reporterkeeper "github.com/tellor-io/layer/x/reporter/keeper"
	reportermodule "github.com/tellor-io/layer/x/reporter/module"
	reportertypes "github.com/tellor-io/layer/x/reporter/types"

	"cosmossdk.io/core/appmodule"
	corestore "cosmossdk.io/core/store"
	"cosmossdk.io/log"
	storetypes "cosmossdk.io/store/types"

	"github.com/cosmos/cosmos-sdk/baseapp"
	"github.com/cosmos/cosmos-sdk/codec"
	"github.com/cosmos/cosmos-sdk/runtime"
	sdkmodule "github.com/cosmos/cosmos-sdk/types/module"
)

// ---- the restart ------------------------------------------------------------------------------------------------

// c01StoreService is runtime.NewKVStoreService(key) plus the number of the restart that built the keeper holding it
type c01StoreService struct {
	corestore.KVStoreService
	gen int
}

// an unexported field of a struct, readable
func c01Private(ptrToStruct interface{}, name string) reflect.Value {
	f := reflect.ValueOf(ptrToStruct).Elem().FieldByName(name)
	if !f.IsValid() {
		panic("c01: no field " + name + " in " + reflect.TypeOf(ptrToStruct).String())
	}
	return reflect.NewAt(f.Type(), unsafe.Pointer(f.UnsafeAddr())).Elem()
}

var c01LayerModules = []string{registrytypes.ModuleName, reportertypes.ModuleName, oracletypes.ModuleName, disputetypes.ModuleName, bridgetypes.ModuleName, minttypes.ModuleName}

// restartLayerKeepers replaces every Layer keeper object of the World by a newly constructed one over the same stores.
// Construction as in app/app.go (and as the fixture's ProvideModule functions do): registry, reporter, oracle, dispute,
// bridge (each receives the NEW neighbours), mint; the registry hooks are set (when the running configuration had them)
// after the copies into the reporter and oracle keepers were made, before the module object is built, as in app.go.
func (w *World) restartLayerKeepers(gen int) {
	s := w.s
	svc := func(name string) corestore.KVStoreService {
		key, ok := s.App.UnsafeFindStoreKey(name).(*storetypes.KVStoreKey)
		if !ok || key == nil {
			w.t.Fatalf("c01 restart: no store key %q", name)
		}
		return c01StoreService{KVStoreService: runtime.NewKVStoreService(key), gen: gen}
	}
	// start-up configuration of the node (not state): codec, authorities, whether registry hooks are wired
	cdc, ok := c01Private(&s.Oraclekeeper, "cdc").Interface().(codec.Codec)
	if !ok {
		w.t.Fatal("c01 restart: the keepers' codec is not a codec.Codec")
	}
	registryHooked := !c01Private(&s.Registrykeeper, "hooks").IsNil()
	registryAuth, reporterAuth, oracleAuth := s.Registrykeeper.GetAuthority(), s.Reporterkeeper.GetAuthority(), s.Oraclekeeper.GetAuthority()
	bridgeAuth, mintAuth := s.Bridgekeeper.GetAuthority(), s.Mintkeeper.GetAuthority()

	reg := registrykeeper.NewKeeper(cdc, svc(registrytypes.StoreKey), registryAuth)
	rep := reporterkeeper.NewKeeper(cdc, svc(reportertypes.StoreKey), log.NewNopLogger(), reporterAuth, s.Stakingkeeper, s.Bankkeeper, reg)
	ora := oraclekeeper.NewKeeper(cdc, svc(oracletypes.StoreKey), s.Accountkeeper, s.Bankkeeper, reg, rep, oracleAuth)
	dis := disputekeeper.NewKeeper(cdc, svc(disputetypes.StoreKey), s.Accountkeeper, s.Bankkeeper, ora, rep)
	bri := bridgekeeper.NewKeeper(cdc, svc(bridgetypes.StoreKey), s.Stakingkeeper, ora, s.Bankkeeper, rep, bridgeAuth)
	mnt := mintkeeper.NewKeeper(cdc, svc(minttypes.StoreKey), s.Accountkeeper, s.Bankkeeper, mintAuth)
	if registryHooked {
		reg.SetHooks(registrytypes.NewMultiRegistryHooks(ora.Hooks()))
	}

	s.Registrykeeper, s.Reporterkeeper, s.Oraclekeeper, s.Disputekeeper, s.Bridgekeeper, s.Mintkeeper = reg, rep, ora, dis, bri, mnt

	w.oracleMS = oraclekeeper.NewMsgServerImpl(ora)
	w.disputeMS = disputekeeper.NewMsgServerImpl(dis)
	w.reporterMS = reporterkeeper.NewMsgServerImpl(rep)
	w.bridgeMS = bridgekeeper.NewMsgServerImpl(bri)
	w.registryMS = registrykeeper.NewMsgServerImpl(reg)
	w.mintMS = mintkeeper.NewMsgServerImpl(mnt)

	mods := map[string]interface{}{
		registrytypes.ModuleName: registrymodule.NewAppModule(cdc, reg, s.Accountkeeper, s.Bankkeeper),
		reportertypes.ModuleName: reportermodule.NewAppModule(cdc, rep, s.Accountkeeper, s.Bankkeeper),
		oracletypes.ModuleName:   oracle.NewAppModule(cdc, ora, s.Accountkeeper, s.Bankkeeper),
		disputetypes.ModuleName:  dispute.NewAppModule(cdc, dis, s.Accountkeeper, s.Bankkeeper),
		bridgetypes.ModuleName:   bridge.NewAppModule(cdc, bri, s.Accountkeeper, s.Bankkeeper),
		minttypes.ModuleName:     mint.NewAppModule(cdc, mnt, s.Accountkeeper),
	}
	for _, name := range c01LayerModules {
		old, present := s.App.ModuleManager.Modules[name]
		if !present || reflect.TypeOf(old) != reflect.TypeOf(mods[name]) {
			w.t.Fatalf("c01 restart: module %q of the application is %T, rebuilt %T", name, old, mods[name])
		}
		s.App.ModuleManager.Modules[name] = mods[name]
	}
	// the application's table of basic modules (genesis defaults, codec registration) holds the module objects too
	bm := c01Private(s.App, "basicManager")
	for _, name := range c01LayerModules {
		k := reflect.ValueOf(name)
		old := bm.MapIndex(k)
		if !old.IsValid() {
			w.t.Fatalf("c01 restart: no basic module %q", name)
		}
		nb := sdkmodule.CoreAppModuleBasicAdaptor(name, mods[name].(appmodule.AppModule))
		if old.Elem().Type() != reflect.TypeOf(nb) {
			w.t.Fatalf("c01 restart: basic module %q is %s, rebuilt %T", name, old.Elem().Type(), nb)
		}
		bm.SetMapIndex(k, reflect.ValueOf(nb))
	}
	// message and query routers: the services of all modules are registered anew (those of the Layer modules with the
	// new keepers) on new routers, as runtime.AppBuilder.Build does at start-up; the application, its configurator and
	// the gov keeper (which executes proposal messages through the router) get the new routers.  The World itself calls
	// the message servers directly and never routes.
	msr, qrt := baseapp.NewMsgServiceRouter(), baseapp.NewGRPCQueryRouter()
	msr.SetInterfaceRegistry(cdc.InterfaceRegistry())
	qrt.SetInterfaceRegistry(cdc.InterfaceRegistry())
	cfg := sdkmodule.NewConfigurator(cdc, msr, qrt)
	if err := s.App.ModuleManager.RegisterServices(cfg); err != nil {
		w.t.Fatalf("c01 restart: registering services: %v", err)
	}
	// (the replaced routers are kept alive, so that their addresses are not reused and the census can recognise them)
	w.staleRouters = append(w.staleRouters, s.App.BaseApp.MsgServiceRouter(), s.App.BaseApp.GRPCQueryRouter())
	s.App.BaseApp.SetMsgServiceRouter(msr)
	s.App.BaseApp.SetGRPCQueryRouter(qrt)
	c01Private(s.App, "msgServiceRouter").Set(reflect.ValueOf(msr))
	c01Private(s.App, "grpcQueryRouter").Set(reflect.ValueOf(qrt))
	c01Private(s.App, "configurator").Set(reflect.ValueOf(cfg))
	c01Private(s.Govkeeper, "router").Set(reflect.ValueOf(msr))
}

// ---- the walk: every value of a Layer keeper type reachable from the World ------------------------------------------
var c01KeeperTypes = map[reflect.Type]string{
	reflect.TypeOf(oraclekeeper.Keeper{}):   "oracle",
	reflect.TypeOf(disputekeeper.Keeper{}):  "dispute",
	reflect.TypeOf(reporterkeeper.Keeper{}): "reporter",
	reflect.TypeOf(bridgekeeper.Keeper{}):   "bridge",
	reflect.TypeOf(registrykeeper.Keeper{}): "registry",
	reflect.TypeOf(mintkeeper.Keeper{}):     "mint",
}

// packages whose types cannot hold a Layer keeper (stores, databases, codecs, protobuf, consensus engine, runtime)
var c01Opaque = []string{"cosmossdk.io/store", "github.com/cosmos/iavl", "github.com/cosmos/cosmos-db", "github.com/cometbft/", "google.golang.org/",
	"github.com/cosmos/gogoproto", "github.com/gogo/", "github.com/golang/protobuf", "github.com/cosmos/cosmos-proto", "github.com/cosmos/cosmos-sdk/codec", "cosmossdk.io/x/tx",
	"math/", "time", "sync", "reflect", "testing", "github.com/stretchr/", "github.com/rs/zerolog", "github.com/prometheus/", "github.com/hashicorp/",
	"github.com/tidwall/", "github.com/google/btree", "github.com/syndtr/", "github.com/linxGnu/", "github.com/cockroachdb/", "github.com/dgraph-io/", "os", "bufio", "io", "net", "regexp", "crypto/", "encoding/", "unicode", "strings", "bytes"}

type c01Walker struct {
	gen          int
	oldPtrs      map[[2]uintptr]bool // objects replaced by a restart (routers): reaching one is reported like a stale keeper
	seen         map[[2]uintptr]bool
	fresh, stale map[string]int // path of a keeper value (indices elided) -> how many
	nodes, funcs int
}

var c01OpaqueMemo = map[reflect.Type]bool{} // (of the test driver, not of the node)

func c01IsOpaque(t reflect.Type) bool {
	pp := t.PkgPath()
	if pp == "" {
		return false
	}
	if r, ok := c01OpaqueMemo[t]; ok {
		return r
	}
	r := false
	for _, o := range c01Opaque {
		if pp == o || strings.HasPrefix(pp, strings.TrimSuffix(o, "/")+"/") {
			r = true
		}
	}
	c01OpaqueMemo[t] = r
	return r
}

func c01TypeID(t reflect.Type) uintptr {
	// the address of the runtime type descriptor (the data word of the interface holding the reflect.Type)
	return (*[2]uintptr)(unsafe.Pointer(&t))[1]
}

func (c *c01Walker) walk(v reflect.Value, path string, depth int) {
	if !v.IsValid() || depth > 60 || c.nodes > 20_000_000 {
		return
	}
	c.nodes++
	t := v.Type()
	if c01IsOpaque(t) {
		return
	}
	switch v.Kind() {
	case reflect.Ptr:
		if v.IsNil() {
			return
		}
		k := [2]uintptr{v.Pointer(), c01TypeID(t)}
		if c.seen[k] {
			return
		}
		c.seen[k] = true
		if c.oldPtrs[k] {
			c.stale[path+" <"+t.String()+" of before the restart>"]++
		}
		c.walk(v.Elem(), path, depth+1)
	case reflect.Interface:
		if v.IsNil() {
			return
		}
		c.walk(v.Elem(), path, depth+1)
	case reflect.Struct:
		if !v.CanAddr() {
			cp := reflect.New(t).Elem()
			cp.Set(v)
			v = cp
		}
		if mod, isKeeper := c01KeeperTypes[t]; isKeeper {
			gen := 0
			f := v.FieldByName("storeService")
			if f.IsValid() {
				f = reflect.NewAt(f.Type(), unsafe.Pointer(f.UnsafeAddr())).Elem()
				if !f.IsNil() {
					if ss, ok := f.Interface().(c01StoreService); ok {
						gen = ss.gen
					}
				}
			}
			p := path + " <" + mod + " keeper>"
			if gen == c.gen {
				c.fresh[p]++
			} else {
				c.stale[fmt.Sprintf("%s generation %d", p, gen)]++
			}
		}
		for i := 0; i < t.NumField(); i++ {
			f := v.Field(i)
			f = reflect.NewAt(f.Type(), unsafe.Pointer(f.UnsafeAddr())).Elem()
			c.walk(f, path+"."+t.Field(i).Name, depth+1)
		}
	case reflect.Map:
		if v.IsNil() {
			return
		}
		k := [2]uintptr{v.Pointer(), c01TypeID(t)}
		if c.seen[k] {
			return
		}
		c.seen[k] = true
		it := v.MapRange()
		for it.Next() {
			kp := "[]"
			if it.Key().Kind() == reflect.String {
				kp = "[" + it.Key().String() + "]"
			}
			c.walk(it.Key(), path+"[key]", depth+1)
			c.walk(it.Value(), path+kp, depth+1)
		}
	case reflect.Slice:
		if v.IsNil() {
			return
		}
		if ek := t.Elem().Kind(); ek <= reflect.Complex128 || ek == reflect.String {
			return
		}
		k := [2]uintptr{v.Pointer(), c01TypeID(t) ^ uintptr(v.Len())<<40}
		if c.seen[k] {
			return
		}
		c.seen[k] = true
		for i := 0; i < v.Len(); i++ {
			c.walk(v.Index(i), path+"[]", depth+1)
		}
	case reflect.Array:
		if ek := t.Elem().Kind(); ek <= reflect.Complex128 || ek == reflect.String {
			return
		}
		if !v.CanAddr() {
			cp := reflect.New(t).Elem()
			cp.Set(v)
			v = cp
		}
		for i := 0; i < v.Len(); i++ {
			c.walk(v.Index(i), path+"[]", depth+1)
		}
	case reflect.Func:
		if !v.IsNil() {
			c.funcs++ // closures cannot be inspected: the World calls none that came from the application's routers
		}
	}
}

// keeperCensus lists where Layer keeper values live in the World and which are not of generation gen
func (w *World) keeperCensus(gen int) *c01Walker {
	c := &c01Walker{gen: gen, seen: map[[2]uintptr]bool{}, fresh: map[string]int{}, stale: map[string]int{}, oldPtrs: map[[2]uintptr]bool{}}
	for _, p := range w.staleRouters {
		c.oldPtrs[[2]uintptr{reflect.ValueOf(p).Pointer(), c01TypeID(reflect.TypeOf(p))}] = true
	}
	old := w.staleRouters
	w.staleRouters = nil
	defer func() { w.staleRouters = old }()
	// the restart driver's own hooks close over the World; they are not part of the node
	hs, he, ho, rb := w.hookBlockStart, w.hookBlockEnd, w.hookOp, w.rollback
	w.hookBlockStart, w.hookBlockEnd, w.hookOp, w.rollback = nil, nil, nil, nil
	c.walk(reflect.ValueOf(w), "World", 0)
	w.hookBlockStart, w.hookBlockEnd, w.hookOp, w.rollback = hs, he, ho, rb
	return c
}

func c01Keys(m map[string]int) []string {
	var ks []string
	for k, n := range m {
		ks = append(ks, fmt.Sprintf("%s x%d", k, n))
	}
	sort.Strings(ks)
	return ks
}

// ---- per-block observations ------------------------------------------------------------------------------------------
type c01KV struct{ k, v []byte }

type c01Block struct {
	height   int64
	stores   map[string]string // store name -> SHA-256 over its keys and values
	store    string            // SHA-256 over all of them
	entries  int
	events   []string
	ops      []string
	dump     map[string][]c01KV // only when requested
	rolled   bool               // a message was executed and rolled back
	privOK   bool               // a privileged update by the authority was applied
	failedTx bool
}

func c01Hash(lines []string) string {
	h := sha256.New()
	for _, l := range lines {
		h.Write([]byte(l))
		h.Write([]byte{10})
	}
	return hex.EncodeToString(h.Sum(nil))
}

func (w *World) c01Stores(dump bool) (map[string]string, string, int, map[string][]c01KV) {
	per := map[string]string{}
	all := sha256.New()
	n := 0
	var d map[string][]c01KV
	if dump {
		d = map[string][]c01KV{}
	}
	for _, name := range c01StoreNames {
		key := w.s.App.UnsafeFindStoreKey(name)
		if key == nil {
			continue
		}
		h := sha256.New()
		func() {
			defer func() { _ = recover() }()
			st := w.ctx.KVStore(key.(*storetypes.KVStoreKey))
			it := st.Iterator(nil, nil)
			defer it.Close()
			var l [8]byte
			for ; it.Valid(); it.Next() {
				k, v := it.Key(), it.Value()
				l[0], l[1], l[2], l[3] = byte(len(k)>>24), byte(len(k)>>16), byte(len(k)>>8), byte(len(k))
				l[4], l[5], l[6], l[7] = byte(len(v)>>24), byte(len(v)>>16), byte(len(v)>>8), byte(len(v))
				h.Write(l[:])
				h.Write(k)
				h.Write(v)
				n++
				if dump {
					d[name] = append(d[name], c01KV{append([]byte{}, k...), append([]byte{}, v...)})
				}
			}
		}()
		per[name] = hex.EncodeToString(h.Sum(nil))
		all.Write([]byte(name))
		all.Write([]byte(per[name]))
	}
	return per, hex.EncodeToString(all.Sum(nil)), n, d
}

type c01Trace struct {
	blocks   []c01Block
	restarts []int // r = the Layer keepers were rebuilt before block r (0-based; 0 = after the set-up, before the first block)
	term     string
	halted   string
	census   *c01Walker
	preStore string // store digest when the first block begins
}

type c01Config struct {
	mode      int  // 0 all-message history, 1 payout-directed, 2 dispute-directed, 3 governance-heavy all-message history
	restart   bool // rebuild the Layer keepers at the chosen block boundaries
	dumpBlock int  // keep the content of every store after this block (-1: none)
}

// restart policy and knob rates of a history (functions of the history seed only)
type c01Policy struct {
	everyBlock        bool // restart at every block boundary
	atStart           bool // restart after the set-up, before the first block
	randomOneIn       int  // otherwise: at a boundary with probability 1/randomOneIn ...
	afterEventPercent int  // ... and with this probability after a block with a rolled-back message or an applied privileged update
	afterFailOneIn    int  // ... and with probability 1/afterFailOneIn after a block with a failed transaction
	rollbackOneIn     int  // a successful message is executed on a discarded cache context with probability 1/rollbackOneIn
	rollbackPrivOneIn int  // ... a privileged one by the authority with probability 1/rollbackPrivOneIn
	privBias          int
}

func c01PolicyOf(hs int64, mode int) c01Policy {
	r := rand.New(rand.NewSource(hs*31 + 5))
	p := c01Policy{everyBlock: r.Intn(5) == 0, atStart: r.Intn(3) == 0, randomOneIn: pick(r, 6, 10, 16), afterEventPercent: pick(r, 80, 100, 100),
		afterFailOneIn: pick(r, 6, 12), rollbackOneIn: pick(r, 6, 10), rollbackPrivOneIn: 2}
	switch mode {
	case 1, 2:
		p.rollbackOneIn = pick(r, 12, 20) // the directed scenarios should mostly proceed
	case 3:
		p.privBias = pick(r, 2, 3, 4)
		p.rollbackOneIn = pick(r, 4, 8)
	}
	return p
}

func c01RunTraced(t *testing.T, hs int64, cfg c01Config) *c01Trace {
	tr := &c01Trace{}
	pol := c01PolicyOf(hs, cfg.mode)
	rr := rand.New(rand.NewSource(hs*17 + 3)) // restart decisions; drawn identically in both executions
	gen := 0
	var cur c01Block
	evSeen := 0
	blockIdx := 0
	worldInit = func(w *World) {
		w.kr = rand.New(rand.NewSource(hs*13 + 1))
		w.privBias = pol.privBias
		w.rollback = func(name string, signer int) bool {
			if strings.HasPrefix(name, "Priv:") && signer == -3 {
				return w.kr.Intn(pol.rollbackPrivOneIn) == 0
			}
			return w.kr.Intn(pol.rollbackOneIn) == 0
		}
		w.hookOp = func(res opResult) {
			cur.ops = append(cur.ops, fmt.Sprintf("%s signer=%d result=%d %s params=%v", res.name, res.signer, res.result, res.errMsg, res.params))
			switch {
			case res.result == 4:
				cur.rolled = true
			case res.result == 0 && strings.HasPrefix(res.name, "Priv:") && res.signer == -3:
				cur.privOK = true
			case res.result == 1 || res.result == 3:
				cur.failedTx = true
			}
		}
		restartNow := func() {
			gen++
			before, _, _, _ := w.c01Stores(false)
			w.restartLayerKeepers(gen)
			after, _, _, _ := w.c01Stores(false)
			if !reflect.DeepEqual(before, after) {
				t.Fatalf("c01 restart: constructing keepers changed the stores (history %d, block %d)", hs, blockIdx)
			}
			tr.restarts = append(tr.restarts, blockIdx)
			// the census is cheap enough to run on every restart; a stale keeper anywhere makes the comparison void
			c := w.keeperCensus(gen)
			if len(c.stale) > 0 || len(c.fresh) == 0 {
				t.Fatalf("c01 restart: Layer keeper objects that were not rebuilt are still reachable from the World:\n%s\nrebuilt:\n%s",
					strings.Join(c01Keys(c.stale), "\n"), strings.Join(c01Keys(c.fresh), "\n"))
			}
			tr.census = c
		}
		w.hookBlockStart = func() {
			if blockIdx == 0 {
				_, tr.preStore, _, _ = w.c01Stores(false)
				first := pol.atStart || pol.everyBlock
				if cfg.restart && first {
					restartNow()
				}
			}
		}
		w.hookBlockEnd = func() {
			cur.height = w.height
			cur.events = append([]string{}, w.events[evSeen:]...)
			evSeen = len(w.events)
			cur.stores, cur.store, cur.entries, cur.dump = w.c01Stores(blockIdx == cfg.dumpBlock)
			tr.blocks = append(tr.blocks, cur)
			event, failed := cur.rolled || cur.privOK, cur.failedTx
			cur = c01Block{}
			blockIdx++
			// both draws are made in every execution and for every block, so the decision for block k does not depend on
			// what happened in other blocks
			d1, d2, d3 := rr.Intn(pol.randomOneIn) == 0, rr.Intn(100) < pol.afterEventPercent, rr.Intn(pol.afterFailOneIn) == 0
			if cfg.restart && w.halted == "" && (pol.everyBlock || d1 || (event && d2) || (failed && d3)) {
				restartNow()
			}
		}
	}
	defer func() { worldInit = nil }()
	switch cfg.mode {
	case 0, 3:
		tr.term, _, tr.halted = runHistory(t, hs, 20)
	case 1:
		tr.term, _, tr.halted = runPayoutHistory(t, hs, 6, false)
	default:
		tr.term, _, tr.halted = runDisputeHistory(t, hs)
	}
	if len(cur.ops) > 0 {
		// a block that began and did not end (block processing failed in the begin blocker)
		w := lastWorld
		cur.height = w.height
		cur.events = append([]string{}, w.events[evSeen:]...)
		cur.stores, cur.store, cur.entries, cur.dump = w.c01Stores(blockIdx == cfg.dumpBlock)
		tr.blocks = append(tr.blocks, cur)
	}
	return tr
}

// first difference of two executions: block, what differs, and (stores) the first differing key
func c01FirstDiff(t *testing.T, hs int64, mode int, a, b *c01Trace) map[string]interface{} {
	d := map[string]interface{}{}
	n := len(a.blocks)
	if len(b.blocks) < n {
		n = len(b.blocks)
	}
	for i := 0; i < n; i++ {
		x, y := a.blocks[i], b.blocks[i]
		var what []string
		for k := 0; k < len(x.ops) || k < len(y.ops); k++ {
			ox, oy := "<none>", "<none>"
			if k < len(x.ops) {
				ox = x.ops[k]
			}
			if k < len(y.ops) {
				oy = y.ops[k]
			}
			if ox != oy {
				what = append(what, "operations")
				d["operation_index_in_block"], d["operation_kept_running"], d["operation_restarted"] = k, ox, oy
				break
			}
		}
		for k := 0; k < len(x.events) || k < len(y.events); k++ {
			ex, ey := "<none>", "<none>"
			if k < len(x.events) {
				ex = x.events[k]
			}
			if k < len(y.events) {
				ey = y.events[k]
			}
			if ex != ey {
				what = append(what, "events")
				d["event_index_in_block"], d["event_kept_running"], d["event_restarted"] = k, ex, ey
				break
			}
		}
		if x.store != y.store {
			what = append(what, "stores")
			var names []string
			for _, name := range c01StoreNames {
				if x.stores[name] != y.stores[name] {
					names = append(names, name)
				}
			}
			d["stores_differing"] = names
			// the two executions again, keeping the stores' content after this block
			da := c01RunTraced(t, hs, c01Config{mode: mode, restart: false, dumpBlock: i})
			db := c01RunTraced(t, hs, c01Config{mode: mode, restart: true, dumpBlock: i})
			if i < len(da.blocks) && i < len(db.blocks) && len(names) > 0 {
				ka, kb := da.blocks[i].dump[names[0]], db.blocks[i].dump[names[0]]
				ia, ib := 0, 0
				for ia < len(ka) || ib < len(kb) {
					switch {
					case ib >= len(kb) || (ia < len(ka) && bytes.Compare(ka[ia].k, kb[ib].k) < 0):
						d["store"], d["key"], d["value_kept_running"], d["value_restarted"] = names[0], hex.EncodeToString(ka[ia].k), hex.EncodeToString(ka[ia].v), "<absent>"
						ia, ib = len(ka), len(kb)
					case ia >= len(ka) || bytes.Compare(ka[ia].k, kb[ib].k) > 0:
						d["store"], d["key"], d["value_kept_running"], d["value_restarted"] = names[0], hex.EncodeToString(kb[ib].k), "<absent>", hex.EncodeToString(kb[ib].v)
						ia, ib = len(ka), len(kb)
					case !bytes.Equal(ka[ia].v, kb[ib].v):
						d["store"], d["key"], d["value_kept_running"], d["value_restarted"] = names[0], hex.EncodeToString(ka[ia].k), hex.EncodeToString(ka[ia].v), hex.EncodeToString(kb[ib].v)
						ia, ib = len(ka), len(kb)
					default:
						ia++
						ib++
					}
				}
			}
		}
		if len(what) > 0 {
			d["block"], d["height"], d["differs"] = i, x.height, what
			last := -1
			for _, r := range b.restarts {
				if r <= i {
					last = r
				}
			}
			d["last_restart_before_block"] = last
			return d
		}
	}
	if len(a.blocks) != len(b.blocks) {
		d["block"], d["differs"] = n, []string{"number of blocks processed"}
	}
	return d
}

func c01Short(s string) string {
	if len(s) > 16 {
		return s[:16]
	}
	return s
}

func (tr *c01Trace) coqBlocks() string {
	items := make([]string, len(tr.blocks))
	for i, b := range tr.blocks {
		items[i] = fmt.Sprintf("(%s, %s, %s)", cstr(c01Short(b.store)), cstr(c01Short(c01Hash(b.events))), cstr(c01Short(c01Hash(b.ops))))
	}
	return clist(items)
}

func TestC01Restart(t *testing.T) {
	out := newOut(t, "c01_restart")
	defer out.Close()
	worldDeterministic = true
	recordEvents = true
	defer func() { worldDeterministic = false; recordEvents = false }()
	n := count(24, 720)
	base := seed()*6_000_029 + 11
	for i := 0; i < n; i++ {
		hs := base + int64(i)
		mode := []int{0, 3, 1, 3, 2}[i%5]
		kept := c01RunTraced(t, hs, c01Config{mode: mode, restart: false, dumpBlock: -1})
		rest := c01RunTraced(t, hs, c01Config{mode: mode, restart: true, dumpBlock: -1})
		human := map[string]interface{}{"history_seed": hs, "mode": mode, "policy": fmt.Sprintf("%+v", c01PolicyOf(hs, mode)), "blocks": len(kept.blocks),
			"restarted_before_blocks": rest.restarts, "halted": []string{kept.halted, rest.halted}}
		entries, events, rolled, priv, failed := 0, 0, 0, 0, 0
		for _, b := range kept.blocks {
			entries = b.entries
			events += len(b.events)
			rolled += b2i(b.rolled)
			priv += b2i(b.privOK)
			failed += b2i(b.failedTx)
		}
		human["store_entries"], human["events"] = entries, events
		human["blocks_with_rolled_back_message"], human["blocks_with_privileged_update"], human["blocks_with_failed_transaction"] = rolled, priv, failed
		// how many restarts had a rolled-back message / an applied privileged update somewhere before them
		afterRolled, afterPriv := 0, 0
		for _, r := range rest.restarts {
			ro, pr := false, false
			for k := 0; k < r && k < len(kept.blocks); k++ {
				ro = ro || kept.blocks[k].rolled
				pr = pr || kept.blocks[k].privOK
			}
			afterRolled += b2i(ro)
			afterPriv += b2i(pr)
		}
		human["restarts_after_a_rolled_back_message"], human["restarts_after_a_privileged_update"] = afterRolled, afterPriv
		if rest.census != nil {
			human["keeper_objects_rebuilt"] = c01Keys(rest.census.fresh)
			human["walk_nodes"], human["function_values_not_inspected"] = rest.census.nodes, rest.census.funcs
		}
		sameObs := kept.term == rest.term
		sameHalt := kept.halted == rest.halted
		samePre := kept.preStore == rest.preStore
		coqKept, coqRest := kept.coqBlocks(), rest.coqBlocks()
		if coqKept != coqRest || !sameObs || !sameHalt {
			human["first_difference"] = c01FirstDiff(t, hs, mode, kept, rest)
			if !sameObs {
				sa, sb := strings.Split(kept.term, "(Step "), strings.Split(rest.term, "(Step ")
				for k := 0; k < len(sa) && k < len(sb); k++ {
					if sa[k] != sb[k] {
						human["first_differing_step"] = map[string]interface{}{"index": k, "kept_running": "(Step " + sa[k], "restarted": "(Step " + sb[k]}
						break
					}
				}
			}
		}
		rs := make([]string, len(rest.restarts))
		lateEnough := false
		for k, r := range rest.restarts {
			rs[k] = fmt.Sprint(r)
			if r+2 <= len(rest.blocks) {
				lateEnough = true
			}
		}
		kind := fmt.Sprintf("restart/mode=%d", mode)
		if len(rest.restarts) == 0 {
			kind += "/none"
		}
		out.Emit(Case{Coq: fmt.Sprintf("RestartCase %d %s %s %s %s %s %d %d", hs, clist(rs), coqKept, coqRest, cbool(sameObs && samePre), cbool(sameHalt), entries, events),
			Kind: kind, Nontrivial: lateEnough && entries > 100 && events > 20, Key: fmt.Sprint(hs), Human: human})
	}
}

// TestC01RestartCensus prints where Layer keeper values live in the fixture (before and after a restart)
func TestC01RestartCensus(t *testing.T) {
	worldDeterministic = true
	defer func() { worldDeterministic = false }()
	w := newWorld(t, rand.New(rand.NewSource(1)), 2, 4)
	c := w.keeperCensus(0)
	fmt.Printf("fixture: %d nodes walked, %d function values, keepers:\n  %s\n", c.nodes, c.funcs, strings.Join(c01Keys(c.fresh), "\n  "))
	w.restartLayerKeepers(1)
	c = w.keeperCensus(1)
	fmt.Printf("after restart: rebuilt:\n  %s\nnot rebuilt:\n  %s\n", strings.Join(c01Keys(c.fresh), "\n  "), strings.Join(c01Keys(c.stale), "\n  "))
	if len(c.stale) > 0 {
		t.Fatal("stale keepers")
	}
}

// TestC01RestartDebug prints the operations of one history (C01_HS, C01_MODE) as the restart driver runs it
func TestC01RestartDebug(t *testing.T) {
	worldDeterministic = true
	recordEvents = true
	defer func() { worldDeterministic = false; recordEvents = false }()
	var hs int64
	var mode int
	fmt.Sscan(os.Getenv("C01_HS"), &hs)
	fmt.Sscan(os.Getenv("C01_MODE"), &mode)
	tr := c01RunTraced(t, hs, c01Config{mode: mode, restart: os.Getenv("C01_RESTART") != "", dumpBlock: -1})
	fmt.Println("restarts before blocks", tr.restarts, "halted", tr.halted)
	for i, b := range tr.blocks {
		fmt.Printf("block %d height %d store %s entries %d\n", i, b.height, c01Short(b.store), b.entries)
		for _, o := range b.ops {
			if len(o) > 200 {
				o = o[:200]
			}
			fmt.Println("   ", o)
		}
	}
}
