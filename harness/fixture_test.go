package harness

// The repo's test fixture (tests.SharedSetup) wires the auth module without a `bridge` module
// account, so bridge withdrawals cannot run on it.  rewire builds the same application with the
// production permissions for oracle, dispute and bridge (app/app.go maccPerms) and replaces the
// exported keepers of the fixture by the new application's.

import (
	"testing"
	"time"

	tmproto "github.com/cometbft/cometbft/proto/tendermint/types"
	setup "github.com/tellor-io/layer/tests"

	appv1alpha1 "cosmossdk.io/api/cosmos/app/v1alpha1"
	authmodulev1 "cosmossdk.io/api/cosmos/auth/module/v1"
	"cosmossdk.io/core/appconfig"
	"cosmossdk.io/depinject"
	"cosmossdk.io/log"

	"github.com/cosmos/cosmos-sdk/testutil/configurator"
	simtestutil "github.com/cosmos/cosmos-sdk/testutil/sims"
	sdk "github.com/cosmos/cosmos-sdk/types"
)

func prodAuthModule() configurator.ModuleOption {
	return func(config *configurator.Config) {
		config.ModuleConfigs["auth"] = &appv1alpha1.ModuleConfig{
			Name: "auth",
			Config: appconfig.WrapAny(&authmodulev1.Module{
				Bech32Prefix: "tellor",
				ModuleAccountPermissions: []*authmodulev1.ModuleAccountPermission{
					{Account: "minter", Permissions: []string{"minter"}},
					{Account: "fee_collector"},
					{Account: "distribution"},
					{Account: "oracle", Permissions: []string{"minter", "burner", "staking"}},
					{Account: "dispute", Permissions: []string{"minter", "burner", "staking"}},
					{Account: "bridge", Permissions: []string{"minter", "burner"}},
					{Account: "registry"},
					{Account: "mint", Permissions: []string{"minter"}},
					{Account: "time_based_rewards"},
					{Account: "mint_to_team"},
					{Account: "bonded_tokens_pool", Permissions: []string{"burner", "staking"}},
					{Account: "not_bonded_tokens_pool", Permissions: []string{"burner", "staking"}},
					{Account: "gov", Permissions: []string{"burner"}},
					{Account: "nft"},
					{Account: "reporter"},
					{Account: "tips_escrow_pool"},
				},
			}),
		}
	}
}

func rewire(t *testing.T, s *setup.SharedSetup) {
	app, err := simtestutil.SetupWithConfiguration(
		depinject.Configs(
			configurator.NewAppConfig(
				prodAuthModule(),
				configurator.BankModule(),
				configurator.StakingModule(),
				configurator.SlashingModule(),
				configurator.ParamsModule(),
				configurator.ConsensusModule(),
				configurator.DistributionModule(),
				setup.GlobalFeeModule(),
				setup.OracleModule(),
				setup.DisputeModule(),
				setup.RegistryModule(),
				setup.MintModule(),
				setup.ReporterModule(),
				setup.BridgeModule(),
				configurator.GovModule(),
			),
			depinject.Supply(log.NewNopLogger()),
		),
		setup.DefaultStartUpConfig(),
		&s.Accountkeeper, &s.Bankkeeper, &s.Stakingkeeper, &s.Oraclekeeper, &s.Mintkeeper, &s.Bridgekeeper,
		&s.GlobalFeekeeper, &s.Disputekeeper, &s.Registrykeeper, &s.Govkeeper, &s.Reporterkeeper)
	if err != nil {
		t.Fatal(err)
	}
	s.Ctx = sdk.UnwrapSDKContext(app.BaseApp.NewContextLegacy(false, tmproto.Header{Time: time.Unix(1_700_000_000, 0).UTC()}))
	s.App = app
}
