package harness

// C10 — reporting power equals the bonded stake of active selectors, counted once.
//
// Driver: generated histories on the full in-memory application (tests.SharedSetup: real
// auth/bank/staking/oracle/reporter keepers).  Every operation runs the REAL code:
// staking MsgServer (Delegate / Undelegate / BeginRedelegate), staking keeper (Jail, Unjail,
// Slash, EndBlocker, SetParams), reporter MsgServer (CreateReporter, SelectReporter,
// SwitchReporter, RemoveSelector, UnjailReporter), reporter keeper JailReporter, and the
// oracle MsgServer SubmitValue (which calls ReporterStake).  After every operation the
// harness reads back the reporter module's tables and the staking view the reporter module
// can see, and emits the history as one Gallina term of type c10_case.

import (
	"bytes"
	"errors"
	"fmt"
	"math/big"
	"math/rand"
	"os"
	"reflect"
	"sort"
	"strings"
	"testing"
	"time"
	"unsafe"

	cmted25519 "github.com/cometbft/cometbft/crypto/ed25519"
	tmproto "github.com/cometbft/cometbft/proto/tendermint/types"
	cmttypes "github.com/cometbft/cometbft/types"
	setup "github.com/tellor-io/layer/tests"
	"github.com/tellor-io/layer/utils"
	oraclekeeper "github.com/tellor-io/layer/x/oracle/keeper"
	oracletypes "github.com/tellor-io/layer/x/oracle/types"
	registrytypes "github.com/tellor-io/layer/x/registry/types"
	reporterkeeper "github.com/tellor-io/layer/x/reporter/keeper"
	reportertypes "github.com/tellor-io/layer/x/reporter/types"

	"cosmossdk.io/collections"
	"cosmossdk.io/depinject"
	"cosmossdk.io/log"
	"cosmossdk.io/math"

	"github.com/cosmos/cosmos-sdk/crypto/keys/secp256k1"
	"github.com/cosmos/cosmos-sdk/testutil/configurator"
	simtestutil "github.com/cosmos/cosmos-sdk/testutil/sims"
	sdk "github.com/cosmos/cosmos-sdk/types"
	authtypes "github.com/cosmos/cosmos-sdk/x/auth/types"
	stakingkeeper "github.com/cosmos/cosmos-sdk/x/staking/keeper"
	stakingtypes "github.com/cosmos/cosmos-sdk/x/staking/types"
)

const c10TRB = 1_000_000

var c10DebugOn = false

type c10World struct {
	t   *testing.T
	s   *setup.SharedSetup
	r   *rand.Rand
	ctx sdk.Context

	height int64
	now    time.Time

	addrs  []sdk.AccAddress // ascending byte order; number = index
	vals   []int            // numbers of the accounts that operate a validator
	plain  []int            // numbers of accounts without validator (incl. nobody special)
	actors []int            // accounts that sign messages (all but the genesis validator's operator)
	tipper sdk.AccAddress
	inc    []int // number of the i-th incremental account (validators first, then plain accounts)

	queries [][]byte // query data, ascending query id
	qids    [][]byte

	stakingMS  stakingtypes.MsgServer
	reporterMS reportertypes.MsgServer
	oracleMS   oracletypes.MsgServer

	steps    []string
	lastView c10view
	lastTabs string
	feat     map[string]int
	nOps     int
}

func (w *c10World) id(a []byte) int {
	for i, x := range w.addrs {
		if bytes.Equal(x.Bytes(), a) {
			return i
		}
	}
	w.t.Fatalf("c10: unknown address %x", a)
	return -1
}

// The repo's test fixture wires the staking hooks of distribution and slashing only; production
// (app/app.go) also registers the reporter keeper's hooks, after those two.  The staking keeper
// refuses a second SetHooks, so the private field is extended in place.
func c10AddReporterHooks(k *stakingkeeper.Keeper, extra stakingtypes.StakingHooks) {
	f := reflect.ValueOf(k).Elem().FieldByName("hooks")
	old := k.Hooks()
	reflect.NewAt(f.Type(), unsafe.Pointer(f.UnsafeAddr())).Elem().Set(reflect.ValueOf(stakingtypes.NewMultiStakingHooks(old, extra)))
}

// c10Rewire rebuilds the fixture's application like rewire (fixture_test.go) but with a fixed genesis
// validator and genesis account, so that a seed determines the whole history (the repo's
// DefaultStartUpConfig draws both at random)
func c10Rewire(t *testing.T, s *setup.SharedSetup) {
	cfg := setup.DefaultStartUpConfig()
	cfg.ValidatorSet = func() (*cmttypes.ValidatorSet, error) {
		pk := cmted25519.GenPrivKeyFromSecret([]byte("c10 genesis validator")).PubKey()
		return cmttypes.NewValidatorSet([]*cmttypes.Validator{cmttypes.NewValidator(pk, 1)}), nil
	}
	priv := secp256k1.GenPrivKeyFromSecret([]byte("c10 genesis account"))
	ba := authtypes.NewBaseAccount(priv.PubKey().Address().Bytes(), priv.PubKey(), 0, 0)
	cfg.GenesisAccounts = []simtestutil.GenesisAccount{{GenesisAccount: ba, Coins: sdk.NewCoins(sdk.NewCoin(sdk.DefaultBondDenom, math.ZeroInt()))}}
	app, err := simtestutil.SetupWithConfiguration(
		depinject.Configs(
			configurator.NewAppConfig(
				prodAuthModule(),
				configurator.BankModule(),
				configurator.StakingModule(),
				configurator.SlashingModule(),
				configurator.ParamsModule(),
				configurator.ConsensusModule(),
				configurator.DistributionModule(),
				setup.GlobalFeeModule(),
				setup.OracleModule(),
				setup.DisputeModule(),
				setup.RegistryModule(),
				setup.MintModule(),
				setup.ReporterModule(),
				setup.BridgeModule(),
				configurator.GovModule(),
			),
			depinject.Supply(log.NewNopLogger()),
		),
		cfg,
		&s.Accountkeeper, &s.Bankkeeper, &s.Stakingkeeper, &s.Oraclekeeper, &s.Mintkeeper, &s.Bridgekeeper,
		&s.GlobalFeekeeper, &s.Disputekeeper, &s.Registrykeeper, &s.Govkeeper, &s.Reporterkeeper)
	if err != nil {
		t.Fatal(err)
	}
	s.Ctx = sdk.UnwrapSDKContext(app.BaseApp.NewContextLegacy(false, tmproto.Header{Time: time.Unix(1_700_000_000, 0).UTC()}))
	s.App = app
}

func c10ns(tm time.Time) *big.Int {
	if tm.IsZero() {
		return bi(0)
	}
	return bi(tm.UnixNano())
}

func c10NewWorld(t *testing.T, r *rand.Rand, nVals, nPlain int, maxVals uint32, unbond time.Duration, maxSel uint64) *c10World {
	s := &setup.SharedSetup{}
	s.SetupTest(t)
	c10Rewire(t, s)
	w := &c10World{t: t, s: s, r: r, feat: map[string]int{}}
	w.height = 2
	w.now = time.Unix(1_700_000_000, 0).UTC()
	s.Ctx = s.Ctx.WithBlockHeight(w.height).WithBlockTime(w.now)
	w.stakingMS = stakingkeeper.NewMsgServerImpl(s.Stakingkeeper)
	w.reporterMS = reporterkeeper.NewMsgServerImpl(s.Reporterkeeper)
	w.oracleMS = oraclekeeper.NewMsgServerImpl(s.Oraclekeeper)
	c10AddReporterHooks(s.Stakingkeeper, s.Reporterkeeper.Hooks())

	_, valOps, _ := s.CreateValidators(nVals)
	all := simtestutil.CreateIncrementalAccounts(nVals + nPlain + 1)
	for i := 0; i < nVals; i++ {
		if !bytes.Equal(all[i].Bytes(), valOps[i].Bytes()) {
			t.Fatal("c10: incremental accounts differ")
		}
	}
	w.tipper = all[nVals+nPlain]
	s.MintTokens(w.tipper, math.NewInt(1_000_000*c10TRB))
	accts := append([]sdk.AccAddress{}, all[:nVals+nPlain]...)
	for _, a := range accts {
		s.MintTokens(a, math.NewInt(20_000*c10TRB))
	}
	// the fixture's genesis validator: its operator gets a number too (it never signs)
	allVals, err := s.Stakingkeeper.GetAllValidators(s.Ctx)
	if err != nil {
		t.Fatal(err)
	}
	var genesisOp sdk.AccAddress
	for _, v := range allVals {
		op, _ := sdk.ValAddressFromBech32(v.GetOperator())
		known := false
		for _, a := range accts {
			if bytes.Equal(a.Bytes(), op.Bytes()) {
				known = true
			}
		}
		if !known {
			genesisOp = sdk.AccAddress(op.Bytes())
			accts = append(accts, genesisOp)
		}
	}
	sort.Slice(accts, func(i, j int) bool { return bytes.Compare(accts[i].Bytes(), accts[j].Bytes()) < 0 })
	w.addrs = accts
	for i, a := range accts {
		isVal := false
		for _, v := range allVals {
			op, _ := sdk.ValAddressFromBech32(v.GetOperator())
			if bytes.Equal(op.Bytes(), a.Bytes()) {
				isVal = true
			}
		}
		if isVal {
			w.vals = append(w.vals, i)
		} else {
			w.plain = append(w.plain, i)
		}
		if genesisOp == nil || !bytes.Equal(a.Bytes(), genesisOp.Bytes()) {
			w.actors = append(w.actors, i)
		}
	}
	for _, a := range all[:nVals+nPlain] {
		w.inc = append(w.inc, w.id(a.Bytes()))
	}
	// queries, ordered by query id
	for _, p := range []string{`["eth","usd"]`, `["btc","usd"]`, `["trb","usd"]`} {
		res, err := s.Registrykeeper.GenerateQuerydata(s.Ctx, &registrytypes.QueryGenerateQuerydataRequest{Querytype: "SpotPrice", Parameters: p})
		if err != nil {
			t.Fatal(err)
		}
		w.queries = append(w.queries, res.QueryData)
	}
	sort.Slice(w.queries, func(i, j int) bool {
		return bytes.Compare(utils.QueryIDFromData(w.queries[i]), utils.QueryIDFromData(w.queries[j])) < 0
	})
	for _, q := range w.queries {
		w.qids = append(w.qids, utils.QueryIDFromData(q))
	}
	// parameters of this history
	sp, err := s.Stakingkeeper.GetParams(s.Ctx)
	if err != nil {
		t.Fatal(err)
	}
	sp.MaxValidators = maxVals
	sp.UnbondingTime = unbond
	if err := s.Stakingkeeper.SetParams(s.Ctx, sp); err != nil {
		t.Fatal(err)
	}
	rp, err := s.Reporterkeeper.Params.Get(s.Ctx)
	if err != nil {
		t.Fatal(err)
	}
	rp.MaxSelectors = maxSel
	if err := s.Reporterkeeper.Params.Set(s.Ctx, rp); err != nil {
		t.Fatal(err)
	}
	if _, err := s.Stakingkeeper.EndBlocker(s.Ctx); err != nil {
		t.Fatal(err)
	}
	w.ctx = s.Ctx
	w.emitParams()
	w.emit(fmt.Sprintf("OBlock %d %s", w.height, cz(c10ns(w.now))), 0, nil)
	w.syncEnv()
	return w
}

// ---- projection --------------------------------------------------------------------------
type c10report struct {
	total   *big.Int
	power   uint64
	origins []string
}

func (w *c10World) tables() string {
	k := w.s.Reporterkeeper
	var sels, reps, idx []string
	err := k.Selectors.Walk(w.ctx, nil, func(key []byte, v reportertypes.Selection) (bool, error) {
		sels = append(sels, fmt.Sprintf("mkSel %d %d %s %s", w.id(key), w.id(v.Reporter), czu(v.DelegationsCount), cz(c10ns(v.LockedUntilTime))))
		return false, nil
	})
	if err != nil {
		w.t.Fatal(err)
	}
	err = k.Reporters.Walk(w.ctx, nil, func(key []byte, v reportertypes.OracleReporter) (bool, error) {
		reps = append(reps, fmt.Sprintf("mkRep %d %s %s %s", w.id(key), cz(v.MinTokensRequired.BigInt()), cbool(v.Jailed), cz(c10ns(v.JailedUntil))))
		it, err := k.Selectors.Indexes.Reporter.MatchExact(w.ctx, key)
		if err != nil {
			return true, err
		}
		pks, err := it.PrimaryKeys()
		if err != nil {
			return true, err
		}
		items := make([]string, len(pks))
		for i, pk := range pks {
			items[i] = fmt.Sprint(w.id(pk))
		}
		idx = append(idx, fmt.Sprintf("(%d, %s)", w.id(key), clist(items)))
		return false, nil
	})
	if err != nil {
		w.t.Fatal(err)
	}
	return fmt.Sprintf("(%s, %s, %s)", clist(sels), clist(idx), clist(reps))
}

func (w *c10World) emit(op string, code int, rep *c10report) {
	total, power, origins := "0", "0", "[]"
	if rep != nil {
		total, power, origins = cz(rep.total), czu(rep.power), clist(rep.origins)
	}
	tabs := "None"
	if t := w.tables(); t != w.lastTabs {
		w.lastTabs = t
		tabs = "(Some " + t + ")"
	}
	if !strings.HasPrefix(op, "CEnv") {
		op = "COp (" + op + ")"
	}
	w.steps = append(w.steps, fmt.Sprintf("(%s, mkCObs %d %s %s %s %s)", op, code, total, power, origins, tabs))
	if c10DebugOn {
		fmt.Printf("h=%d t=%d %s -> %d %s %s %s\n", w.height, w.now.UnixNano(), op, code, total, origins, tabs)
	}
}

type c10view struct {
	vals map[int]string
	dels map[[2]int]string
	tail string // power order, MaxValidators, UnbondingTime
}

func (w *c10World) view() c10view {
	sk := w.s.Stakingkeeper
	vw := c10view{vals: map[int]string{}, dels: map[[2]int]string{}}
	allVals, err := sk.GetAllValidators(w.ctx)
	if err != nil {
		w.t.Fatal(err)
	}
	for _, v := range allVals {
		op, _ := sdk.ValAddressFromBech32(v.GetOperator())
		id := w.id(op.Bytes())
		vw.vals[id] = fmt.Sprintf("mkVal %d %d %s %s %s", id, int32(v.Status), cbool(v.Jailed), cz(v.Tokens.BigInt()), cz(v.DelegatorShares.BigInt()))
	}
	for i, a := range w.addrs {
		// IterateDelegatorDelegations order (the order ReporterStake / CheckSelectorsDelegations see)
		// is ascending validator address = ascending validator number; checked here
		last := -1
		err := sk.IterateDelegatorDelegations(w.ctx, a, func(d stakingtypes.Delegation) bool {
			op, _ := sdk.ValAddressFromBech32(d.ValidatorAddress)
			v := w.id(op.Bytes())
			if v <= last {
				w.t.Fatalf("c10: delegations of %d not in ascending validator order", i)
			}
			last = v
			vw.dels[[2]int{i, v}] = fmt.Sprintf("mkDel %d %d %s", i, v, cz(d.Shares.BigInt()))
			return false
		})
		if err != nil {
			w.t.Fatal(err)
		}
	}
	var po []string
	it, err := sk.ValidatorsPowerStoreIterator(w.ctx)
	if err != nil {
		w.t.Fatal(err)
	}
	for ; it.Valid(); it.Next() {
		po = append(po, fmt.Sprint(w.id(it.Value())))
	}
	it.Close()
	maxv, err := sk.MaxValidators(w.ctx)
	if err != nil {
		w.t.Fatal(err)
	}
	ub, err := sk.UnbondingTime(w.ctx)
	if err != nil {
		w.t.Fatal(err)
	}
	vw.tail = fmt.Sprintf("%s %d %d", clist(po), maxv, int64(ub))
	return vw
}

// syncEnv emits the difference to the previous staking view when it changed
func (w *c10World) syncEnv() {
	v := w.view()
	var vals, gonev, dels, goned []string
	ids := make([]int, 0, len(v.vals))
	for id := range v.vals {
		ids = append(ids, id)
	}
	sort.Ints(ids)
	for _, id := range ids {
		if w.lastView.vals[id] != v.vals[id] {
			vals = append(vals, v.vals[id])
		}
	}
	for id := range w.lastView.vals {
		if _, ok := v.vals[id]; !ok {
			gonev = append(gonev, fmt.Sprint(id))
		}
	}
	sort.Strings(gonev)
	keys := make([][2]int, 0, len(v.dels))
	for k := range v.dels {
		keys = append(keys, k)
	}
	sort.Slice(keys, func(i, j int) bool { return keys[i][0] < keys[j][0] || keys[i][0] == keys[j][0] && keys[i][1] < keys[j][1] })
	for _, k := range keys {
		if w.lastView.dels[k] != v.dels[k] {
			dels = append(dels, v.dels[k])
		}
	}
	for k := range w.lastView.dels {
		if _, ok := v.dels[k]; !ok {
			goned = append(goned, fmt.Sprintf("(%d, %d)", k[0], k[1]))
		}
	}
	sort.Strings(goned)
	if len(vals)+len(gonev)+len(dels)+len(goned) == 0 && v.tail == w.lastView.tail {
		return
	}
	w.lastView = v
	w.emit(fmt.Sprintf("CEnv %s %s %s %s %s", clist(vals), clist(gonev), clist(dels), clist(goned), v.tail), 0, nil)
}

func (w *c10World) emitParams() {
	rp, err := w.s.Reporterkeeper.Params.Get(w.ctx)
	if err != nil {
		w.t.Fatal(err)
	}
	op, err := w.s.Oraclekeeper.Params.Get(w.ctx)
	if err != nil {
		w.t.Fatal(err)
	}
	w.emit(fmt.Sprintf("OParams (mkPar %s %s %s)", cz(rp.MinTrb.BigInt()), czu(rp.MaxSelectors), cz(op.MinStakeAmount.BigInt())), 0, nil)
}

// ---- execution ----------------------------------------------------------------------------
// run f in a cache context (transaction semantics), commit on success, recover panics
func (w *c10World) tx(f func(ctx sdk.Context) error) (err error) {
	cctx, write := w.ctx.CacheContext()
	cctx = cctx.WithEventManager(sdk.NewEventManager())
	defer func() {
		if rec := recover(); rec != nil {
			err = fmt.Errorf("panic: %v", rec)
		}
	}()
	if e := f(cctx); e != nil {
		return e
	}
	write()
	return nil
}

func (w *c10World) code(opname string, err error) int {
	c := w.code0(opname, err)
	w.feat[fmt.Sprintf("%s/%d", opname, c)]++
	return c
}

func (w *c10World) code0(opname string, err error) int {
	if err == nil {
		return 0
	}
	m := err.Error()
	has := func(s string) bool { return strings.Contains(m, s) }
	switch {
	case has("address does not have min tokens required"):
		return 1
	case has("reporters chosen min to join must be gte"):
		return 2
	case has("address already exists"):
		return 3
	case has("commission rate must be LTE"):
		return 4
	case has("selector already exists"):
		return 5
	case has("selector can only be removed if reporter has reached max selectors"):
		return 12
	case has("reporter has reached max selectors"):
		return 7
	case has("min requirement") && has("not met by selector"):
		return 8
	case has("cannot switch reporter if selector is a reporter"):
		return 10
	case has("selector can't be removed if reporter's min requirement is met"):
		return 11
	case errors.Is(err, reportertypes.ErrReporterNotJailed):
		return 13
	case errors.Is(err, reportertypes.ErrReporterJailed) && has("before jail time is up"):
		return 14
	case errors.Is(err, reportertypes.ErrReporterJailed) && has("cannot jail already jailed"):
		return 15
	case errors.Is(err, reportertypes.ErrReporterJailed):
		return 16
	case errors.Is(err, oracletypes.ErrNotEnoughStake):
		return 17
	case errors.Is(err, collections.ErrNotFound) && has("OracleReporter"):
		return 6
	case errors.Is(err, collections.ErrNotFound) && has("Selection"):
		return 9
	}
	if c10DebugOn {
		fmt.Println("c10: unclassified error of", opname, ":", m)
	}
	w.feat["unclassified:"+opname]++
	return 99
}

func (w *c10World) coin(a *big.Int) sdk.Coin { return sdk.NewCoin(w.s.Denom, math.NewIntFromBigInt(a)) }

func (w *c10World) valAddr(i int) sdk.ValAddress { return sdk.ValAddress(w.addrs[i].Bytes()) }

// staking operations (environment): the step emitted is the new view, if it changed
func (w *c10World) delegate(a, v int, amt *big.Int) error {
	err := w.tx(func(ctx sdk.Context) error {
		_, e := w.stakingMS.Delegate(ctx, &stakingtypes.MsgDelegate{DelegatorAddress: w.addrs[a].String(), ValidatorAddress: w.valAddr(v).String(), Amount: w.coin(amt)})
		return e
	})
	w.syncEnv()
	return err
}

func (w *c10World) undelegate(a, v int, amt *big.Int) error {
	err := w.tx(func(ctx sdk.Context) error {
		_, e := w.stakingMS.Undelegate(ctx, &stakingtypes.MsgUndelegate{DelegatorAddress: w.addrs[a].String(), ValidatorAddress: w.valAddr(v).String(), Amount: w.coin(amt)})
		return e
	})
	w.syncEnv()
	return err
}

func (w *c10World) redelegate(a, v1, v2 int, amt *big.Int) error {
	err := w.tx(func(ctx sdk.Context) error {
		_, e := w.stakingMS.BeginRedelegate(ctx, &stakingtypes.MsgBeginRedelegate{DelegatorAddress: w.addrs[a].String(), ValidatorSrcAddress: w.valAddr(v1).String(), ValidatorDstAddress: w.valAddr(v2).String(), Amount: w.coin(amt)})
		return e
	})
	w.syncEnv()
	return err
}

func (w *c10World) activeVals(ctx sdk.Context) int {
	bonded, _ := w.s.Stakingkeeper.GetBondedValidatorsByPower(ctx)
	n := 0
	for _, b := range bonded {
		if !b.Jailed {
			n++
		}
	}
	return n
}

func (w *c10World) valJail(v int, jail bool) error {
	err := w.tx(func(ctx sdk.Context) error {
		val, e := w.s.Stakingkeeper.GetValidator(ctx, w.valAddr(v))
		if e != nil {
			return e
		}
		cons, e := val.GetConsAddr()
		if e != nil {
			return e
		}
		if jail {
			if val.Jailed {
				return fmt.Errorf("already jailed")
			}
			if val.IsBonded() && w.activeVals(ctx) <= 1 {
				return fmt.Errorf("last active validator")
			}
			return w.s.Stakingkeeper.Jail(ctx, cons)
		}
		if !val.Jailed {
			return fmt.Errorf("not jailed")
		}
		return w.s.Stakingkeeper.Unjail(ctx, cons)
	})
	w.syncEnv()
	return err
}

func (w *c10World) valSlash(v int, fraction math.LegacyDec) error {
	err := w.tx(func(ctx sdk.Context) error {
		val, e := w.s.Stakingkeeper.GetValidator(ctx, w.valAddr(v))
		if e != nil {
			return e
		}
		cons, e := val.GetConsAddr()
		if e != nil {
			return e
		}
		power := val.GetConsensusPower(sdk.DefaultPowerReduction)
		if power == 0 {
			return fmt.Errorf("no power")
		}
		_, e = w.s.Stakingkeeper.Slash(ctx, cons, ctx.BlockHeight(), power, fraction)
		return e
	})
	w.syncEnv()
	return err
}

func (w *c10World) setMaxValidators(n uint32) {
	_ = w.tx(func(ctx sdk.Context) error {
		sp, e := w.s.Stakingkeeper.GetParams(ctx)
		if e != nil {
			return e
		}
		sp.MaxValidators = n
		return w.s.Stakingkeeper.SetParams(ctx, sp)
	})
	w.syncEnv()
}

func (w *c10World) setMaxSelectors(n uint64) {
	rp, err := w.s.Reporterkeeper.Params.Get(w.ctx)
	if err != nil {
		w.t.Fatal(err)
	}
	rp.MaxSelectors = n
	if err := w.s.Reporterkeeper.Params.Set(w.ctx, rp); err != nil {
		w.t.Fatal(err)
	}
	w.emitParams()
}

// end the block (staking EndBlocker: validator set update, matured unbondings) and start the next
func (w *c10World) nextBlock(gap time.Duration) {
	if _, err := w.s.Stakingkeeper.EndBlocker(w.ctx); err != nil {
		w.t.Fatalf("c10: staking EndBlocker: %v", err)
	}
	w.syncEnv()
	w.height++
	w.now = w.now.Add(gap)
	w.ctx = w.ctx.WithBlockHeight(w.height).WithBlockTime(w.now).WithEventManager(sdk.NewEventManager())
	w.s.Ctx = w.ctx
	w.emit(fmt.Sprintf("OBlock %d %s", w.height, cz(c10ns(w.now))), 0, nil)
}

// reporter module operations
func (w *c10World) create(a int, minreq *big.Int, comm math.LegacyDec) int {
	err := w.tx(func(ctx sdk.Context) error {
		_, e := w.reporterMS.CreateReporter(ctx, &reportertypes.MsgCreateReporter{ReporterAddress: w.addrs[a].String(), CommissionRate: comm, MinTokensRequired: math.NewIntFromBigInt(minreq)})
		return e
	})
	c := w.code("create", err)
	w.emit(fmt.Sprintf("OCreate %d %s %s", a, cz(minreq), cbool(comm.LTE(math.LegacyNewDec(100)))), c, nil)
	w.syncEnv()
	return c
}

func (w *c10World) selectRep(a, r int) int {
	err := w.tx(func(ctx sdk.Context) error {
		_, e := w.reporterMS.SelectReporter(ctx, &reportertypes.MsgSelectReporter{SelectorAddress: w.addrs[a].String(), ReporterAddress: w.addrs[r].String()})
		return e
	})
	c := w.code("select", err)
	w.emit(fmt.Sprintf("OSelect %d %d", a, r), c, nil)
	w.syncEnv()
	return c
}

func (w *c10World) switchRep(a, r int) int {
	err := w.tx(func(ctx sdk.Context) error {
		_, e := w.reporterMS.SwitchReporter(ctx, &reportertypes.MsgSwitchReporter{SelectorAddress: w.addrs[a].String(), ReporterAddress: w.addrs[r].String()})
		return e
	})
	c := w.code("switch", err)
	w.emit(fmt.Sprintf("OSwitch %d %d", a, r), c, nil)
	w.syncEnv()
	return c
}

func (w *c10World) remove(signer, a int) int {
	err := w.tx(func(ctx sdk.Context) error {
		_, e := w.reporterMS.RemoveSelector(ctx, &reportertypes.MsgRemoveSelector{AnyAddress: w.addrs[signer].String(), SelectorAddress: w.addrs[a].String()})
		return e
	})
	c := w.code("remove", err)
	w.emit(fmt.Sprintf("ORemove %d", a), c, nil)
	w.syncEnv()
	return c
}

func (w *c10World) jail(r int, dur uint64) int {
	err := w.tx(func(ctx sdk.Context) error {
		return w.s.Reporterkeeper.JailReporter(ctx, w.addrs[r], dur)
	})
	c := w.code("jail", err)
	w.emit(fmt.Sprintf("OJail %d %s", r, czu(dur)), c, nil)
	w.syncEnv()
	return c
}

func (w *c10World) unjail(r int) int {
	err := w.tx(func(ctx sdk.Context) error {
		_, e := w.reporterMS.UnjailReporter(ctx, &reportertypes.MsgUnjailReporter{ReporterAddress: w.addrs[r].String()})
		return e
	})
	c := w.code("unjail", err)
	w.emit(fmt.Sprintf("OUnjail %d", r), c, nil)
	w.syncEnv()
	return c
}

// features of the state a report is evaluated in (for the distribution buckets of the evidence)
func (w *c10World) reportFeatures(r int) (byPower, locked bool) {
	maxv, _ := w.s.Stakingkeeper.MaxValidators(w.ctx)
	_ = w.s.Reporterkeeper.Selectors.Walk(w.ctx, nil, func(_ []byte, v reportertypes.Selection) (bool, error) {
		if bytes.Equal(v.Reporter, w.addrs[r].Bytes()) {
			if v.LockedUntilTime.After(w.now) {
				locked = true
			} else if v.DelegationsCount > uint64(maxv) {
				byPower = true
			}
		}
		return false, nil
	})
	return
}

func (w *c10World) report(r, q int) (int, *c10report) {
	byPower, locked := w.reportFeatures(r)
	// make the query reportable (a tip by an outsider); this is not part of the property
	if err := w.tx(func(ctx sdk.Context) error {
		_, e := w.oracleMS.Tip(ctx, &oracletypes.MsgTip{Tipper: w.tipper.String(), QueryData: w.queries[q], Amount: w.coin(bi(10_000))})
		return e
	}); err != nil {
		w.t.Fatalf("c10: tip failed: %v", err)
	}
	var rep *c10report
	err := w.tx(func(ctx sdk.Context) error {
		_, e := w.oracleMS.SubmitValue(ctx, &oracletypes.MsgSubmitValue{Creator: w.addrs[r].String(), QueryData: w.queries[q], Value: fmt.Sprintf("%064x", 1000+w.nOps)})
		if e != nil {
			return e
		}
		qm, e := w.s.Oraclekeeper.CurrentQuery(ctx, w.qids[q])
		if e != nil {
			return fmt.Errorf("c10 harness: %w", e)
		}
		mr, e := w.s.Oraclekeeper.Reports.Get(ctx, collections.Join3(w.qids[q], w.addrs[r].Bytes(), qm.Id))
		if e != nil {
			return fmt.Errorf("c10 harness: %w", e)
		}
		snap, e := w.s.Reporterkeeper.Report.Get(ctx, collections.Join(w.qids[q], collections.Join(w.addrs[r].Bytes(), uint64(ctx.BlockHeight()))))
		if e != nil {
			return fmt.Errorf("c10 harness: %w", e)
		}
		rep = &c10report{total: snap.Total.BigInt(), power: mr.Power}
		for _, o := range snap.TokenOrigins {
			rep.origins = append(rep.origins, fmt.Sprintf("(%d, %d, %s)", w.id(o.DelegatorAddress), w.id(o.ValidatorAddress), cz(o.Amount.BigInt())))
		}
		return nil
	})
	c := w.code("report", err)
	w.feat["reports"]++
	if c != 0 {
		rep = nil
	} else {
		w.feat["accepted"]++
		if byPower {
			w.feat["accepted_by_power_walk"]++
		}
		if locked {
			w.feat["accepted_with_locked_selector_excluded"]++
		}
		sels := map[string]bool{}
		for _, o := range rep.origins {
			sels[strings.SplitN(o, ",", 2)[0]] = true
		}
		if len(sels) >= 2 {
			w.feat["multi"]++
		}
	}
	w.emit(fmt.Sprintf("OReport %d %d", r, q), c, rep)
	w.syncEnv()
	return c, rep
}

func (w *c10World) term() string { return "Hist " + clist(w.steps) }

// ---- state queries used by the generator ----------------------------------------------------
func (w *c10World) reporters() []int {
	var out []int
	_ = w.s.Reporterkeeper.Reporters.Walk(w.ctx, nil, func(key []byte, _ reportertypes.OracleReporter) (bool, error) {
		out = append(out, w.id(key))
		return false, nil
	})
	return out
}

func (w *c10World) selection(a int) (reportertypes.Selection, bool) {
	s, err := w.s.Reporterkeeper.Selectors.Get(w.ctx, w.addrs[a].Bytes())
	return s, err == nil
}

func (w *c10World) delegationsOf(a int) []stakingtypes.Delegation {
	ds, _ := w.s.Stakingkeeper.GetDelegatorDelegations(w.ctx, w.addrs[a], 100)
	return ds
}

func (w *c10World) bondedTokens(a int) *big.Int {
	tot := bi(0)
	for _, d := range w.delegationsOf(a) {
		op, _ := sdk.ValAddressFromBech32(d.ValidatorAddress)
		v, err := w.s.Stakingkeeper.GetValidator(w.ctx, op)
		if err == nil && v.IsBonded() {
			tot = badd(tot, v.TokensFromShares(d.Shares).TruncateInt().BigInt())
		}
	}
	return tot
}

// c10Hand addresses accounts by creation index (validators 0..nVals-1, then plain accounts): the
// fixture's genesis validator has a random address, so the byte-order numbers differ between runs
type c10Hand struct{ *c10World }

func (h c10Hand) create(a int, minreq *big.Int, comm math.LegacyDec) int {
	return h.c10World.create(h.inc[a], minreq, comm)
}
func (h c10Hand) selectRep(a, r int) int { return h.c10World.selectRep(h.inc[a], h.inc[r]) }
func (h c10Hand) switchRep(a, r int) int { return h.c10World.switchRep(h.inc[a], h.inc[r]) }
func (h c10Hand) remove(signer, a int) int { return h.c10World.remove(h.inc[signer], h.inc[a]) }
func (h c10Hand) jail(r int, dur uint64) int { return h.c10World.jail(h.inc[r], dur) }
func (h c10Hand) unjail(r int) int { return h.c10World.unjail(h.inc[r]) }
func (h c10Hand) report(r, q int) (int, *c10report) { return h.c10World.report(h.inc[r], q) }
func (h c10Hand) delegate(a, v int, amt *big.Int) error { return h.c10World.delegate(h.inc[a], h.inc[v], amt) }
func (h c10Hand) undelegate(a, v int, amt *big.Int) error {
	return h.c10World.undelegate(h.inc[a], h.inc[v], amt)
}
func (h c10Hand) redelegate(a, v1, v2 int, amt *big.Int) error {
	return h.c10World.redelegate(h.inc[a], h.inc[v1], h.inc[v2], amt)
}
func (h c10Hand) valJail(v int, jail bool) error { return h.c10World.valJail(h.inc[v], jail) }
func (h c10Hand) valSlash(v int, f math.LegacyDec) error { return h.c10World.valSlash(h.inc[v], f) }

// ---- hand-written histories -------------------------------------------------------------------
type c10Corpus struct {
	name string
	run  func(t *testing.T, r *rand.Rand) *c10World
}

func c10CorpusList() []c10Corpus {
	day := 24 * time.Hour
	one := math.LegacyZeroDec()
	return []c10Corpus{
		{"lock_boundary", func(t *testing.T, r *rand.Rand) *c10World {
			// selector 3 backs reporter 0, 0 reports, 3 switches to 1: locked for exactly the unbonding time
			w := c10Hand{c10NewWorld(t, r, 3, 3, 10, 3*day, 5)}
			w.create(0, bi(c10TRB), one)
			w.create(1, bi(c10TRB), one)
			w.delegate(3, 0, bi(50*c10TRB))
			w.delegate(3, 1, bi(7*c10TRB+1))
			w.selectRep(3, 0)
			w.nextBlock(time.Second)
			w.report(0, 0)
			w.nextBlock(5 * time.Second)
			w.switchRep(3, 1)
			w.report(1, 0)
			w.report(0, 1)
			w.nextBlock(3*day - time.Nanosecond)
			w.report(1, 1) // one nanosecond before the lock ends: 3 not counted
			w.nextBlock(time.Nanosecond)
			w.report(1, 2) // lock over: counted
			w.report(0, 2)
			return w.c10World
		}},
		{"switch_before_first_report", func(t *testing.T, r *rand.Rand) *c10World {
			// the previous reporter never reported: no lock; then it has: lock
			w := c10Hand{c10NewWorld(t, r, 3, 3, 10, day, 5)}
			w.create(0, bi(c10TRB), one)
			w.create(1, bi(2*c10TRB), one)
			w.create(2, bi(c10TRB), one)
			w.delegate(4, 2, bi(2*c10TRB))
			w.selectRep(4, 0)
			w.switchRep(4, 1)
			w.report(1, 0)
			w.report(0, 0)
			w.nextBlock(time.Second)
			w.switchRep(4, 2)
			w.report(2, 1)
			w.switchRep(4, 0) // reporter 2 reported without 4: lock renewed all the same
			w.nextBlock(day)
			w.report(0, 1)
			w.report(2, 2)
			return w.c10World
		}},
		{"cap_and_min_boundaries", func(t *testing.T, r *rand.Rand) *c10World {
			w := c10Hand{c10NewWorld(t, r, 2, 5, 10, day, 3)}
			w.create(0, bi(5*c10TRB), one)
			w.create(1, bi(c10TRB-1), one)    // chosen min below MinTrb
			w.create(1, bi(c10TRB), math.LegacyNewDec(101))
			w.create(1, bi(c10TRB), math.LegacyNewDec(100))
			w.create(3, bi(c10TRB), one)      // no bonded tokens
			w.delegate(2, 0, bi(5*c10TRB-1))
			w.selectRep(2, 0) // one loya short
			w.delegate(2, 1, bi(1))
			w.selectRep(2, 0) // exactly the minimum
			w.delegate(3, 0, bi(5*c10TRB))
			w.selectRep(3, 0) // third selector: at the cap afterwards
			w.delegate(4, 1, bi(9*c10TRB))
			w.selectRep(4, 0) // cap reached
			w.selectRep(4, 1)
			w.switchRep(4, 0) // cap reached
			w.switchRep(3, 1)
			w.switchRep(4, 0) // room again
			w.selectRep(4, 1) // already a selector
			w.switchRep(0, 1) // a reporter cannot switch
			w.switchRep(5, 1) // not a selector
			w.selectRep(5, 6) // no such reporter
			w.remove(5, 2)    // meets the minimum
			w.undelegate(2, 1, bi(1))
			w.remove(5, 2) // below the minimum but the reporter is not over the cap
			w.report(0, 0)
			w.report(1, 0)
			return w.c10World
		}},
		{"jail_boundary", func(t *testing.T, r *rand.Rand) *c10World {
			w := c10Hand{c10NewWorld(t, r, 2, 2, 10, day, 5)}
			w.create(0, bi(c10TRB), one)
			w.report(0, 0)
			w.unjail(0) // not jailed
			w.jail(0, 600)
			w.jail(0, 1) // already jailed
			w.report(0, 1)
			w.unjail(0)
			w.nextBlock(600*time.Second - time.Nanosecond)
			w.unjail(0)
			w.report(0, 1)
			w.nextBlock(time.Nanosecond)
			w.report(0, 1) // time is up but not yet released
			w.unjail(0)
			w.report(0, 1)
			w.jail(0, 0)
			w.report(0, 2)
			w.unjail(0)
			w.report(0, 2)
			w.jail(1, 5) // unknown reporter
			w.unjail(1)
			w.report(2, 0) // not a reporter
			w.jail(0, ^uint64(0)-599) // duration wraps: 600 s in the past
			w.unjail(0)
			return w.c10World
		}},
		{"by_power_and_by_delegation", func(t *testing.T, r *rand.Rand) *c10World {
			// MaxValidators 2 of 4 (+ genesis): selector 5 has 3 delegations (by-power walk), 6 has 2
			w := c10Hand{c10NewWorld(t, r, 4, 3, 2, day, 5)}
			w.create(0, bi(c10TRB), one)
			for _, v := range []int{0, 1, 2} {
				w.delegate(5, v, bi(int64(3+v)*c10TRB+int64(v)))
			}
			w.delegate(6, 1, bi(4*c10TRB))
			w.delegate(6, 3, bi(2*c10TRB))
			w.selectRep(5, 0)
			w.selectRep(6, 0)
			w.report(0, 0)
			w.delegate(1, 1, bi(3000*c10TRB)) // reorder the power index
			w.delegate(2, 2, bi(4000*c10TRB))
			w.report(0, 1)
			w.nextBlock(time.Second)
			w.report(0, 2)
			w.undelegate(5, 2, bi(5*c10TRB+2)) // back to 2 delegations: by-delegation walk
			w.report(0, 0)
			w.setMaxValidators(1)
			w.report(0, 1)
			w.nextBlock(time.Second)
			w.report(0, 2)
			return w.c10World
		}},
		{"F43_exchange_rate", func(t *testing.T, r *rand.Rand) *c10World {
			// a slashed validator has an inexact exchange rate: the two walks value the same
			// delegation differently (TokensFromSharesTruncated vs TokensFromShares().TruncateInt())
			w := c10Hand{c10NewWorld(t, r, 3, 3, 2, day, 5)}
			w.create(0, bi(c10TRB), one)
			w.delegate(1, 1, bi(5000*c10TRB)) // stays in the active set after the slash
			w.valSlash(1, math.LegacyNewDecWithPrec(333333, 6))
			w.nextBlock(time.Second)
			for _, amt := range []int64{c10TRB, 3*c10TRB + 7, 1234567} {
				w.delegate(4, 1, bi(amt))
			}
			w.delegate(4, 0, bi(2*c10TRB))
			w.delegate(4, 2, bi(c10TRB))
			w.delegate(5, 1, bi(c10TRB))
			w.selectRep(4, 0)
			w.selectRep(5, 0)
			w.report(0, 0)
			w.create(5, bi(c10TRB), one) // already a selector
			w.switchRep(5, 1)
			return w.c10World
		}},
		{"F43_min_stake", func(t *testing.T, r *rand.Rand) *c10World {
			// a reporter whose only selector holds exactly the minimum stake at a slashed validator,
			// through three delegations: the by-power walk finds one loya less and the report is refused
			w := c10Hand{c10NewWorld(t, r, 3, 2, 2, day, 5)}
			w.delegate(1, 1, bi(5000*c10TRB)) // stays in the active set after the slash
			w.valSlash(1, math.LegacyNewDecWithPrec(333333, 6))
			w.nextBlock(time.Second)
			w.delegate(3, 1, bi(c10TRB))
			w.delegate(3, 0, bi(1))
			w.undelegate(3, 0, bi(1))
			w.create(3, bi(c10TRB), one)
			w.report(3, 0)
			w.delegate(3, 0, bi(1))
			w.delegate(3, 2, bi(1))
			w.report(3, 1)
			return w.c10World
		}},
		{"F44_jailed_still_bonded", func(t *testing.T, r *rand.Rand) *c10World {
			// a validator jailed in this block still has status bonded until the end of the block:
			// the by-delegation walk counts it, the by-power walk (power index) does not
			w := c10Hand{c10NewWorld(t, r, 4, 3, 3, day, 5)}
			w.create(0, bi(c10TRB), one)
			for _, v := range []int{0, 1, 2, 3} {
				w.delegate(5, v, bi(2*c10TRB))
			}
			w.delegate(6, 1, bi(2*c10TRB))
			w.selectRep(5, 0)
			w.selectRep(6, 0)
			w.nextBlock(time.Second)
			w.report(0, 0)
			w.valJail(1, true)
			w.report(0, 1)
			w.nextBlock(time.Second)
			w.report(0, 2)
			w.valJail(1, false)
			w.report(0, 0)
			w.nextBlock(time.Second)
			w.report(0, 1)
			return w.c10World
		}},
		{"F17_remove_reselect", func(t *testing.T, r *rand.Rand) *c10World {
			// the cap is lowered, a selector below the minimum is removed, selects another reporter:
			// no lock, its stake is counted for both reporters within the unbonding period
			w := c10Hand{c10NewWorld(t, r, 3, 4, 10, 21*day, 3)}
			w.create(0, bi(4*c10TRB), one)
			w.create(1, bi(c10TRB), one)
			w.delegate(3, 2, bi(4*c10TRB))
			w.delegate(4, 2, bi(4*c10TRB))
			w.selectRep(3, 0)
			w.selectRep(4, 0)
			w.report(0, 0)
			w.nextBlock(time.Second)
			w.setMaxSelectors(2)
			w.remove(5, 3) // still meets the minimum
			w.undelegate(3, 2, bi(1))
			w.remove(5, 3)
			w.selectRep(3, 1)
			w.report(1, 0)
			return w.c10World
		}},
		{"F17_recreate_escapes_jail", func(t *testing.T, r *rand.Rand) *c10World {
			// after the cap was lowered a jailed reporter's own selection can be removed; creating the
			// reporter again resets the jail
			w := c10Hand{c10NewWorld(t, r, 2, 4, 10, day, 3)}
			w.delegate(2, 0, bi(10*c10TRB))
			w.create(2, bi(10*c10TRB), one)
			w.delegate(3, 0, bi(10*c10TRB))
			w.delegate(4, 0, bi(10*c10TRB))
			w.selectRep(3, 2)
			w.selectRep(4, 2)
			w.jail(2, 1_000_000)
			w.setMaxSelectors(2)
			w.undelegate(2, 0, bi(1))
			w.remove(5, 2)
			w.delegate(2, 0, bi(1))
			w.create(2, bi(10*c10TRB), one)
			w.report(2, 0)
			return w.c10World
		}},
		{"hooks_count", func(t *testing.T, r *rand.Rand) *c10World {
			// DelegationsCount follows creation / removal of delegations, redelegation, full undelegation
			w := c10Hand{c10NewWorld(t, r, 3, 2, 10, day, 5)}
			w.create(0, bi(c10TRB), one)
			w.delegate(3, 0, bi(c10TRB))
			w.selectRep(3, 0)
			w.delegate(3, 1, bi(c10TRB))
			w.delegate(3, 1, bi(c10TRB))
			w.redelegate(3, 1, 2, bi(2*c10TRB))
			w.redelegate(3, 0, 2, bi(c10TRB/2))
			w.undelegate(3, 0, bi(c10TRB/2))
			w.undelegate(3, 2, bi(2*c10TRB+c10TRB/2))
			w.report(0, 0)
			w.delegate(3, 1, bi(1))
			w.report(0, 1)
			return w.c10World
		}},
	}
}

// ---- generator ---------------------------------------------------------------------------------
func (w *c10World) amount() *big.Int {
	r := w.r
	switch r.Intn(6) {
	case 0:
		return bi(int64(pick(r, 1, 2, 999_999, 1_000_000, 1_000_001, 1_999_999, 2_000_000)))
	case 1:
		return bi(int64(1+r.Intn(40)) * c10TRB)
	default:
		return bi(1 + r.Int63n(30*c10TRB))
	}
}

func (w *c10World) someDel(a int) (int, *big.Int, bool) {
	ds := w.delegationsOf(a)
	if len(ds) == 0 {
		return 0, nil, false
	}
	d := ds[w.r.Intn(len(ds))]
	op, _ := sdk.ValAddressFromBech32(d.ValidatorAddress)
	v, err := w.s.Stakingkeeper.GetValidator(w.ctx, op)
	if err != nil {
		return 0, nil, false
	}
	return w.id(op.Bytes()), v.TokensFromShares(d.Shares).TruncateInt().BigInt(), true
}

// gap to the next block: mostly short, sometimes exactly at / around a pending lock or jail end
func (w *c10World) gap(unbond time.Duration) time.Duration {
	r := w.r
	var marks []time.Time
	_ = w.s.Reporterkeeper.Selectors.Walk(w.ctx, nil, func(_ []byte, v reportertypes.Selection) (bool, error) {
		if v.LockedUntilTime.After(w.now) {
			marks = append(marks, v.LockedUntilTime)
		}
		return false, nil
	})
	_ = w.s.Reporterkeeper.Reporters.Walk(w.ctx, nil, func(_ []byte, v reportertypes.OracleReporter) (bool, error) {
		if v.Jailed && v.JailedUntil.After(w.now) {
			marks = append(marks, v.JailedUntil)
		}
		return false, nil
	})
	if len(marks) > 0 && r.Intn(3) == 0 {
		m := marks[r.Intn(len(marks))]
		d := m.Sub(w.now) + time.Duration(pick(r, -1, 0, 0, 1))
		if d > 0 {
			return d
		}
	}
	switch r.Intn(10) {
	case 0:
		return unbond
	case 1:
		return unbond/2 + time.Duration(r.Int63n(int64(unbond)))
	case 2:
		return time.Duration(1 + r.Intn(1000))
	default:
		return time.Duration(1+r.Intn(6)) * time.Second
	}
}

func (w *c10World) genOp(unbond time.Duration) {
	r := w.r
	w.nOps++
	a := w.actors[r.Intn(len(w.actors))]
	reps := w.reporters()
	someRep := func() int {
		if len(reps) > 0 && r.Intn(8) != 0 {
			return reps[r.Intn(len(reps))]
		}
		return w.actors[r.Intn(len(w.actors))]
	}
	switch k := r.Intn(100); {
	case k < 16: // delegate (often to a validator the account has no delegation with)
		v := w.vals[r.Intn(len(w.vals))]
		w.delegate(a, v, w.amount())
	case k < 23:
		if v, val, ok := w.someDel(a); ok {
			amt := pick(r, val, val, bquo(val, bi(2)), bi(1), badd(val, bi(1)), bsub(val, bi(1)))
			if amt.Sign() <= 0 {
				amt = bi(1)
			}
			w.undelegate(a, v, amt)
		}
	case k < 28:
		if v, val, ok := w.someDel(a); ok {
			v2 := w.vals[r.Intn(len(w.vals))]
			amt := pick(r, val, bquo(val, bi(2)), bi(c10TRB))
			if amt.Sign() <= 0 {
				amt = bi(1)
			}
			w.redelegate(a, v, v2, amt)
		}
	case k < 32:
		v := w.vals[r.Intn(len(w.vals))]
		val, err := w.s.Stakingkeeper.GetValidator(w.ctx, w.valAddr(v))
		if err == nil {
			w.valJail(v, !val.Jailed)
			if r.Intn(6) != 0 {
				w.nextBlock(w.gap(unbond)) // mostly the status change is applied before anything else happens
			}
		}
	case k < 34:
		v := w.vals[r.Intn(len(w.vals))]
		w.valSlash(v, pick(r, math.LegacyNewDecWithPrec(333333, 6), math.LegacyNewDecWithPrec(5, 1), math.LegacyNewDecWithPrec(1, 2), math.LegacyNewDecWithPrec(7, 3)))
	case k < 40:
		minreq := pick(r, bi(c10TRB), bi(c10TRB), bi(2*c10TRB), bi(c10TRB-1), w.bondedTokens(a), badd(w.bondedTokens(a), bi(1)))
		comm := pick(r, math.LegacyZeroDec(), math.LegacyNewDecWithPrec(5, 1), math.LegacyNewDec(100), math.LegacyNewDec(101))
		w.create(a, minreq, comm)
	case k < 52:
		// select: prefer an account that is not yet a selector
		for _, i := range r.Perm(len(w.actors)) {
			if _, ok := w.selection(w.actors[i]); !ok && r.Intn(6) != 0 {
				a = w.actors[i]
				break
			}
		}
		rep := someRep()
		// sometimes place the bonded amount exactly at / one below the reporter's minimum
		if rp, err := w.s.Reporterkeeper.Reporters.Get(w.ctx, w.addrs[rep].Bytes()); err == nil && r.Intn(3) == 0 {
			have := w.bondedTokens(a)
			want := badd(rp.MinTokensRequired.BigInt(), bi(int64(pick(r, -1, 0, 1))))
			if want.Cmp(have) > 0 {
				w.delegate(a, w.vals[r.Intn(len(w.vals))], bsub(want, have))
			}
		}
		w.selectRep(a, rep)
	case k < 64:
		for _, i := range r.Perm(len(w.actors)) {
			if s, ok := w.selection(w.actors[i]); ok && !bytes.Equal(s.Reporter, w.addrs[w.actors[i]].Bytes()) && r.Intn(6) != 0 {
				a = w.actors[i]
				break
			}
		}
		rep := someRep()
		if w.switchRep(a, rep) == 0 && r.Intn(2) == 0 {
			w.report(rep, r.Intn(len(w.queries))) // the new reporter reports while the selector is (or is not) locked
		}
	case k < 68:
		target := w.actors[r.Intn(len(w.actors))]
		// prefer a selector of a reporter that is above a (lowered) cap; often bring it below the minimum first
		cur, _ := w.s.Reporterkeeper.Params.Get(w.ctx)
		for _, i := range r.Perm(len(w.actors)) {
			s, ok := w.selection(w.actors[i])
			if !ok || r.Intn(4) == 0 {
				continue
			}
			n, _ := w.s.Reporterkeeper.GetNumOfSelectors(w.ctx, sdk.AccAddress(s.Reporter))
			if uint64(n) > cur.MaxSelectors {
				target = w.actors[i]
				if v, val, ok := w.someDel(target); ok && r.Intn(3) != 0 {
					w.undelegate(target, v, val)
				}
				break
			}
		}
		w.remove(a, target)
	case k < 72:
		w.jail(someRep(), pick(r, uint64(0), 1, 5, 600, 600, 86400, uint64(unbond/time.Second), ^uint64(0)-4, 1<<63-1))
	case k < 77:
		rep := someRep()
		for _, x := range reps {
			if rp, err := w.s.Reporterkeeper.Reporters.Get(w.ctx, w.addrs[x].Bytes()); err == nil && rp.Jailed && r.Intn(4) != 0 {
				rep = x
			}
		}
		w.unjail(rep)
	case k < 80:
		cur, _ := w.s.Reporterkeeper.Params.Get(w.ctx)
		n := pick(r, cur.MaxSelectors+1, 2, 2, 3, 1, 1, 5)
		w.setMaxSelectors(n)
	case k < 81:
		w.setMaxValidators(uint32(pick(r, 1, 2, 3, 4, 6)))
		if r.Intn(4) != 0 {
			w.nextBlock(w.gap(unbond))
		}
	default:
		w.report(someRep(), r.Intn(len(w.queries)))
	}
}

func c10RandomHistory(t *testing.T, hs int64, blocks int) *c10World {
	r := rand.New(rand.NewSource(hs))
	nVals := 2 + r.Intn(4)
	nPlain := 3 + r.Intn(4)
	maxVals := uint32(pick(r, 1, 2, 2, 3, 3, 4, 100))
	unbond := pick(r, time.Hour, 24*time.Hour, 3*24*time.Hour, 21*24*time.Hour, 90*time.Second)
	maxSel := uint64(pick(r, 1, 2, 3, 3, 4, 100))
	w := c10NewWorld(t, r, nVals, nPlain, maxVals, unbond, maxSel)
	// a populated start: some reporters and spread-out delegations
	nrep := 1 + r.Intn(3)
	for i := 0; i < nrep && i < len(w.actors); i++ {
		a := w.actors[r.Intn(len(w.actors))]
		if len(w.delegationsOf(a)) == 0 {
			w.delegate(a, w.vals[r.Intn(len(w.vals))], bi(int64(1+r.Intn(5))*c10TRB))
		}
		w.create(a, bi(int64(pick(r, 1, 1, 2, 3))*c10TRB), math.LegacyZeroDec())
	}
	for _, a := range w.actors {
		n := pick(r, 0, 1, 1, 2, 3, 4, 5)
		for _, vi := range r.Perm(len(w.vals)) {
			if n == 0 {
				break
			}
			n--
			w.delegate(a, w.vals[vi], w.amount())
		}
	}
	for b := 0; b < blocks; b++ {
		n := r.Intn(8)
		for m := 0; m < n; m++ {
			w.genOp(unbond)
		}
		w.nextBlock(w.gap(unbond))
	}
	return w
}

func (w *c10World) emitCase(out *Out, kind, key string, tags []string) {
	reports, accepted, multi := w.feat["reports"], w.feat["accepted"], w.feat["multi"]
	if kind == "generated" {
		if w.feat["accepted_by_power_walk"] > 0 {
			kind += "+power_walk"
		}
		if w.feat["accepted_with_locked_selector_excluded"] > 0 {
			kind += "+lock"
		}
		if w.feat["unjail/0"] > 0 {
			kind += "+unjail"
		}
		if w.feat["remove/0"] > 0 {
			kind += "+remove"
		}
	}
	out.Emit(Case{Coq: w.term(), Kind: kind, Nontrivial: accepted >= 2 && multi >= 1, Key: key, Tags: tags,
		Human: map[string]interface{}{"steps": len(w.steps), "reports": reports, "accepted_reports": accepted,
			"accepted_reports_with_several_selectors": multi, "features": w.feat}})
}

func TestC10History(t *testing.T) {
	out := newOut(t, "c10_history")
	defer out.Close()
	r := rand.New(rand.NewSource(seed()))
	for _, c := range c10CorpusList() {
		w := c.run(t, r)
		tags := []string{"corpus"}
		if strings.HasPrefix(c.name, "F") {
			tags = append(tags, "corpus:"+strings.SplitN(c.name, "_", 2)[0])
		}
		w.emitCase(out, "corpus", c.name, tags)
	}
	n := count(120, 4000)
	blocks := 8
	if thorough() {
		blocks = 12
	}
	base := seed()*1_000_003 + 17
	agg := map[string]int{}
	for i := 0; i < n; i++ {
		hs := base + int64(i)
		w := c10RandomHistory(t, hs, blocks)
		w.emitCase(out, "generated", fmt.Sprint(hs), nil)
		for k, v := range w.feat {
			agg[k] += v
		}
	}
	keys := make([]string, 0, len(agg))
	for k := range agg {
		keys = append(keys, k)
	}
	sort.Strings(keys)
	for _, k := range keys {
		fmt.Printf("c10 generated histories: %s = %d\n", k, agg[k])
	}
	for k := range agg {
		if strings.HasSuffix(k, "/99") {
			t.Errorf("c10: unclassified error code in %s (%d times)", k, agg[k])
		}
	}
}

// TestC10Debug prints one history (C10_SEED = history seed, or C10_CORPUS = name)
func TestC10Debug(t *testing.T) {
	c10DebugOn = true
	defer func() { c10DebugOn = false }()
	if name := os.Getenv("C10_CORPUS"); name != "" {
		for _, c := range c10CorpusList() {
			if c.name == name {
				w := c.run(t, rand.New(rand.NewSource(1)))
				fmt.Println(len(w.steps), "steps", w.feat)
				if os.Getenv("C10_TERM") != "" {
					fmt.Println(w.term())
				}
			}
		}
		return
	}
	var hs int64
	fmt.Sscan(os.Getenv("C10_SEED"), &hs)
	w := c10RandomHistory(t, hs, 8)
	fmt.Println(len(w.steps), "steps", w.feat)
}
