package harness

// C11 — slashing takes exactly the category's share of the disputed report's stake.
// The drivers run the real msgServer.ProposeDispute / AddFeeToDispute / dispute.BeginBlocker on the
// full application fixture (real bank, staking, oracle, reporter and dispute keepers) after a
// generated staking history and print, per dispute operation, the staking slice the code looks at
// before the operation and everything it changed.

import (
	"fmt"
	"math/big"
	"math/rand"
	"strings"
	"testing"
	"time"

	setup "github.com/tellor-io/layer/tests"
	"github.com/tellor-io/layer/utils"
	"github.com/tellor-io/layer/x/dispute"
	disputekeeper "github.com/tellor-io/layer/x/dispute/keeper"
	disputetypes "github.com/tellor-io/layer/x/dispute/types"
	"github.com/tellor-io/layer/x/oracle"
	oraclekeeper "github.com/tellor-io/layer/x/oracle/keeper"
	oracletypes "github.com/tellor-io/layer/x/oracle/types"
	registrytypes "github.com/tellor-io/layer/x/registry/types"
	reporterkeeper "github.com/tellor-io/layer/x/reporter/keeper"
	reportertypes "github.com/tellor-io/layer/x/reporter/types"

	"cosmossdk.io/collections"
	"cosmossdk.io/math"

	sdk "github.com/cosmos/cosmos-sdk/types"
	authtypes "github.com/cosmos/cosmos-sdk/x/auth/types"
	stakingkeeper "github.com/cosmos/cosmos-sdk/x/staking/keeper"
	stakingtypes "github.com/cosmos/cosmos-sdk/x/staking/types"
)

type c11Fx struct {
	t      *testing.T
	s      *setup.SharedSetup
	ctx    sdk.Context
	height int64
	now    time.Time

	accts  []sdk.AccAddress // account id = index
	valOps []sdk.ValAddress // validator id = index (validator i is run by account i)
	nVals  int

	oracleMS   oracletypes.MsgServer
	disputeMS  disputetypes.MsgServer
	reporterMS reportertypes.MsgServer
	stakingMS  stakingtypes.MsgServer

	queries   [][]byte
	trackVals []int // validators of the projected staking slice (nil = all)
}

func (f *c11Fx) tracked() []int {
	if f.trackVals != nil {
		return f.trackVals
	}
	all := make([]int, len(f.valOps))
	for i := range all {
		all[i] = i
	}
	return all
}

func c11NewFx(t *testing.T, nVals, nPlain int) *c11Fx {
	s := &setup.SharedSetup{}
	s.SetupTest(t)
	rewire(t, s)
	f := &c11Fx{t: t, s: s, nVals: nVals}
	f.height = 2
	f.now = time.Unix(1_700_000_000, 0).UTC()
	s.Ctx = s.Ctx.WithBlockHeight(f.height).WithBlockTime(f.now)
	f.ctx = s.Ctx
	f.oracleMS = oraclekeeper.NewMsgServerImpl(s.Oraclekeeper)
	f.disputeMS = disputekeeper.NewMsgServerImpl(s.Disputekeeper)
	f.reporterMS = reporterkeeper.NewMsgServerImpl(s.Reporterkeeper)
	f.stakingMS = stakingkeeper.NewMsgServerImpl(s.Stakingkeeper)
	valAccs, valOps, _ := s.CreateValidators(nVals)
	f.accts = append(f.accts, valAccs...)
	f.valOps = valOps
	for _, a := range valAccs {
		s.MintTokens(a, math.NewInt(100_000*loyaPerTRB))
	}
	for i := 0; i < nPlain; i++ {
		a, _ := s.CreateFundedAccount(100_000)
		f.accts = append(f.accts, a)
	}
	for _, m := range []string{disputetypes.ModuleName, oracletypes.ModuleName, reportertypes.TipsEscrowPool} {
		s.Accountkeeper.GetModuleAccount(f.ctx, m)
	}
	for _, p := range []string{`["eth","usd"]`, `["btc","usd"]`, `["trb","usd"]`} {
		res, err := s.Registrykeeper.GenerateQuerydata(f.ctx, &registrytypes.QueryGenerateQuerydataRequest{Querytype: "SpotPrice", Parameters: p})
		if err != nil {
			t.Fatal(err)
		}
		f.queries = append(f.queries, res.QueryData)
	}
	return f
}

func (f *c11Fx) coin(a *big.Int) sdk.Coin { return sdk.NewCoin(f.s.Denom, math.NewIntFromBigInt(a)) }

func (f *c11Fx) acctID(a sdk.AccAddress) int {
	for i, x := range f.accts {
		if x.Equals(a) {
			return i
		}
	}
	return -1
}

func (f *c11Fx) valID(v sdk.ValAddress) int {
	for i, x := range f.valOps {
		if x.Equals(v) {
			return i
		}
	}
	return 99 // the fixture's genesis validator or an unknown one
}

// deliver runs one message in a cache context: committed on success, dropped on error / panic
func (f *c11Fx) deliver(fn func(ctx sdk.Context) error) (errMsg string) {
	cctx, write := f.ctx.CacheContext()
	defer func() {
		if rec := recover(); rec != nil {
			errMsg = fmt.Sprintf("panic: %v", rec)
		}
	}()
	if err := fn(cctx); err != nil {
		return "error: " + err.Error()
	}
	write()
	return ""
}

func (f *c11Fx) must(msg string) {
	if msg != "" {
		f.t.Fatalf("fixture operation failed: %s", msg)
	}
}

// nextBlock: EndBlock of the current block (staking validator-set changes and matured unbondings,
// oracle aggregation), then BeginBlock of the next one (dispute expiry) after the gap
func (f *c11Fx) endBlock() {
	if _, err := f.s.Stakingkeeper.EndBlocker(f.ctx); err != nil {
		f.t.Fatal(err)
	}
	if err := oracle.EndBlocker(f.ctx, f.s.Oraclekeeper); err != nil {
		f.t.Fatal(err)
	}
}

func (f *c11Fx) beginBlock(gap time.Duration) string {
	f.height++
	f.now = f.now.Add(gap)
	f.ctx = f.s.Ctx.WithBlockHeight(f.height).WithBlockTime(f.now).WithEventManager(sdk.NewEventManager())
	f.s.Ctx = f.ctx
	if err := dispute.BeginBlocker(f.ctx, f.s.Disputekeeper); err != nil {
		return "error: " + err.Error()
	}
	return ""
}

func (f *c11Fx) nextBlock(gap time.Duration) {
	f.endBlock()
	if m := f.beginBlock(gap); m != "" {
		f.t.Fatalf("dispute.BeginBlocker: %s", m)
	}
}

func (f *c11Fx) delegate(a, v int, amt *big.Int) string {
	return f.deliver(func(ctx sdk.Context) error {
		_, err := f.stakingMS.Delegate(ctx, &stakingtypes.MsgDelegate{DelegatorAddress: f.accts[a].String(), ValidatorAddress: f.valOps[v].String(), Amount: f.coin(amt)})
		return err
	})
}

func (f *c11Fx) undelegate(a, v int, amt *big.Int) string {
	return f.deliver(func(ctx sdk.Context) error {
		_, err := f.stakingMS.Undelegate(ctx, &stakingtypes.MsgUndelegate{DelegatorAddress: f.accts[a].String(), ValidatorAddress: f.valOps[v].String(), Amount: f.coin(amt)})
		return err
	})
}

func (f *c11Fx) redelegate(a, v1, v2 int, amt *big.Int) string {
	return f.deliver(func(ctx sdk.Context) error {
		_, err := f.stakingMS.BeginRedelegate(ctx, &stakingtypes.MsgBeginRedelegate{DelegatorAddress: f.accts[a].String(), ValidatorSrcAddress: f.valOps[v1].String(), ValidatorDstAddress: f.valOps[v2].String(), Amount: f.coin(amt)})
		return err
	})
}

func (f *c11Fx) jailValidator(v int) string {
	return f.deliver(func(ctx sdk.Context) error {
		val, err := f.s.Stakingkeeper.GetValidator(ctx, f.valOps[v])
		if err != nil {
			return err
		}
		if val.Jailed {
			return fmt.Errorf("already jailed")
		}
		cons, err := val.GetConsAddr()
		if err != nil {
			return err
		}
		return f.s.Stakingkeeper.Jail(ctx, cons)
	})
}

// slashValidator: an infraction slash by the staking module (changes the exchange rate)
func (f *c11Fx) slashValidator(v int, fraction math.LegacyDec) string {
	return f.deliver(func(ctx sdk.Context) error {
		val, err := f.s.Stakingkeeper.GetValidator(ctx, f.valOps[v])
		if err != nil {
			return err
		}
		cons, err := val.GetConsAddr()
		if err != nil {
			return err
		}
		_, err = f.s.Stakingkeeper.Slash(ctx, cons, ctx.BlockHeight(), val.ConsensusPower(sdk.DefaultPowerReduction), fraction)
		return err
	})
}

func (f *c11Fx) createReporter(a int) string {
	return f.deliver(func(ctx sdk.Context) error {
		_, err := f.reporterMS.CreateReporter(ctx, &reportertypes.MsgCreateReporter{ReporterAddress: f.accts[a].String(), CommissionRate: math.LegacyZeroDec(), MinTokensRequired: math.NewInt(loyaPerTRB)})
		return err
	})
}

func (f *c11Fx) selectReporter(a, rep int) string {
	return f.deliver(func(ctx sdk.Context) error {
		_, err := f.reporterMS.SelectReporter(ctx, &reportertypes.MsgSelectReporter{SelectorAddress: f.accts[a].String(), ReporterAddress: f.accts[rep].String()})
		return err
	})
}

// report submits a value through the real message server and returns the stored micro report
func (f *c11Fx) report(rep int, qd []byte, value string) (oracletypes.MicroReport, string) {
	var out oracletypes.MicroReport
	msg := f.deliver(func(ctx sdk.Context) error {
		_, err := f.oracleMS.SubmitValue(ctx, &oracletypes.MsgSubmitValue{Creator: f.accts[rep].String(), QueryData: qd, Value: value})
		if err != nil {
			return err
		}
		qid := utils.QueryIDFromData(qd)
		q, err := f.s.Oraclekeeper.CurrentQuery(ctx, qid)
		if err != nil {
			return err
		}
		out, err = f.s.Oraclekeeper.Reports.Get(ctx, collections.Join3(qid, f.accts[rep].Bytes(), q.Id))
		return err
	})
	return out, msg
}

func (f *c11Fx) tip(a int, qd []byte, amt *big.Int) string {
	return f.deliver(func(ctx sdk.Context) error {
		_, err := f.oracleMS.Tip(ctx, &oracletypes.MsgTip{Tipper: f.accts[a].String(), QueryData: qd, Amount: f.coin(amt)})
		return err
	})
}

func (f *c11Fx) modBal(name string) *big.Int {
	return f.s.Bankkeeper.GetBalance(f.ctx, authtypes.NewModuleAddress(name), f.s.Denom).Amount.BigInt()
}

// ---- projection of the state the slashing code reads and writes -------------------------------
type c11Val struct {
	id             int
	tokens, shares *big.Int // shares scaled by 10^18
	status         int      // 1 unbonded 2 unbonding 3 bonded
}
type c11Del struct {
	del, val int
	shares   *big.Int
}
type c11Ubd struct {
	del, val int
	entries  []*big.Int
}
type c11Red struct{ src, del, dst int }
type c11Origin struct {
	del, val int
	amt      *big.Int
}
type c11State struct {
	vals                       []c11Val
	dels                       []c11Del
	ubds                       []c11Ubd
	bonded, notBonded, escrow  *big.Int
}

func (f *c11Fx) state() c11State {
	var st c11State
	sk := f.s.Stakingkeeper
	for _, i := range f.tracked() {
		op := f.valOps[i]
		v, err := sk.GetValidator(f.ctx, op)
		if err != nil {
			continue // removed validator
		}
		st.vals = append(st.vals, c11Val{i, v.Tokens.BigInt(), v.DelegatorShares.BigInt(), int(v.Status)})
	}
	for a, addr := range f.accts {
		for _, v := range f.tracked() {
			op := f.valOps[v]
			if d, err := sk.GetDelegation(f.ctx, addr, op); err == nil {
				st.dels = append(st.dels, c11Del{a, v, d.Shares.BigInt()})
			}
			if u, err := sk.GetUnbondingDelegation(f.ctx, addr, op); err == nil {
				e := make([]*big.Int, len(u.Entries))
				for i, x := range u.Entries {
					e[i] = x.Balance.BigInt()
				}
				st.ubds = append(st.ubds, c11Ubd{a, v, e})
			}
		}
	}
	st.bonded = f.modBal(stakingtypes.BondedPoolName)
	st.notBonded = f.modBal(stakingtypes.NotBondedPoolName)
	st.escrow = f.modBal(disputetypes.ModuleName)
	return st
}

// redelegations in the order the keeper returns them for each source validator
func (f *c11Fx) reds() []c11Red {
	var out []c11Red
	for _, v := range f.tracked() {
		op := f.valOps[v]
		rs, err := f.s.Stakingkeeper.GetRedelegationsFromSrcValidator(f.ctx, op)
		if err != nil {
			continue
		}
		for _, r := range rs {
			da, _ := sdk.AccAddressFromBech32(r.DelegatorAddress)
			dv, _ := sdk.ValAddressFromBech32(r.ValidatorDstAddress)
			out = append(out, c11Red{v, f.acctID(da), f.valID(dv)})
		}
	}
	return out
}

func (f *c11Fx) origins(os []*reportertypes.TokenOriginInfo) []c11Origin {
	out := make([]c11Origin, len(os))
	for i, o := range os {
		out[i] = c11Origin{f.acctID(sdk.AccAddress(o.DelegatorAddress)), f.valID(sdk.ValAddress(o.ValidatorAddress)), o.Amount.BigInt()}
	}
	return out
}

func c11CoqOrigins(os []c11Origin) string {
	items := make([]string, len(os))
	for i, o := range os {
		items[i] = fmt.Sprintf("Org %d %d %s", o.del, o.val, cz(o.amt))
	}
	return clist(items)
}

func c11CoqZs(xs []*big.Int) string {
	items := make([]string, len(xs))
	for i, x := range xs {
		items[i] = cz(x)
	}
	return clist(items)
}

// a Dec (scaled by 10^18) as whole part and fraction: small numerals elaborate faster
func c11Dec(v *big.Int) string {
	q, m := new(big.Int).DivMod(v, pow10(18), new(big.Int))
	return fmt.Sprintf("(sh %s %s)", cz(q), cz(m))
}

func (st c11State) coq() string {
	vs := make([]string, len(st.vals))
	for i, v := range st.vals {
		vs[i] = fmt.Sprintf("Val %d %s %s %d", v.id, cz(v.tokens), c11Dec(v.shares), v.status)
	}
	ds := make([]string, len(st.dels))
	for i, d := range st.dels {
		ds[i] = fmt.Sprintf("Dlg %d %d %s", d.del, d.val, c11Dec(d.shares))
	}
	us := make([]string, len(st.ubds))
	for i, u := range st.ubds {
		us[i] = fmt.Sprintf("Ubd %d %d %s", u.del, u.val, c11CoqZs(u.entries))
	}
	return fmt.Sprintf("(Stk %s %s %s %s %s %s)", clist(vs), clist(ds), clist(us), cz(st.bonded), cz(st.notBonded), cz(st.escrow))
}


func c11CoqReds(rs []c11Red) string {
	items := make([]string, len(rs))
	for i, r := range rs {
		items[i] = fmt.Sprintf("Red %d %d %d", r.src, r.del, r.dst)
	}
	return clist(items)
}

func (f *c11Fx) withCtx(ctx sdk.Context, fn func()) {
	old := f.ctx
	f.ctx = ctx
	defer func() { f.ctx = old }()
	fn()
}

// ---- generated staking histories ------------------------------------------------------------------
type c11Hist struct {
	f        *c11Fx
	r        *rand.Rand
	reporter int   // account id of the reporter
	backers  []int // reporter and its selectors
	vals     []int // validators the backers use
	ops      []string
	frozen   map[int]bool // validators that must stay bonded
}

func (h *c11Hist) note(format string, a ...interface{}) { h.ops = append(h.ops, fmt.Sprintf(format, a...)) }

func c11Amount(r *rand.Rand, maxTRB int64) *big.Int {
	switch r.Intn(6) {
	case 0:
		return bi(int64(1+r.Intn(int(maxTRB))) * loyaPerTRB)
	case 1:
		return bi(int64(1+r.Intn(int(maxTRB)))*loyaPerTRB + int64(pick(r, 1, 99, 100, 500_000, 999_999)))
	case 2:
		return bi(int64(pick(r, 1, 7, 100, 1000, 999_999)))
	default:
		return bi(loyaPerTRB + r.Int63n(maxTRB*loyaPerTRB))
	}
}

func (h *c11Hist) delegationAmount(a, v int) *big.Int {
	f := h.f
	d, err := f.s.Stakingkeeper.GetDelegation(f.ctx, f.accts[a], f.valOps[v])
	if err != nil {
		return nil
	}
	val, err := f.s.Stakingkeeper.GetValidator(f.ctx, f.valOps[v])
	if err != nil {
		return nil
	}
	return val.TokensFromShares(d.Shares).TruncateInt().BigInt()
}

// one staking operation of a backer (or on a validator); failures are simply not applied
func (h *c11Hist) stakingOp() {
	f, r := h.f, h.r
	a := pick(r, h.backers...)
	v := pick(r, h.vals...)
	switch k := r.Intn(20); {
	case k < 4:
		amt := c11Amount(r, 20)
		if m := f.delegate(a, v, amt); m == "" {
			h.note("delegate %d->%d %s", a, v, amt)
		}
	case k < 10:
		cur := h.delegationAmount(a, v)
		if cur == nil || cur.Sign() == 0 {
			return
		}
		amt := pick(r, cur, bquo(cur, bi(2)), bquo(cur, bi(3)), bi(loyaPerTRB), bsub(cur, bi(1)), bi(1+r.Int63n(cur.Int64())))
		if amt.Sign() <= 0 {
			return
		}
		if m := f.undelegate(a, v, amt); m == "" {
			h.note("undelegate %d<-%d %s", a, v, amt)
		}
	case k < 15:
		cur := h.delegationAmount(a, v)
		if cur == nil || cur.Sign() == 0 {
			return
		}
		v2 := pick(r, h.vals...)
		if v2 == v {
			return
		}
		amt := pick(r, cur, bquo(cur, bi(2)), bquo(cur, bi(3)), bi(1+r.Int63n(cur.Int64())))
		if amt.Sign() <= 0 {
			return
		}
		if m := f.redelegate(a, v, v2, amt); m == "" {
			h.note("redelegate %d:%d->%d %s", a, v, v2, amt)
		}
	case k < 17:
		if h.frozen[v] {
			return
		}
		// keep one of the backers' validators bonded
		bonded := 0
		for _, x := range h.vals {
			if val, err := f.s.Stakingkeeper.GetValidator(f.ctx, f.valOps[x]); err == nil && val.IsBonded() && !val.Jailed {
				bonded++
			}
		}
		if bonded <= 1 {
			return
		}
		if m := f.jailValidator(v); m == "" {
			h.note("jail validator %d", v)
		}
	case k < 18:
		fr := pick(r, math.LegacyNewDecWithPrec(333333, 6), math.LegacyNewDecWithPrec(1, 2), math.LegacyNewDecWithPrec(5, 1))
		if m := f.slashValidator(v, fr); m == "" {
			h.note("slash validator %d by %s", v, fr)
		}
	default:
		f.nextBlock(pick(r, time.Second, time.Hour, 24*time.Hour))
		h.note("block")
	}
}

// newHist: validators, a reporter with 0-2 selectors, each with 1-2 delegations
func c11NewHist(t *testing.T, r *rand.Rand, nVals, nSel int) *c11Hist {
	f := c11NewFx(t, nVals+1, 6) // the last validator is never used by the backers (fee payers stake there)
	h := &c11Hist{f: f, r: r, frozen: map[int]bool{}}
	for i := 0; i < nVals; i++ {
		h.vals = append(h.vals, i)
	}
	base := nVals + 1
	h.reporter = base
	h.backers = []int{base}
	for i := 0; i < nSel; i++ {
		h.backers = append(h.backers, base+1+i)
	}
	return h
}

func (h *c11Hist) setupStake(roundOnly bool) {
	f, r := h.f, h.r
	for _, a := range h.backers {
		n := 1 + r.Intn(2)
		perm := r.Perm(len(h.vals))
		for i := 0; i < n && i < len(perm); i++ {
			amt := c11Amount(r, 30)
			if roundOnly {
				amt = bi(int64(1+r.Intn(30)) * loyaPerTRB)
			}
			if i == 0 && amt.Cmp(bi(loyaPerTRB)) < 0 {
				amt = badd(amt, bi(loyaPerTRB))
			}
			f.must(f.delegate(a, perm[i], amt))
			h.note("delegate %d->%d %s", a, perm[i], amt)
		}
	}
	f.must(f.createReporter(h.reporter))
	for _, a := range h.backers[1:] {
		f.must(f.selectReporter(a, h.reporter))
	}
}

// snapshot through the real ReporterStake (what SubmitValue records for a report at this height)
func (h *c11Hist) takeSnapshot(qid []byte) ([]c11Origin, *big.Int, bool) {
	f := h.f
	var os []c11Origin
	var total *big.Int
	msg := f.deliver(func(ctx sdk.Context) error {
		tot, err := f.s.Reporterkeeper.ReporterStake(ctx, f.accts[h.reporter], qid)
		if err != nil {
			return err
		}
		snap, err := f.s.Reporterkeeper.Report.Get(ctx, collectionsJoinReport(qid, f.accts[h.reporter].Bytes(), uint64(ctx.BlockHeight())))
		if err != nil {
			return err
		}
		os = f.origins(snap.TokenOrigins)
		total = tot.BigInt()
		return nil
	})
	return os, total, msg == ""
}

// ---- driver 1: EscrowReporterStake on generated staking states --------------------------------------
type c11EscrowIn struct {
	origins    []c11Origin
	power, amt *big.Int
	kind       string
	tags       []string
}

func (f *c11Fx) runEscrow(out *Out, in c11EscrowIn, histNote []string, baseKey string) {
	cctx, _ := f.ctx.CacheContext()
	qid := []byte("c11-query")
	hash := []byte("c11-hash")
	rep := f.accts[len(f.accts)-1] // any address: the snapshot is written for it
	tos := make([]*reportertypes.TokenOriginInfo, len(in.origins))
	tot := new(big.Int)
	for i, o := range in.origins {
		tos[i] = &reportertypes.TokenOriginInfo{DelegatorAddress: f.accts[o.del].Bytes(), ValidatorAddress: f.valOps[o.val].Bytes(), Amount: math.NewIntFromBigInt(o.amt)}
		tot.Add(tot, o.amt)
	}
	height := uint64(cctx.BlockHeight())
	if err := f.s.Reporterkeeper.Report.Set(cctx, collectionsJoinReport(qid, rep.Bytes(), height), reportertypes.DelegationsAmounts{TokenOrigins: tos, Total: math.NewIntFromBigInt(tot)}); err != nil {
		f.t.Fatal(err)
	}
	var st0, st1 c11State
	var reds []c11Red
	f.withCtx(cctx, func() { st0 = f.state(); reds = f.reds() })
	errMsg := ""
	func() {
		defer func() {
			if rec := recover(); rec != nil {
				errMsg = fmt.Sprintf("panic: %v", rec)
			}
		}()
		if err := f.s.Reporterkeeper.EscrowReporterStake(cctx, rep, in.power.Uint64(), height, math.NewIntFromBigInt(in.amt), qid, hash); err != nil {
			errMsg = "error: " + err.Error()
		}
	}()
	ok := errMsg == ""
	var recd []c11Origin
	rtotal := bi(0)
	if ok {
		f.withCtx(cctx, func() { st1 = f.state() })
		rec, err := f.s.Reporterkeeper.DisputedDelegationAmounts.Get(cctx, hash)
		if err != nil {
			f.t.Fatalf("no record after a successful escrow: %v", err)
		}
		recd = f.origins(rec.TokenOrigins)
		rtotal = rec.Total.BigInt()
	} else {
		st1 = st0
	}
	term := fmt.Sprintf("EscrowCase %s %s %s %s %s %s %s %s %s", c11CoqReds(reds), st0.coq(), c11CoqOrigins(in.origins), cz(in.power), cz(in.amt),
		cbool(ok), st1.coq(), c11CoqOrigins(recd), cz(rtotal))
	chased := false
	if ok {
		for i := range st0.ubds {
			if i >= len(st1.ubds) || fmt.Sprint(st0.ubds[i]) != fmt.Sprint(st1.ubds[i]) {
				chased = true
			}
		}
		for _, o := range recd {
			found := false
			for _, x := range in.origins {
				if x.del == o.del && x.val == o.val {
					found = true
				}
			}
			if !found {
				chased = true
			}
		}
	}
	kind := in.kind
	if !ok {
		kind += "/rejected"
	} else if chased {
		kind += "/chased"
	}
	out.Emit(Case{Coq: term, Kind: kind, Nontrivial: ok && len(in.origins) >= 2 || chased, Key: baseKey + term[len(term)/3:], Tags: in.tags,
		Human: map[string]interface{}{"history": histNote, "origins": c11CoqOrigins(in.origins), "power": in.power.String(), "amount": in.amt.String(), "result": errMsg}})
}

func c11Pct(cat int) int64 { return map[int]int64{1: 10_000, 2: 50_000, 3: 1_000_000}[cat] }

func c11SlashAmt(power *big.Int, cat int) *big.Int { return bmul(power, bi(c11Pct(cat))) }

// inputs around one genuine snapshot
func c11EscrowInputs(r *rand.Rand, os []c11Origin, total *big.Int, n int) []c11EscrowIn {
	power := bquo(total, bi(loyaPerTRB))
	var ins []c11EscrowIn
	for cat := 1; cat <= 3; cat++ {
		ins = append(ins, c11EscrowIn{origins: os, power: power, amt: c11SlashAmt(power, cat), kind: fmt.Sprintf("genuine/cat%d", cat)})
	}
	for len(ins) < n {
		o2 := make([]c11Origin, len(os))
		copy(o2, os)
		p := new(big.Int).Set(power)
		cat := 1 + r.Intn(3)
		kind := ""
		switch r.Intn(8) {
		case 0: // another amount than a category's share
			amt := pick(r, bi(0), bi(1), bsub(c11SlashAmt(p, cat), bi(1)), badd(c11SlashAmt(p, cat), bi(1)), bi(1+r.Int63n(total.Int64()+1)), total)
			ins = append(ins, c11EscrowIn{origins: o2, power: p, amt: amt, kind: "odd-amount"})
			continue
		case 1: // stated power differs from the recorded stake (F18)
			p = pick(r, badd(power, bi(1)), bmul(power, bi(3)), bsub(power, bi(1)), bi(1))
			if p.Sign() <= 0 {
				p = bi(1)
			}
			kind = "altered-power"
		case 2: // an origin's amount changed by a little
			i := r.Intn(len(o2))
			o2[i].amt = badd(o2[i].amt, bi(int64(pick(r, -1, 1, 2, 1000))))
			if o2[i].amt.Sign() < 0 {
				o2[i].amt = bi(0)
			}
			kind = "altered-origin"
		case 3: // origins in another order
			r.Shuffle(len(o2), func(i, j int) { o2[i], o2[j] = o2[j], o2[i] })
			kind = "reordered"
		case 4: // an origin with a zero amount
			o2[r.Intn(len(o2))].amt = bi(0)
			kind = "zero-origin"
		default:
			kind = fmt.Sprintf("genuine/cat%d", cat)
		}
		tot := new(big.Int)
		for _, o := range o2 {
			tot.Add(tot, o.amt)
		}
		if kind != "altered-power" {
			p = bquo(tot, bi(loyaPerTRB))
		}
		if p.Sign() == 0 {
			continue
		}
		ins = append(ins, c11EscrowIn{origins: o2, power: p, amt: c11SlashAmt(p, cat), kind: kind})
	}
	return ins
}


// hand-written witnesses: a stake set-up, the snapshot, then the staking history
func c11CorpusHistories() []struct {
	name string
	tag  string
	run  func(h *c11Hist) ([]c11Origin, *big.Int)
} {
	rep := func(h *c11Hist) int { return h.reporter }
	mk := func(setup func(h *c11Hist), after func(h *c11Hist)) func(h *c11Hist) ([]c11Origin, *big.Int) {
		return func(h *c11Hist) ([]c11Origin, *big.Int) {
			setup(h)
			h.f.must(h.f.createReporter(rep(h)))
			h.f.nextBlock(time.Second)
			os, tot, ok := h.takeSnapshot([]byte("corpus"))
			if !ok {
				h.f.t.Fatal("corpus snapshot failed")
			}
			h.f.nextBlock(time.Second)
			after(h)
			h.f.nextBlock(time.Second)
			return os, tot
		}
	}
	return []struct {
		name string
		tag  string
		run  func(h *c11Hist) ([]c11Origin, *big.Int)
	}{
		{"plain 10 TRB", "corpus", mk(func(h *c11Hist) { h.f.must(h.f.delegate(rep(h), 0, bi(10_000_000))) }, func(h *c11Hist) {})},
		{"F13 two unbonding entries", "corpus:F13", mk(func(h *c11Hist) { h.f.must(h.f.delegate(rep(h), 0, bi(10_000_000))) }, func(h *c11Hist) {
			h.f.must(h.f.undelegate(rep(h), 0, bi(4_000_000)))
			h.f.nextBlock(time.Second)
			h.f.must(h.f.undelegate(rep(h), 0, bi(4_000_000)))
		})},
		{"three unbonding entries", "corpus:F13", mk(func(h *c11Hist) { h.f.must(h.f.delegate(rep(h), 0, bi(10_000_000))) }, func(h *c11Hist) {
			for i := 0; i < 3; i++ {
				h.f.must(h.f.undelegate(rep(h), 0, bi(int64(1_000_000*(i+1)))))
				h.f.nextBlock(time.Second)
			}
		})},
		{"one unbonding entry, all undelegated", "corpus", mk(func(h *c11Hist) { h.f.must(h.f.delegate(rep(h), 0, bi(10_000_000))) }, func(h *c11Hist) {
			h.f.must(h.f.undelegate(rep(h), 0, bi(10_000_000)))
		})},
		{"F34 validator unbonded", "corpus:F34", mk(func(h *c11Hist) { h.f.must(h.f.delegate(rep(h), 0, bi(10_000_000))) }, func(h *c11Hist) {
			h.f.must(h.f.jailValidator(0))
			h.f.nextBlock(22 * 24 * time.Hour)
			h.f.nextBlock(time.Second)
		})},
		{"validator unbonding", "corpus", mk(func(h *c11Hist) { h.f.must(h.f.delegate(rep(h), 0, bi(10_000_000))) }, func(h *c11Hist) {
			h.f.must(h.f.jailValidator(0))
		})},
		{"F38 redelegated to two validators", "corpus:F38", mk(func(h *c11Hist) { h.f.must(h.f.delegate(rep(h), 0, bi(10_000_000))) }, func(h *c11Hist) {
			h.f.must(h.f.redelegate(rep(h), 0, 1, bi(5_000_000)))
			h.f.must(h.f.redelegate(rep(h), 0, 2, bi(5_000_000)))
		})},
		{"redelegated once", "corpus", mk(func(h *c11Hist) { h.f.must(h.f.delegate(rep(h), 0, bi(10_000_000))) }, func(h *c11Hist) {
			h.f.must(h.f.redelegate(rep(h), 0, 1, bi(7_000_000)))
		})},
		{"redelegated, then undelegated at the destination", "corpus", mk(func(h *c11Hist) { h.f.must(h.f.delegate(rep(h), 0, bi(10_000_000))) }, func(h *c11Hist) {
			h.f.must(h.f.redelegate(rep(h), 0, 1, bi(10_000_000)))
			h.f.nextBlock(time.Second)
			h.f.must(h.f.undelegate(rep(h), 1, bi(6_000_000)))
		})},
		{"F39 tiny last origin and a fractional surplus", "corpus:F39", mk(func(h *c11Hist) {
			h.f.must(h.f.delegate(rep(h), 0, bi(10_500_000)))
			h.f.must(h.f.delegate(rep(h), 1, bi(100)))
		}, func(h *c11Hist) {})},
		{"F39 fractional stake of two selectors", "corpus:F39", mk(func(h *c11Hist) {
			h.f.must(h.f.delegate(rep(h), 0, bi(9_500_000)))
			h.f.must(h.f.delegate(rep(h), 1, bi(1_499_999)))
		}, func(h *c11Hist) {})},
		{"F15 validator slashed by a third", "corpus:F15", mk(func(h *c11Hist) { h.f.must(h.f.delegate(rep(h), 0, bi(10_000_000))) }, func(h *c11Hist) {
			h.f.must(h.f.slashValidator(0, math.LegacyNewDecWithPrec(333333, 6)))
		})},
	}
}

func TestC11Escrow(t *testing.T) {
	out := newOut(t, "c11_escrow")
	defer out.Close()
	r := rand.New(rand.NewSource(seed()))
	perState := 12
	for i, c := range c11CorpusHistories() {
		h := c11NewHist(t, r, 3, 0)
		os, tot := c.run(h)
		for _, in := range c11EscrowInputs(r, os, tot, 6) {
			in.tags = []string{c.tag}
			h.f.runEscrow(out, in, []string{c.name}, fmt.Sprintf("corpus%d", i))
		}
	}
	n := count(60, 1500)
	for i := 0; i < n; i++ {
		h := c11NewHist(t, r, 2+r.Intn(2), r.Intn(3))
		h.setupStake(r.Intn(3) == 0)
		h.f.nextBlock(time.Second)
		// snapshots at several points of the history; the escrow runs against the final state
		type snapT struct {
			os  []c11Origin
			tot *big.Int
		}
		var snaps []snapT
		steps := 2 + r.Intn(12)
		for s := 0; s < steps; s++ {
			if s == 0 || r.Intn(4) == 0 {
				if os, tot, ok := h.takeSnapshot([]byte(fmt.Sprintf("q%d", s))); ok && len(os) > 0 {
					snaps = append(snaps, snapT{os, tot})
				}
			}
			h.stakingOp()
			if r.Intn(3) == 0 {
				h.f.nextBlock(pick(r, time.Second, time.Minute))
				h.note("block")
			}
		}
		if r.Intn(12) == 0 {
			h.f.nextBlock(22 * 24 * time.Hour)
			h.note("22 days")
		}
		h.f.nextBlock(time.Second)
		if len(snaps) == 0 {
			continue
		}
		for k := 0; k < perState; k++ {
			sn := snaps[r.Intn(len(snaps))]
			ins := c11EscrowInputs(r, sn.os, sn.tot, 4)
			h.f.runEscrow(out, ins[r.Intn(len(ins))], h.ops, fmt.Sprintf("h%d", i))
		}
	}
}

// ---- driver 2: dispute histories through the message servers ----------------------------------------
type c11World struct {
	f       *c11Fx
	h       *c11Hist
	payer   int   // a second reporter whose stake sits with the untracked validator
	payVal  int
	senders []int // funded plain accounts
	qids    [][]byte
}

func (w *c11World) qidIndex(q []byte) int {
	for i, x := range w.qids {
		if string(x) == string(q) {
			return i
		}
	}
	w.qids = append(w.qids, append([]byte{}, q...))
	return len(w.qids) - 1
}

func (w *c11World) coqReport(r oracletypes.MicroReport) string {
	rep := -1
	if a, err := sdk.AccAddressFromBech32(r.Reporter); err == nil {
		rep = w.f.acctID(a)
	}
	val, ok := new(big.Int).SetString(r.Value, 16)
	if !ok {
		val = bi(-1)
	}
	meta := 0
	if r.QueryType != "SpotPrice" {
		meta += 1
	}
	if r.AggregateMethod != "weighted-median" {
		meta += 2
	}
	return fmt.Sprintf("(Rep %s %s %d %s %s %s %s %d)", czi(int64(rep)), czu(r.Power), w.qidIndex(r.QueryId), cz(val), czi(r.Timestamp.UnixNano()), czu(r.BlockNumber), cbool(r.Cyclelist), meta)
}

func (w *c11World) bondStake() *big.Int {
	f := w.f
	d, err := f.s.Stakingkeeper.GetDelegation(f.ctx, f.accts[w.payer], f.valOps[w.payVal])
	if err != nil {
		return bi(0)
	}
	v, _ := f.s.Stakingkeeper.GetValidator(f.ctx, f.valOps[w.payVal])
	return v.TokensFromShares(d.Shares).TruncateInt().BigInt()
}

func (w *c11World) coq() string {
	f := w.f
	var reps []string
	for _, a := range []int{w.h.reporter, w.payer} {
		if rp, err := f.s.Reporterkeeper.Reporters.Get(f.ctx, f.accts[a].Bytes()); err == nil {
			reps = append(reps, fmt.Sprintf("Rps %d %s %s", a, cbool(rp.Jailed), czi(rp.JailedUntil.UnixNano())))
		}
	}
	var aggs []string
	_ = f.s.Oraclekeeper.Aggregates.Walk(f.ctx, nil, func(k collectionsPairBytesU64, a oracletypes.Aggregate) (bool, error) {
		rep := -1
		if x, err := sdk.AccAddressFromBech32(a.AggregateReporter); err == nil {
			rep = f.acctID(x)
		}
		aggs = append(aggs, fmt.Sprintf("Agg %d %s %s %s", w.qidIndex(k.K1()), czu(a.MicroHeight), czi(int64(rep)), cbool(a.Flagged)))
		return false, nil
	})
	var disps, rcds []string
	_ = f.s.Disputekeeper.Disputes.Walk(f.ctx, nil, func(id uint64, d disputetypes.Dispute) (bool, error) {
		disps = append(disps, fmt.Sprintf("Dsp %d %s %d %d %s %s %s %s", id, w.coqReport(d.InitialEvidence), int(d.DisputeCategory), int(d.DisputeStatus),
			czi(d.DisputeEndTime.UnixNano()), cz(d.FeeTotal.BigInt()), cz(d.SlashAmount.BigInt()), cbool(d.Open)))
		if rec, err := f.s.Reporterkeeper.DisputedDelegationAmounts.Get(f.ctx, d.HashId); err == nil {
			rcds = append(rcds, fmt.Sprintf("Rcd %d %s %s", id, c11CoqOrigins(f.origins(rec.TokenOrigins)), cz(rec.Total.BigInt())))
		}
		return false, nil
	})
	var liq []string
	for _, a := range append([]int{w.payer}, w.senders...) {
		liq = append(liq, fmt.Sprintf("(%d, %s)", a, cz(f.s.Bankkeeper.GetBalance(f.ctx, f.accts[a], f.s.Denom).Amount.BigInt())))
	}
	return fmt.Sprintf("(W %s %s %s %s %s [(%d, %s)] %s %s)", f.state().coq(), clist(reps), clist(aggs), clist(disps), clist(rcds), w.payer, cz(w.bondStake()), clist(liq), czi(f.now.UnixNano()))
}

func (w *c11World) env() string {
	f := w.f
	var snaps, stored []string
	_ = f.s.Reporterkeeper.Report.Walk(f.ctx, nil, func(k collections.Pair[[]byte, collections.Pair[[]byte, uint64]], v reportertypes.DelegationsAmounts) (bool, error) {
		snaps = append(snaps, fmt.Sprintf("Snp %d %d %s %s", w.qidIndex(k.K1()), f.acctID(sdk.AccAddress(k.K2().K1())), czu(k.K2().K2()), c11CoqOrigins(f.origins(v.TokenOrigins))))
		return false, nil
	})
	_ = f.s.Oraclekeeper.Reports.Walk(f.ctx, nil, func(_ collections.Triple[[]byte, []byte, uint64], r oracletypes.MicroReport) (bool, error) {
		stored = append(stored, w.coqReport(r))
		return false, nil
	})
	return fmt.Sprintf("(Env %s %s %s)", c11CoqReds(f.reds()), clist(snaps), clist(stored))
}

type c11Op struct {
	coq  string
	kind string
	run  func(ctx sdk.Context) error
	gap  time.Duration // block operation when > 0
}

func c11Hex(v int64) string { return fmt.Sprintf("%064x", v) }

// builds the chain up to the disputed report(s): stake, reports by the reporter (and the payer), aggregation, staking history
func c11NewWorld(t *testing.T, r *rand.Rand, round bool, histOps int) (*c11World, []oracletypes.MicroReport) {
	nVals := 2 + r.Intn(2)
	h := c11NewHist(t, r, nVals, r.Intn(3))
	f := h.f
	f.trackVals = h.vals
	w := &c11World{f: f, h: h, payVal: nVals}
	w.payer = h.backers[len(h.backers)-1] + 1
	for a := w.payer + 1; a < len(f.accts); a++ {
		w.senders = append(w.senders, a)
	}
	h.setupStake(round)
	f.must(f.delegate(w.payer, w.payVal, bi(int64(5+r.Intn(60))*loyaPerTRB)))
	f.must(f.createReporter(w.payer))
	f.nextBlock(time.Second)
	var reports []oracletypes.MicroReport
	rounds := 1 + r.Intn(2)
	for k := 0; k < rounds; k++ {
		qd, err := f.s.Oraclekeeper.GetCurrentQueryInCycleList(f.ctx)
		if err != nil {
			t.Fatal(err)
		}
		rep, msg := f.report(h.reporter, qd, c11Hex(int64(1000+r.Intn(3))))
		if msg != "" {
			break // e.g. the reporter's stake fell below the minimum during the history
		}
		reports = append(reports, rep)
		if r.Intn(2) == 0 && len(f.queries) > 1 {
			// a second, tipped query reported by the same reporter in the same block: two aggregates then share the
			// block of their deciding reports (the flag must find the right one among them)
			qd2 := f.queries[r.Intn(len(f.queries))]
			if string(qd2) != string(qd) && f.tip(w.payer, qd2, bi(1_000_000)) == "" {
				if rep2, msg2 := f.report(h.reporter, qd2, c11Hex(int64(2000+r.Intn(3)))); msg2 == "" {
					reports = append(reports, rep2)
				}
			}
		}
		if r.Intn(5) < 3 {
			// the payer reports too (it may decide the aggregate); its own report is not disputed here:
			// its stake sits with the validator outside the projected slice
			_, _ = f.report(w.payer, qd, c11Hex(int64(pick(r, 900, 1000, 1100))))
		}
		for b := 0; b < 4; b++ {
			f.nextBlock(time.Second)
		}
		for s := 0; s < histOps/rounds; s++ {
			h.stakingOp()
			if r.Intn(3) == 0 {
				f.nextBlock(pick(r, time.Second, time.Minute))
			}
		}
		f.nextBlock(time.Second)
	}
	return w, reports
}

func (w *c11World) feeFor(power uint64, cat int) *big.Int {
	return bmul(new(big.Int).SetUint64(power), bi(c11Pct(cat)))
}

func (w *c11World) proposeOp(sender int, rep oracletypes.MicroReport, cat int, fee *big.Int, bond bool, kind string) c11Op {
	f := w.f
	return c11Op{
		coq:  fmt.Sprintf("OPropose %d %s %d %s %s", sender, w.coqReport(rep), cat, cz(fee), cbool(bond)),
		kind: kind,
		run: func(ctx sdk.Context) error {
			rp := rep
			_, err := f.disputeMS.ProposeDispute(ctx, &disputetypes.MsgProposeDispute{Creator: f.accts[sender].String(), Report: &rp, DisputeCategory: disputetypes.DisputeCategory(cat), Fee: f.coin(fee), PayFromBond: bond})
			return err
		}}
}

func (w *c11World) addFeeOp(sender int, id uint64, amt *big.Int, bond bool, kind string) c11Op {
	f := w.f
	return c11Op{
		coq:  fmt.Sprintf("OAddFee %d %d %s %s", sender, id, cz(amt), cbool(bond)),
		kind: kind,
		run: func(ctx sdk.Context) error {
			_, err := f.disputeMS.AddFeeToDispute(ctx, &disputetypes.MsgAddFeeToDispute{Creator: f.accts[sender].String(), DisputeId: id, Amount: sdk.Coin{Denom: f.s.Denom, Amount: math.NewIntFromBigInt(amt)}, PayFromBond: bond})
			return err
		}}
}

func (w *c11World) alter(r *rand.Rand, rep oracletypes.MicroReport) (oracletypes.MicroReport, string) {
	switch r.Intn(9) {
	case 0:
		rep.Value = c11Hex(int64(5000 + r.Intn(10)))
		return rep, "altered-value"
	case 1:
		rep.Power = pick(r, rep.Power*3, rep.Power+1, rep.Power*100)
		return rep, "altered-power"
	case 2:
		if rep.Power > 1 {
			rep.Power = pick(r, rep.Power-1, 1, rep.Power/2+1)
		} else {
			rep.Power = 2
		}
		return rep, "altered-power"
	case 3:
		rep.Timestamp = rep.Timestamp.Add(time.Second)
		return rep, "altered-time"
	case 4:
		rep.BlockNumber += uint64(pick(r, 1, 2))
		return rep, "invented-height"
	case 5:
		rep.Reporter = w.f.accts[pick(r, w.senders[0], w.senders[1])].String()
		return rep, "other-reporter"
	case 6:
		rep.Cyclelist = !rep.Cyclelist
		return rep, "altered-flag"
	case 7:
		rep.Power = pick(r, uint64(0), 1<<63, 1<<63-1)
		return rep, "extreme-power"
	default:
		rep.Value = c11Hex(1)
		rep.Power = rep.Power * 2
		return rep, "altered-value-and-power"
	}
}

// runs the operations against the real code and emits the case
func (w *c11World) runOps(out *Out, ops func(step int) (c11Op, bool), tags []string, note []string, key string) {
	f := w.f
	env := w.env()
	w0 := w.coq()
	var opTerms, implTerms, kinds []string
	accepted, slashed := 0, 0
	for step := 0; ; step++ {
		op, more := ops(step)
		if !more {
			break
		}
		ok := true
		errMsg := ""
		if op.gap > 0 {
			if m := f.beginBlock(op.gap); m != "" {
				f.t.Fatalf("dispute.BeginBlocker failed: %s", m)
			}
			op.coq = fmt.Sprintf("OBegin %s", czi(f.now.UnixNano()))
		} else {
			before := f.modBal(stakingtypes.NotBondedPoolName).String() + fmt.Sprint(len(w.recordsNow()))
			errMsg = f.deliver(op.run)
			ok = errMsg == ""
			if ok {
				accepted++
				if before != f.modBal(stakingtypes.NotBondedPoolName).String()+fmt.Sprint(len(w.recordsNow())) {
					slashed++
				}
			}
		}
		opTerms = append(opTerms, op.coq)
		implTerms = append(implTerms, fmt.Sprintf("(%s, %s)", cbool(ok), w.coq()))
		k := op.kind
		if !ok {
			k += "=rejected"
		}
		kinds = append(kinds, k)
		note = append(note, fmt.Sprintf("%s -> %s", k, errMsg))
	}
	// the environment lists are static during the dispute phase (the slash does not touch redelegations or snapshots)
	term := fmt.Sprintf("DisputeCase %s %s %s %s", env, w0, clist(opTerms), clist(implTerms))
	kind := "no-slash"
	if slashed > 0 {
		kind = fmt.Sprintf("slashed-%d", slashed)
	}
	out.Emit(Case{Coq: term, Kind: kind, Nontrivial: slashed > 0 && accepted >= 2, Key: key + strings.Join(opTerms, ";"), Tags: tags,
		Human: map[string]interface{}{"ops": note}})
}

func (w *c11World) recordsNow() []uint64 {
	var ids []uint64
	_ = w.f.s.Disputekeeper.Disputes.Walk(w.f.ctx, nil, func(id uint64, d disputetypes.Dispute) (bool, error) {
		if ok, _ := w.f.s.Reporterkeeper.DisputedDelegationAmounts.Has(w.f.ctx, d.HashId); ok {
			ids = append(ids, id)
		}
		return false, nil
	})
	return ids
}

// generated dispute phase
func (w *c11World) genOps(r *rand.Rand, reports []oracletypes.MicroReport, n int) func(step int) (c11Op, bool) {
	f := w.f
	type proposal struct {
		rep oracletypes.MicroReport
		cat int
	}
	var proposals []proposal
	return func(step int) (c11Op, bool) {
		if step >= n {
			return c11Op{}, false
		}
		var open []disputetypes.Dispute
		voteEnd := time.Time{}
		_ = f.s.Disputekeeper.Disputes.Walk(f.ctx, nil, func(id uint64, d disputetypes.Dispute) (bool, error) {
			open = append(open, d)
			if d.DisputeStatus == disputetypes.Voting {
				if v, err := f.s.Disputekeeper.Votes.Get(f.ctx, id); err == nil && (voteEnd.IsZero() || v.VoteEnd.Before(voteEnd)) {
					voteEnd = v.VoteEnd
				}
			}
			return false, nil
		})
		sender := pick(r, w.senders...)
		k := r.Intn(10)
		switch {
		case k < 4 || len(open) == 0 && k < 8:
			rep := pick(r, reports...)
			kind := "genuine"
			if r.Intn(4) == 0 {
				rep, kind = w.alter(r, rep)
			}
			cat := pick(r, 1, 1, 2, 2, 3, 3, 3, 0, 4)
			if len(proposals) > 0 && r.Intn(4) == 0 {
				p := pick(r, proposals...)
				rep, cat, kind = p.rep, p.cat, "repeat"
				if r.Intn(2) == 0 {
					cat = pick(r, 1, 2, 3)
					kind = "same-report-other-category"
				}
			}
			full := w.feeFor(rep.Power, cat)
			fee := full
			fk := "full"
			switch r.Intn(10) {
			case 0, 1, 2:
				fee, fk = pick(r, bquo(full, bi(2)), bsub(full, bi(1)), bi(10_000), bquo(full, bi(100))), "partial"
			case 3:
				fee, fk = pick(r, badd(full, bi(1)), bmul(full, bi(2))), "over"
			case 4:
				fee, fk = pick(r, bi(9_999), bi(0)), "below-minimum"
			}
			if fee.Sign() <= 0 || (cat == 0 || cat == 4) && fk != "below-minimum" {
				fee = bi(int64(pick(r, 10_000, 1_000_000)))
			}
			bond := r.Intn(4) == 0
			if bond {
				sender = w.payer
			}
			proposals = append(proposals, proposal{rep, cat})
			return w.proposeOp(sender, rep, cat, fee, bond, fmt.Sprintf("propose/%s/cat%d/%s/bond=%v", kind, cat, fk, bond)), true
		case k < 8 && len(open) > 0:
			d := pick(r, open...)
			for _, x := range open { // mostly a dispute that still waits for its fee
				if x.FeeTotal.LT(x.SlashAmount) && r.Intn(4) != 0 {
					d = x
				}
			}
			rest := d.SlashAmount.Sub(d.FeeTotal).BigInt()
			amt := pick(r, rest, rest, bsub(rest, bi(1)), badd(rest, bi(1)), bquo(rest, bi(2)), bi(1), bi(0))
			if amt.Sign() < 0 {
				amt = bi(0)
			}
			bond := r.Intn(4) == 0
			kind := "addfee"
			if bond {
				sender = w.payer
				// the disputed reporter may not pay from bond (only for the dispute that names it: its stake is inside the
				// projected slice, and a payment from it to another dispute would be a payment from stake of the kind the
				// model keeps outside the slice)
				if r.Intn(4) == 0 && d.InitialEvidence.Reporter == w.f.accts[w.h.reporter].String() {
					sender = w.h.reporter
					kind = "addfee-by-disputed"
				}
			}
			id := d.DisputeId
			if r.Intn(15) == 0 {
				id += 7
			}
			return w.addFeeOp(sender, id, amt, bond, fmt.Sprintf("%s/bond=%v", kind, bond)), true
		default:
			gap := pick(r, time.Second, time.Hour, 12*time.Hour, 24*time.Hour, 24*time.Hour+time.Nanosecond, 25*time.Hour)
			// land exactly on / just after a prevote deadline
			for _, d := range open {
				if d.DisputeStatus == disputetypes.Prevote && d.DisputeEndTime.After(f.now) && r.Intn(2) == 0 {
					gap = d.DisputeEndTime.Sub(f.now) + pick(r, 0, time.Nanosecond, -time.Nanosecond, time.Second)
				}
			}
			if gap <= 0 {
				gap = time.Second
			}
			// votes are not tallied inside the modelled horizon
			if !voteEnd.IsZero() && !f.now.Add(gap).Before(voteEnd) {
				gap = time.Second
				if !f.now.Add(gap).Before(voteEnd) {
					return c11Op{}, false
				}
			}
			return c11Op{gap: gap, kind: "block"}, true
		}
	}
}

func c11Script(ops []c11Op) func(step int) (c11Op, bool) {
	return func(step int) (c11Op, bool) {
		if step >= len(ops) {
			return c11Op{}, false
		}
		return ops[step], true
	}
}

func TestC11Dispute(t *testing.T) {
	out := newOut(t, "c11_dispute")
	defer out.Close()
	r := rand.New(rand.NewSource(seed() + 7))
	// ---- corpus: one history per clause of the property -------------------------------------------------
	corpus := 0
	mk := func(round bool, hist int) (*c11World, oracletypes.MicroReport) {
		for {
			w, reps := c11NewWorld(t, r, round, hist)
			if len(reps) > 0 && reps[0].Reporter == w.f.accts[w.h.reporter].String() {
				return w, reps[0]
			}
		}
	}
	emit := func(w *c11World, tag string, ops []c11Op) {
		w.runOps(out, c11Script(ops), []string{tag}, []string{tag}, fmt.Sprintf("corpus%d", corpus))
		corpus++
	}
	for cat := 1; cat <= 3; cat++ {
		w, rep := mk(true, 0)
		emit(w, "corpus", []c11Op{w.proposeOp(w.senders[0], rep, cat, w.feeFor(rep.Power, cat), false, "propose/full")})
	}
	{ // partial fee from two payers and from stake, completed in time
		w, rep := mk(true, 0)
		full := w.feeFor(rep.Power, 2)
		emit(w, "corpus", []c11Op{
			w.proposeOp(w.senders[0], rep, 2, bquo(full, bi(3)), false, "propose/partial"),
			{gap: 12 * time.Hour, kind: "block"},
			w.addFeeOp(w.payer, 1, bquo(full, bi(3)), true, "addfee/bond"),
			{gap: 12 * time.Hour, kind: "block"},
			w.addFeeOp(w.senders[1], 1, full, false, "addfee/over"),
			w.addFeeOp(w.senders[1], 1, bi(1), false, "addfee/after-complete"),
			w.proposeOp(w.senders[0], rep, 2, full, false, "propose/repeat"),
		})
	}
	{ // underfunded: expires after one day, never slashed
		w, rep := mk(true, 0)
		full := w.feeFor(rep.Power, 3)
		emit(w, "corpus", []c11Op{
			w.proposeOp(w.senders[0], rep, 3, bsub(full, bi(1)), false, "propose/partial"),
			{gap: 24 * time.Hour, kind: "block"},
			{gap: time.Nanosecond, kind: "block"},
			w.addFeeOp(w.senders[1], 1, bi(1), false, "addfee/after-expiry"),
			w.proposeOp(w.senders[0], rep, 3, full, false, "propose/repeat"),
		})
	}
	{ // F18: altered value and inflated power
		w, rep := mk(true, 0)
		fake := rep
		fake.Value = c11Hex(77)
		fake.Power = rep.Power * 3
		emit(w, "corpus:F18", []c11Op{w.proposeOp(w.senders[0], fake, 2, w.feeFor(fake.Power, 2), false, "propose/altered")})
	}
	{ // F19: a jailed reporter cannot be disputed again (warning / minor)
		w, rep := mk(true, 0)
		emit(w, "corpus", []c11Op{
			w.proposeOp(w.senders[0], rep, 1, w.feeFor(rep.Power, 1), false, "propose/full"),
			w.proposeOp(w.senders[0], rep, 2, w.feeFor(rep.Power, 2), false, "propose/jailed"),
			w.proposeOp(w.senders[0], rep, 3, w.feeFor(rep.Power, 3), false, "propose/major-after-warning"),
		})
	}
	// ---- generated histories ----------------------------------------------------------------------------
	n := count(110, 2500)
	for i := 0; i < n; i++ {
		w, reps := c11NewWorld(t, r, r.Intn(2) == 0, pick(r, 0, 0, 2, 5, 10))
		if len(reps) == 0 {
			continue
		}
		w.runOps(out, w.genOps(r, reps, 2+r.Intn(6)), nil, append([]string{}, w.h.ops...), fmt.Sprintf("g%d", i))
	}
}
