package harness

// C09, eligibility for the time based rewards: the real end-blocker pass SetAggregatedReport over several rounds that
// close in one block — cycle-list / bridge-deposit rounds (reports carry the Cyclelist flag) and tipped rounds outside
// the cycle list, in both key orders.  Observed: every AllocateRewards call (source pool, coins moved, AllocateTip calls).

import (
	"context"
	"encoding/binary"
	"fmt"
	"math/big"
	"math/rand"
	"testing"
	"time"

	"github.com/stretchr/testify/mock"
	keepertest "github.com/tellor-io/layer/testutil/keeper"
	minttypes "github.com/tellor-io/layer/x/mint/types"
	otypes "github.com/tellor-io/layer/x/oracle/types"

	"cosmossdk.io/collections"
	"cosmossdk.io/math"

	sdk "github.com/cosmos/cosmos-sdk/types"
	authtypes "github.com/cosmos/cosmos-sdk/x/auth/types"
)

func TestC09Eligible(t *testing.T) {
	out := newOut(t, "c09_elig")
	defer out.Close()
	r := rand.New(rand.NewSource(seed()*13 + 5))
	k, rk, _, ak, bk, ctx0 := keepertest.OracleKeeper(t)
	addrs := rankedAddrs(r, 8)
	type call struct {
		pool  int
		moved *big.Int
		pays  []string
	}
	var calls []call
	var cur []string
	rk.On("DivvyingTips", mock.Anything, mock.Anything, mock.Anything, mock.Anything, mock.Anything).Return(nil).Run(func(args mock.Arguments) {
		addr := args.Get(1).(sdk.AccAddress)
		amt := args.Get(2).(math.LegacyDec)
		q := args.Get(3).([]byte)
		h := args.Get(4).(uint64)
		id := -1
		for i, a := range addrs {
			if a.Equals(addr) {
				id = i
			}
		}
		cur = append(cur, fmt.Sprintf("(%d, %s, %d, %d)", id, cz(decScaled(amt)), binary.BigEndian.Uint64(q), h))
	})
	bk.On("SendCoinsFromModuleToModule", mock.Anything, mock.Anything, mock.Anything, mock.Anything).Return(nil).Run(func(args mock.Arguments) {
		from := args.Get(1).(string)
		coins := args.Get(3).(sdk.Coins)
		amt := new(big.Int)
		for _, c := range coins {
			amt.Add(amt, c.Amount.BigInt())
		}
		pool := 1
		if from == minttypes.TimeBasedRewards {
			pool = 2
		}
		calls = append(calls, call{pool, amt, cur})
		cur = nil
	})
	tbrAcc := authtypes.NewEmptyModuleAccount(minttypes.TimeBasedRewards)
	ak.On("GetModuleAccount", mock.Anything, minttypes.TimeBasedRewards).Return(tbrAcc)
	var R *big.Int
	bk.On("GetBalance", mock.Anything, mock.Anything, mock.Anything).Return(func(context.Context, sdk.AccAddress, string) sdk.Coin {
		return sdk.NewCoin("loya", math.NewIntFromBigInt(R))
	})
	n := count(150, 5000)
	metaID := uint64(1)
	for i := 0; i < n; i++ {
		height := int64(20 + i)
		ctx := ctx0.WithBlockHeight(height).WithBlockTime(time.UnixMilli(1_700_000_000_000 + int64(i)*1000))
		R = pick(r, bi(0), bi(1), bi(1200), bi(1_000_000), bi(int64(1+r.Intn(5_000_000))))
		nq := 1 + r.Intn(4)
		// key order of the eligible round relative to the others: first, last, in between
		base := r.Perm(nq)
		var rounds []string
		type rd struct {
			qnum  uint64
			elig  bool
			tip   *big.Int
			reps  [][3]uint64
			order int
		}
		var rds []rd
		anyElig := false
		for q := 0; q < nq; q++ {
			elig := r.Intn(2) == 0
			tip := bi(0)
			if !elig || r.Intn(3) == 0 {
				tip = pick(r, bi(100), bi(980), bi(1_000_001), bi(int64(1+r.Intn(1_000_000))))
			}
			nr := 1 + r.Intn(3)
			var reps [][3]uint64
			for _, who := range r.Perm(len(addrs))[:nr] {
				reps = append(reps, [3]uint64{uint64(who), uint64(1 + r.Intn(50)), uint64(height - int64(1+r.Intn(2)))})
			}
			anyElig = anyElig || elig
			rds = append(rds, rd{uint64(1000*(i+1) + 10*base[q] + 1), elig, tip, reps, base[q]})
		}
		// store them; the store iterates in key order
		for _, x := range rds {
			qid := make([]byte, 32)
			binary.BigEndian.PutUint64(qid, x.qnum)
			if err := k.Query.Set(ctx, collections.Join(qid, metaID), otypes.QueryMeta{Id: metaID, Amount: math.NewIntFromBigInt(x.tip), Expiration: uint64(height) - uint64(r.Intn(2)),
				RegistrySpecBlockWindow: 2, HasRevealedReports: true, QueryData: qid, QueryType: "SpotPrice", CycleList: x.elig}); err != nil {
				t.Fatal(err)
			}
			for _, p := range x.reps {
				m := otypes.MicroReport{Reporter: addrs[p[0]].String(), Power: p[1], Value: fmt.Sprintf("%064x", 1000+p[0]), BlockNumber: p[2], QueryId: qid,
					AggregateMethod: "weighted-median", QueryType: "SpotPrice", Cyclelist: x.elig}
				if err := k.Reports.Set(ctx, collections.Join3(qid, addrs[p[0]].Bytes(), metaID), m); err != nil {
					t.Fatal(err)
				}
			}
			metaID++
		}
		calls, cur = nil, nil
		var runErr error
		func() {
			defer func() {
				if p := recover(); p != nil {
					runErr = fmt.Errorf("panic: %v", p)
				}
			}()
			runErr = k.SetAggregatedReport(ctx)
		}()
		if runErr != nil {
			t.Fatalf("SetAggregatedReport: %v", runErr)
		}
		// rounds in key order (the order SetAggregatedReport visits them); reporters in address order as the Id index returns them
		for ord := 0; ord < nq; ord++ {
			for _, x := range rds {
				if x.order != ord {
					continue
				}
				reps := append([][3]uint64(nil), x.reps...)
				for a := 0; a < len(reps); a++ {
					for b := a + 1; b < len(reps); b++ {
						if string(addrs[reps[b][0]].Bytes()) < string(addrs[reps[a][0]].Bytes()) {
							reps[a], reps[b] = reps[b], reps[a]
						}
					}
				}
				rs := make([]string, len(reps))
				for j, p := range reps {
					rs[j] = fmt.Sprintf("(%d, %d, %d)", p[0], p[1], p[2])
				}
				rounds = append(rounds, fmt.Sprintf("(%s, %s, {| g_query := %d; g_reporters := %s |})", cbool(x.elig), cz(x.tip), x.qnum, clist(rs)))
			}
		}
		impl := make([]string, len(calls))
		for j, c := range calls {
			impl[j] = fmt.Sprintf("(%d, %s, %s)", c.pool, cz(c.moved), clist(c.pays))
		}
		kind := "no-eligible-round"
		if anyElig {
			kind = fmt.Sprintf("eligible/rounds=%d", nq)
		}
		out.Emit(Case{Coq: fmt.Sprintf("EligCase %s %s %s", clist(rounds), cz(R), clist(impl)), Kind: kind, Nontrivial: nq >= 2 && anyElig, Key: fmt.Sprint(seed(), i),
			Human: map[string]interface{}{"rounds": nq, "reward_pool": R.String(), "allocate_calls": len(calls)}})
	}
}
