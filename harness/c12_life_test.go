package harness

// C12 (lifecycle clause) — TestC12Lifecycle drives the REAL application (newWorld: tests.SharedSetup rewired with
// the production module accounts; real bank, staking, oracle, reporter and dispute keepers) through whole dispute
// lifecycles: real reports (MsgSubmitValue + the oracle end blocker) are disputed through the real dispute msg
// server (MsgProposeDispute for a new dispute and for every further round, MsgAddFeeToDispute, MsgVote) and time
// passes through the real dispute.BeginBlocker (prevote expiry, tally at the vote end, execution).  After EVERY
// event all dispute records of the store (Disputes[id] + Votes[id], ids 1..n) and the amount the payer was
// actually charged are observed.  One case = one history as a Gallina term (LifeCase).

import (
	"fmt"
	"math/big"
	"math/rand"
	"os"
	"sort"
	"strings"
	"testing"
	"time"

	"github.com/tellor-io/layer/utils"
	"github.com/tellor-io/layer/x/dispute"
	disputetypes "github.com/tellor-io/layer/x/dispute/types"
	oracletypes "github.com/tellor-io/layer/x/oracle/types"

	"cosmossdk.io/collections"
	"cosmossdk.io/math"

	sdk "github.com/cosmos/cosmos-sdk/types"
	stakingtypes "github.com/cosmos/cosmos-sdk/x/staking/types"
)

var c12lifeDebug = os.Getenv("C12LIFE_DEBUG") != ""

const (
	c12lifeOK       = 0 // accepted / block ran
	c12lifeRejected = 1 // the transaction returned an error (state unchanged)
	c12lifeHaltOpen = 2 // BeginBlocker failed in CheckOpenDisputesForExpiration (expiry / tally)
	c12lifeHaltExec = 3 // BeginBlocker failed in CheckClosedDisputesForExecution (settlement: C13's domain)
)

type c12lifeReport struct {
	rep   oracletypes.MicroReport
	cat   disputetypes.DisputeCategory
	slash *big.Int // GetDisputeFee(report, category)
}

type c12lifeWorld struct {
	t  *testing.T
	w  *World
	r  *rand.Rand
	t0 int64

	reports []c12lifeReport
	payers  []int // rich accounts that pay fees from their balance
	tipper  int
	holders []int // plain accounts: token holders
	reps    []int // reporter accounts
	steps   []string
	last    []string // records of the previous observation
	stats   map[string]int
	halted  string
}

func c12lifeStatus(s disputetypes.DisputeStatus) string {
	switch s {
	case disputetypes.Prevote:
		return "Prevote"
	case disputetypes.Voting:
		return "Voting"
	case disputetypes.Resolved:
		return "Resolved"
	case disputetypes.Unresolved:
		return "Unresolved"
	case disputetypes.Failed:
		return "Failed"
	}
	panic("unknown dispute status")
}

// all dispute records of the store, ids 1..n
func (l *c12lifeWorld) recs() []string {
	k := l.w.s.Disputekeeper
	ctx := l.w.ctx
	next := k.NextDisputeId(ctx)
	var items []string
	for id := uint64(1); id < next; id++ {
		d, err := k.Disputes.Get(ctx, id)
		if err != nil {
			l.t.Fatalf("dispute %d missing below NextDisputeId %d", id, next)
		}
		hasVote, vs, ve, vres, vex := false, int64(0), int64(0), int64(0), false
		if v, err := k.Votes.Get(ctx, id); err == nil {
			hasVote, vs, ve, vres, vex = true, v.VoteStart.UnixNano(), v.VoteEnd.UnixNano(), int64(v.VoteResult), v.Executed
		}
		prev := make([]string, len(d.PrevDisputeIds))
		for i, p := range d.PrevDisputeIds {
			prev[i] = czu(p)
		}
		if d.DisputeId != id {
			l.t.Fatalf("dispute stored under %d has id %d", id, d.DisputeId)
		}
		items = append(items, fmt.Sprintf("(DR %d %s %s %s %d %s %s %s %s %s %s %s %s %s %s %d %s)",
			d.DisputeId, c12lifeStatus(d.DisputeStatus), cbool(d.Open), cbool(d.PendingExecution), d.DisputeRound,
			czi(d.DisputeStartTime.UnixNano()), czi(d.DisputeEndTime.UnixNano()),
			cz(d.FeeTotal.BigInt()), cz(d.SlashAmount.BigInt()), cz(d.BurnAmount.BigInt()), cz(d.DisputeFee.BigInt()),
			clist(prev), cbool(hasVote), czi(vs), czi(ve), vres, cbool(vex)))
	}
	return items
}

// the observation after an event, delta-encoded: the records that are new or differ in any field from the
// previous observation (the Coq side rebuilds the full list, Model/DisputeTally.v expand)
func (l *c12lifeWorld) delta() string {
	cur := l.recs()
	if len(cur) < len(l.last) {
		l.t.Fatalf("a dispute record disappeared: %d -> %d", len(l.last), len(cur))
	}
	var items []string
	for i, c := range cur {
		if i >= len(l.last) || l.last[i] != c {
			items = append(items, c)
		}
	}
	l.last = cur
	return clist(items)
}

// what a tally of dispute id reads besides the dispute and vote records (environment facts of the lifecycle
// machine; the vote bookkeeping itself is the subject of TestC12Votes)
func (l *c12lifeWorld) tallyData(id uint64) string {
	k := l.w.s.Disputekeeper
	ctx := l.w.ctx
	d, err := k.Disputes.Get(ctx, id)
	if err != nil {
		return "(TD None (C3 0 0 0) (C3 0 0 0) (C3 0 0 0) 0 0 0 0)"
	}
	team := "None"
	if v, err := k.Voter.Get(ctx, collections.Join(id, l.w.accts[l.w.team].Bytes())); err == nil {
		team = c12choice(int(v.Vote))
	}
	var vc disputetypes.StakeholderVoteCounts
	if c, err := k.VoteCountsByGroup.Get(ctx, id); err == nil {
		vc = c
	}
	g := func(c disputetypes.VoteCounts) string {
		return fmt.Sprintf("(C3 %d %d %d)", c.Support, c.Against, c.Invalid)
	}
	tips, power := big.NewInt(0), big.NewInt(0)
	if info, err := k.BlockInfo.Get(ctx, d.HashId); err == nil {
		tips, power = info.TotalUserTips.BigInt(), info.TotalReporterPower.BigInt()
	}
	voters, _ := k.GetVoters(ctx, id)
	return fmt.Sprintf("(TD %s %s %s %s %s %s %s %d)", team, g(vc.Users), g(vc.Reporters), g(vc.Tokenholders),
		cz(tips), cz(power), cz(k.GetTotalSupply(ctx).BigInt()), len(voters))
}

func (l *c12lifeWorld) bal(a int) *big.Int {
	return l.w.s.Bankkeeper.GetBalance(l.w.ctx, l.w.accts[a], l.w.s.Denom).Amount.BigInt()
}

func (l *c12lifeWorld) emit(ev string, res int, charged *big.Int, msg string) {
	name := strings.TrimPrefix(strings.SplitN(ev, " ", 2)[0], "(")
	l.stats[fmt.Sprintf("%s/%d", name, res)]++
	step := fmt.Sprintf("(LS %s %d %s %s)", ev, res, cz(charged), l.delta())
	if c12lifeDebug {
		fmt.Printf("  %s  -- %s\n", step, msg)
	}
	l.steps = append(l.steps, step)
}

// a transaction in its own cache context, committed on success
func (l *c12lifeWorld) tx(f func(ctx sdk.Context) error) (res int, msg string) {
	cctx, write := l.w.ctx.CacheContext()
	func() {
		defer func() {
			if rec := recover(); rec != nil {
				res, msg = c12lifeRejected, fmt.Sprintf("panic: %v", rec)
			}
		}()
		if err := f(cctx); err != nil {
			res, msg = c12lifeRejected, err.Error()
			return
		}
		write()
	}()
	return
}

// MsgProposeDispute on report k: a new dispute, or a further round of its lineage
func (l *c12lifeWorld) propose(k int, payer int, fee *big.Int) int {
	rp := l.reports[k]
	rep := rp.rep
	before := l.bal(payer)
	res, msg := l.tx(func(ctx sdk.Context) error {
		_, err := l.w.disputeMS.ProposeDispute(ctx, &disputetypes.MsgProposeDispute{Creator: l.w.accts[payer].String(), Report: &rep,
			DisputeCategory: rp.cat, Fee: l.w.coin(fee), PayFromBond: false})
		return err
	})
	l.emit(fmt.Sprintf("(LPropose %d %s %s)", k, cz(rp.slash), cz(fee)), res, bsub(before, l.bal(payer)), msg)
	return res
}

func (l *c12lifeWorld) addFee(id uint64, payer int, amt *big.Int) int {
	before := l.bal(payer)
	res, msg := l.tx(func(ctx sdk.Context) error {
		_, err := l.w.disputeMS.AddFeeToDispute(ctx, &disputetypes.MsgAddFeeToDispute{Creator: l.w.accts[payer].String(), DisputeId: id,
			Amount: l.w.coin(amt), PayFromBond: false})
		return err
	})
	l.emit(fmt.Sprintf("(LAddFee %d %s)", id, cz(amt)), res, bsub(before, l.bal(payer)), msg)
	return res
}

func (l *c12lifeWorld) vote(id uint64, voter int, choice disputetypes.VoteEnum) int {
	k := l.w.s.Disputekeeper
	has, _ := k.Voter.Has(l.w.ctx, collections.Join(id, l.w.accts[voter].Bytes()))
	eligible := !has && l.bal(voter).Sign() > 0 // no vote record yet and a positive token-holder weight
	before := l.bal(voter)
	res, msg := l.tx(func(ctx sdk.Context) error {
		_, err := l.w.disputeMS.Vote(ctx, &disputetypes.MsgVote{Voter: l.w.accts[voter].String(), Id: id, Vote: choice})
		return err
	})
	l.emit(fmt.Sprintf("(LVote %d %s %s)", id, cbool(eligible), l.tallyData(id)), res, bsub(before, l.bal(voter)), msg)
	return res
}

// the next block, dt later: the real dispute.BeginBlocker
func (l *c12lifeWorld) block(dt time.Duration) int {
	w := l.w
	w.height++
	w.now = w.now.Add(dt)
	w.ctx = w.s.Ctx.WithBlockHeight(w.height).WithBlockTime(w.now).WithEventManager(sdk.NewEventManager())
	w.s.Ctx = w.ctx
	// tally inputs of the disputes in voting, as the begin blocker will read them
	var env []string
	next := w.s.Disputekeeper.NextDisputeId(w.ctx)
	for id := uint64(1); id < next; id++ {
		if d, err := w.s.Disputekeeper.Disputes.Get(w.ctx, id); err == nil && d.DisputeStatus == disputetypes.Voting {
			env = append(env, fmt.Sprintf("(%d, %s)", id, l.tallyData(id)))
		}
	}
	run := func(f func(ctx sdk.Context) error) (failed bool, msg string) {
		cctx, write := w.ctx.CacheContext()
		func() {
			defer func() {
				if rec := recover(); rec != nil {
					failed, msg = true, fmt.Sprintf("panic: %v", rec)
				}
			}()
			if err := f(cctx); err != nil {
				failed, msg = true, err.Error()
				return
			}
			write()
		}()
		return
	}
	res := c12lifeOK
	failed, msg := run(func(ctx sdk.Context) error { return dispute.BeginBlocker(ctx, w.s.Disputekeeper) })
	if failed {
		// which half failed: expiry / tally (this property) or execution (settlement, C13)
		res = c12lifeHaltExec
		cctx, _ := w.ctx.CacheContext()
		func() {
			defer func() {
				if rec := recover(); rec != nil {
					res = c12lifeHaltOpen
				}
			}()
			if err := dispute.CheckOpenDisputesForExpiration(cctx, w.s.Disputekeeper); err != nil {
				res = c12lifeHaltOpen
			}
		}()
		l.halted = msg
	}
	l.emit(fmt.Sprintf("(LBlock %s %s)", czi(int64(dt)), clist(env)), res, bi(0), msg)
	return res
}

// ---- set-up ----------------------------------------------------------------------------------------
// nReports real reports by different reporters, aggregated by the oracle end blocker; a tipper so that the users
// group has a total; rich payers
func newC12lifeWorld(t *testing.T, r *rand.Rand, nReports int, cats []disputetypes.DisputeCategory) *c12lifeWorld {
	w := newWorld(t, r, 3, 5)
	l := &c12lifeWorld{t: t, w: w, r: r, stats: map[string]int{}}
	nVals := 3
	l.reps = []int{0, 1}
	l.payers = []int{nVals, nVals + 1}
	l.tipper = nVals + 2
	l.holders = []int{nVals + 3, nVals + 4}
	for _, p := range l.payers {
		w.s.MintTokens(w.accts[p], math.NewInt(1_000_000*loyaPerTRB))
	}
	// extra stake of the reporters, so that dispute fees are not tiny
	for i, rep := range l.reps {
		amt := pick(r, int64(1000), int64(437), int64(2500), int64(999)) * loyaPerTRB
		if r.Intn(2) == 0 {
			amt += int64(r.Intn(loyaPerTRB))
		}
		if _, err := w.stakingMS.Delegate(w.ctx, &stakingtypes.MsgDelegate{DelegatorAddress: w.accts[rep].String(),
			ValidatorAddress: w.valOps[i%len(w.valOps)].String(), Amount: w.coin(bi(amt))}); err != nil {
			t.Fatal(err)
		}
	}
	blockFn := func(f func()) {
		w.beginBlock(time.Duration(1+r.Intn(3)) * time.Second)
		if w.halted != "" {
			t.Fatal("set-up halted: " + w.halted)
		}
		if f != nil {
			f()
		}
		w.endBlock()
		if w.halted != "" {
			t.Fatal("set-up halted: " + w.halted)
		}
	}
	blockFn(func() {
		qd := w.queries[0]
		if _, err := w.oracleMS.Tip(w.ctx, &oracletypes.MsgTip{Tipper: w.accts[l.tipper].String(), QueryData: qd, Amount: w.coin(bi(int64(1+r.Intn(50)) * loyaPerTRB))}); err != nil {
			t.Fatal(err)
		}
	})
	for b := 0; b < 6 && len(w.recent) < 2*nReports; b++ {
		blockFn(func() {
			qd := w.currentCycleQuery()
			for _, rep := range l.reps {
				_, err := w.oracleMS.SubmitValue(w.ctx, &oracletypes.MsgSubmitValue{Creator: w.accts[rep].String(), QueryData: qd, Value: randHex(r, 64)})
				if err == nil {
					w.noteReport(w.ctx, utils.QueryIDFromData(qd), w.accts[rep])
				} else if c12lifeDebug {
					fmt.Println("submit:", err)
				}
			}
		})
	}
	blockFn(nil)
	blockFn(nil)
	// one report per reporter (a disputed reporter is jailed: a second dispute against it could not slash)
	seen := map[string]bool{}
	for _, rep := range w.recent {
		if seen[rep.Reporter] || len(l.reports) >= nReports {
			continue
		}
		seen[rep.Reporter] = true
		cat := cats[len(l.reports)%len(cats)]
		fee, err := w.s.Disputekeeper.GetDisputeFee(w.ctx, rep, cat)
		if err != nil {
			t.Fatal(err)
		}
		l.reports = append(l.reports, c12lifeReport{rep: rep, cat: cat, slash: fee.BigInt()})
	}
	if len(l.reports) < nReports {
		t.Fatalf("set-up: only %d reports", len(l.reports))
	}
	l.t0 = w.now.UnixNano()
	return l
}

func (l *c12lifeWorld) term() string {
	return fmt.Sprintf("LifeCase %s %s", czi(l.t0), clist(l.steps))
}

func c12lifeSorted(m map[string]int) []string {
	keys := make([]string, 0, len(m))
	for k := range m {
		keys = append(keys, k)
	}
	sort.Strings(keys)
	out := make([]string, len(keys))
	for i, k := range keys {
		out[i] = fmt.Sprintf("%s=%d", k, m[k])
	}
	return out
}

// ---- helpers on the observed state -----------------------------------------------------------------
func (l *c12lifeWorld) dispute(id uint64) (disputetypes.Dispute, bool) {
	d, err := l.w.s.Disputekeeper.Disputes.Get(l.w.ctx, id)
	return d, err == nil
}

func (l *c12lifeWorld) nextID() uint64 { return l.w.s.Disputekeeper.NextDisputeId(l.w.ctx) }

// the last dispute of report k's lineage
func (l *c12lifeWorld) latest(k int) (disputetypes.Dispute, bool) {
	d, err := l.w.s.Disputekeeper.GetDisputeByReporter(l.w.ctx, l.reports[k].rep, l.reports[k].cat)
	return d, err == nil
}

func (l *c12lifeWorld) voteOf(id uint64) (disputetypes.Vote, bool) {
	v, err := l.w.s.Disputekeeper.Votes.Get(l.w.ctx, id)
	return v, err == nil
}

// fee of the round that follows round `round` (for choosing amounts around it; the check recomputes it)
func c12lifeRoundFee(slash *big.Int, round uint64) *big.Int {
	f := bmul(bquo(slash, bi(20)), pow2(int(round)))
	if f.Cmp(slash) > 0 {
		return new(big.Int).Set(slash)
	}
	return f
}

func (l *c12lifeWorld) around(x *big.Int) *big.Int {
	r := l.r
	switch r.Intn(7) {
	case 0:
		return badd(x, bi(1))
	case 1:
		return bmul(x, bi(int64(2+r.Intn(3))))
	case 2:
		return badd(x, bi(int64(1+r.Intn(100_000))))
	default:
		return new(big.Int).Set(x)
	}
}

func (l *c12lifeWorld) payer() int { return pick(l.r, l.payers...) }

var c12lifeChoices = []disputetypes.VoteEnum{disputetypes.VoteEnum_VOTE_SUPPORT, disputetypes.VoteEnum_VOTE_AGAINST, disputetypes.VoteEnum_VOTE_INVALID}

// voters whose groups carry a dispute over 51 % (team 25 %, the only tipper 25 %, the two payers hold most of the
// liquid supply) and voters who cannot (small holders, the reporters, a validator without reports)
func (l *c12lifeWorld) heavy() []int { return []int{l.w.team, l.tipper, l.payers[0], l.payers[1]} }
func (l *c12lifeWorld) light() []int {
	return append([]int{2}, append(append([]int{}, l.holders...), l.reps...)...)
}

func (l *c12lifeWorld) voteUntilResolved(id uint64, c disputetypes.VoteEnum) {
	for _, v := range l.heavy() {
		if d, ok := l.dispute(id); !ok || d.DisputeStatus != disputetypes.Voting {
			return
		}
		l.vote(id, v, c)
	}
}

// the time from now to t
func (l *c12lifeWorld) until(t time.Time) time.Duration { return t.Sub(l.w.now) }

// ---- corpus --------------------------------------------------------------------------------------------
type c12lifeScript struct {
	name     string
	nReports int
	cats     []disputetypes.DisputeCategory
	run      func(l *c12lifeWorld)
}

// rounds 2..n of lineage k, each opened after a vote without quorum; fee variants; returns the last id
func (l *c12lifeWorld) runRounds(k int, n int, exact bool) uint64 {
	S := l.reports[k].slash
	d, _ := l.latest(k)
	for round := 2; round <= n; round++ {
		d, _ = l.latest(k)
		if d.DisputeStatus == disputetypes.Voting {
			l.vote(d.DisputeId, pick(l.r, l.light()...), pick(l.r, c12lifeChoices...))
			v, _ := l.voteOf(d.DisputeId)
			l.block(l.until(v.VoteEnd) + time.Duration(1+l.r.Intn(1000))*time.Millisecond)
		}
		rf := c12lifeRoundFee(S, d.DisputeRound)
		if !exact {
			l.propose(k, l.payer(), bsub(rf, bi(1))) // one loya short: rejected
		}
		fee := rf
		if !exact {
			fee = l.around(rf)
		}
		l.propose(k, l.payer(), fee)
	}
	d, _ = l.latest(k)
	return d.DisputeId
}

func c12lifeCorpus() []c12lifeScript {
	W, Mi, Ma := disputetypes.Warning, disputetypes.Minor, disputetypes.Major
	one := func(c disputetypes.DisputeCategory) []disputetypes.DisputeCategory {
		return []disputetypes.DisputeCategory{c}
	}
	var cs []c12lifeScript
	// 1: paid in full, quorum reached by votes, executed in the next block; then everything is refused
	cs = append(cs, c12lifeScript{"quorum-then-refusals", 1, one(W), func(l *c12lifeWorld) {
		S := l.reports[0].slash
		l.propose(0, l.payers[0], bi(9_999)) // below the minimum fee
		l.propose(0, l.payers[0], S)
		l.vote(1, l.holders[0], disputetypes.VoteEnum_VOTE_AGAINST)
		l.vote(1, l.holders[0], disputetypes.VoteEnum_VOTE_SUPPORT) // twice
		l.voteUntilResolved(1, disputetypes.VoteEnum_VOTE_SUPPORT)
		l.vote(1, l.holders[1], disputetypes.VoteEnum_VOTE_SUPPORT) // resolved: not voting
		l.propose(0, l.payers[1], S)                                // new round on a resolved dispute
		l.addFee(1, l.payers[1], S)                                 // fee for a resolved dispute
		l.block(time.Second)                                        // execution
		l.propose(0, l.payers[1], bmul(S, bi(2)))
		l.addFee(1, l.payers[1], bi(1))
		l.vote(1, l.holders[1], disputetypes.VoteEnum_VOTE_SUPPORT)
		l.block(72 * time.Hour)
		l.propose(0, l.payers[1], S)
		l.block(time.Hour)
	}})
	// 2: partial fee, two more payments (the last one too large), no quorum, left to expire at the dispute end
	cs = append(cs, c12lifeScript{"addfee-noquorum-end", 1, one(Mi), func(l *c12lifeWorld) {
		S := l.reports[0].slash
		l.propose(0, l.payers[0], bquo(S, bi(3)))
		l.vote(1, l.holders[0], disputetypes.VoteEnum_VOTE_SUPPORT) // prevote: not voting
		l.addFee(1, l.payers[1], bquo(S, bi(3)))
		l.addFee(7, l.payers[1], S) // unknown id
		l.block(time.Hour)
		l.addFee(1, l.payers[0], bmul(S, bi(5)))
		l.addFee(1, l.payers[0], bi(1)) // fee already met
		l.vote(1, l.holders[0], disputetypes.VoteEnum_VOTE_INVALID)
		l.vote(1, l.reps[1], disputetypes.VoteEnum_VOTE_INVALID)
		v, _ := l.voteOf(1)
		l.block(l.until(v.VoteEnd)) // exactly at the vote end: still voting
		l.vote(1, l.holders[1], disputetypes.VoteEnum_VOTE_AGAINST)
		l.block(time.Nanosecond) // tally without quorum
		l.vote(1, 2, disputetypes.VoteEnum_VOTE_AGAINST)
		d, _ := l.dispute(1)
		l.block(l.until(d.DisputeEndTime)) // exactly at the end: not executed, a round is still possible
		l.block(time.Nanosecond)           // executed
		l.propose(0, l.payers[0], S)       // after the end
		l.block(time.Hour)
	}})
	// 3: under-funded: fails one nanosecond after the day
	cs = append(cs, c12lifeScript{"prevote-failed", 1, one(Ma), func(l *c12lifeWorld) {
		S := l.reports[0].slash
		l.propose(0, l.payers[0], bquo(S, bi(2)))
		l.addFee(1, l.payers[1], bi(1))
		d, _ := l.dispute(1)
		l.block(l.until(d.DisputeEndTime))
		l.addFee(1, l.payers[1], bi(2)) // at the end: accepted
		l.block(time.Nanosecond)        // failed
		l.addFee(1, l.payers[1], S)
		l.vote(1, l.holders[0], disputetypes.VoteEnum_VOTE_SUPPORT)
		l.propose(0, l.payers[0], S) // round on a failed dispute
		l.block(72 * time.Hour)
	}})
	// 4..: 2..6 rounds with the exact round fee, ended by quorum / by the dispute end / against in the last round
	for n := 2; n <= 6; n++ {
		n := n
		for _, end := range []string{"quorum", "expire"} {
			end := end
			cs = append(cs, c12lifeScript{fmt.Sprintf("rounds-%d-%s", n, end), 1, one([]disputetypes.DisputeCategory{W, Mi, Ma}[n%3]), func(l *c12lifeWorld) {
				l.propose(0, l.payers[0], l.reports[0].slash)
				id := l.runRounds(0, n, true)
				if end == "quorum" {
					l.voteUntilResolved(id, disputetypes.VoteEnum_VOTE_INVALID)
					l.block(time.Second)
				} else {
					l.vote(id, l.holders[0], disputetypes.VoteEnum_VOTE_SUPPORT)
					l.block(48*time.Hour + time.Second)
					l.block(24 * time.Hour)
				}
				l.propose(0, l.payers[0], l.reports[0].slash)
				l.block(time.Hour)
			}})
		}
	}
	// fee variants: one loya short (refused), larger than needed (charged the round fee only)
	cs = append(cs, c12lifeScript{"rounds-fee-variants", 1, one(Mi), func(l *c12lifeWorld) {
		l.propose(0, l.payers[0], badd(l.reports[0].slash, bi(12_345)))
		l.runRounds(0, 6, false)
		l.block(48*time.Hour + time.Second)
		l.block(24 * time.Hour)
	}})
	// nobody votes at all in two rounds
	cs = append(cs, c12lifeScript{"no-votes", 1, one(W), func(l *c12lifeWorld) {
		S := l.reports[0].slash
		l.propose(0, l.payers[0], S)
		l.block(48*time.Hour + time.Nanosecond)
		l.propose(0, l.payers[1], S)
		l.block(48*time.Hour + time.Nanosecond)
		l.block(24*time.Hour + time.Nanosecond)
	}})
	// six rounds, AGAINST in the last: the execution asks the bank for a negative amount (F22, C13): the block fails
	cs = append(cs, c12lifeScript{"rounds-6-against", 1, one(W), func(l *c12lifeWorld) {
		l.propose(0, l.payers[0], l.reports[0].slash)
		id := l.runRounds(0, 6, true)
		l.voteUntilResolved(id, disputetypes.VoteEnum_VOTE_AGAINST)
		l.block(time.Second)
	}})
	// two lineages interleaved: ids are taken in the order of creation
	cs = append(cs, c12lifeScript{"two-lineages", 2, []disputetypes.DisputeCategory{W, Mi}, func(l *c12lifeWorld) {
		l.propose(0, l.payers[0], l.reports[0].slash)
		l.propose(1, l.payers[1], bquo(l.reports[1].slash, bi(2)))
		l.vote(1, l.holders[0], disputetypes.VoteEnum_VOTE_SUPPORT)
		l.block(12 * time.Hour)
		l.addFee(2, l.payers[0], l.reports[1].slash)
		l.vote(2, l.holders[0], disputetypes.VoteEnum_VOTE_SUPPORT)
		l.block(36*time.Hour + time.Second)           // 1 tallied, 2 still voting
		l.propose(0, l.payers[0], l.reports[0].slash) // id 3 = round 2 of lineage 0
		l.block(12 * time.Hour)                       // 2 tallied
		l.propose(1, l.payers[1], l.reports[1].slash) // id 4 = round 2 of lineage 1
		l.voteUntilResolved(3, disputetypes.VoteEnum_VOTE_SUPPORT)
		l.block(time.Second)
		l.vote(4, l.holders[1], disputetypes.VoteEnum_VOTE_AGAINST)
		l.block(48*time.Hour + time.Second)
		l.propose(1, l.payers[1], l.reports[1].slash) // id 5
		l.propose(0, l.payers[0], l.reports[0].slash) // refused: resolved
		l.block(72*time.Hour + time.Second)
		l.block(time.Hour)
	}})
	return cs
}

// ---- generated histories -----------------------------------------------------------------------------------
type c12lifePlan struct {
	rounds  int  // rounds the lineage tries to reach
	quorum  bool // the last round is decided by quorum
	partial bool // the first payment is partial
	starve  bool // ... and never completed
	done    bool
	choice  disputetypes.VoteEnum
}

func (l *c12lifeWorld) noise() {
	r := l.r
	n := l.nextID()
	id := uint64(1)
	if n > 1 {
		id = 1 + uint64(r.Intn(int(n))) // sometimes one past the last id
	}
	switch r.Intn(4) {
	case 0:
		l.addFee(id, l.payer(), pick(r, bi(1), bi(10_000), bi(int64(1+r.Intn(5_000_000)))))
	case 1:
		l.vote(id, pick(r, append(l.light(), l.heavy()...)...), pick(r, c12lifeChoices...))
	case 2:
		k := r.Intn(len(l.reports))
		if d, ok := l.latest(k); ok {
			// a further round whatever the state (a new dispute is left to the plan)
			l.propose(k, l.payer(), pick(r, d.SlashAmount.BigInt(), c12lifeRoundFee(d.SlashAmount.BigInt(), d.DisputeRound), bi(9_999), bi(10_000)))
		}
	default:
		l.block(pick(r, time.Nanosecond, time.Second, time.Hour, 6*time.Hour))
	}
}

// a deadline as a block gap: exactly at it, one nanosecond or a while after it, or short of it
func (l *c12lifeWorld) gapTo(t time.Time) time.Duration {
	d := l.until(t)
	if d < 0 {
		d = 0
	}
	switch l.r.Intn(6) {
	case 0:
		return d
	case 1:
		if d > time.Nanosecond {
			return d - time.Nanosecond
		}
		return d
	case 2:
		return d + time.Nanosecond
	case 3:
		return d + time.Duration(1+l.r.Intn(3600))*time.Second
	default:
		return d + time.Duration(1+l.r.Intn(1000))*time.Millisecond
	}
}

// one move of lineage k according to its plan and the state of its last dispute
func (l *c12lifeWorld) advance(k int, p *c12lifePlan) {
	r := l.r
	S := l.reports[k].slash
	d, ok := l.latest(k)
	if !ok {
		switch {
		case r.Intn(12) == 0:
			l.propose(k, l.payer(), bi(int64(r.Intn(10_000)))) // below the minimum
		case p.partial:
			part := badd(bi(10_000), bigRand(r, bsub(S, bi(10_000))))
			if part.Cmp(S) >= 0 {
				part = bsub(S, bi(1))
			}
			l.propose(k, l.payer(), part)
		default:
			l.propose(k, l.payer(), l.around(S))
		}
		return
	}
	id := d.DisputeId
	switch d.DisputeStatus {
	case disputetypes.Prevote:
		missing := bsub(d.SlashAmount.BigInt(), d.FeeTotal.BigInt())
		switch x := r.Intn(10); {
		case p.starve && x < 5:
			l.block(l.gapTo(d.DisputeEndTime))
		case p.starve:
			if missing.Cmp(bi(1)) > 0 {
				l.addFee(id, l.payer(), badd(bi(1), bigRand(r, bsub(missing, bi(1))))) // never completes
			} else {
				l.block(l.gapTo(d.DisputeEndTime))
			}
		case x < 5:
			l.addFee(id, l.payer(), l.around(missing))
		case x < 8 && missing.Cmp(bi(2)) > 0:
			l.addFee(id, l.payer(), badd(bi(1), bigRand(r, bsub(missing, bi(2)))))
		case x == 8:
			l.block(pick(r, time.Second, time.Hour, 23*time.Hour))
		default:
			l.vote(id, pick(r, l.light()...), pick(r, c12lifeChoices...)) // refused
		}
	case disputetypes.Voting:
		v, _ := l.voteOf(id)
		last := int(d.DisputeRound) >= p.rounds
		switch x := r.Intn(10); {
		case last && p.quorum && x < 7:
			l.vote(id, pick(r, l.heavy()...), p.choice)
		case x < 4:
			l.vote(id, pick(r, l.light()...), pick(r, c12lifeChoices...))
		case x < 5:
			l.block(pick(r, time.Second, time.Hour, 24*time.Hour))
		default:
			l.block(l.gapTo(v.VoteEnd))
		}
	case disputetypes.Unresolved:
		if !d.Open {
			p.done = true // cannot happen for the last dispute of a lineage
			return
		}
		if int(d.DisputeRound) < p.rounds {
			rf := c12lifeRoundFee(d.SlashAmount.BigInt(), d.DisputeRound)
			switch r.Intn(8) {
			case 0:
				l.propose(k, l.payer(), bsub(rf, bi(1)))
			case 1:
				l.block(pick(r, time.Second, time.Hour, l.gapTo(d.DisputeEndTime)))
			default:
				l.propose(k, l.payer(), l.around(rf))
			}
		} else {
			l.block(l.gapTo(d.DisputeEndTime))
		}
	case disputetypes.Resolved:
		if d.PendingExecution {
			l.block(pick(r, time.Nanosecond, time.Second, time.Hour))
			return
		}
		fallthrough
	default: // settled or failed: every request is refused
		switch r.Intn(3) {
		case 0:
			l.propose(k, l.payer(), l.around(d.SlashAmount.BigInt()))
		case 1:
			l.addFee(id, l.payer(), l.around(d.SlashAmount.BigInt()))
		default:
			l.vote(id, pick(r, l.heavy()...), pick(r, c12lifeChoices...))
		}
		p.done = true
	}
}

func (l *c12lifeWorld) generated() {
	r := l.r
	plans := make([]*c12lifePlan, len(l.reports))
	for k := range plans {
		p := &c12lifePlan{rounds: pick(r, 1, 1, 2, 2, 3, 3, 4, 5, 6, 6), quorum: r.Intn(2) == 0, partial: r.Intn(3) == 0, choice: pick(r, c12lifeChoices...)}
		p.starve = p.partial && r.Intn(3) == 0
		if p.rounds == 6 && p.choice == disputetypes.VoteEnum_VOTE_AGAINST && r.Intn(4) != 0 {
			p.choice = disputetypes.VoteEnum_VOTE_SUPPORT // most six-round histories should not stop at F22's panic
		}
		plans[k] = p
	}
	for n := 0; n < 70 && l.halted == ""; n++ {
		var live []int
		for k, p := range plans {
			if !p.done {
				live = append(live, k)
			}
		}
		if len(live) == 0 {
			break
		}
		if r.Intn(9) == 0 {
			l.noise()
			continue
		}
		k := pick(r, live...)
		l.advance(k, plans[k])
	}
	if l.halted == "" {
		l.block(pick(r, time.Second, 73*time.Hour))
	}
}

// ---- the driver ----------------------------------------------------------------------------------------------
func (l *c12lifeWorld) finish(out *Out, kind string, tags ...string) {
	// outcome bucket: highest round reached and the final status of each lineage
	var fin []string
	for k := range l.reports {
		if d, ok := l.latest(k); ok {
			st := strings.ToLower(c12lifeStatus(d.DisputeStatus))
			if v, ok := l.voteOf(d.DisputeId); ok && v.Executed {
				st += "+exec"
			}
			fin = append(fin, fmt.Sprintf("r%d:%s", d.DisputeRound, st))
		} else {
			fin = append(fin, "none")
		}
	}
	if l.halted != "" {
		fin = append(fin, "halted")
	}
	transitions := l.stats["LPropose/0"] + l.stats["LAddFee/0"] + l.stats["LBlock/0"]
	rejected := l.stats["LPropose/1"] + l.stats["LAddFee/1"] + l.stats["LVote/1"]
	human := map[string]interface{}{"script": kind, "final": fin, "events": c12lifeSorted(l.stats)}
	if l.halted != "" {
		human["halted"] = l.halted
	}
	out.Emit(Case{Coq: l.term(), Kind: strings.Join(fin, ","), Nontrivial: transitions >= 3 && rejected >= 1, Key: strings.Join(l.steps, ""),
		Tags: tags, Human: human})
}

func TestC12Lifecycle(t *testing.T) {
	out := newOut(t, "TestC12Lifecycle")
	defer out.Close()
	r := rand.New(rand.NewSource(seed()))
	for _, sc := range c12lifeCorpus() {
		l := newC12lifeWorld(t, r, sc.nReports, sc.cats)
		sc.run(l)
		l.finish(out, sc.name, "corpus", "corpus:"+sc.name)
	}
	n := count(220, 6000)
	for i := 0; i < n; i++ {
		cats := []disputetypes.DisputeCategory{pick(r, disputetypes.Warning, disputetypes.Minor, disputetypes.Major), pick(r, disputetypes.Warning, disputetypes.Minor, disputetypes.Major)}
		l := newC12lifeWorld(t, r, pick(r, 1, 1, 2), cats)
		l.generated()
		l.finish(out, "generated")
	}
}

func TestC12LifeDebug(t *testing.T) {
	if !c12lifeDebug {
		t.Skip()
	}
	r := rand.New(rand.NewSource(seed()))
	t0 := time.Now()
	l := newC12lifeWorld(t, r, 2, []disputetypes.DisputeCategory{disputetypes.Warning, disputetypes.Minor})
	fmt.Println("setup", time.Since(t0))
	for i, rp := range l.reports {
		fmt.Println("report", i, rp.rep.Reporter, rp.rep.Power, rp.rep.BlockNumber, rp.cat, rp.slash)
	}
	S := l.reports[0].slash
	l.propose(0, l.payers[0], bquo(S, bi(2)))
	l.addFee(1, l.payers[1], S)
	l.vote(1, l.holders[0], disputetypes.VoteEnum_VOTE_SUPPORT)
	l.block(48*time.Hour + time.Second)
	for round := 2; round <= 6; round++ {
		l.propose(0, l.payers[0], S)
		l.vote(uint64(round), l.holders[1], disputetypes.VoteEnum_VOTE_INVALID)
		l.block(48*time.Hour + time.Second)
	}
	l.propose(1, l.payers[1], l.reports[1].slash)
	for _, v := range []int{l.w.team, 0, 1, 2, l.tipper} {
		l.vote(7, v, disputetypes.VoteEnum_VOTE_SUPPORT)
	}
	l.block(time.Second)
	l.block(72 * time.Hour)
	fmt.Println("total", time.Since(t0), c12lifeSorted(l.stats))
	os.WriteFile("/tmp/c12life_debug_case.v", []byte("From Coq Require Import ZArith List String.\nFrom Verif Require Import Base.Harness Model.DisputeTally.\nImport ListNotations.\nOpen Scope Z_scope.\nDefinition c := "+l.term()+".\nEval vm_compute in c12_check c.\n"), 0o644)
}
