package harness

import (
	"bytes"
	"fmt"
	"math/big"
	"math/rand"
	"sort"
	"testing"
	"time"

	"github.com/tellor-io/layer/utils"
	oracletypes "github.com/tellor-io/layer/x/oracle/types"
	registrytypes "github.com/tellor-io/layer/x/registry/types"
	reportertypes "github.com/tellor-io/layer/x/reporter/types"

	"cosmossdk.io/collections"
	"cosmossdk.io/math"

	sdk "github.com/cosmos/cosmos-sdk/types"
	stakingtypes "github.com/cosmos/cosmos-sdk/x/staking/types"
)

type c07World struct {
	*World
	pool  [][]byte // query data, index = model query id (rank of the query id bytes)
	kinds []string
	qids  [][]byte
	rrank map[string]int // reporter address -> rank by address bytes
	smallRep int         // account index of a reporter with a stake next to the minimum
}

func c07New(t *testing.T, r *rand.Rand) *c07World {
	w := newWorld(t, r, 2+r.Intn(2), 3)
	cw := &c07World{World: w, rrank: map[string]int{}}
	// a small reporter whose bonded stake sits next to the minimum stakes governance will choose
	cw.smallRep = len(w.accts) - 2
	{
		amt := int64(pick(r, 1_499_999, 1_500_000, 1_000_000, 1_999_999, 2_000_001, 1_000_001))
		sa := w.accts[cw.smallRep]
		if _, err := w.stakingMS.Delegate(w.ctx, &stakingtypes.MsgDelegate{DelegatorAddress: sa.String(), ValidatorAddress: w.valOps[0].String(), Amount: w.coin(bi(amt))}); err == nil {
			if _, err := w.reporterMS.CreateReporter(w.ctx, &reportertypes.MsgCreateReporter{ReporterAddress: sa.String(), CommissionRate: math.LegacyZeroDec(), MinTokensRequired: math.NewInt(loyaPerTRB)}); err == nil {
				w.reporters[cw.smallRep] = true
			}
		}
	}
	type q struct {
		data []byte
		kind string
	}
	var qs []q
	for _, d := range w.queries {
		qs = append(qs, q{d, "KSpot"})
	}
	qs = append(qs, q{w.bridgeQueries[0], "KDeposit"}, q{w.bridgeQueries[1], "KDeposit"}, q{w.bridgeQueries[2], "KWithdraw"})
	qs = append(qs, q{[]byte("garbage-query-data"), "KGarbage"})
	ns := registrytypes.DataSpec{AbiComponents: []*registrytypes.ABIComponent{{Name: "a", FieldType: "string"}}}
	if d, err := ns.EncodeData("NoSuchType", `["x"]`); err == nil {
		qs = append(qs, q{d, "KNoSpec"})
	} else {
		t.Fatal(err)
	}
	sort.Slice(qs, func(i, j int) bool {
		return bytes.Compare(utils.QueryIDFromData(qs[i].data), utils.QueryIDFromData(qs[j].data)) < 0
	})
	for _, x := range qs {
		cw.pool = append(cw.pool, x.data)
		cw.kinds = append(cw.kinds, x.kind)
		cw.qids = append(cw.qids, utils.QueryIDFromData(x.data))
	}
	// reporters ranked by address bytes
	idx := make([]int, len(w.accts))
	for i := range idx {
		idx[i] = i
	}
	sort.Slice(idx, func(a, b int) bool { return bytes.Compare(w.accts[idx[a]].Bytes(), w.accts[idx[b]].Bytes()) < 0 })
	for rank, i := range idx {
		cw.rrank[w.accts[i].String()] = rank
	}
	return cw
}

func (cw *c07World) qrank(qid []byte) int {
	for i, x := range cw.qids {
		if bytes.Equal(x, qid) {
			return i
		}
	}
	return -1
}

func (cw *c07World) dump() string {
	s := cw.s
	var metas, reps, aggs, nonces, cyc []string
	_ = s.Oraclekeeper.Query.Walk(cw.ctx, nil, func(k collections.Pair[[]byte, uint64], m oracletypes.QueryMeta) (bool, error) {
		metas = append(metas, fmt.Sprintf("{| m_qid := %d; m_id := %d; m_amount := %s; m_expiration := %d; m_window := %d; m_has_reports := %s; m_cycle := %s; m_bridge_type := %s |}",
			cw.qrank(k.K1()), m.Id, cz(m.Amount.BigInt()), m.Expiration, m.RegistrySpecBlockWindow, cbool(m.HasRevealedReports), cbool(m.CycleList), cbool(m.QueryType == "TRBBridge")))
		return false, nil
	})
	_ = s.Oraclekeeper.Reports.Walk(cw.ctx, nil, func(k collections.Triple[[]byte, []byte, uint64], r oracletypes.MicroReport) (bool, error) {
		reps = append(reps, fmt.Sprintf("{| rp_qid := %d; rp_reporter := %d; rp_meta := %d; rp_power := %d; rp_cycle := %s; rp_height := %d |}",
			cw.qrank(k.K1()), cw.rrank[sdk.AccAddress(k.K2()).String()], k.K3(), r.Power, cbool(r.Cyclelist), r.BlockNumber))
		return false, nil
	})
	_ = s.Oraclekeeper.Aggregates.Walk(cw.ctx, nil, func(k collections.Pair[[]byte, uint64], a oracletypes.Aggregate) (bool, error) {
		rs := make([]string, len(a.Reporters))
		for i, x := range a.Reporters {
			rs[i] = fmt.Sprint(cw.rrank[x.Reporter])
		}
		aggs = append(aggs, fmt.Sprintf("{| ag_qid := %d; ag_ts := %d; ag_height := %d; ag_nonce := %d; ag_meta := %d; ag_reporters := %s; ag_power := %d; ag_flagged := %s; ag_agg_reporter := %d; ag_micro_height := %d |}",
			cw.qrank(k.K1()), k.K2(), a.Height, a.Index, a.MetaId, clist(rs), a.ReporterPower, cbool(a.Flagged), cw.rrank[a.AggregateReporter], a.MicroHeight))
		return false, nil
	})
	_ = s.Oraclekeeper.Nonces.Walk(cw.ctx, nil, func(k []byte, v uint64) (bool, error) {
		nonces = append(nonces, fmt.Sprintf("(%d, %d)", cw.qrank(k), v))
		return false, nil
	})
	cl, _ := s.Oraclekeeper.GetCyclelist(cw.ctx)
	for _, d := range cl {
		cyc = append(cyc, fmt.Sprint(cw.qrank(utils.QueryIDFromData(d))))
	}
	seq, _ := s.Oraclekeeper.CyclelistSequencer.Peek(cw.ctx)
	next, _ := s.Oraclekeeper.QuerySequencer.Peek(cw.ctx)
	spot, _ := s.Registrykeeper.GetSpec(cw.ctx, "spotprice")
	br, _ := s.Registrykeeper.GetSpec(cw.ctx, "trbbridge")
	return fmt.Sprintf("{| o_queries := %s; o_reports := %s; o_cycle := %s; o_seq := %d; o_next_meta := %d; o_aggs := %s; o_nonces := %s; o_spot_window := %d; o_bridge_window := %d |}",
		clist(metas), clist(reps), clist(cyc), seq, next, clist(aggs), clist(nonces), spot.ReportBlockWindow, br.ReportBlockWindow)
}

func TestC07Rounds(t *testing.T) {
	out := newOut(t, "c07_rounds")
	defer out.Close()
	n := count(24, 800)
	for i := 0; i < n; i++ {
		r := rand.New(rand.NewSource(seed()*15485863 + int64(i)))
		cw := c07New(t, r)
		w := cw.World
		// small windows so that rounds close inside the history
		for _, qt := range []string{"spotprice", "trbbridge"} {
			spec, _ := w.s.Registrykeeper.GetSpec(w.ctx, qt)
			spec.ReportBlockWindow = uint64(pick(r, 0, 1, 2, 3, 5))
			if qt == "trbbridge" && spec.ReportBlockWindow == 0 {
				// environment assumption of C07/C08 (closing_distinct): the bridge-deposit window is at least one block;
				// with 0 a second deposit report in the same block opens a second round that closes in that block too
				spec.ReportBlockWindow = 1
			}
			w.deliver("UpdateDataSpec", -3, nil, func(ctx sdk.Context) error {
				_, err := w.registryMS.UpdateDataSpec(ctx, &registrytypes.MsgUpdateDataSpec{Authority: w.authority, QueryType: qt, Spec: spec})
				return err
			})
		}
		qinfos := make([]string, len(cw.pool))
		for j := range cw.pool {
			qinfos[j] = fmt.Sprintf("{| qi_id := %d; qi_kind := %s |}", j, cw.kinds[j])
		}
		init := cw.dump()
		var steps []string
		stats := map[string]int{}
		emit := func(op string, accepted bool) {
			steps = append(steps, fmt.Sprintf("RStep %d (%s) %s %s", w.height, op, cbool(accepted), cw.dump()))
		}
		params, _ := w.s.Oraclekeeper.Params.Get(w.ctx)
		minStake := params.MinStakeAmount
		aggsMade := 0
		for b := 0; b < 22 && w.halted == ""; b++ {
			w.beginBlock(time.Duration(1+r.Intn(3000)) * time.Millisecond)
			for m := r.Intn(5); m > 0; m-- {
				switch r.Intn(12) {
				case 0, 1, 2:
					q := r.Intn(len(cw.pool))
					if r.Intn(3) == 0 {
						for j := range cw.kinds {
							if cw.kinds[j] == "KDeposit" && r.Intn(2) == 0 {
								q = j
							}
						}
					}
					amt := pick(r, bi(1), bi(49), bi(50), bi(100), bi(1_000_000), bigRand(r, bi(5_000_000)))
					if amt.Sign() == 0 {
						amt = bi(7)
					}
					tipper := 2 + r.Intn(3)
					res := w.deliver("Tip", tipper, nil, func(ctx sdk.Context) error {
						_, err := w.oracleMS.Tip(ctx, &oracletypes.MsgTip{Tipper: w.accts[tipper].String(), QueryData: cw.pool[q], Amount: w.coin(amt)})
						return err
					})
					after := bsub(amt, bquo(bmul(amt, bi(2)), bi(100)))
					emit(fmt.Sprintf("OTip %d %s", q, cz(after)), res.result == 0)
					stats[fmt.Sprintf("Tip/%d", res.result)]++
				case 10:
					var qs []int
					for _, j := range r.Perm(len(cw.pool))[:pick(r, 0, 1, 2, 3, 4)] {
						qs = append(qs, j)
					}
					// repeated entries collapse in the stored list (it is keyed by query id)
					for len(qs) > 0 && r.Intn(3) == 0 {
						qs = append(qs, qs[r.Intn(len(qs))])
					}
					var cl [][]byte
					items := make([]string, len(qs))
					for k, j := range qs {
						cl = append(cl, cw.pool[j])
						items[k] = fmt.Sprint(j)
					}
					if r.Intn(3) == 0 {
						// the update is one message of a proposal whose later message fails: everything it did is rolled back
						// (the cache context is dropped); nothing may survive, in the store or in memory
						cctx, _ := w.ctx.CacheContext()
						func() {
							defer func() { _ = recover() }()
							_, _ = w.oracleMS.UpdateCyclelist(cctx, &oracletypes.MsgUpdateCyclelist{Authority: w.authority, Cyclelist: cl})
						}()
						stats["UpdateCyclelist/rolled-back"]++
						continue
					}
					res := w.deliver("UpdateCyclelist", -3, nil, func(ctx sdk.Context) error {
						_, err := w.oracleMS.UpdateCyclelist(ctx, &oracletypes.MsgUpdateCyclelist{Authority: w.authority, Cyclelist: cl})
						return err
					})
					emit(fmt.Sprintf("OUpdateCycle %s", clist(items)), res.result == 0)
					stats[fmt.Sprintf("UpdateCyclelist/%d", res.result)]++
				case 11:
					bridge := r.Intn(2) == 0
					qt := "spotprice"
					if bridge {
						qt = pick(r, "trbbridge", "TRBBridge")
					}
					spec, err := w.s.Registrykeeper.GetSpec(w.ctx, qt)
					if err != nil {
						continue
					}
					spec.ReportBlockWindow = uint64(pick(r, 0, 1, 2, 5, 9))
					if bridge && spec.ReportBlockWindow == 0 {
						spec.ReportBlockWindow = 1
					}
					res := w.deliver("UpdateDataSpec", -3, nil, func(ctx sdk.Context) error {
						_, err := w.registryMS.UpdateDataSpec(ctx, &registrytypes.MsgUpdateDataSpec{Authority: w.authority, QueryType: qt, Spec: spec})
						return err
					})
					if res.result == 0 {
						emit(fmt.Sprintf("OUpdateSpec %s false %d", cbool(bridge), spec.ReportBlockWindow), true) // the registry lower-cases the type: the oracle hook never matches an open meta
					}
					stats[fmt.Sprintf("UpdateDataSpec/%d", res.result)]++
				default:
					q := r.Intn(len(cw.pool))
					if r.Intn(2) == 0 {
						if cur, err := w.s.Oraclekeeper.GetCurrentQueryInCycleList(w.ctx); err == nil {
							q = cw.qrank(utils.QueryIDFromData(cur))
						}
					}
					atExpiry := false
					if r.Intn(3) == 0 {
						// a bridge-deposit round whose window ends with this very block (expiration = this height), preferably a
						// tipped one that already has reports: one more report at the boundary
						best := -1
						_ = w.s.Oraclekeeper.Query.Walk(w.ctx, nil, func(k collections.Pair[[]byte, uint64], m oracletypes.QueryMeta) (bool, error) {
							if m.Expiration == uint64(w.height) {
								j := cw.qrank(k.K1())
								if j >= 0 && j < len(cw.kinds) && cw.kinds[j] == "KDeposit" {
									if best < 0 || m.HasRevealedReports {
										best = j
									}
								}
							}
							return false, nil
						})
						if best >= 0 {
							q = best
							atExpiry = true
							stats["SubmitValue/deposit-at-expiration"]++
						}
					}
					rep := r.Intn(len(w.accts))
					if r.Intn(4) != 0 {
						rep = r.Intn(2) // the two reporters
					}
					if r.Intn(5) == 0 {
						rep = cw.smallRep
					}
					val := pick(r, randHex(r, 64), randHex(r, 64), randHex(r, 64), "0x"+randHex(r, 64), randHex(r, 128), randHex(r, 62), randHex(r, 63), "zz"+randHex(r, 62), "")
					// the reporter's stake, from the real reporter keeper, in a throw-away context
					var stake *big.Int
					func() {
						cctx, _ := w.ctx.CacheContext()
						defer func() { _ = recover() }()
						if st, err := w.s.Reporterkeeper.ReporterStake(cctx, w.accts[rep], cw.qids[q]); err == nil {
							stake = st.BigInt()
						}
					}()
					if r.Intn(15) == 0 {
						// jail / unjail a reporter directly (C10 covers the rules)
						if rp, err := w.s.Reporterkeeper.Reporters.Get(w.ctx, w.accts[rep].Bytes()); err == nil {
							rp.Jailed = !rp.Jailed
							rp.JailedUntil = w.now.Add(time.Hour)
							_ = w.s.Reporterkeeper.Reporters.Set(w.ctx, w.accts[rep].Bytes(), rp)
							continue
						}
					}
					if r.Intn(12) == 0 {
						// governance changes the minimum stake (also to amounts that are not whole tokens)
						p, _ := w.s.Oraclekeeper.Params.Get(w.ctx)
						p.MinStakeAmount = math.NewInt(int64(pick(r, 1_000_000, 1_500_000, 999_999, 2_000_001, 1)))
						w.deliver("oracle.UpdateParams", -3, nil, func(ctx sdk.Context) error {
							_, err := w.oracleMS.UpdateParams(ctx, &oracletypes.MsgUpdateParams{Authority: w.authority, Params: p})
							return err
						})
					}
					if p, err := w.s.Oraclekeeper.Params.Get(w.ctx); err == nil {
						minStake = p.MinStakeAmount
					}
					if stake != nil && r.Intn(6) == 0 {
						// put the reporter's stake next to the minimum: just below / at / above it (own delegation changed directly)
						_ = stake
					}
					res := w.deliver("SubmitValue", rep, nil, func(ctx sdk.Context) error {
						_, err := w.oracleMS.SubmitValue(ctx, &oracletypes.MsgSubmitValue{Creator: w.accts[rep].String(), QueryData: cw.pool[q], Value: val})
						return err
					})
					st := "None"
					if stake != nil {
						st = "(Some " + cz(stake) + ")"
					}
					emit(fmt.Sprintf("OSubmit %d %d %s %s %s", q, cw.rrank[w.accts[rep].String()], st, cz(minStake.BigInt()), cstr(val)), res.result == 0)
					stats[fmt.Sprintf("SubmitValue/%d", res.result)]++
					if atExpiry && rep < 2 {
						// a second report on the same deposit in the same (last) block, by the other reporter: two rounds of one
						// query id can coexist here (the expiring one and the one just opened)
						rep2 := 1 - rep
						val2 := randHex(r, 64)
						var stake2 *big.Int
						func() {
							cctx, _ := w.ctx.CacheContext()
							defer func() { _ = recover() }()
							if st, err := w.s.Reporterkeeper.ReporterStake(cctx, w.accts[rep2], cw.qids[q]); err == nil {
								stake2 = st.BigInt()
							}
						}()
						res2 := w.deliver("SubmitValue", rep2, nil, func(ctx sdk.Context) error {
							_, err := w.oracleMS.SubmitValue(ctx, &oracletypes.MsgSubmitValue{Creator: w.accts[rep2].String(), QueryData: cw.pool[q], Value: val2})
							return err
						})
						st2 := "None"
						if stake2 != nil {
							st2 = "(Some " + cz(stake2) + ")"
						}
						emit(fmt.Sprintf("OSubmit %d %d %s %s %s", q, cw.rrank[w.accts[rep2].String()], st2, cz(minStake.BigInt()), cstr(val2)), res2.result == 0)
						stats[fmt.Sprintf("SubmitValue/%d", res2.result)]++
					}
				}
			}
			before := 0
			_ = w.s.Oraclekeeper.Aggregates.Walk(w.ctx, nil, func(collections.Pair[[]byte, uint64], oracletypes.Aggregate) (bool, error) { before++; return false, nil })
			res := w.endBlock()
			after := 0
			_ = w.s.Oraclekeeper.Aggregates.Walk(w.ctx, nil, func(collections.Pair[[]byte, uint64], oracletypes.Aggregate) (bool, error) { after++; return false, nil })
			aggsMade += after - before
			emit(fmt.Sprintf("OEndBlock %d", w.now.UnixMilli()), res.result == 0)
		}
		_ = math.ZeroInt
		_ = reportertypes.ModuleName
		out.Emit(Case{Coq: fmt.Sprintf("RoundCase %s %s %s", clist(qinfos), init, clist(steps)), Kind: fmt.Sprintf("aggregates=%d", bucket(aggsMade)),
			Nontrivial: aggsMade >= 1 && stats["SubmitValue/1"] >= 1, Key: fmt.Sprint(seed(), i),
			Human: map[string]interface{}{"steps": len(steps), "ops": stats, "aggregates": aggsMade, "halted": w.halted}})
	}
}
