package harness

// C14 — bridge deposits mint once, conditionally; withdrawals burn what they attest.
//
// Drivers (all on the REAL keepers / message servers of /repo, full application fixture):
//   TestC14Hist    histories of ClaimDeposits / WithdrawTokens / SubmitValue(bridge query data) transactions
//                  between environment steps (aggregates, flags, checkpoints, block time written by the harness)
//   TestC14Decode  Keeper.DecodeDepositReportValue on generated report values
//   TestC14Blocker Keeper.PreventBridgeWithdrawalReport on generated query data + the registry's
//                  encoding of the bridge query data against the model's canonical bytes

import (
	"encoding/hex"
	"fmt"
	"math/big"
	"math/rand"
	"strconv"
	"strings"
	"testing"
	"time"

	"github.com/ethereum/go-ethereum/accounts/abi"
	"github.com/ethereum/go-ethereum/common"
	"github.com/tellor-io/layer/utils"
	bridgetypes "github.com/tellor-io/layer/x/bridge/types"
	oracletypes "github.com/tellor-io/layer/x/oracle/types"
	registrytypes "github.com/tellor-io/layer/x/registry/types"

	"cosmossdk.io/collections"
	"cosmossdk.io/math"

	sdk "github.com/cosmos/cosmos-sdk/types"
)

const (
	c14TwelveH = int64(12 * time.Hour)
	c14Base    = int64(1_700_000_000) * 1_000_000_000 // unix ns of the first block
)

var c14e12 = big.NewInt(1_000_000_000_000)

// ---- ABI helpers (go-ethereum library, independent of the keeper code) ----------------------------
func c14args(types ...string) abi.Arguments {
	var a abi.Arguments
	for _, s := range types {
		ty, err := abi.NewType(s, "", nil)
		if err != nil {
			panic(err)
		}
		a = append(a, abi.Argument{Type: ty})
	}
	return a
}

var c14valueArgs = c14args("address", "string", "uint256", "uint256")

func c14pack(addr common.Address, rcpt string, amount, tip *big.Int) []byte {
	b, err := c14valueArgs.Pack(addr, rcpt, amount, tip)
	if err != nil {
		panic(err)
	}
	return b
}

// bytes as a Coq string literal holding their hex text
func c14hex(b []byte) string { return cstr(hex.EncodeToString(b)) }

func c14word(v *big.Int) []byte {
	b := make([]byte, 32)
	new(big.Int).Mod(v, pow2(256)).FillBytes(b)
	return b
}

// bridge query data through the registry's encoder (the path a reporter's query data takes)
func c14qdata(toLayer bool, id *big.Int) []byte {
	bspec := registrytypes.DataSpec{AbiComponents: []*registrytypes.ABIComponent{{Name: "tolayer", FieldType: "bool"}, {Name: "depositId", FieldType: "uint256"}}}
	qd, err := bspec.EncodeData("TRBBridge", fmt.Sprintf(`["%v","%s"]`, toLayer, id.String()))
	if err != nil {
		panic(err)
	}
	return qd
}

// ---- the environment ---------------------------------------------------------------------------------
type c14env struct {
	t      *testing.T
	w      *World
	r      *rand.Rand
	addrs  []sdk.AccAddress // account number -> address (first nBase fixed, more added per case)
	nBase  int
	tipped []uint64 // withdrawal ids whose query carries a tip (so that only the blocker stands between a reporter and a report)
}

func newC14env(t *testing.T, r *rand.Rand) *c14env {
	w := newWorld(t, r, 2, 3)
	e := &c14env{t: t, w: w, r: r}
	// accounts 0,1: validators + reporters; 2,3,4 plain funded accounts; 5,6: addresses that never held anything
	for i := 0; i < 5; i++ {
		e.addrs = append(e.addrs, w.accts[i])
	}
	for i := 0; i < 2; i++ {
		a := make([]byte, 20)
		r.Read(a)
		e.addrs = append(e.addrs, sdk.AccAddress(a))
	}
	e.nBase = len(e.addrs)
	// tips on withdrawal queries (accepted by the oracle): paid by the team account, which is not observed
	tipper := w.accts[w.team]
	for _, id := range []uint64{1, 2, 3, 4, 77, ^uint64(0)} {
		res := w.deliver("Tip", w.team, nil, func(ctx sdk.Context) error {
			_, err := w.oracleMS.Tip(ctx, &oracletypes.MsgTip{Tipper: tipper.String(), QueryData: c14qdata(false, new(big.Int).SetUint64(id)), Amount: w.coin(bi(100000))})
			return err
		})
		if res.result != 0 {
			t.Fatalf("tip on withdrawal query %d: %s", id, res.errMsg)
		}
		e.tipped = append(e.tipped, id)
	}
	return e
}

func (e *c14env) acct(addr sdk.AccAddress, grow *[]sdk.AccAddress) int {
	for i, a := range *grow {
		if a.Equals(addr) {
			return i
		}
	}
	*grow = append(*grow, addr)
	return len(*grow) - 1
}

// bech32 table entry of a string: (bytes, verdict of the SDK)
func (e *c14env) bechEntry(s string, accts *[]sdk.AccAddress) string {
	a, err := sdk.AccAddressFromBech32(s)
	if err != nil {
		return fmt.Sprintf("(%s, None)", c14hex([]byte(s)))
	}
	return fmt.Sprintf("(%s, Some %d)", c14hex([]byte(s)), e.acct(a, accts))
}

// the recipient string go-ethereum extracts from a value (library call, not the keeper)
func c14rcptOf(value string) (string, bool) {
	b, err := hex.DecodeString(value)
	if err != nil {
		return "", false
	}
	vals, err := c14valueArgs.Unpack(b)
	if err != nil {
		return "", false
	}
	return vals[1].(string), true
}

// ---- generators ------------------------------------------------------------------------------------------
func (e *c14env) genRecipient(accts []sdk.AccAddress) string {
	r := e.r
	good := accts[r.Intn(e.nBase)].String()
	switch r.Intn(40) {
	case 0:
		return ""
	case 1:
		return good[:len(good)-1]
	case 2:
		return strings.ToUpper(good)
	case 3:
		return "cosmos1" + good[7:]
	case 4:
		b := []byte(good)
		b[10] = 'b' // 'b' is not in the bech32 alphabet
		return string(b)
	case 5:
		return good + " "
	case 6:
		a := make([]byte, pick(r, 1, 19, 20, 21, 32, 255, 256))
		r.Read(a)
		return sdk.AccAddress(a).String()
	case 7:
		return "0x" + hex.EncodeToString(accts[0])
	}
	return good
}

func c14amount(r *rand.Rand) *big.Int {
	two63 := bmul(pow2(63), c14e12)
	switch r.Intn(28) {
	case 0:
		return bi(0)
	case 1:
		return bi(int64(pick(r, 1, 999_999_999_999, 1_000_000_000_000, 1_000_000_000_001, 1_999_999_999_999, 2_000_000_000_000)))
	case 2:
		return badd(two63, bi(int64(pick(r, -1_000_000_000_000, -1, 0, 1, 999_999_999_999))))
	case 3:
		return badd(bmul(pow2(64), c14e12), bmul(bi(int64(r.Intn(1000))), c14e12))
	case 4:
		return bsub(pow2(256), bi(1+int64(r.Intn(3))))
	case 5:
		return bigRand(r, pow2(pick(r, 64, 100, 128, 200, 256)))
	case 6:
		return badd(bmul(pow2(63), c14e12), bmul(bigRand(r, pow2(62)), c14e12)) // int64 wrap negative
	}
	return badd(bmul(bigRand(r, pow10(pick(r, 1, 3, 6, 9))), c14e12), bigRand(r, c14e12))
}

func c14tip(r *rand.Rand, amount *big.Int) *big.Int {
	switch r.Intn(12) {
	case 0, 1, 2, 3:
		return bi(0)
	case 4:
		return new(big.Int).Set(amount)
	case 5:
		return badd(amount, bi(int64(pick(r, 1, 999_999_999_999, 1_000_000_000_000))))
	case 6:
		t := bsub(amount, bi(int64(pick(r, 1, 1_000_000_000_000))))
		if t.Sign() < 0 {
			return bi(1)
		}
		return t
	case 7:
		return bi(int64(pick(r, 1, 999_999_999_999, 1_000_000_000_000)))
	case 8:
		return c14amount(r)
	}
	return bigRand(r, badd(amount, bi(1)))
}

// a report value string: mostly well-formed, otherwise one malformation
func (e *c14env) genValue(accts []sdk.AccAddress) string {
	r := e.r
	var evm common.Address
	r.Read(evm[:])
	amount := c14amount(r)
	tip := c14tip(r, amount)
	rcpt := e.genRecipient(accts)
	b := c14pack(evm, rcpt, amount, tip)
	s := hex.EncodeToString(b)
	switch r.Intn(70) {
	case 0:
		return ""
	case 1:
		return s[:len(s)-1] // odd length
	case 2:
		return "0x" + s
	case 3:
		return strings.ToUpper(s)
	case 4:
		c := []byte(s)
		c[r.Intn(len(c))] = pick(r, byte('g'), byte('G'), byte(' '), byte('/'), byte(':'), byte('@'), byte('`'))
		return string(c)
	case 5:
		return hex.EncodeToString(b[:pick(r, 0, 1, 31, 32, 64, 96, 127, 128, 159, 160, 161, len(b)-1, len(b)-32)%(len(b)+1)])
	case 6:
		extra := make([]byte, pick(r, 1, 31, 32, 64))
		r.Read(extra)
		return hex.EncodeToString(append(b, extra...))
	case 7: // offset word
		L := int64(len(b))
		off := pick(r, bi(0), bi(32), bi(64), bi(96), bi(127), bi(129), bi(L-64), bi(L-33), bi(L-32), bi(L-31), bi(L), pow2(63), pow2(64), bsub(pow2(256), bi(32)), bsub(pow2(256), bi(1)))
		copy(b[32:64], c14word(off))
		return hex.EncodeToString(b)
	case 8: // length word
		L := int64(len(b))
		n := pick(r, bi(0), bi(1), bi(L-160), bi(L-159), bi(L-161), bi(L), pow2(63), bsub(pow2(64), bi(160)), bsub(pow2(256), bi(1)))
		copy(b[128:160], c14word(n))
		return hex.EncodeToString(b)
	case 9: // dirty address padding (ignored by the decoder)
		b[r.Intn(12)] = 0xff
		return hex.EncodeToString(b)
	case 10: // string overlapping the heads
		copy(b[32:64], c14word(bi(int64(pick(r, 0, 64)))))
		return hex.EncodeToString(b)
	}
	return s
}

// ---- observation -------------------------------------------------------------------------------------------
type c14obs struct {
	ok      bool
	err     string
	bals    []*big.Int
	supply  *big.Int
	bridge  *big.Int
	claimed []bool
	wid     uint64
	naggs   int
	nrep    int
	w       string // Coq term of wobs
}

func (o c14obs) coq() string {
	bs := make([]string, len(o.bals))
	for i, b := range o.bals {
		bs[i] = cz(b)
	}
	cl := make([]string, len(o.claimed))
	for i, c := range o.claimed {
		cl[i] = cbool(c)
	}
	return fmt.Sprintf("(Build_obs %s %s %s %s %s %s %d %d %s)",
		cbool(o.ok), clist(bs), cz(o.supply), cz(o.bridge), clist(cl), czu(o.wid), o.naggs, o.nrep, o.w)
}

func (e *c14env) observe(ctx sdk.Context, accts []sdk.AccAddress, deps []uint64) c14obs {
	s := e.w.s
	o := c14obs{ok: true, w: "WNone"}
	for _, a := range accts {
		o.bals = append(o.bals, s.Bankkeeper.GetBalance(ctx, a, s.Denom).Amount.BigInt())
	}
	o.supply = s.Bankkeeper.GetSupply(ctx, s.Denom).Amount.BigInt()
	o.bridge = s.Bankkeeper.GetBalance(ctx, s.Accountkeeper.GetModuleAddress(bridgetypes.ModuleName), s.Denom).Amount.BigInt()
	for _, d := range deps {
		c, err := s.Bridgekeeper.DepositIdClaimedMap.Get(ctx, d)
		o.claimed = append(o.claimed, err == nil && c.Claimed)
	}
	if id, err := s.Bridgekeeper.WithdrawalId.Get(ctx); err == nil {
		o.wid = id.Id
	}
	// aggregates other than those of the observed deposit queries (which the harness writes itself)
	depQ := map[string]bool{}
	for _, d := range deps {
		depQ[string(utils.QueryIDFromData(c14qdata(true, new(big.Int).SetUint64(d))))] = true
	}
	_ = s.Oraclekeeper.Aggregates.Walk(ctx, nil, func(k collections.Pair[[]byte, uint64], _ oracletypes.Aggregate) (bool, error) {
		if !depQ[string(k.K1())] {
			o.naggs++
		}
		return false, nil
	})
	_ = s.Oraclekeeper.Reports.Walk(ctx, nil, func(collections.Triple[[]byte, []byte, uint64], oracletypes.MicroReport) (bool, error) {
		o.nrep++
		return false, nil
	})
	return o
}

// aggregates stored under a query id, in key order
func (e *c14env) aggsOf(ctx sdk.Context, qid []byte) (ts []uint64, as []oracletypes.Aggregate) {
	rng := collections.NewPrefixedPairRange[[]byte, uint64](qid)
	_ = e.w.s.Oraclekeeper.Aggregates.Walk(ctx, rng, func(k collections.Pair[[]byte, uint64], v oracletypes.Aggregate) (bool, error) {
		ts = append(ts, k.K2())
		as = append(as, v)
		return false, nil
	})
	return
}

// run one transaction: cache context, committed on success, panics are rejections (baseapp recovers them)
func c14tx(ctx sdk.Context, f func(ctx sdk.Context) error) (ok bool, msg string, events sdk.Events) {
	cctx, write := ctx.CacheContext()
	cctx = cctx.WithEventManager(sdk.NewEventManager())
	func() {
		defer func() {
			if rec := recover(); rec != nil {
				ok = false
				msg = fmt.Sprintf("panic: %v", rec)
			}
		}()
		if err := f(cctx); err != nil {
			msg = err.Error()
			return
		}
		ok = true
		write()
	}()
	return ok, msg, cctx.EventManager().Events()
}

func c14errKind(msg string) string {
	for _, k := range []string{"panic", "no aggregate", "flagged", "already claimed", "no validator set timestamp", "insufficient reporter power", "too young",
		"invalid deposit report value", "insufficient funds", "invalid request", "length", "withdrawal", "not found"} {
		if strings.Contains(strings.ToLower(msg), k) {
			return strings.ReplaceAll(k, " ", "-")
		}
	}
	if msg == "" {
		return "ok"
	}
	return "other"
}

// ---- planned aggregate (harness side mirror of what it stored, used only to aim the generators) -----------------
type c14agg struct {
	ts    uint64
	power uint64
}

type c14case struct {
	e                          *c14env
	ctx                        sdk.Context
	accts                      []sdk.AccAddress
	deps                       []uint64
	now                        int64
	aggs                       map[uint64][]c14agg
	table                      map[string]bool
	tbl                        []string
	steps                      []string
	kinds                      map[string]int
	nClaimOK, nWithdrawOK, nTx int
	tags                       []string
}

// the key of a deposit's aggregates: registry encoding + keccak (the reporters' path), which must be the id the
// keeper under test computes for itself (TestC14QueryId compares both with the model's keccak-256 of the model's bytes)
func (c *c14case) depQid(dep uint64) []byte {
	q := utils.QueryIDFromData(c14qdata(true, new(big.Int).SetUint64(dep)))
	if kq, err := c.e.w.s.Bridgekeeper.GetDepositQueryId(dep); err != nil || string(kq) != string(q) {
		panic(fmt.Sprintf("deposit %d: GetDepositQueryId %x (%v) differs from keccak(registry encoding) %x", dep, kq, err, q))
	}
	return q
}

func (c *c14case) addBech(s string) {
	if c.table[s] {
		return
	}
	c.table[s] = true
	c.tbl = append(c.tbl, c.e.bechEntry(s, &c.accts))
}

func (c *c14case) setTime(now int64) {
	c.now = now
	c.ctx = c.ctx.WithBlockTime(time.Unix(0, now).UTC())
	c.steps = append(c.steps, fmt.Sprintf("SEnv (OTime %s)", czi(now)))
}

func (c *c14case) addAgg(dep, ts uint64, value string, power uint64, flagged bool) {
	qid := c.depQid(dep)
	if err := c.e.w.s.Oraclekeeper.Aggregates.Set(c.ctx, collections.Join(qid, ts), oracletypes.Aggregate{
		QueryId: qid, AggregateValue: value, AggregateReporter: c.accts[0].String(), ReporterPower: power, Flagged: flagged, Height: 1, MicroHeight: 1,
	}); err != nil {
		c.e.t.Fatal(err)
	}
	if s, ok := c14rcptOf(value); ok {
		c.addBech(s)
	}
	// mirror (sorted, equal key overwrites)
	l := c.aggs[dep]
	pos := 0
	for pos < len(l) && l[pos].ts < ts {
		pos++
	}
	if pos < len(l) && l[pos].ts == ts {
		l[pos] = c14agg{ts, power}
	} else {
		l = append(l[:pos], append([]c14agg{{ts, power}}, l[pos:]...)...)
	}
	c.aggs[dep] = l
	c.steps = append(c.steps, fmt.Sprintf("SEnv (OAgg %s %s %s %s %s)", czu(dep), czu(ts), cstr(value), czu(power), cbool(flagged)))
}

func (c *c14case) flag(dep, idx uint64) {
	qid := c.depQid(dep)
	ts, as := c.e.aggsOf(c.ctx, qid)
	if idx < uint64(len(ts)) {
		a := as[idx]
		a.Flagged = true
		if err := c.e.w.s.Oraclekeeper.Aggregates.Set(c.ctx, collections.Join(qid, ts[idx]), a); err != nil {
			c.e.t.Fatal(err)
		}
	}
	c.steps = append(c.steps, fmt.Sprintf("SEnv (OFlag %s %s)", czu(dep), czu(idx)))
}

func (c *c14case) ckpt(ts, thr uint64) {
	if err := c.e.w.s.Bridgekeeper.ValidatorCheckpointParamsMap.Set(c.ctx, ts, bridgetypes.ValidatorCheckpointParams{Timestamp: ts, PowerThreshold: thr, Checkpoint: []byte{1}, ValsetHash: []byte{2}}); err != nil {
		c.e.t.Fatal(err)
	}
	c.steps = append(c.steps, fmt.Sprintf("SEnv (OCkpt %s %s)", czu(ts), czu(thr)))
}

func c14zlist(v []uint64) string {
	s := make([]string, len(v))
	for i, x := range v {
		s[i] = czu(x)
	}
	return clist(s)
}

func (c *c14case) claim(claimer int, deps, idxs []uint64) bool {
	ok, msg, _ := c14tx(c.ctx, func(ctx sdk.Context) error {
		_, err := c.e.w.bridgeMS.ClaimDeposits(ctx, &bridgetypes.MsgClaimDepositsRequest{Creator: c.accts[claimer].String(), DepositIds: deps, Indices: idxs})
		return err
	})
	o := c.e.observe(c.ctx, c.accts, c.deps)
	o.ok, o.err = ok, msg
	c.steps = append(c.steps, fmt.Sprintf("SClaim %d %s %s %s", claimer, c14zlist(deps), c14zlist(idxs), o.coq()))
	c.kinds["claim:"+c14errKind(msg)]++
	c.nTx++
	if ok {
		c.nClaimOK++
	}
	return ok
}

func (c *c14case) withdraw(sender int, denom string, amount *big.Int, rcpt string) bool {
	var wid uint64
	ok, msg, events := c14tx(c.ctx, func(ctx sdk.Context) error {
		_, err := c.e.w.bridgeMS.WithdrawTokens(ctx, &bridgetypes.MsgWithdrawTokens{Creator: c.accts[sender].String(), Recipient: rcpt,
			Amount: sdk.Coin{Denom: denom, Amount: math.NewIntFromBigInt(amount)}})
		return err
	})
	o := c.e.observe(c.ctx, c.accts, c.deps)
	o.ok, o.err = ok, msg
	if ok {
		wid = o.wid
		for _, ev := range events {
			if ev.Type == "tokens_withdrawn" {
				for _, a := range ev.Attributes {
					if a.Key == "withdraw_id" {
						if v, err := strconv.ParseUint(a.Value, 10, 64); err == nil {
							wid = v
						}
					}
				}
			}
		}
		qid := utils.QueryIDFromData(c14qdata(false, new(big.Int).SetUint64(wid)))
		if kq, err := c.e.w.s.Bridgekeeper.GetWithdrawalQueryId(wid); err != nil || string(kq) != string(qid) {
			panic(fmt.Sprintf("withdrawal %d: GetWithdrawalQueryId %x (%v) differs from keccak(registry encoding) %x", wid, kq, err, qid))
		}
		ts, as := c.e.aggsOf(c.ctx, qid)
		if len(ts) == 1 {
			o.w = fmt.Sprintf("(WPub %s %s %s %s %s %d)", czu(wid), cstr(as[0].AggregateValue), czu(as[0].ReporterPower), czu(ts[0]), cbool(as[0].Flagged), len(as[0].Reporters))
		}
	}
	c.steps = append(c.steps, fmt.Sprintf("SWithdraw %d %s %s %s %s", sender, cbool(denom == c.e.w.s.Denom), cz(amount), cstr(rcpt), o.coq()))
	c.kinds["withdraw:"+c14errKind(msg)]++
	c.nTx++
	if ok {
		c.nWithdrawOK++
	}
	return ok
}

func (c *c14case) submit(wd bool, id *big.Int, reporter int, value string) {
	qd := c14qdata(!wd, id)
	ok, msg, _ := c14tx(c.ctx, func(ctx sdk.Context) error {
		_, err := c.e.w.oracleMS.SubmitValue(ctx, &oracletypes.MsgSubmitValue{Creator: c.accts[reporter].String(), QueryData: qd, Value: value})
		return err
	})
	o := c.e.observe(c.ctx, c.accts, c.deps)
	o.ok, o.err = ok, msg
	c.steps = append(c.steps, fmt.Sprintf("SSubmit %s %s %s", cbool(wd), cz(id), o.coq()))
	k := "submit-deposit:"
	if wd {
		k = "submit-withdrawal:"
	}
	c.kinds[k+c14errKind(msg)]++
	c.nTx++
}

func (e *c14env) newCase(deps []uint64) *c14case {
	cctx, _ := e.w.ctx.CacheContext()
	c := &c14case{e: e, ctx: cctx, deps: deps, aggs: map[uint64][]c14agg{}, table: map[string]bool{}, kinds: map[string]int{}}
	c.accts = append(c.accts, e.addrs...)
	c.now = c14Base
	c.ctx = c.ctx.WithBlockTime(time.Unix(0, c.now).UTC())
	_ = e.w.s.Bridgekeeper.ValidatorCheckpointParamsMap.Clear(c.ctx, nil)
	return c
}

func (c *c14case) emit(out *Out, init c14obs, bonded *big.Int, tags ...string) {
	addrs := make([]string, len(c.accts))
	for i, a := range c.accts {
		addrs[i] = c14hex([]byte(a.String()))
		c.addBech(a.String())
	}
	cf := fmt.Sprintf("(Build_rcfg %s %s %s)", clist(c.tbl), clist(addrs), c14zlist(c.deps))
	kind := []string{}
	for k := range c.kinds {
		kind = append(kind, k)
	}
	bucket := fmt.Sprintf("tx=%d/claims-ok=%d/withdrawals-ok=%d", c.nTx, c14min(c.nClaimOK, 3), c14min(c.nWithdrawOK, 3))
	out.Emit(Case{
		Coq:        fmt.Sprintf("HistCase %s %s %s %s %s", cf, czi(c14Base), cz(bonded), init.coq(), clist(c.steps)),
		Kind:       bucket,
		Nontrivial: c.nClaimOK+c.nWithdrawOK >= 1 && c.nTx >= 2,
		Key:        strings.Join(c.steps, ";"),
		Tags:       append(tags, c.tags...),
		Human:      map[string]interface{}{"steps": len(c.steps), "results": c.kinds},
	})
}

func c14min(a, b int) int {
	if a < b {
		return a
	}
	return b
}

// ---- the history driver -------------------------------------------------------------------------------------------
func TestC14Hist(t *testing.T) {
	out := newOut(t, "c14_hist")
	defer out.Close()
	r := rand.New(rand.NewSource(seed()))
	e := newC14env(t, r)
	bondedInt, err := e.w.s.Stakingkeeper.TotalBondedTokens(e.w.ctx)
	if err != nil {
		t.Fatal(err)
	}
	bonded := bondedInt.BigInt()
	evm := common.HexToAddress("0x00000000000000000000000000000000000000e1")
	good := func(c *c14case, i int) string { return c.accts[i].String() }
	val := func(rcpt string, amount, tip *big.Int) string {
		return hex.EncodeToString(c14pack(evm, rcpt, amount, tip))
	}
	trb := func(n int64) *big.Int { return bmul(bi(n), pow10(18)) }

	// all accounts a case can see must be known before its first observation: values are generated first
	type plan func(c *c14case)
	run := func(deps []uint64, values []string, p plan, tags ...string) {
		c := e.newCase(deps)
		for _, v := range values {
			if s, ok := c14rcptOf(v); ok {
				c.addBech(s)
			}
		}
		init := e.observe(c.ctx, c.accts, c.deps)
		p(c)
		c.emit(out, init, bonded, tags...)
	}

	// ---- corpus ------------------------------------------------------------------------------------------------
	T0 := c14Base
	ts0 := uint64(T0/1_000_000) - 1000 // aggregate 1 s before the first block
	{
		// a plain claim with a tip, then the same id again, then in a batch with itself
		v := ""
		run([]uint64{1, 2}, nil, func(c *c14case) {
			v = val(good(c, 3), trb(100), trb(1))
			c.ckpt(ts0-5, 10)
			c.addAgg(1, ts0, v, 10, false)
			c.claim(2, []uint64{1}, []uint64{0}) // too young
			c.setTime(int64(ts0)*1_000_000 + c14TwelveH - 1)
			c.claim(2, []uint64{1}, []uint64{0}) // 1 ns too young
			c.setTime(int64(ts0)*1_000_000 + c14TwelveH)
			c.claim(2, []uint64{1}, []uint64{1})       // no such index
			c.claim(2, []uint64{1, 1}, []uint64{0, 0}) // duplicate in one batch: nothing minted
			c.claim(2, []uint64{1}, []uint64{0})
			c.claim(2, []uint64{1}, []uint64{0}) // again
			c.claim(4, []uint64{1}, []uint64{0}) // by somebody else
			c.addAgg(1, ts0+1, v, 10, false)
			c.setTime(c.now + c14TwelveH)
			c.claim(4, []uint64{1}, []uint64{1}) // another aggregate of the same deposit
			c.claim(4, []uint64{2, 1}, []uint64{0, 0})
		}, "corpus")
		// flagged before / after; threshold in force at report time; tip > amount
		run([]uint64{1, 2, 3}, nil, func(c *c14case) {
			c.ckpt(ts0-50, 10)
			c.ckpt(ts0-1, 11) // in force for aggregates at ts0
			c.ckpt(ts0, 5)    // not strictly before ts0
			c.ckpt(ts0+3, 1000)
			c.addAgg(1, ts0, val(good(c, 3), trb(5), bi(0)), 10, false)    // power 10 < 11
			c.addAgg(2, ts0, val(good(c, 3), trb(5), bi(0)), 11, true)     // flagged
			c.addAgg(3, ts0, val(good(c, 5), trb(5), trb(6)), 11, false)   // tip > amount
			c.addAgg(3, ts0+1, val(good(c, 5), trb(5), trb(5)), 11, false) // tip = amount
			c.setTime(T0 + c14TwelveH)
			c.claim(2, []uint64{1}, []uint64{0})
			c.claim(2, []uint64{2}, []uint64{0})
			c.claim(2, []uint64{3}, []uint64{0})
			c.claim(2, []uint64{3, 1}, []uint64{1, 0}) // second fails: first must not stay claimed
			c.claim(2, []uint64{3}, []uint64{1})
			c.flag(3, 1) // flagged after the claim: nothing is undone, and no second claim
			c.claim(2, []uint64{3}, []uint64{0})
			c.claim(2, []uint64{1}, []uint64{0, 0}) // lengths differ
		}, "corpus")
		// F26: amount / 10^12 beyond int64
		run([]uint64{1, 2, 3}, nil, func(c *c14case) {
			c.ckpt(ts0-5, 1)
			c.addAgg(1, ts0, val(good(c, 3), badd(bmul(pow2(64), c14e12), bmul(bi(5), c14e12)), bi(0)), 10, false) // low 64 bits = 5
			c.addAgg(2, ts0, val(good(c, 3), bmul(pow2(63), c14e12), bi(0)), 10, false)                            // int64 negative
			c.addAgg(3, ts0, val(good(c, 3), bsub(bmul(pow2(63), c14e12), bi(1)), bi(0)), 10, false)               // largest that fits
			c.setTime(T0 + c14TwelveH)
			c.claim(2, []uint64{1}, []uint64{0})
			c.claim(2, []uint64{2}, []uint64{0})
			c.claim(2, []uint64{3}, []uint64{0})
			c.withdraw(3, "loya", bi(1000), "00000000000000000000000000000000000000e1")
			// the account now holds more than 2^64 loya: an amount that does not fit the attested uint64 must not be burned
			c.withdraw(3, "loya", badd(pow2(64), bi(5)), "00000000000000000000000000000000000000e1")
			c.withdraw(3, "loya", pow2(64), "00000000000000000000000000000000000000e1")
			c.withdraw(3, "loya", bsub(pow2(64), bi(1)), "00000000000000000000000000000000000000e1")
		}, "corpus:F26")
		// withdrawals: ids, amounts, recipients
		run([]uint64{1}, nil, func(c *c14case) {
			bal := e.w.s.Bankkeeper.GetBalance(c.ctx, c.accts[2], "loya").Amount.BigInt()
			c.withdraw(2, "loya", bi(1), "00000000000000000000000000000000000000e1")
			c.withdraw(2, "loya", bi(0), "00000000000000000000000000000000000000e1")
			c.withdraw(2, "loya", bi(-5), "00000000000000000000000000000000000000e1")
			c.withdraw(2, "stake", bi(5), "00000000000000000000000000000000000000e1")
			c.withdraw(2, "loya", bi(5), "zz")
			c.withdraw(2, "loya", bi(5), "0x00000000000000000000000000000000000000e1")
			c.withdraw(2, "loya", bal, "ffffffffffffffffffffffffffffffffffffffff") // balance - 1 left? (1 already gone) => too much
			c.withdraw(2, "loya", bsub(bal, bi(1)), "ffffffffffffffffffffffffffffffffffffffff")
			c.withdraw(2, "loya", bi(1), "ffffffffffffffffffffffffffffffffffffffff") // empty account
			c.withdraw(5, "loya", bi(1), "ffffffffffffffffffffffffffffffffffffffff") // never funded
			c.setTime(c.now + 1_000_000)
			c.withdraw(3, "loya", bi(7), "")
			c.withdraw(3, "loya", bi(7), "e1")
			c.submit(true, bi(1), 0, val(good(c, 0), trb(1), bi(0)))
			c.submit(true, bi(4), 0, val(good(c, 0), trb(1), bi(0))) // the next id, before it exists
			c.withdraw(4, "loya", bi(8), "00000000000000000000000000000000000000e1")
		}, "corpus")
		// F45: recipient longer than 20 bytes
		run([]uint64{1}, nil, func(c *c14case) {
			c.withdraw(3, "loya", bi(9), "aa00000000000000000000000000000000000000e1")
			c.withdraw(3, "loya", bi(9), "00000000000000000000000000000000000000000000000000000000000000e1") // 32 bytes, zero padded
			c.withdraw(3, "loya", bi(9), "0100000000000000000000000000000000000000000000000000000000000000e1")
		}, "corpus:F45")
		// a withdrawal aggregate is not a deposit aggregate: claim of deposit id = withdrawal id after 12 h
		run([]uint64{1, 2}, nil, func(c *c14case) {
			c.ckpt(ts0-5, 1)
			c.withdraw(3, "loya", bmul(bi(5), c14e12), "00000000000000000000000000000000000000e1")
			c.setTime(T0 + 2*c14TwelveH)
			c.claim(3, []uint64{1}, []uint64{0})
			c.submit(false, bi(1), 0, val(good(c, 0), trb(1), bi(0))) // a deposit report (positive control of the blocker)
		}, "corpus")
	}

	// ---- generated histories --------------------------------------------------------------------------------------
	n := count(260, 10000)
	for i := 0; i < n; i++ {
		depPool := []uint64{1, 2, uint64(3 + r.Intn(5)), pick(r, uint64(0), uint64(1)<<63, ^uint64(0), uint64(r.Int63()))}
		nAgg := 1 + r.Intn(5)
		c := e.newCase(depPool)
		// values first (the account list must be complete before the first observation)
		values := make([]string, nAgg+3)
		for j := range values {
			values[j] = e.genValue(c.accts)
			if s, ok := c14rcptOf(values[j]); ok {
				c.addBech(s)
			}
		}
		init := e.observe(c.ctx, c.accts, c.deps)
		vi := 0
		nextValue := func() string {
			v := values[vi%len(values)]
			vi++
			return v
		}
		// a checkpoint usually exists
		baseTs := uint64(c.now/1_000_000) - uint64(r.Intn(5000)) - 10
		if r.Intn(12) != 0 {
			c.ckpt(baseTs-uint64(1+r.Intn(100)), uint64(pick(r, 0, 1, 10, 10, 10, 11)))
		}
		target := c.now + c14TwelveH // the time the claims will aim at
		addAgg := func() {
			dep := pick(r, depPool...)
			// age at the target time: 12 h -1ms .. +1ms around the boundary, or clearly old / young
			var ts uint64
			switch r.Intn(6) {
			case 0:
				ts = baseTs
			case 1:
				ts = uint64((target - c14TwelveH) / 1_000_000) // exactly 12 h at target (when target is a whole ms)
			case 2:
				ts = uint64((target-c14TwelveH)/1_000_000) + uint64(pick(r, 1, 2))
			case 3:
				ts = uint64((target-c14TwelveH)/1_000_000) - uint64(pick(r, 1, 2))
			default:
				ts = baseTs + uint64(r.Intn(2000))
			}
			power := uint64(pick(r, 9, 10, 10, 10, 11, 1000))
			if r.Intn(40) == 0 {
				power = pick(r, uint64(0), ^uint64(0), uint64(1)<<63)
			}
			c.addAgg(dep, ts, nextValue(), power, r.Intn(12) == 0)
			// checkpoints around the aggregate
			if r.Intn(3) == 0 {
				c.ckpt(uint64(int64(ts)+int64(pick(r, -2, -1, -1, 0, 1))), uint64(int64(power)+int64(pick(r, -1, 0, 0, 1))))
			}
		}
		for j := 0; j < nAgg; j++ {
			addAgg()
		}
		nOps := 3 + r.Intn(8)
		if r.Intn(3) != 0 {
			c.setTime(target + int64(pick(r, -1, 0, 0, 1, 1_000_000)))
		}
		for j := 0; j < nOps; j++ {
			switch k := r.Intn(20); {
			case k < 2: // time: to a boundary of some aggregate
				var all []c14agg
				for _, l := range c.aggs {
					all = append(all, l...)
				}
				nt := c.now + int64(r.Intn(1_000_000_000))
				if len(all) > 0 && r.Intn(4) != 0 {
					a := all[r.Intn(len(all))]
					cand := int64(a.ts)*1_000_000 + c14TwelveH + int64(pick(r, -1_000_000, -1, 0, 0, 1, 999_999, 1_000_000))
					if cand > c.now {
						nt = cand
					}
				}
				c.setTime(nt)
			case k < 3:
				c.setTime(target + int64(pick(r, -1, 0, 1, 1000)))
			case k < 4:
				addAgg()
			case k < 5:
				dep := pick(r, depPool...)
				c.flag(dep, uint64(r.Intn(3)))
			case k < 6:
				ts := baseTs + uint64(r.Intn(2000))
				c.ckpt(ts, uint64(pick(r, 0, 9, 10, 11, 12)))
			case k < 13: // claim
				claimer := r.Intn(5)
				m := pick(r, 1, 1, 1, 2, 2, 3)
				deps := make([]uint64, m)
				idxs := make([]uint64, m)
				var withAgg []uint64
				for _, d := range depPool {
					if len(c.aggs[d]) > 0 {
						withAgg = append(withAgg, d)
					}
				}
				for q := 0; q < m; q++ {
					deps[q] = pick(r, depPool...)
					if len(withAgg) > 0 && r.Intn(8) != 0 {
						deps[q] = pick(r, withAgg...)
					}
					if q > 0 && r.Intn(5) == 0 {
						deps[q] = deps[q-1]
					}
					idxs[q] = uint64(r.Intn(1 + len(c.aggs[deps[q]])))
					if len(c.aggs[deps[q]]) > 0 && r.Intn(6) != 0 {
						idxs[q] = uint64(r.Intn(len(c.aggs[deps[q]])))
					}
					if r.Intn(25) == 0 {
						idxs[q] = pick(r, uint64(7), ^uint64(0))
					}
				}
				if r.Intn(40) == 0 {
					idxs = idxs[:m-1]
				}
				if c.now < target && r.Intn(3) != 0 {
					c.setTime(target + int64(pick(r, -1, 0, 0, 1)))
				}
				c.claim(claimer, deps, idxs)
			case k < 18: // withdraw
				sender := r.Intn(len(c.accts))
				if r.Intn(3) != 0 {
					sender = 2 + r.Intn(3)
				}
				bal := e.w.s.Bankkeeper.GetBalance(c.ctx, c.accts[sender], "loya").Amount.BigInt()
				var amt *big.Int
				switch r.Intn(10) {
				case 0:
					amt = bi(int64(pick(r, 0, -1, 1, 1, 1)))
				case 1:
					amt = badd(bal, bi(int64(pick(r, 0, 1, -1))))
				case 2:
					amt = badd(pow2(64), bi(int64(pick(r, -1, 0, 1))))
				case 3:
					amt = bi(int64(pick(r, 1, 2, 1_000_000)))
				default:
					amt = bigRand(r, badd(bquo(bal, bi(4)), bi(2)))
				}
				var rc string
				switch r.Intn(12) {
				case 0:
					rc = ""
				case 1:
					rc = randHex(r, pick(r, 2, 38, 42, 64, 66))
				case 2:
					rc = "00000000000000000000000000" + randHex(r, 40)
				case 3:
					rc = pick(r, "0x", "xyz", "abc", "0G") + randHex(r, 40)
				case 4:
					rc = strings.ToUpper(randHex(r, 40))
				default:
					rc = randHex(r, 40)
				}
				denom := "loya"
				if r.Intn(25) == 0 {
					denom = pick(r, "stake", "LOYA", "trb")
				}
				c.withdraw(sender, denom, amt, rc)
			case k < 19:
				id := new(big.Int).SetUint64(pick(r, e.tipped...))
				if r.Intn(3) == 0 {
					o := e.observe(c.ctx, nil, nil)
					id = new(big.Int).SetUint64(o.wid + uint64(r.Intn(2)))
				}
				v := val(good(c, 0), trb(1), bi(0))
				if r.Intn(5) == 0 {
					v = nextValue()
				}
				c.submit(true, id, r.Intn(2), v)
			default:
				c.submit(r.Intn(4) != 0, new(big.Int).SetUint64(pick(r, depPool...)), r.Intn(2), val(good(c, 0), trb(1), bi(0)))
			}
		}
		if len(c.accts) != len(init.bals) {
			t.Fatalf("case %d: account list grew after the first observation", i)
		}
		c.emit(out, init, bonded)
	}
}

// ---- DecodeDepositReportValue ------------------------------------------------------------------------------------------
func TestC14Decode(t *testing.T) {
	out := newOut(t, "c14_decode")
	defer out.Close()
	r := rand.New(rand.NewSource(seed() + 14))
	e := newC14env(t, r)
	n := count(1000, 40000)
	evm := common.HexToAddress("0x00000000000000000000000000000000000000e1")
	good := e.addrs[3].String()
	var corpus []string
	for _, a := range []*big.Int{bi(0), bi(1), bsub(c14e12, bi(1)), c14e12, bmul(pow2(63), c14e12), bsub(bmul(pow2(63), c14e12), bi(1)),
		badd(bmul(pow2(64), c14e12), bmul(bi(5), c14e12)), bsub(pow2(256), bi(1))} {
		corpus = append(corpus, hex.EncodeToString(c14pack(evm, good, a, bi(0))), hex.EncodeToString(c14pack(evm, good, pow10(20), a)))
	}
	for i := 0; i < n+len(corpus); i++ {
		var v string
		tags := []string(nil)
		if i < len(corpus) {
			v = corpus[i]
			tags = []string{"corpus"}
		} else {
			v = e.genValue(e.addrs)
		}
		accts := append([]sdk.AccAddress(nil), e.addrs...)
		var tbl []string
		if s, ok := c14rcptOf(v); ok {
			tbl = append(tbl, e.bechEntry(s, &accts))
		}
		impl := "None"
		kind := "error"
		func() {
			defer func() {
				if rec := recover(); rec != nil {
					impl, kind = "None", "panic"
				}
			}()
			rc, amount, tip, err := e.w.s.Bridgekeeper.DecodeDepositReportValue(e.w.ctx, v)
			if err == nil {
				impl = fmt.Sprintf("(Some (%d, %s, %s))", e.acct(rc, &accts), cz(amount.AmountOf("loya").BigInt()), cz(tip.AmountOf("loya").BigInt()))
				kind = "ok"
			}
		}()
		out.Emit(Case{
			Coq:        fmt.Sprintf("DecodeCase (Build_rcfg %s [] []) %s %s", clist(tbl), cstr(v), impl),
			Kind:       kind,
			Nontrivial: kind == "ok",
			Key:        v,
			Tags:       tags,
			Human:      map[string]interface{}{"value": v, "result": impl},
		})
	}
}

// ---- PreventBridgeWithdrawalReport -----------------------------------------------------------------------------------------
func TestC14Blocker(t *testing.T) {
	out := newOut(t, "c14_blocker")
	defer out.Close()
	r := rand.New(rand.NewSource(seed() + 1414))
	e := newC14env(t, r)
	k := e.w.s.Oraclekeeper
	call := func(qd []byte) (int, string) {
		code, kind := 2, "reject"
		func() {
			defer func() {
				if rec := recover(); rec != nil {
					code, kind = 2, "panic"
				}
			}()
			dep, err := k.PreventBridgeWithdrawalReport(qd)
			if err == nil && dep {
				code, kind = 1, "deposit"
			} else if err == nil {
				code, kind = 0, "not-bridge"
			}
		}()
		return code, kind
	}
	ids := []*big.Int{bi(0), bi(1), bi(2), bi(255), bi(256), pow2(63), bsub(pow2(64), bi(1)), pow2(64), pow2(160), bsub(pow2(256), bi(1))}
	n := count(60, 1500)
	for i := 0; i < n; i++ {
		ids = append(ids, bigRand(r, pow2(pick(r, 8, 64, 65, 256))))
	}
	for _, id := range ids {
		for _, tl := range []bool{true, false} {
			qd := c14qdata(tl, id)
			code, kind := call(qd)
			out.Emit(Case{Coq: fmt.Sprintf("QDataCase %s %s %s %d", cbool(tl), cz(id), c14hex(qd), code), Kind: "canonical/" + kind, Nontrivial: true,
				Key: fmt.Sprintf("q%v%s", tl, id), Human: map[string]interface{}{"to_layer": tl, "id": id.String(), "blocker": kind}})
		}
	}
	// mutated query data
	outer := c14args("string", "bytes")
	m := count(800, 30000)
	for i := 0; i < m; i++ {
		id := bigRand(r, pow2(pick(r, 8, 64, 256)))
		tl := r.Intn(2) == 0
		qd := c14qdata(tl, id)
		switch r.Intn(14) {
		case 0:
			qd = qd[:pick(r, 0, 1, 31, 32, 63, 64, 95, 96, 127, 128, 159, 160, 191, 192, 193, 223)]
		case 1:
			qd = append(qd, byte(r.Intn(256)))
		case 2: // bool word
			copy(qd[160:192], c14word(pick(r, bi(2), bi(256), pow2(255), bsub(pow2(256), bi(1)), bi(0), bi(1))))
		case 3:
			qd[160+r.Intn(31)] = byte(1 + r.Intn(255))
		case 4: // name
			name := pick(r, "TRBBridge", "trbbridge", "TRBBridg", "TRBBridgf", "TRBBridgeX", "", "SpotPrice")
			args := qd[160:]
			if r.Intn(3) == 0 {
				args = args[:pick(r, 0, 31, 32, 63)]
			}
			b, err := outer.Pack(name, args)
			if err != nil {
				t.Fatal(err)
			}
			qd = b
		case 5: // offsets
			copy(qd[0:32], c14word(pick(r, bi(0), bi(32), bi(64), bi(96), bi(128), bi(224), bi(225), bi(256), pow2(64))))
		case 6:
			copy(qd[32:64], c14word(pick(r, bi(0), bi(32), bi(64), bi(128), bi(160), bi(192), bi(224), bi(225), bi(256), pow2(64))))
		case 7: // lengths
			copy(qd[64:96], c14word(pick(r, bi(0), bi(8), bi(9), bi(10), bi(32), bi(160), bi(161), pow2(64))))
		case 8:
			copy(qd[128:160], c14word(pick(r, bi(0), bi(31), bi(32), bi(63), bi(64), bi(65), bi(96), pow2(64))))
		case 9:
			qd = e.w.queries[r.Intn(len(e.w.queries))]
		case 10:
			qd = make([]byte, r.Intn(300))
			r.Read(qd)
		case 11:
			qd[r.Intn(len(qd))] ^= byte(1 << uint(r.Intn(8)))
		}
		code, kind := call(qd)
		out.Emit(Case{Coq: fmt.Sprintf("BlockerCase %s %d", c14hex(qd), code), Kind: "mutated/" + kind, Nontrivial: code != 2 || len(qd) >= 256,
			Key: hex.EncodeToString(qd), Human: map[string]interface{}{"len": len(qd), "blocker": kind}})
	}
}
