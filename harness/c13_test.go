package harness

// C13 — dispute settlement pays out exactly what was paid in, once.
//
// TestC13Settle drives the REAL application (tests.SharedSetup: real bank, staking, oracle, reporter and
// dispute keepers, real msg servers and the dispute module's begin-block functions) through the life of one
// dispute lineage: funding by 1..4 payers (from balance / from stake, repeated payments, over- and
// under-payment), voting, expiry, further rounds, execution, and then every party claiming (twice) in a random
// order.  After every operation the dispute escrow, the burnt supply, the dust store, every tracked party's
// liquid and staked holdings and the dispute record are observed.  One case = the whole history as a Gallina
// term (operations with the environment facts the settlement code reads from other modules: the escrow
// trackers written by the reporter module, the vote result written by the tally, the voters' recorded powers).

import (
	"fmt"
	"math/big"
	"math/rand"
	"os"
	"sort"
	"strings"
	"testing"
	"time"

	setup "github.com/tellor-io/layer/tests"
	"github.com/tellor-io/layer/x/dispute"
	disputekeeper "github.com/tellor-io/layer/x/dispute/keeper"
	disputetypes "github.com/tellor-io/layer/x/dispute/types"
	oracletypes "github.com/tellor-io/layer/x/oracle/types"
	reporterkeeper "github.com/tellor-io/layer/x/reporter/keeper"
	reportertypes "github.com/tellor-io/layer/x/reporter/types"

	"cosmossdk.io/collections"
	"cosmossdk.io/math"

	sdk "github.com/cosmos/cosmos-sdk/types"
	authtypes "github.com/cosmos/cosmos-sdk/x/auth/types"
	stakingkeeper "github.com/cosmos/cosmos-sdk/x/staking/keeper"
	stakingtypes "github.com/cosmos/cosmos-sdk/x/staking/types"
)

var c13Debug = os.Getenv("C13_DEBUG") != ""

// error classes (the model predicts them)
const (
	c13OK = iota
	c13ErrNotFound
	c13ErrNotExecuted
	c13ErrInvalidResult
	c13ErrNotResolved
	c13ErrAlreadyExecuted
	c13ErrClaimed
	c13ErrZeroReward
	c13ErrNoVotes
	c13ErrExpired
	c13ErrFeeMet
	c13ErrBondSelf
	c13ErrPay          // payer cannot pay (balance / stake)
	c13ErrRound        // new round refused
	c13ErrInsufficient // module account short of funds: never acceptable
	c13ErrOther
	c13ErrMixedMode
	c13ErrMinFee
)

func c13classify(err error) int {
	if err == nil {
		return c13OK
	}
	m := err.Error()
	switch {
	case strings.Contains(m, "insufficient funds") || strings.Contains(m, "is smaller than"):
		return c13ErrInsufficient
	case strings.Contains(m, "vote not executed"):
		return c13ErrNotExecuted
	case strings.Contains(m, "invalid vote result"):
		return c13ErrInvalidResult
	case strings.Contains(m, "dispute not resolved"):
		return c13ErrNotResolved
	case strings.Contains(m, "vote already executed"):
		return c13ErrAlreadyExecuted
	case strings.Contains(m, "reward already claimed"):
		return c13ErrClaimed
	case strings.Contains(m, "reward is zero"):
		return c13ErrZeroReward
	case strings.Contains(m, "no votes found"):
		return c13ErrNoVotes
	case strings.Contains(m, "payment mode"):
		return c13ErrMixedMode
	case strings.Contains(m, "not found"):
		return c13ErrNotFound
	case strings.Contains(m, "time expired") || strings.Contains(m, "expired"):
		return c13ErrExpired
	case strings.Contains(m, "fee already met"):
		return c13ErrFeeMet
	case strings.Contains(m, "Minimum fee amount"):
		return c13ErrMinFee
	case strings.Contains(m, "can't add fee from bond"):
		return c13ErrBondSelf
	case strings.Contains(m, "insufficient stake") || strings.Contains(m, "insufficient balance") || strings.Contains(m, "fee payment failed"):
		return c13ErrPay
	case strings.Contains(m, "can't start a new round") || strings.Contains(m, "less than amount required"):
		return c13ErrRound
	}
	return c13ErrOther
}

type c13World struct {
	selAccts []int // selectors of the disputed reporter and of the fee payers that are reporters
	t   *testing.T
	s   *setup.SharedSetup
	r   *rand.Rand
	ctx sdk.Context
	now time.Time
	h   int64

	ms  disputetypes.MsgServer
	rms reportertypes.MsgServer
	sms stakingtypes.MsgServer

	accts []sdk.AccAddress // tracked parties; index = id in the case
	names []string
	vals  []sdk.ValAddress

	reporter  int   // disputed reporter
	payers    []int // accounts that pay fees
	bondPayer map[int]bool
	voters    []int
	team      int

	report oracletypes.MicroReport
	cat    disputetypes.DisputeCategory
	hashID []byte
	curID  uint64 // last dispute id of the lineage (0 = none)
	block  uint64 // dispute.BlockNumber

	supply0 *big.Int
	steps   []string
	stats   map[string]int
	halted  string
}

func (w *c13World) addAcct(a sdk.AccAddress, name string) int {
	w.accts = append(w.accts, a)
	w.names = append(w.names, name)
	return len(w.accts) - 1
}

func (w *c13World) idx(addr []byte) int {
	for i, a := range w.accts {
		if a.Equals(sdk.AccAddress(addr)) {
			return i
		}
	}
	return -1
}

func (w *c13World) setTime(now time.Time) {
	w.now = now
	w.h++
	w.ctx = w.ctx.WithBlockHeight(w.h).WithBlockTime(w.now).WithEventManager(sdk.NewEventManager())
	w.s.Ctx = w.ctx
}

func (w *c13World) staked(a sdk.AccAddress) *big.Int {
	sum := big.NewInt(0)
	dels, err := w.s.Stakingkeeper.GetDelegatorDelegations(w.ctx, a, 100)
	if err != nil {
		return sum
	}
	for _, d := range dels {
		va, _ := sdk.ValAddressFromBech32(d.ValidatorAddress)
		v, err := w.s.Stakingkeeper.GetValidator(w.ctx, va)
		if err != nil {
			continue
		}
		sum.Add(sum, v.TokensFromShares(d.Shares).TruncateInt().BigInt())
	}
	return sum
}

func (w *c13World) escrow() *big.Int {
	return w.s.Bankkeeper.GetBalance(w.ctx, authtypes.NewModuleAddress(disputetypes.ModuleName), w.s.Denom).Amount.BigInt()
}

func (w *c13World) supply() *big.Int {
	return w.s.Bankkeeper.GetSupply(w.ctx, w.s.Denom).Amount.BigInt()
}

// obs: the observation after an operation
func (w *c13World) obs(res int) string {
	dust := big.NewInt(0)
	if d, err := w.s.Disputekeeper.Dust.Get(w.ctx); err == nil {
		dust = d.BigInt()
	}
	liq := make([]string, len(w.accts))
	stk := make([]string, len(w.accts))
	for i, a := range w.accts {
		liq[i] = cz(w.s.Bankkeeper.GetBalance(w.ctx, a, w.s.Denom).Amount.BigInt())
		stk[i] = cz(w.staked(a))
	}
	// dispute record of the current id
	dr := "NoDispute"
	if w.curID != 0 {
		d, err := w.s.Disputekeeper.Disputes.Get(w.ctx, w.curID)
		if err == nil {
			vres, vex := int64(0), false
			if v, err := w.s.Disputekeeper.Votes.Get(w.ctx, w.curID); err == nil {
				vres, vex = int64(v.VoteResult), v.Executed
			}
			vr := big.NewInt(0)
			if !d.VoterReward.IsNil() {
				vr = d.VoterReward.BigInt()
			}
			dr = fmt.Sprintf("(DRec %d %s %s %s %s %d %s %s %d %s %s)", d.DisputeId, cz(d.SlashAmount.BigInt()), cz(d.BurnAmount.BigInt()),
				cz(d.FeeTotal.BigInt()), cz(vr), int(d.DisputeStatus), cbool(d.Open), cbool(d.PendingExecution), vres, cbool(vex),
				czi(d.DisputeEndTime.UnixNano()))
		}
	}
	return fmt.Sprintf("(Obs %d %s %s %s %s %s %s)", res, cz(w.escrow()), cz(bsub(w.supply0, w.supply())), cz(dust), clist(liq), clist(stk), dr)
}

func (w *c13World) run(f func(ctx sdk.Context) error) (res int, msg string) {
	cctx, write := w.ctx.CacheContext()
	func() {
		defer func() {
			if rec := recover(); rec != nil {
				res = c13ErrOther
				msg = fmt.Sprintf("panic: %v", rec)
			}
		}()
		if err := f(cctx); err != nil {
			res = c13classify(err)
			msg = err.Error()
			return
		}
		write()
	}()
	return
}

func (w *c13World) emit(op string, res int, msg string) {
	name := op
	if i := strings.IndexByte(op, ' '); i > 0 {
		name = op[:i]
	}
	name = strings.TrimPrefix(name, "(")
	w.stats[fmt.Sprintf("%s/%d", name, res)]++
	if res == c13ErrOther {
		w.stats["other:"+msg]++
	}
	step := fmt.Sprintf("(%s, %s)", op, w.obs(res))
	if c13Debug {
		fmt.Printf("  %s  -- %s\n", step, msg)
	}
	w.steps = append(w.steps, step)
}

// origins of a tracker as (account id, amount) pairs; the tracker total
func (w *c13World) origins(d reportertypes.DelegationsAmounts) (string, *big.Int, bool) {
	items := make([]string, len(d.TokenOrigins))
	ok := true
	for i, o := range d.TokenOrigins {
		id := w.idx(o.DelegatorAddress)
		if id < 0 {
			ok = false
		}
		items[i] = fmt.Sprintf("(%d, %s)", id, cz(o.Amount.BigInt()))
	}
	tot := big.NewInt(0)
	if !d.Total.IsNil() {
		tot = d.Total.BigInt()
	}
	return clist(items), tot, ok
}

func (w *c13World) trackers() string {
	fee := "None"
	if d, err := w.s.Reporterkeeper.FeePaidFromStake.Get(w.ctx, w.hashID); err == nil {
		l, tot, _ := w.origins(d)
		fee = fmt.Sprintf("(Some (%s, %s))", l, cz(tot))
	}
	sl := "None"
	if d, err := w.s.Reporterkeeper.DisputedDelegationAmounts.Get(w.ctx, w.hashID); err == nil {
		l, tot, _ := w.origins(d)
		sl = fmt.Sprintf("(Some (%s, %s))", l, cz(tot))
	}
	return fee + " " + sl
}

// ---- operations --------------------------------------------------------------------------------
func (w *c13World) findLineage() {
	// the lineage's current id = the largest dispute id with our hash
	next := w.s.Disputekeeper.NextDisputeId(w.ctx)
	for id := next - 1; id >= 1; id-- {
		d, err := w.s.Disputekeeper.Disputes.Get(w.ctx, id)
		if err == nil {
			w.curID = id
			w.hashID = d.HashId
			w.block = d.BlockNumber
			return
		}
	}
}

// ProposeDispute: first round or a further round
func (w *c13World) opPropose(p int, fee *big.Int, bond bool) int {
	rep := w.report
	res, msg := w.run(func(ctx sdk.Context) error {
		_, err := w.ms.ProposeDispute(ctx, &disputetypes.MsgProposeDispute{Creator: w.accts[p].String(), Report: &rep, DisputeCategory: w.cat,
			Fee: sdk.NewCoin(w.s.Denom, math.NewIntFromBigInt(fee)), PayFromBond: bond})
		return err
	})
	if res == c13OK {
		w.findLineage()
	}
	w.emit(fmt.Sprintf("(OPropose %d %s %s %s)", p, cz(fee), cbool(bond), w.trackers()), res, msg)
	return res
}

func (w *c13World) opAddFee(p int, id uint64, fee *big.Int, bond bool) int {
	res, msg := w.run(func(ctx sdk.Context) error {
		_, err := w.ms.AddFeeToDispute(ctx, &disputetypes.MsgAddFeeToDispute{Creator: w.accts[p].String(), DisputeId: id,
			Amount: sdk.NewCoin(w.s.Denom, math.NewIntFromBigInt(fee)), PayFromBond: bond})
		return err
	})
	w.emit(fmt.Sprintf("(OAddFee %d %d %s %s %s)", p, id, cz(fee), cbool(bond), w.trackers()), res, msg)
	return res
}

func (w *c13World) opTime(d time.Duration) {
	w.setTime(w.now.Add(d))
	w.emit(fmt.Sprintf("(OTime %s)", czi(w.now.UnixNano())), c13OK, "")
}

// the tally's effect on the current dispute as an environment fact (C12's domain)
func (w *c13World) tallyFact() string {
	d, err := w.s.Disputekeeper.Disputes.Get(w.ctx, w.curID)
	if err != nil {
		return "(OTally 0 false false 0)"
	}
	vres := int64(0)
	if v, err := w.s.Disputekeeper.Votes.Get(w.ctx, w.curID); err == nil {
		vres = int64(v.VoteResult)
	}
	return fmt.Sprintf("(OTally %d %s %s %d)", int(d.DisputeStatus), cbool(d.Open), cbool(d.PendingExecution), vres)
}

func (w *c13World) opVote(v int, choice disputetypes.VoteEnum) int {
	res, msg := w.run(func(ctx sdk.Context) error {
		_, err := w.ms.Vote(ctx, &disputetypes.MsgVote{Voter: w.accts[v].String(), Id: w.curID, Vote: choice})
		return err
	})
	if res == c13OK {
		// a vote moves no coins; what it leaves (status / result) is an environment fact for the settlement model
		w.emit(w.tallyFact(), c13OK, "vote "+w.names[v])
	} else if c13Debug {
		fmt.Printf("  vote by %s refused: %s\n", w.names[v], msg)
	}
	w.stats[fmt.Sprintf("Vote/%d", res)]++
	return res
}

// first half of the begin blocker: expiry of unfunded disputes and tally of ended votes
func (w *c13World) opExpire() {
	res, msg := w.run(func(ctx sdk.Context) error { return dispute.CheckOpenDisputesForExpiration(ctx, w.s.Disputekeeper) })
	if res != c13OK {
		w.halted = "CheckOpenDisputesForExpiration: " + msg
	}
	w.emit(w.tallyFact(), res, msg)
}

// the voters' records and group totals of every round, as the settlement code will read them
func (w *c13World) votesFact() string {
	d, err := w.s.Disputekeeper.Disputes.Get(w.ctx, w.curID)
	if err != nil {
		return "(OVotes [])"
	}
	var rounds []string
	for _, rid := range d.PrevDisputeIds {
		counts := "None"
		if vc, err := w.s.Disputekeeper.VoteCountsByGroup.Get(w.ctx, rid); err == nil {
			sum := func(c disputetypes.VoteCounts) string {
				return cz(badd(badd(new(big.Int).SetUint64(c.Support), new(big.Int).SetUint64(c.Against)), new(big.Int).SetUint64(c.Invalid)))
			}
			counts = fmt.Sprintf("(Some (GC %s %s %s %s))", sum(vc.Users), sum(vc.Reporters), sum(vc.Tokenholders), sum(vc.Team))
		}
		var voters []string
		for i, a := range w.accts {
			v, err := w.s.Disputekeeper.Voter.Get(w.ctx, collections.Join(rid, a.Bytes()))
			if err != nil {
				continue
			}
			tb, _ := w.s.Disputekeeper.GetUserTotalTips(w.ctx, a, d.BlockNumber)
			ti, _ := w.s.Disputekeeper.GetUserTotalTips(w.ctx, a, rid)
			voters = append(voters, fmt.Sprintf("(VR %d %s %s %s %s %s)", i, cz(v.ReporterPower.BigInt()), cz(v.TokenholderPower.BigInt()),
				cz(tb.BigInt()), cz(ti.BigInt()), cbool(v.RewardClaimed)))
		}
		rounds = append(rounds, fmt.Sprintf("(RD %d %s %s)", rid, counts, clist(voters)))
	}
	return fmt.Sprintf("(OVotes %s)", clist(rounds))
}

func (w *c13World) opVotesFact() { w.emit(w.votesFact(), c13OK, "") }

// second half of the begin blocker: automatic execution
func (w *c13World) opExecBlock() {
	if w.curID != 0 && !w.executed() {
		w.opVotesFact()
	}
	res, msg := w.run(func(ctx sdk.Context) error { return dispute.CheckClosedDisputesForExecution(ctx, w.s.Disputekeeper) })
	if res != c13OK {
		w.halted = "CheckClosedDisputesForExecution: " + msg
	}
	w.emit("(OExecBlock)", res, msg)
}

func (w *c13World) opExecute(id uint64) int {
	if w.curID != 0 && !w.executed() {
		w.opVotesFact()
	}
	res, msg := w.run(func(ctx sdk.Context) error { return w.s.Disputekeeper.ExecuteVote(ctx, id) })
	w.emit(fmt.Sprintf("(OExecute %d)", id), res, msg)
	return res
}

func (w *c13World) opWithdraw(p int, id uint64) int {
	res, msg := w.run(func(ctx sdk.Context) error {
		_, err := w.ms.WithdrawFeeRefund(ctx, &disputetypes.MsgWithdrawFeeRefund{CallerAddress: w.accts[p].String(), PayerAddress: w.accts[p].String(), Id: id})
		return err
	})
	w.emit(fmt.Sprintf("(OWithdraw %d %d)", p, id), res, msg)
	return res
}

func (w *c13World) opClaim(v int, id uint64) int {
	res, msg := w.run(func(ctx sdk.Context) error {
		_, err := w.ms.ClaimReward(ctx, &disputetypes.MsgClaimReward{CallerAddress: w.accts[v].String(), DisputeId: id})
		return err
	})
	w.emit(fmt.Sprintf("(OClaim %d %d)", v, id), res, msg)
	return res
}

// ---- set-up ------------------------------------------------------------------------------------
type c13Plan struct {
	nVals        int
	repStake     []int64 // loya delegated by the disputed reporter to validators 0..
	repSelectors []int64 // stake of each selector of the disputed reporter (validator chosen round robin)
	payers       []c13Payer
	tippers      []int64 // tips (loya) of extra voter accounts
	holders      []int64 // liquid balances of extra voter accounts
	cat          disputetypes.DisputeCategory
	teamFunds    int64
}

type c13Payer struct {
	bond      bool    // is a reporter able to pay from stake
	liquid    int64   // loya
	stake     []int64 // own delegations
	selectors []int64
	tip       int64
}

func (w *c13World) fund(a sdk.AccAddress, loya int64) {
	if loya > 0 {
		w.s.MintTokens(a, math.NewInt(loya))
	}
}

func (w *c13World) newAcct(name string, loya int64) int {
	a, _ := w.s.CreateFundedAccount(0)
	w.fund(a, loya)
	return w.addAcct(a, name)
}

func (w *c13World) delegate(i int, val int, loya int64) {
	w.fund(w.accts[i], loya)
	_, err := w.sms.Delegate(w.ctx, &stakingtypes.MsgDelegate{DelegatorAddress: w.accts[i].String(), ValidatorAddress: w.vals[val%len(w.vals)].String(),
		Amount: sdk.NewCoin(w.s.Denom, math.NewInt(loya))})
	if err != nil {
		w.t.Fatal(err)
	}
}

func (w *c13World) makeReporter(i int, stakes []int64, selectors []int64, tag string) {
	for k, st := range stakes {
		w.delegate(i, k, st)
	}
	if _, err := w.rms.CreateReporter(w.ctx, &reportertypes.MsgCreateReporter{ReporterAddress: w.accts[i].String(),
		CommissionRate: reportertypes.DefaultMinCommissionRate, MinTokensRequired: math.NewInt(1_000_000)}); err != nil {
		w.t.Fatal(err)
	}
	for k, st := range selectors {
		j := w.newAcct(fmt.Sprintf("%s.sel%d", tag, k), 0)
		w.selAccts = append(w.selAccts, j)
		// at the next validator, or at the same validator as the reporter's own stake (two origins on one validator)
		w.delegate(j, k+w.r.Intn(2), st)
		if _, err := w.rms.SelectReporter(w.ctx, &reportertypes.MsgSelectReporter{SelectorAddress: w.accts[j].String(), ReporterAddress: w.accts[i].String()}); err != nil {
			w.t.Fatal(err)
		}
	}
}

var c13QueryID = []byte{0x83, 0xa7, 0xf3, 0xd4, 0x87, 0x86, 0xac, 0x26, 0x67, 0x50, 0x3a, 0x61, 0xe8, 0xc4, 0x15, 0x43, 0x8e, 0xd2, 0x92, 0x2e, 0xb8, 0x6a, 0x29, 0x06, 0xe4, 0xee, 0x66, 0xd9, 0xa2, 0xce, 0x49, 0x92}

func newC13World(t *testing.T, r *rand.Rand, p c13Plan) *c13World {
	s := &setup.SharedSetup{}
	s.SetupTest(t)
	w := &c13World{t: t, s: s, r: r, stats: map[string]int{}, bondPayer: map[int]bool{}}
	w.h = 5
	w.now = time.Unix(1_700_000_000, 0).UTC()
	s.Ctx = s.Ctx.WithBlockHeight(w.h).WithBlockTime(w.now)
	w.ctx = s.Ctx
	w.ms = disputekeeper.NewMsgServerImpl(s.Disputekeeper)
	w.rms = reporterkeeper.NewMsgServerImpl(s.Reporterkeeper)
	w.sms = stakingkeeper.NewMsgServerImpl(s.Stakingkeeper)
	_, w.vals, _ = s.CreateValidators(p.nVals)
	s.Accountkeeper.GetModuleAccount(w.ctx, disputetypes.ModuleName)

	// the disputed reporter and its selectors
	w.reporter = w.newAcct("rep", 0)
	w.makeReporter(w.reporter, p.repStake, p.repSelectors, "rep")
	// fee payers
	for k, pp := range p.payers {
		i := w.newAcct(fmt.Sprintf("payer%d", k), pp.liquid)
		w.payers = append(w.payers, i)
		if pp.bond {
			w.makeReporter(i, pp.stake, pp.selectors, fmt.Sprintf("payer%d", k))
			w.bondPayer[i] = true
		}
		w.voters = append(w.voters, i)
	}
	var tipperIdx []int
	for k, tip := range p.tippers {
		i := w.newAcct(fmt.Sprintf("tipper%d", k), tip+1_000_000)
		w.voters = append(w.voters, i)
		tipperIdx = append(tipperIdx, i)
	}
	for k, bal := range p.holders {
		i := w.newAcct(fmt.Sprintf("holder%d", k), bal)
		w.voters = append(w.voters, i)
	}
	dp, err := s.Disputekeeper.Params.Get(w.ctx)
	if err != nil {
		t.Fatal(err)
	}
	team := sdk.AccAddress(dp.TeamAddress)
	w.fund(team, p.teamFunds)
	w.team = w.addAcct(team, "team")
	w.voters = append(w.voters, w.team, w.reporter)
	// selectors vote too (before or after their reporter: their stake must not count twice in the reward shares)
	w.voters = append(w.voters, w.selAccts...)

	// tips (users group): payers and tippers
	tipAt := func(i int, amt int64) {
		if amt <= 0 {
			return
		}
		func() {
			defer func() { recover() }()
			s.CreateSpotPriceTip(w.ctx, w.accts[i], `["eth","usd"]`, math.NewInt(amt))
		}()
	}
	for k, pp := range p.payers {
		tipAt(w.payers[k], pp.tip)
	}
	for k, tip := range p.tippers {
		tipAt(tipperIdx[k], tip)
	}
	// stake snapshots of every reporter at this height (what the oracle does on a report)
	w.setTime(w.now.Add(2 * time.Second))
	stake, err := s.Reporterkeeper.ReporterStake(w.ctx, w.accts[w.reporter], c13QueryID)
	if err != nil {
		t.Fatal(err)
	}
	for i := range w.bondPayer {
		if _, err := s.Reporterkeeper.ReporterStake(w.ctx, w.accts[i], c13QueryID); err != nil {
			t.Fatal(err)
		}
	}
	w.report = oracletypes.MicroReport{
		Reporter: w.accts[w.reporter].String(), Power: stake.Quo(sdk.DefaultPowerReduction).Uint64(), QueryId: c13QueryID,
		Value: "000000000000000000000000000000000000000000000058528649cf80ee0000", Timestamp: w.now, BlockNumber: uint64(w.h),
	}
	w.cat = p.cat
	// the first payer can always open the dispute from its balance
	if fee, err := s.Disputekeeper.GetDisputeFee(w.ctx, w.report, w.cat); err == nil {
		need := fee.MulRaw(2).AddRaw(1_000_000)
		if bal := s.Bankkeeper.GetBalance(w.ctx, w.accts[w.payers[0]], s.Denom).Amount; bal.LT(need) {
			w.fund(w.accts[w.payers[0]], need.Sub(bal).Int64())
		}
	}
	w.setTime(w.now.Add(2 * time.Second))
	w.supply0 = w.supply()
	return w
}

func (w *c13World) header() string {
	// initial observation + static facts: the disputed reporter, the dispute fee S
	fee, err := w.s.Disputekeeper.GetDisputeFee(w.ctx, w.report, w.cat)
	if err != nil {
		w.t.Fatal(err)
	}
	return fmt.Sprintf("%d %s %s %s", w.reporter, cz(fee.BigInt()), czi(w.now.UnixNano()), w.obs(c13OK))
}

func c13sorted(m map[string]int) []string {
	keys := make([]string, 0, len(m))
	for k := range m {
		keys = append(keys, k)
	}
	sort.Strings(keys)
	return keys
}

func TestC13Debug(t *testing.T) {
	if !c13Debug {
		t.Skip()
	}
	r := rand.New(rand.NewSource(seed()))
	p := c13Plan{nVals: 2, repStake: []int64{12_345_678}, repSelectors: []int64{3_000_001}, cat: disputetypes.Warning, teamFunds: 1000,
		payers:  []c13Payer{{liquid: 50_000_000, tip: 1_000_000}, {bond: true, liquid: 1_000_000, stake: []int64{20_000_000}, selectors: []int64{5_000_000}}},
		holders: []int64{7_000_000}}
	t0 := time.Now()
	w := newC13World(t, r, p)
	fmt.Println("setup", time.Since(t0), "accounts", w.names)
	fmt.Println("header", w.header())
	w.opPropose(w.payers[0], bi(50_000), false)
	w.opAddFee(w.payers[1], 1, bi(30_000), true)
	w.opAddFee(w.payers[0], 1, bi(1_000_000), false)
	for _, v := range w.voters {
		w.opVote(v, disputetypes.VoteEnum_VOTE_INVALID)
	}
	w.opTime(72*time.Hour + time.Second)
	w.opExpire()
	w.opVotesFact()
	w.opExecBlock()
	for _, p := range w.payers {
		w.opWithdraw(p, 1)
	}
	for _, v := range w.voters {
		w.opClaim(v, 1)
	}
	for _, p := range w.payers {
		w.opWithdraw(p, 1)
	}
	for _, v := range w.voters {
		w.opClaim(v, 1)
	}
	w.opExecute(1)
	fmt.Println("total", time.Since(t0), w.stats)
}

// ---- generator -----------------------------------------------------------------------------------
func c13stake(r *rand.Rand) int64 {
	switch r.Intn(4) {
	case 0:
		return int64(2+r.Intn(40)) * 1_000_000
	case 1:
		return int64(2+r.Intn(40))*1_000_000 + int64(r.Intn(1_000_000))
	case 2:
		return 2_000_000 + int64(r.Intn(3_000_000))
	default:
		return 1_000_001 + int64(r.Intn(90_000_000))
	}
}

func c13genPlan(r *rand.Rand) c13Plan {
	p := c13Plan{nVals: 1 + r.Intn(3), cat: pick(r, disputetypes.Warning, disputetypes.Warning, disputetypes.Minor, disputetypes.Minor, disputetypes.Major)}
	p.repStake = []int64{c13stake(r)}
	if r.Intn(3) == 0 {
		p.repStake = append(p.repStake, c13stake(r))
	}
	for i := r.Intn(3); i > 0; i-- {
		p.repSelectors = append(p.repSelectors, c13stake(r))
	}
	np := 1 + r.Intn(4)
	for i := 0; i < np; i++ {
		pp := c13Payer{liquid: int64(1+r.Intn(200)) * 1_000_000}
		if r.Intn(8) == 0 {
			pp.liquid = int64(r.Intn(200_000))
		}
		if r.Intn(100) < 35 {
			pp.bond = true
			// one delegation per paying reporter / selector: several validators per delegator are the subject of
			// finding F10 (C05: the fee tracker then records the wrong amounts), kept out of this check's inputs
			pp.stake = []int64{c13stake(r) + int64(r.Intn(3))*100_000_000}
			if r.Intn(3) == 0 {
				pp.selectors = append(pp.selectors, c13stake(r))
			}
		}
		if r.Intn(3) == 0 {
			pp.tip = int64(10_000 + r.Intn(5_000_000))
		}
		p.payers = append(p.payers, pp)
	}
	for i := r.Intn(3); i > 0; i-- {
		p.tippers = append(p.tippers, int64(10_000+r.Intn(3_000_000)))
	}
	for i := r.Intn(3); i > 0; i-- {
		p.holders = append(p.holders, int64(1+r.Intn(50_000_000)))
	}
	p.teamFunds = int64(r.Intn(3)) * int64(r.Intn(1_000_000))
	return p
}

func (w *c13World) disputeNow() (disputetypes.Dispute, bool) {
	if w.curID == 0 {
		return disputetypes.Dispute{}, false
	}
	d, err := w.s.Disputekeeper.Disputes.Get(w.ctx, w.curID)
	return d, err == nil
}

func (w *c13World) executed() bool {
	v, err := w.s.Disputekeeper.Votes.Get(w.ctx, w.curID)
	return err == nil && v.Executed
}

// a fee amount around what is still missing
func (w *c13World) feeAmount(remaining *big.Int) *big.Int {
	r := w.r
	switch r.Intn(8) {
	case 0:
		return new(big.Int).Set(remaining)
	case 1:
		return badd(remaining, bi(1))
	case 2:
		if remaining.Cmp(bi(1)) > 0 {
			return bsub(remaining, bi(1))
		}
		return bi(1)
	case 3:
		return bi(1 + int64(r.Intn(3)))
	case 4:
		return bmul(remaining, bi(int64(2+r.Intn(5))))
	default:
		if remaining.Cmp(bi(2)) < 0 {
			return bi(1)
		}
		return badd(bi(1), bigRand(r, bsub(remaining, bi(1))))
	}
}

func (w *c13World) somePayer() (int, bool) {
	r := w.r
	p := w.payers[r.Intn(len(w.payers))]
	if r.Intn(12) == 0 {
		p = w.reporter
	}
	bond := false
	if w.bondPayer[p] {
		bond = r.Intn(3) != 0
	} else if r.Intn(15) == 0 {
		bond = true // not a reporter: refused
	}
	return p, bond
}

func (w *c13World) voting(target disputetypes.VoteEnum, nobody bool) {
	r := w.r
	if nobody {
		return
	}
	order := r.Perm(len(w.voters))
	teamOnly := r.Intn(12) == 0
	for _, k := range order {
		v := w.voters[k]
		if teamOnly && v != w.team {
			continue
		}
		if !teamOnly && r.Intn(3) == 0 {
			continue
		}
		d, ok := w.disputeNow()
		if !ok || d.DisputeStatus != disputetypes.Voting {
			break
		}
		choice := target
		if r.Intn(4) == 0 {
			choice = pick(r, disputetypes.VoteEnum_VOTE_SUPPORT, disputetypes.VoteEnum_VOTE_AGAINST, disputetypes.VoteEnum_VOTE_INVALID)
		}
		w.opVote(v, choice)
	}
}

func (w *c13World) claims(final bool) {
	r := w.r
	type cl struct {
		kind int
		who  int
		id   uint64
	}
	var cs []cl
	ids := []uint64{w.curID}
	if w.curID > 1 {
		ids = append(ids, 1)
		if w.curID > 2 && r.Intn(2) == 0 {
			ids = append(ids, w.curID-1)
		}
	}
	for _, p := range w.payers {
		for _, id := range ids {
			cs = append(cs, cl{0, p, id})
		}
	}
	cs = append(cs, cl{0, w.reporter, w.curID})
	for _, v := range w.voters {
		for _, id := range ids {
			cs = append(cs, cl{1, v, id})
		}
	}
	if r.Intn(3) == 0 {
		cs = append(cs, cl{0, r.Intn(len(w.accts)), w.curID + 3}, cl{1, r.Intn(len(w.accts)), w.curID + 3})
	}
	for pass := 0; pass < 2; pass++ {
		r.Shuffle(len(cs), func(i, j int) { cs[i], cs[j] = cs[j], cs[i] })
		for k, c := range cs {
			if c.kind == 0 {
				w.opWithdraw(c.who, c.id)
			} else {
				w.opClaim(c.who, c.id)
			}
			if k == len(cs)/2 && r.Intn(3) == 0 {
				w.opExecBlock()
			}
		}
		if pass == 0 && r.Intn(2) == 0 {
			w.opExecute(w.curID)
		}
	}
	if final {
		w.emit("OEnd", c13OK, "")
	}
}

// one generated history; returns the outcome bucket
func (w *c13World) history(S *big.Int) string {
	r := w.r
	mode := r.Intn(100) // <40 full at once, <92 split, else left under-funded
	p0, bond0 := w.somePayer()
	if p0 == w.reporter {
		p0 = w.payers[0]
		bond0 = false
	}
	var first *big.Int
	switch {
	case mode < 40:
		first = pick(r, new(big.Int).Set(S), badd(S, bi(int64(1+r.Intn(1000)))), bmul(S, bi(3)))
	default:
		first = badd(bi(10_000), bigRand(r, bsub(S, bi(10_000))))
		if r.Intn(10) == 0 {
			first = bi(int64(9_990 + r.Intn(20)))
		}
	}
	if r.Intn(25) == 0 {
		w.opWithdraw(w.payers[0], 1)
		w.opClaim(w.payers[0], 1)
		w.opExecBlock()
	}
	if w.opPropose(p0, first, bond0) != c13OK {
		// try once more with a solvent payer from its balance
		if first.Cmp(bi(10_000)) < 0 {
			first = bi(10_000 + int64(r.Intn(5)))
		}
		w.opPropose(w.payers[0], first, false)
	}
	d, ok := w.disputeNow()
	if !ok {
		return "not-opened"
	}
	// further payments
	for k := 0; k < 7; k++ {
		d, _ = w.disputeNow()
		if d.DisputeStatus != disputetypes.Prevote {
			if r.Intn(4) == 0 {
				p, b := w.somePayer()
				w.opAddFee(p, w.curID, w.feeAmount(bi(50_000)), b) // fee already met
			}
			break
		}
		remaining := bsub(d.SlashAmount.BigInt(), d.FeeTotal.BigInt())
		p, b := w.somePayer()
		if k > 0 && r.Intn(3) == 0 {
			p, b = p0, bond0 // the same payer again
		}
		amt := w.feeAmount(remaining)
		if mode >= 92 && amt.Cmp(remaining) >= 0 {
			amt = bsub(remaining, bi(1))
			if amt.Sign() <= 0 {
				break
			}
		}
		id := w.curID
		if r.Intn(30) == 0 {
			id += 5
		}
		if r.Intn(20) == 0 {
			w.opTime(pick(r, time.Second, time.Hour, 24*time.Hour-4*time.Second-time.Duration(k)*time.Hour))
		}
		w.opAddFee(p, id, amt, b)
		if r.Intn(12) == 0 {
			w.opWithdraw(p, w.curID) // too early
		}
	}
	d, _ = w.disputeNow()
	if d.DisputeStatus == disputetypes.Prevote && mode < 92 {
		// complete the funding from a balance
		remaining := bsub(d.SlashAmount.BigInt(), d.FeeTotal.BigInt())
		done := false
		for _, p := range w.payers {
			if w.s.Bankkeeper.GetBalance(w.ctx, w.accts[p], w.s.Denom).Amount.BigInt().Cmp(remaining) >= 0 {
				done = w.opAddFee(p, w.curID, remaining, false) == c13OK
				if done {
					break
				}
			}
		}
		if !done {
			mode = 99
		}
	}
	d, _ = w.disputeNow()
	if d.DisputeStatus == disputetypes.Prevote && r.Intn(3) == 0 {
		w.opTime(24*time.Hour - time.Duration(w.now.Sub(d.DisputeStartTime)))
		w.opExpire() // exactly at the end: not expired yet
		if r.Intn(2) == 0 {
			// ... and paid up in that very block: the dispute goes to the vote
			remaining := bsub(d.SlashAmount.BigInt(), d.FeeTotal.BigInt())
			for _, p := range w.payers {
				if w.s.Bankkeeper.GetBalance(w.ctx, w.accts[p], w.s.Denom).Amount.BigInt().Cmp(remaining) >= 0 {
					if w.opAddFee(p, w.curID, remaining, false) == c13OK {
						break
					}
				}
			}
		}
		d, _ = w.disputeNow()
	}
	if d.DisputeStatus == disputetypes.Prevote {
		// under-funded: it fails after a day
		w.opTime(24*time.Hour + time.Duration(r.Intn(3))*time.Nanosecond)
		w.opExpire()
		if d, _ = w.disputeNow(); d.DisputeStatus == disputetypes.Prevote {
			w.opTime(time.Duration(1+r.Intn(3)) * time.Nanosecond)
			w.opExpire()
		}
		if r.Intn(2) == 0 {
			p, b := w.somePayer()
			w.opAddFee(p, w.curID, bi(20_000), b)
		}
		w.opExecBlock()
		w.claims(true)
		return "failed"
	}
	// voting, tally, further rounds
	target := pick(r, disputetypes.VoteEnum_VOTE_SUPPORT, disputetypes.VoteEnum_VOTE_AGAINST, disputetypes.VoteEnum_VOTE_INVALID)
	maxRounds := pick(r, 1, 1, 1, 1, 1, 1, 1, 1, 2, 2, 3, 6)
	rounds := 1
	for {
		w.voting(target, r.Intn(10) == 0)
		if r.Intn(15) == 0 {
			w.opExecute(w.curID)
		}
		d, _ = w.disputeNow()
		if d.DisputeStatus == disputetypes.Voting {
			w.opTime(48*time.Hour + time.Duration(1+r.Intn(1000))*time.Millisecond)
			w.opExpire()
			if w.halted != "" {
				return "halted"
			}
		}
		d, _ = w.disputeNow()
		if d.DisputeStatus == disputetypes.Unresolved && rounds < maxRounds {
			rf := bmul(bquo(d.SlashAmount.BigInt(), bi(20)), pow2(int(d.DisputeRound)))
			if rf.Cmp(d.SlashAmount.BigInt()) > 0 {
				rf = d.SlashAmount.BigInt()
			}
			// users tip again between the rounds (with freshly minted coins, so that their liquid holdings stay as the
			// model tracks them): the tips that count for the vote and for the reward are those at the dispute's block
			if r.Intn(2) == 0 {
				for _, v := range w.voters {
					if v == w.team || r.Intn(2) == 0 {
						continue
					}
					amt := int64(pick(r, 1_000_000, 50_000_000, 1_000_000_000))
					// written as the oracle's tip bookkeeping (TipperTotal / TotalTips at the current height) without moving
					// coins, so that the balances and the supply the model tracks are not disturbed
					h := uint64(w.ctx.BlockHeight())
					cur, _ := w.s.Oraclekeeper.GetTipsAtBlockForTipper(w.ctx, h, w.accts[v])
					tot, _ := w.s.Oraclekeeper.GetTotalTipsAtBlock(w.ctx, h)
					_ = w.s.Oraclekeeper.TipperTotal.Set(w.ctx, collections.Join(w.accts[v].Bytes(), h), cur.Add(math.NewInt(amt)))
					_ = w.s.Oraclekeeper.TotalTips.Set(w.ctx, h, tot.Add(math.NewInt(amt)))
				}
			}
			p, b := w.somePayer()
			if p == w.reporter {
				p = w.payers[0]
			}
			fee := pick(r, new(big.Int).Set(rf), badd(rf, bi(7)), bmul(rf, bi(2)))
			if r.Intn(8) == 0 {
				fee = bsub(rf, bi(1))
			}
			if w.opPropose(p, fee, b) != c13OK {
				if w.opPropose(w.payers[0], bmul(rf, bi(2)), false) != c13OK {
					break
				}
			}
			rounds++
			if r.Intn(3) == 0 {
				target = pick(r, disputetypes.VoteEnum_VOTE_SUPPORT, disputetypes.VoteEnum_VOTE_AGAINST, disputetypes.VoteEnum_VOTE_INVALID)
			}
			continue
		}
		break
	}
	// execution
	if r.Intn(6) == 0 {
		w.opExecBlock() // possibly before the end of the dispute
	}
	d, _ = w.disputeNow()
	if !w.executed() {
		if w.now.Before(d.DisputeEndTime) || w.now.Equal(d.DisputeEndTime) {
			w.opTime(d.DisputeEndTime.Sub(w.now) + time.Duration(r.Intn(2))*time.Nanosecond)
			if r.Intn(2) == 0 {
				w.opExpire()
				w.opExecBlock()
			}
			if !w.executed() {
				w.opTime(time.Duration(1+r.Intn(5)) * time.Second)
			}
		}
	}
	if !w.executed() {
		w.opExpire()
		if w.halted != "" {
			return "halted"
		}
		if r.Intn(5) == 0 {
			// a new round after the end is refused
			w.opPropose(w.payers[0], bmul(d.SlashAmount.BigInt(), bi(2)), false)
		}
		w.opExecBlock()
		if w.halted != "" {
			return "halted"
		}
	}
	if !w.executed() {
		w.claims(false)
		return "not-executed"
	}
	if r.Intn(3) == 0 {
		w.opExecBlock()
	}
	v, _ := w.s.Disputekeeper.Votes.Get(w.ctx, w.curID)
	if r.Intn(3) == 0 {
		// a fee for a dispute that is settled
		p, b := w.somePayer()
		d, _ = w.disputeNow()
		w.opAddFee(p, w.curID, pick(r, bi(20_000), bsub(d.SlashAmount.BigInt(), d.BurnAmount.BigInt()), new(big.Int).Set(S)), b)
		if w.executed() == false {
			// the dispute was re-opened: let it run once more
			w.voting(disputetypes.VoteEnum_VOTE_AGAINST, false)
			w.opTime(72*time.Hour + time.Second)
			w.opExpire()
			w.opExecBlock()
		}
	}
	w.claims(true)
	out := map[disputetypes.VoteResult]string{1: "support", 2: "against", 3: "invalid", 4: "nq-support", 5: "nq-against", 6: "nq-invalid"}[v.VoteResult]
	if rounds > 1 {
		out += fmt.Sprintf("/r%d", w.curID)
	}
	return out
}

func c13runOne(t *testing.T, out *Out, r *rand.Rand, p c13Plan, script func(w *c13World, S *big.Int) string, tags ...string) {
	w := newC13World(t, r, p)
	head := w.header()
	fee, _ := w.s.Disputekeeper.GetDisputeFee(w.ctx, w.report, w.cat)
	kind := script(w, fee.BigInt())
	okClaims := w.stats["OWithdraw/0"] + w.stats["OClaim/0"]
	term := fmt.Sprintf("Hist %s %s", head, clist(w.steps))
	human := map[string]interface{}{"accounts": w.names, "outcome": kind, "ops": w.stats, "fee": fee.String(), "category": w.cat.String()}
	if w.halted != "" {
		human["halted"] = w.halted
	}
	out.Emit(Case{Coq: term, Kind: kind, Nontrivial: okClaims >= 1, Key: strings.Join(w.steps, ""), Tags: tags, Human: human})
}

func TestC13Settle(t *testing.T) {
	out := newOut(t, "TestC13Settle")
	defer out.Close()
	r := rand.New(rand.NewSource(seed()))
	for _, c := range c13corpus() {
		c13runOne(t, out, r, c.plan, c.script, c.tags...)
	}
	n := count(200, 4800)
	for i := 0; i < n; i++ {
		p := c13genPlan(r)
		c13runOne(t, out, r, p, func(w *c13World, S *big.Int) string { return w.history(S) })
	}
}

type c13corpusCase struct {
	plan   c13Plan
	script func(w *c13World, S *big.Int) string
	tags   []string
}

func c13corpus() []c13corpusCase {
	plain := c13Plan{nVals: 2, repStake: []int64{12_345_678}, repSelectors: []int64{3_000_001}, cat: disputetypes.Warning, teamFunds: 1000,
		payers:  []c13Payer{{liquid: 50_000_000, tip: 1_000_000}, {bond: true, liquid: 1_000_000, stake: []int64{120_000_000}, selectors: []int64{5_000_000}}, {bond: true, liquid: 1_000_000, stake: []int64{150_000_000}}},
		holders: []int64{7_000_000}}
	voteAll := func(w *c13World, c disputetypes.VoteEnum) {
		for _, v := range w.voters {
			w.opVote(v, c)
		}
	}
	settle := func(w *c13World) {
		w.opTime(72*time.Hour + time.Second)
		w.opExpire()
		w.opExecBlock()
	}
	claimAll := func(w *c13World) {
		for pass := 0; pass < 2; pass++ {
			for _, p := range w.payers {
				w.opWithdraw(p, w.curID)
			}
			for _, v := range w.voters {
				w.opClaim(v, w.curID)
			}
		}
		w.opExecute(w.curID)
		w.emit("OEnd", c13OK, "")
	}
	return []c13corpusCase{
		// one payer, paid in full from the balance, invalid
		{plain, func(w *c13World, S *big.Int) string {
			w.opPropose(w.payers[0], S, false)
			voteAll(w, disputetypes.VoteEnum_VOTE_INVALID)
			settle(w)
			claimAll(w)
			return "corpus"
		}, []string{"corpus"}},
		// support: the fee payer also receives the reporter's stake
		{plain, func(w *c13World, S *big.Int) string {
			w.opPropose(w.payers[0], bquo(S, bi(3)), false)
			w.opAddFee(w.payers[1], 1, S, true)
			voteAll(w, disputetypes.VoteEnum_VOTE_SUPPORT)
			settle(w)
			claimAll(w)
			return "corpus"
		}, []string{"corpus"}},
		// against
		{plain, func(w *c13World, S *big.Int) string {
			w.opPropose(w.payers[0], S, false)
			voteAll(w, disputetypes.VoteEnum_VOTE_AGAINST)
			settle(w)
			claimAll(w)
			return "corpus"
		}, []string{"corpus"}},
		// F20: the same payer pays twice
		{plain, func(w *c13World, S *big.Int) string {
			w.opPropose(w.payers[0], bquo(S, bi(3)), false)
			w.opAddFee(w.payers[0], 1, S, false)
			voteAll(w, disputetypes.VoteEnum_VOTE_INVALID)
			settle(w)
			claimAll(w)
			return "corpus"
		}, []string{"corpus", "corpus:F20"}},
		// F21: under-funded dispute fails
		{plain, func(w *c13World, S *big.Int) string {
			w.opPropose(w.payers[0], bquo(S, bi(2)), false)
			w.opTime(24*time.Hour + time.Second)
			w.opExpire()
			claimAll(w)
			return "corpus"
		}, []string{"corpus", "corpus:F21"}},
		// F22: two rounds
		{plain, func(w *c13World, S *big.Int) string {
			w.opPropose(w.payers[0], S, false)
			w.opVote(w.payers[0], disputetypes.VoteEnum_VOTE_INVALID)
			w.opTime(48*time.Hour + time.Second)
			w.opExpire()
			w.opPropose(w.payers[0], S, false)
			w.opVote(w.payers[0], disputetypes.VoteEnum_VOTE_INVALID)
			settle(w)
			for _, p := range w.payers {
				w.opWithdraw(p, 1)
			}
			claimAll(w)
			return "corpus"
		}, []string{"corpus", "corpus:F22"}},
		// F23: two payers from stake
		{plain, func(w *c13World, S *big.Int) string {
			w.opPropose(w.payers[1], bquo(S, bi(2)), true)
			w.opAddFee(w.payers[2], 1, S, true)
			voteAll(w, disputetypes.VoteEnum_VOTE_INVALID)
			settle(w)
			claimAll(w)
			return "corpus"
		}, []string{"corpus", "corpus:F23"}},
		// C13a: only the team votes (and holds no coins)
		{func() c13Plan { q := plain; q.teamFunds = 0; return q }(), func(w *c13World, S *big.Int) string {
			w.opPropose(w.payers[0], S, false)
			w.opVote(w.team, disputetypes.VoteEnum_VOTE_INVALID)
			settle(w)
			claimAll(w)
			return "corpus"
		}, []string{"corpus", "corpus:C13a"}},
		// C13c: against with quorum, executed before the dispute's end: the record's slash amount has grown and more fee is accepted
		{plain, func(w *c13World, S *big.Int) string {
			w.opPropose(w.payers[0], S, false)
			voteAll(w, disputetypes.VoteEnum_VOTE_AGAINST)
			w.opExecBlock()
			w.opAddFee(w.payers[0], 1, S, false)
			voteAll(w, disputetypes.VoteEnum_VOTE_AGAINST)
			settle(w)
			claimAll(w)
			return "corpus"
		}, []string{"corpus", "corpus:C13c"}},
		// C13c with a major dispute (no jailing that would stop the second slash)
		{func() c13Plan {
			q := plain
			q.cat = disputetypes.Major
			q.payers = append([]c13Payer{}, plain.payers...)
			q.payers[0].liquid = 500_000_000
			return q
		}(),
			func(w *c13World, S *big.Int) string {
				w.opPropose(w.payers[0], S, false)
				voteAll(w, disputetypes.VoteEnum_VOTE_AGAINST)
				w.opExecBlock()
				w.opAddFee(w.payers[0], 1, S, false)
				voteAll(w, disputetypes.VoteEnum_VOTE_AGAINST)
				settle(w)
				claimAll(w)
				return "corpus"
			}, []string{"corpus", "corpus:C13c"}},
		// nobody votes: the whole burn amount is burnt
		{plain, func(w *c13World, S *big.Int) string {
			w.opPropose(w.payers[0], S, false)
			settle(w)
			claimAll(w)
			return "corpus"
		}, []string{"corpus"}},
	}
}
