package harness

// C17 — vote-extension data reaches state only as signed; proposals stay coherent.
//
// The drivers run the REAL app.ProposalHandler (PrepareProposalHandler, ProcessProposalHandler, PreBlocker)
// and app.VoteExtHandler.VerifyVoteExtensionHandler on the real bridge and staking keepers of the full
// fixture (tests.SharedSetup), with ed25519 validator keys held by the harness, real secp256k1 initial
// signatures, and a comet.BlockInfo that matches the generated extended commit.  Every case is printed as a
// Gallina term of type c17_case (coq/Model/Proposal.v).

import (
	"bytes"
	"context"
	"crypto/sha256"
	"encoding/binary"
	"encoding/hex"
	"encoding/json"
	"fmt"
	"math/rand"
	"sort"
	"strings"
	"testing"
	"time"

	abci "github.com/cometbft/cometbft/abci/types"
	cmtprotocrypto "github.com/cometbft/cometbft/proto/tendermint/crypto"
	cmtproto "github.com/cometbft/cometbft/proto/tendermint/types"
	protoio "github.com/cosmos/gogoproto/io"
	"github.com/ethereum/go-ethereum/common"
	ethcrypto "github.com/ethereum/go-ethereum/crypto"
	"github.com/tellor-io/layer/app"
	setup "github.com/tellor-io/layer/tests"
	bridgetypes "github.com/tellor-io/layer/x/bridge/types"

	"cosmossdk.io/core/comet"
	"cosmossdk.io/core/header"
	"cosmossdk.io/log"
	"cosmossdk.io/math"

	"github.com/cosmos/cosmos-sdk/baseapp"
	"github.com/cosmos/cosmos-sdk/crypto/keys/ed25519"
	"github.com/cosmos/cosmos-sdk/crypto/keys/secp256k1"
	sdk "github.com/cosmos/cosmos-sdk/types"
	stakingkeeper "github.com/cosmos/cosmos-sdk/x/staking/keeper"
	stakingtypes "github.com/cosmos/cosmos-sdk/x/staking/types"
)

// ---- comet.BlockInfo over an extended commit --------------------------------------------------
type c17Comet struct {
	round int32
	votes []abci.ExtendedVoteInfo
}

func (c c17Comet) GetEvidence() comet.EvidenceList { return nil }
func (c c17Comet) GetValidatorsHash() []byte       { return nil }
func (c c17Comet) GetProposerAddress() []byte      { return nil }
func (c c17Comet) GetLastCommit() comet.CommitInfo { return c }
func (c c17Comet) Round() int32                    { return c.round }
func (c c17Comet) Votes() comet.VoteInfos          { return c }
func (c c17Comet) Len() int                        { return len(c.votes) }
func (c c17Comet) Get(i int) comet.VoteInfo        { return c17Vote{c.votes[i]} }

type c17Vote struct{ v abci.ExtendedVoteInfo }

func (v c17Vote) Validator() comet.Validator        { return c17Validator{v.v.Validator} }
func (v c17Vote) GetBlockIDFlag() comet.BlockIDFlag { return comet.BlockIDFlag(v.v.BlockIdFlag) }

type c17Validator struct{ v abci.Validator }

func (v c17Validator) Address() []byte { return v.v.Address }
func (v c17Validator) Power() int64    { return v.v.Power }

// ---- the staking keeper as the handlers see it ------------------------------------------------------
// The handlers take their staking keeper through interfaces (app.StakingKeeper: GetValidatorByConsAddr,
// baseapp.ValidatorStore: GetPubKeyByConsAddr).  c17Staking is the real keeper with a table of answers by
// consensus address that a scenario can change between two blocks (a validator is removed, another operator
// creates a validator with the same consensus key); every other lookup goes to the real keeper.  The facts
// handed to the model (v_op, c_valid) are measured through the same wrapper at the time of each call.
type c17Override struct {
	op string // operator address of the validator that holds the key now; "" = no validator has it
}

type c17Staking struct {
	real *stakingkeeper.Keeper
	over map[string]c17Override
}

func (k *c17Staking) GetValidatorByConsAddr(ctx context.Context, cons sdk.ConsAddress) (stakingtypes.Validator, error) {
	if o, ok := k.over[string(cons)]; ok {
		if o.op == "" {
			return stakingtypes.Validator{}, stakingtypes.ErrNoValidatorFound
		}
		// the record of the validator that holds the key now: same consensus key, another operator
		v, err := k.real.GetValidatorByConsAddr(ctx, cons)
		if err != nil {
			return v, err
		}
		v.OperatorAddress = o.op
		return v, nil
	}
	return k.real.GetValidatorByConsAddr(ctx, cons)
}

func (k *c17Staking) GetPubKeyByConsAddr(ctx context.Context, cons sdk.ConsAddress) (cmtprotocrypto.PublicKey, error) {
	v, err := k.GetValidatorByConsAddr(ctx, cons)
	if err != nil {
		return cmtprotocrypto.PublicKey{}, err
	}
	return v.CmtConsPublicKey()
}

func (k *c17Staking) set(cons []byte, op string) { k.over[string(cons)] = c17Override{op: op} }
func (k *c17Staking) unset(cons []byte)          { delete(k.over, string(cons)) }
func (k *c17Staking) reset()                     { k.over = map[string]c17Override{} }

// ---- fixture -------------------------------------------------------------------------------------
type c17Val struct {
	priv *ed25519.PrivKey
	cons []byte
	op   string
}

type c17EvmKey struct {
	addr       common.Address
	sigA, sigB []byte
}

type c17Fix struct {
	t      testing.TB
	s      *setup.SharedSetup
	sk     *c17Staking
	ctx    sdk.Context
	vals   []c17Val
	keys   []c17EvmKey
	ph     *app.ProposalHandler
	vh     *app.VoteExtHandler
	chain  string
	height int64
	hashA  []byte // double sha256 of the initial message A
}

const c17NVals = 6

func c17NewFix(t testing.TB) *c17Fix {
	s := &setup.SharedSetup{}
	tt, ok := t.(*testing.T)
	if !ok {
		t.Fatal("need *testing.T")
	}
	s.SetupTest(tt)
	fx := &c17Fix{t: t, s: s, chain: "c17-chain", height: 5}
	fx.ctx = s.Ctx.WithBlockHeight(fx.height).WithBlockTime(time.Unix(1_700_000_000, 0).UTC())
	s.Ctx = fx.ctx
	ms := stakingkeeper.NewMsgServerImpl(s.Stakingkeeper)
	for i := 0; i < c17NVals; i++ {
		seed := sha256.Sum256([]byte(fmt.Sprintf("c17-val-%d", i)))
		priv := ed25519.GenPrivKeyFromSecret(seed[:])
		accSeed := sha256.Sum256([]byte(fmt.Sprintf("c17-acc-%d", i)))
		acc := sdk.AccAddress(accSeed[:20])
		s.MintTokens(acc, math.NewInt(1000_000_000))
		valAddr := sdk.ValAddress(acc)
		msg, err := stakingtypes.NewMsgCreateValidator(valAddr.String(), priv.PubKey(), sdk.NewInt64Coin(s.Denom, 1_000_000*int64(c17NVals-i)),
			stakingtypes.Description{Moniker: fmt.Sprint(i)},
			stakingtypes.CommissionRates{Rate: math.LegacyNewDecWithPrec(5, 1), MaxRate: math.LegacyNewDecWithPrec(5, 1), MaxChangeRate: math.LegacyNewDec(0)}, math.OneInt())
		if err != nil {
			t.Fatal(err)
		}
		if _, err := ms.CreateValidator(fx.ctx, msg); err != nil {
			t.Fatal(err)
		}
		fx.vals = append(fx.vals, c17Val{priv: priv, cons: priv.PubKey().Address().Bytes(), op: valAddr.String()})
	}
	hA := sha256.Sum256([]byte("TellorLayer: Initial bridge signature A"))
	hB := sha256.Sum256([]byte("TellorLayer: Initial bridge signature B"))
	for i := 0; i < 8; i++ {
		ek := secp256k1.GenPrivKeyFromSecret([]byte(fmt.Sprintf("c17-evm-%d", i)))
		sigA, err := ek.Sign(hA[:]) // the keyring signer hashes once more
		if err != nil {
			t.Fatal(err)
		}
		sigB, err := ek.Sign(hB[:])
		if err != nil {
			t.Fatal(err)
		}
		ec, err := ethcrypto.ToECDSA(ek.Key)
		if err != nil {
			t.Fatal(err)
		}
		fx.keys = append(fx.keys, c17EvmKey{addr: ethcrypto.PubkeyToAddress(ec.PublicKey), sigA: sigA, sigB: sigB})
	}
	hhA := sha256.Sum256(hA[:])
	fx.hashA = hhA[:]
	fx.sk = &c17Staking{real: s.Stakingkeeper, over: map[string]c17Override{}}
	fx.ph = fx.newHandler()
	fx.vh = app.NewVoteExtHandler(log.NewNopLogger(), nil, s.Oraclekeeper, s.Bridgekeeper)
	return fx
}

// a ProposalHandler instance as app.New builds it, on the fixture's keepers (staking through the wrapper)
func (fx *c17Fix) newHandler() *app.ProposalHandler {
	return app.NewProposalHandler(log.NewNopLogger(), fx.sk, nil, fx.s.Oraclekeeper, fx.s.Bridgekeeper, fx.sk)
}

// context of a handler call at the fixture's height; `enable` = VoteExtensionsEnableHeight
func (fx *c17Fix) handlerCtx(ctx sdk.Context, enable int64, round int32, votes []abci.ExtendedVoteInfo) sdk.Context {
	return ctx.WithChainID(fx.chain).WithBlockHeight(fx.height).
		WithHeaderInfo(header.Info{Height: fx.height, ChainID: fx.chain}).
		WithConsensusParams(cmtproto.ConsensusParams{Abci: &cmtproto.ABCIParams{VoteExtensionsEnableHeight: enable}}).
		WithCometInfo(c17Comet{round: round, votes: votes})
}

func (fx *c17Fix) signExt(v c17Val, ext []byte, round int32) []byte {
	cve := cmtproto.CanonicalVoteExtension{Extension: ext, Height: fx.height - 1, Round: int64(round), ChainId: fx.chain}
	var buf bytes.Buffer
	if err := protoio.NewDelimitedWriter(&buf).WriteMsg(&cve); err != nil {
		fx.t.Fatal(err)
	}
	sig, err := v.priv.Sign(buf.Bytes())
	if err != nil {
		fx.t.Fatal(err)
	}
	return sig
}

// ---- bridge state ------------------------------------------------------------------------------
type c17Snap struct {
	key    []byte
	valset [][]byte // validator set (EVM addresses) the snapshot was created under
}

// what the generator knows beyond the store: the snapshots' own validator sets
type c17Ghost struct{ snaps []c17Snap }

func c17Valset(addrs [][]byte) bridgetypes.BridgeValidatorSet {
	vs := bridgetypes.BridgeValidatorSet{}
	for i, a := range addrs {
		vs.BridgeValidatorSet = append(vs.BridgeValidatorSet, &bridgetypes.BridgeValidator{EthereumAddress: a, Power: uint64(10 + i)})
	}
	return vs
}

func c17Must(t testing.TB, err error) {
	if err != nil {
		t.Helper()
		t.Fatal(err)
	}
}

// ---- printing --------------------------------------------------------------------------------------
type c17Names struct {
	ops   map[string]string // operator address / arbitrary string -> short alias
	addrs map[string]string // injected EVM address string -> alias
	tbl   []string          // Coq pairs (alias, hex of common.HexToAddress(string))
	fx    *c17Fix
}

func c17NewNames(fx *c17Fix) *c17Names {
	n := &c17Names{ops: map[string]string{}, addrs: map[string]string{}, fx: fx}
	for i, v := range fx.vals {
		n.ops[v.op] = fmt.Sprintf("o%d", i)
	}
	return n
}
func (n *c17Names) op(s string) string {
	if a, ok := n.ops[s]; ok {
		return a
	}
	a := fmt.Sprintf("u%d", len(n.ops))
	n.ops[s] = a
	return a
}
func (n *c17Names) addr(s string) string {
	if a, ok := n.addrs[s]; ok {
		return a
	}
	a := fmt.Sprintf("a%d", len(n.addrs))
	n.addrs[s] = a
	n.tbl = append(n.tbl, fmt.Sprintf("(%s, %s)", cstr(a), c17Hex(common.HexToAddress(s).Bytes())))
	return a
}

// a byte string as the model's [hex]: the number behind a leading 0x01 byte
func c17Hex(b []byte) string { return "0x01" + hex.EncodeToString(b) }

// a string of the injected tx that is handed to hex.DecodeString: canonical encodings as SHex
func c17SigStr(s string) string {
	if len(s)%2 == 0 && strings.ToLower(s) == s {
		if b, err := hex.DecodeString(s); err == nil {
			return "(SHex " + c17Hex(b) + ")"
		}
	}
	return "(SRaw " + cstr(s) + ")"
}
func c17OBytes(b []byte) string {
	if b == nil {
		return "None"
	}
	return "(Some " + c17Hex(b) + ")"
}
func c17OList(isNil bool, items []string) string {
	if isNil {
		return "None"
	}
	return "(Some " + clist(items) + ")"
}
func c17HexList(bs [][]byte) string {
	it := make([]string, len(bs))
	for i, b := range bs {
		it[i] = c17Hex(b)
	}
	return clist(it)
}

func c17Ext(e *app.BridgeVoteExtension) string {
	if e == nil {
		return "None"
	}
	atts := make([]string, len(e.OracleAttestations))
	for i, a := range e.OracleAttestations {
		atts[i] = fmt.Sprintf("{| a_snap := %s; a_sig := %s |}", c17OBytes(a.Snapshot), c17OBytes(a.Attestation))
	}
	return fmt.Sprintf("(Some {| x_atts := %s; x_sigA := %s; x_sigB := %s; x_vsig := %s; x_vts := %s |})",
		clist(atts), c17OBytes(e.InitialSignature.SignatureA), c17OBytes(e.InitialSignature.SignatureB),
		c17OBytes(e.ValsetSignature.Signature), czu(e.ValsetSignature.Timestamp))
}

func c17DecodeExt(b []byte) *app.BridgeVoteExtension {
	var e app.BridgeVoteExtension
	if err := json.Unmarshal(b, &e); err != nil {
		return nil
	}
	return &e
}

// the harness-measured facts about one vote (model file, header comment)
func (fx *c17Fix) voteTerm(ctx sdk.Context, n *c17Names, v abci.ExtendedVoteInfo) string {
	e := c17DecodeExt(v.VoteExtension)
	op := "None"
	if val, err := fx.sk.GetValidatorByConsAddr(ctx, v.Validator.Address); err == nil {
		op = "(Some " + cstr(n.op(val.OperatorAddress)) + ")"
	}
	aok := false
	addr := "None"
	if e != nil {
		a, b := e.InitialSignature.SignatureA, e.InitialSignature.SignatureB
		if len(a) >= 64 {
			if _, err := fx.s.Bridgekeeper.TryRecoverAddressWithBothIDs(append([]byte{}, a...), fx.hashA); err == nil {
				aok = true
			}
			if len(b) >= 64 {
				if ad, err := fx.s.Bridgekeeper.EVMAddressFromSignatures(ctx, append([]byte{}, a...), append([]byte{}, b...)); err == nil {
					addr = "(Some " + cstr(n.addr(ad.Hex())) + ")"
				}
			}
		}
	}
	return fmt.Sprintf("{| v_flag := %d; v_ext := %s; v_op := %s; v_aok := %s; v_addr := %s |}", int(v.BlockIdFlag), c17Ext(e), op, cbool(aok), addr)
}

func (fx *c17Fix) commitTerm(ctx sdk.Context, n *c17Names, ec abci.ExtendedCommitInfo) (string, bool) {
	valid := false
	func() {
		defer func() { _ = recover() }()
		valid = baseapp.ValidateVoteExtensions(ctx, fx.sk, fx.height, fx.chain, ec) == nil
	}()
	vs := make([]string, len(ec.Votes))
	for i, v := range ec.Votes {
		vs[i] = fx.voteTerm(ctx, n, v)
	}
	return fmt.Sprintf("{| c_votes := %s; c_valid := %s |}", clist(vs), cbool(valid)), valid
}

func c17Strs(n *c17Names, l []string, f func(string) string) string {
	it := make([]string, len(l))
	for i, s := range l {
		it[i] = cstr(f(s))
	}
	return c17OList(l == nil, it)
}
func c17BytesList(l [][]byte) string {
	it := make([]string, len(l))
	for i, b := range l {
		it[i] = c17OBytes(b)
	}
	return c17OList(l == nil, it)
}

// c17Sig: injected signature strings are arbitrary in mutants; only printable ones can be printed
func c17Printable(s string) bool {
	for _, c := range []byte(s) {
		if c < 32 || c >= 127 {
			return false
		}
	}
	return true
}

func c17Itx(n *c17Names, tx *app.VoteExtTx) string {
	ts := make([]string, len(tx.ValsetSigs.Timestamps))
	for i, v := range tx.ValsetSigs.Timestamps {
		ts[i] = czi(v)
	}
	sg := make([]string, len(tx.ValsetSigs.Signatures))
	for i, v := range tx.ValsetSigs.Signatures {
		sg[i] = c17SigStr(v)
	}
	return fmt.Sprintf("{| t_ops := %s; t_evms := %s; t_vops := %s; t_vts := %s; t_vsigs := %s; t_aops := %s; t_atts := %s; t_snaps := %s |}",
		c17Strs(n, tx.OpAndEVMAddrs.OperatorAddresses, n.op), c17Strs(n, tx.OpAndEVMAddrs.EVMAddresses, n.addr),
		c17Strs(n, tx.ValsetSigs.OperatorAddresses, n.op), c17OList(tx.ValsetSigs.Timestamps == nil, ts), c17OList(tx.ValsetSigs.Signatures == nil, sg),
		c17Strs(n, tx.OracleAttestations.OperatorAddresses, n.op), c17BytesList(tx.OracleAttestations.Attestations), c17BytesList(tx.OracleAttestations.Snapshots))
}

func c17TxPrintable(tx *app.VoteExtTx) bool {
	for _, l := range [][]string{tx.OpAndEVMAddrs.OperatorAddresses, tx.OpAndEVMAddrs.EVMAddresses, tx.ValsetSigs.OperatorAddresses, tx.ValsetSigs.Signatures, tx.OracleAttestations.OperatorAddresses} {
		for _, s := range l {
			if !c17Printable(s) {
				return false
			}
		}
	}
	return true
}

// ---- state projection -----------------------------------------------------------------------------
type c17Post struct {
	evm   []string // Coq pairs
	vsigs []string
	atts  []string
	other string // digest of every other entry of the bridge store
}

func (fx *c17Fix) project(ctx sdk.Context, n *c17Names) c17Post {
	k := fx.s.Bridgekeeper
	var p c17Post
	it, err := k.OperatorToEVMAddressMap.Iterate(ctx, nil)
	c17Must(fx.t, err)
	kvs, err := it.KeyValues()
	c17Must(fx.t, err)
	for _, kv := range kvs {
		p.evm = append(p.evm, fmt.Sprintf("(%s, %s)", cstr(n.op(kv.Key)), c17Hex(kv.Value.EVMAddress)))
	}
	it2, err := k.BridgeValsetSignaturesMap.Iterate(ctx, nil)
	c17Must(fx.t, err)
	kvs2, err := it2.KeyValues()
	c17Must(fx.t, err)
	for _, kv := range kvs2 {
		p.vsigs = append(p.vsigs, fmt.Sprintf("(%s, %s)", czu(kv.Key), c17HexList(kv.Value.Signatures)))
	}
	it3, err := k.SnapshotToAttestationsMap.Iterate(ctx, nil)
	c17Must(fx.t, err)
	kvs3, err := it3.KeyValues()
	c17Must(fx.t, err)
	for _, kv := range kvs3 {
		p.atts = append(p.atts, fmt.Sprintf("(%s, %s)", c17Hex(kv.Key), c17HexList(kv.Value.Attestations)))
	}
	// everything else in the bridge store and the whole staking store
	hsh := sha256.New()
	for _, name := range []string{bridgetypes.StoreKey, stakingtypes.StoreKey} {
		key := fx.s.App.UnsafeFindStoreKey(name)
		if key == nil {
			fx.t.Fatal("store key " + name)
		}
		sit := ctx.KVStore(key).Iterator(nil, nil)
		for ; sit.Valid(); sit.Next() {
			kb := sit.Key()
			if name == bridgetypes.StoreKey && len(kb) > 0 && (kb[0] == 3 || kb[0] == 4 || kb[0] == 13) {
				continue
			}
			var l [8]byte
			binary.BigEndian.PutUint32(l[:4], uint32(len(kb)))
			binary.BigEndian.PutUint32(l[4:], uint32(len(sit.Value())))
			hsh.Write(l[:])
			hsh.Write(kb)
			hsh.Write(sit.Value())
		}
		sit.Close()
	}
	p.other = hex.EncodeToString(hsh.Sum(nil))
	return p
}

func (p c17Post) coq() string {
	return fmt.Sprintf("{| q_evm := %s; q_vsigs := %s; q_atts := %s |}", clist(p.evm), clist(p.vsigs), clist(p.atts))
}

// full pre-state term, read back from the store
func (fx *c17Fix) stateTerm(ctx sdk.Context, n *c17Names, g c17Ghost) string {
	k := fx.s.Bridgekeeper
	p := fx.project(ctx, n)
	var tsidx, idxts, valsets, snapvs []string
	it, err := k.ValsetTimestampToIdxMap.Iterate(ctx, nil)
	c17Must(fx.t, err)
	kvs, _ := it.KeyValues()
	for _, kv := range kvs {
		tsidx = append(tsidx, fmt.Sprintf("(%s, %s)", czu(kv.Key), czu(kv.Value.Index)))
	}
	it2, err := k.ValidatorCheckpointIdxMap.Iterate(ctx, nil)
	c17Must(fx.t, err)
	kvs2, _ := it2.KeyValues()
	for _, kv := range kvs2 {
		idxts = append(idxts, fmt.Sprintf("(%s, %s)", czu(kv.Key), czu(kv.Value.Timestamp)))
	}
	vsAddrs := func(vs bridgetypes.BridgeValidatorSet) string {
		var l [][]byte
		for _, v := range vs.BridgeValidatorSet {
			l = append(l, v.EthereumAddress)
		}
		return c17HexList(l)
	}
	it3, err := k.BridgeValsetByTimestampMap.Iterate(ctx, nil)
	c17Must(fx.t, err)
	kvs3, _ := it3.KeyValues()
	for _, kv := range kvs3 {
		valsets = append(valsets, fmt.Sprintf("(%s, %s)", czu(kv.Key), vsAddrs(kv.Value)))
	}
	cur := "None"
	if c, err := k.BridgeValset.Get(ctx); err == nil {
		cur = "(Some " + vsAddrs(c) + ")"
	}
	for _, s := range g.snaps {
		snapvs = append(snapvs, fmt.Sprintf("(%s, %s)", c17Hex(s.key), c17HexList(s.valset)))
	}
	return fmt.Sprintf("{| s_evm := %s; s_vsigs := %s; s_tsidx := %s; s_idxts := %s; s_valsets := %s; s_cur := %s; s_atts := %s; s_snapvs := %s |}",
		clist(p.evm), clist(p.vsigs), clist(tsidx), clist(idxts), clist(valsets), cur, clist(p.atts), clist(snapvs))
}

// ---- running the handlers ----------------------------------------------------------------------------
type c17Run struct {
	verdict string // ACCEPT REJECT PANIC
	pre     string // Coq term of type option pre_out
	other   bool
	panics  []string
}

func (fx *c17Fix) process(ctx sdk.Context, txs [][]byte) (verdict string, pmsg string) {
	return fx.processWith(fx.ph, ctx, txs)
}

func (fx *c17Fix) processWith(ph *app.ProposalHandler, ctx sdk.Context, txs [][]byte) (verdict string, pmsg string) {
	verdict = "PANIC"
	func() {
		defer func() {
			if r := recover(); r != nil {
				pmsg = fmt.Sprint(r)
			}
		}()
		resp, err := ph.ProcessProposalHandler(ctx, &abci.RequestProcessProposal{Height: fx.height, Txs: txs})
		if err != nil || resp == nil {
			verdict = "REJECT"
			return
		}
		if resp.Status == abci.ResponseProcessProposal_ACCEPT {
			verdict = "ACCEPT"
		} else {
			verdict = "REJECT"
		}
	}()
	return
}

// PreBlocker on a copy of the state; returns the Coq term of type pre_out, whether the rest of the stores is unchanged
func (fx *c17Fix) preBlock(ctx sdk.Context, n *c17Names, txs [][]byte, before c17Post) (string, bool, string) {
	return fx.preBlockWith(fx.ph, ctx, n, txs, before)
}

func (fx *c17Fix) preBlockWith(ph *app.ProposalHandler, ctx sdk.Context, n *c17Names, txs [][]byte, before c17Post) (string, bool, string) {
	cctx, _ := ctx.CacheContext()
	out := "QHalt"
	pmsg := ""
	other := true
	func() {
		defer func() {
			if r := recover(); r != nil {
				pmsg = fmt.Sprint(r)
			}
		}()
		_, err := ph.PreBlocker(cctx, &abci.RequestFinalizeBlock{Height: fx.height, Txs: txs})
		if err != nil {
			out = "QErr"
			return
		}
		after := fx.project(cctx, n)
		other = after.other == before.other
		out = "(QOk " + after.coq() + ")"
	}()
	return out, other, pmsg
}

func c17Mutant(prop, verdict, pre string, other bool) string {
	return fmt.Sprintf("{| m_prop := %s; m_verdict := %s; m_pre := %s; m_other := %s |}", prop, verdict, pre, cbool(other))
}

// proposal term of injected tx bytes as the handlers decode them; ok=false when it cannot be printed
func (fx *c17Fix) proposalTerm(ctx sdk.Context, n *c17Names, txs [][]byte, sameCommit *abci.ExtendedCommitInfo, sameTerm string) (string, bool) {
	if len(txs) == 0 {
		return "NoTx", true
	}
	var tx app.VoteExtTx
	if err := json.Unmarshal(txs[0], &tx); err != nil {
		return "BadTx", true
	}
	if !c17TxPrintable(&tx) {
		return "", false
	}
	ct := sameTerm
	if sameCommit == nil || !c17CommitEqual(*sameCommit, tx.ExtendedCommitInfo) {
		ct, _ = fx.commitTerm(ctx, n, tx.ExtendedCommitInfo)
	}
	return fmt.Sprintf("(Tx %s %s)", c17Itx(n, &tx), ct), true
}

func c17CommitEqual(a, b abci.ExtendedCommitInfo) bool {
	if a.Round != b.Round || len(a.Votes) != len(b.Votes) {
		return false
	}
	for i := range a.Votes {
		x, y := a.Votes[i], b.Votes[i]
		if !bytes.Equal(x.Validator.Address, y.Validator.Address) || x.Validator.Power != y.Validator.Power || x.BlockIdFlag != y.BlockIdFlag ||
			!bytes.Equal(x.VoteExtension, y.VoteExtension) || !bytes.Equal(x.ExtensionSignature, y.ExtensionSignature) {
			return false
		}
	}
	return true
}

// ---- generators -----------------------------------------------------------------------------------------
type c17Scn struct {
	mode    string // plain shortsig dupaddr stale rekey
	enable  int64
	round   int32
	ghost   c17Ghost
	tsList  []uint64
	snapKey [][]byte
	votes   []abci.ExtendedVoteInfo
	evmOf   map[int]int // validator -> evm key index
	big     bool        // full-size valset signatures / attestations (only VerifyVoteExtensionHandler looks at their size)
}

func c17RandBytes(r *rand.Rand, n int) []byte {
	b := make([]byte, n)
	r.Read(b)
	return b
}

// writes a generated bridge state into ctx
func (fx *c17Fix) genState(r *rand.Rand, ctx sdk.Context, sc *c17Scn, members []int) {
	k := fx.s.Bridgekeeper
	sc.evmOf = map[int]int{}
	var regAddrs [][]byte
	for _, vi := range members {
		sc.evmOf[vi] = vi % len(fx.keys)
		if r.Intn(100) < 55 {
			a := fx.keys[sc.evmOf[vi]].addr.Bytes()
			c17Must(fx.t, k.SetEVMAddressByOperator(ctx, fx.vals[vi].op, a))
			regAddrs = append(regAddrs, a)
		}
	}
	// addresses that may sit in validator sets: registered ones, the members' future ones, a foreign one
	pool := append([][]byte{}, regAddrs...)
	for _, vi := range members {
		pool = append(pool, fx.keys[sc.evmOf[vi]].addr.Bytes())
	}
	pool = append(pool, bytes.Repeat([]byte{0xEE}, 20))
	randSet := func() [][]byte {
		m := 1 + r.Intn(4)
		var vs [][]byte
		for i := 0; i < m; i++ {
			vs = append(vs, pool[r.Intn(len(pool))])
		}
		if r.Intn(3) > 0 { // mostly without repetition
			seen := map[string]bool{}
			var u [][]byte
			for _, a := range vs {
				if !seen[string(a)] {
					seen[string(a)] = true
					u = append(u, a)
				}
			}
			vs = u
		}
		return vs
	}
	nCk := r.Intn(4)
	base := pick(r, uint64(1000), uint64(1_700_000_000_000), uint64(1)<<63-2, ^uint64(0)-5)
	var sets [][][]byte
	for j := 0; j < nCk; j++ {
		ts := base + uint64(j)
		vs := randSet()
		sets = append(sets, vs)
		sc.tsList = append(sc.tsList, ts)
		if r.Intn(100) >= 4 {
			c17Must(fx.t, k.ValsetTimestampToIdxMap.Set(ctx, ts, bridgetypes.CheckpointIdx{Index: uint64(j)}))
		}
		if r.Intn(100) >= 4 {
			c17Must(fx.t, k.ValidatorCheckpointIdxMap.Set(ctx, uint64(j), bridgetypes.CheckpointTimestamp{Timestamp: ts}))
		}
		if r.Intn(100) >= 4 {
			c17Must(fx.t, k.BridgeValsetByTimestampMap.Set(ctx, ts, c17Valset(vs)))
		}
		size := len(vs)
		if j > 0 {
			size = len(sets[j-1])
		}
		if r.Intn(100) < 12 {
			size = r.Intn(size + 2) // array of another size: SetSignature must stay inside
		}
		arr := bridgetypes.NewBridgeValsetSignatures(size)
		for i := range arr.Signatures {
			if r.Intn(4) == 0 {
				arr.Signatures[i] = c17RandBytes(r, pick(r, 1, 2, 3, 65))
			}
		}
		if r.Intn(100) >= 4 {
			c17Must(fx.t, k.BridgeValsetSignaturesMap.Set(ctx, ts, *arr))
		}
	}
	var cur [][]byte
	if len(sets) > 0 && r.Intn(100) >= 5 {
		cur = sets[len(sets)-1]
	} else if r.Intn(2) == 0 {
		cur = randSet()
	}
	if cur != nil {
		c17Must(fx.t, k.BridgeValset.Set(ctx, c17Valset(cur)))
	}
	// snapshots
	nSnap := r.Intn(4)
	for j := 0; j < nSnap; j++ {
		key := c17RandBytes(r, 1+r.Intn(3))
		if j == 0 && r.Intn(10) == 0 {
			key = []byte{} // the empty key: a nil and an empty snapshot both address it
		}
		own := cur
		if sc.mode == "stale" && (j == 0 || r.Intn(2) == 0) {
			// created under another validator set than the current one
			switch {
			case len(cur) >= 2 && r.Intn(2) == 0:
				own = append([][]byte{}, cur...)
				i := r.Intn(len(own) - 1)
				own[i], own[i+1] = own[i+1], own[i] // two validators swapped their order
			case len(sets) >= 2:
				own = sets[r.Intn(len(sets)-1)]
			default:
				own = randSet()
			}
		}
		if own == nil {
			own = [][]byte{}
		}
		size := len(own)
		if r.Intn(100) < 10 {
			size = r.Intn(size + 2)
		}
		arr := bridgetypes.NewOracleAttestations(size)
		for i := range arr.Attestations {
			if r.Intn(4) == 0 {
				arr.Attestations[i] = c17RandBytes(r, pick(r, 1, 2, 3, 65))
			}
		}
		dup := false
		for _, s := range sc.ghost.snaps {
			if bytes.Equal(s.key, key) {
				dup = true
			}
		}
		if dup {
			continue
		}
		c17Must(fx.t, k.SnapshotToAttestationsMap.Set(ctx, key, *arr))
		sc.ghost.snaps = append(sc.ghost.snaps, c17Snap{key: key, valset: own})
		sc.snapKey = append(sc.snapKey, key)
	}
}

func c17JSON(v interface{}) []byte {
	b, err := json.Marshal(v)
	if err != nil {
		panic(err)
	}
	return b
}

// one vote-extension payload
func (fx *c17Fix) genExt(r *rand.Rand, sc *c17Scn, vi int, members []int) []byte {
	p := r.Intn(100)
	if p < 12 { // not a BridgeVoteExtension at all
		return pick(r, []byte("garbage"), []byte{}, nil, []byte("null"), []byte("{}"), []byte("[]"), []byte(`"x"`), []byte(`{"OracleAttestations":5}`),
			[]byte(`{"InitialSignature":{"SignatureA":"!!!"}}`), []byte(`{"ValsetSignature":{"Timestamp":-1}}`), []byte(`{"ValsetSignature":{"Timestamp":18446744073709551616}}`),
			c17RandBytes(r, 1+r.Intn(40)), []byte(`{"oracleattestations":[{"snapshot":"AQ==","ATTESTATION":"Ag=="}],"unknown":1}`), []byte(`{"InitialSignature":null,"ValsetSignature":null,"OracleAttestations":null}`))
	}
	e := app.BridgeVoteExtension{}
	key := fx.keys[sc.evmOf[vi]]
	// initial signature
	q := r.Intn(100)
	switch {
	case q < 35:
	case q < 70:
		e.InitialSignature = app.InitialSignature{SignatureA: key.sigA, SignatureB: key.sigB}
	case q < 76: // with a recovery id appended (65 bytes)
		e.InitialSignature = app.InitialSignature{SignatureA: append(append([]byte{}, key.sigA...), 0), SignatureB: append(append([]byte{}, key.sigB...), 1)}
	case q < 81: // B of another key
		e.InitialSignature = app.InitialSignature{SignatureA: key.sigA, SignatureB: fx.keys[(sc.evmOf[vi]+1)%len(fx.keys)].sigB}
	case q < 85: // A and B exchanged
		e.InitialSignature = app.InitialSignature{SignatureA: key.sigB, SignatureB: key.sigA}
	case q < 90: // 64 arbitrary bytes
		e.InitialSignature = app.InitialSignature{SignatureA: c17RandBytes(r, 64), SignatureB: c17RandBytes(r, 64)}
	case q < 94: // oversized
		e.InitialSignature = app.InitialSignature{SignatureA: append(append([]byte{}, key.sigA...), c17RandBytes(r, pick(r, 2, 36))...), SignatureB: append(append([]byte{}, key.sigB...), c17RandBytes(r, pick(r, 0, 2))...)}
	case q < 97: // empty A, B present: treated as "no initial signature"
		e.InitialSignature = app.InitialSignature{SignatureA: []byte{}, SignatureB: key.sigB}
	default:
		e.InitialSignature = app.InitialSignature{SignatureA: key.sigA, SignatureB: key.sigB}
	}
	if sc.mode == "shortsig" && r.Intn(2) == 0 {
		switch r.Intn(4) {
		case 0:
			e.InitialSignature = app.InitialSignature{SignatureA: c17RandBytes(r, pick(r, 1, 32, 62, 63))}
		case 1:
			e.InitialSignature = app.InitialSignature{SignatureA: key.sigA[:63], SignatureB: key.sigB}
		case 2:
			e.InitialSignature = app.InitialSignature{SignatureA: key.sigA} // B missing
		default:
			e.InitialSignature = app.InitialSignature{SignatureA: key.sigA, SignatureB: key.sigB[:pick(r, 0, 1, 63)]}
		}
	}
	if sc.mode == "dupaddr" && r.Intn(2) == 0 { // replays the constant-message signatures of another validator
		other := fx.keys[sc.evmOf[members[r.Intn(len(members))]]]
		e.InitialSignature = app.InitialSignature{SignatureA: other.sigA, SignatureB: other.sigB}
	}
	// valset signature
	if r.Intn(100) < 60 {
		var ts uint64
		switch t := r.Intn(10); {
		case t < 7 && len(sc.tsList) > 0:
			ts = sc.tsList[r.Intn(len(sc.tsList))]
		case t < 8:
			ts = pick(r, uint64(0), uint64(1)<<63, ^uint64(0), uint64(1)<<63-1)
		default:
			ts = uint64(r.Intn(5000))
		}
		e.ValsetSignature = app.BridgeValsetSignature{Signature: c17RandBytes(r, pick(r, 0, 1, 64, 65, 65, 65, 66, 200)), Timestamp: ts}
		if !sc.big && r.Intn(8) > 0 {
			e.ValsetSignature.Signature = c17RandBytes(r, pick(r, 0, 1, 2, 3, 3, 4))
		}
		if r.Intn(12) == 0 {
			e.ValsetSignature.Signature = nil
		}
	}
	// attestations
	if r.Intn(100) < 60 {
		na := pick(r, 0, 1, 1, 2, 3)
		if na == 0 && r.Intn(2) == 0 {
			e.OracleAttestations = []app.OracleAttestation{}
		}
		for i := 0; i < na; i++ {
			var snap []byte
			switch t := r.Intn(10); {
			case t < 7 && len(sc.snapKey) > 0:
				snap = sc.snapKey[r.Intn(len(sc.snapKey))]
			case t < 8:
				snap = pick(r, []byte(nil), []byte{})
			default:
				snap = c17RandBytes(r, 1+r.Intn(3)) // unknown snapshot
			}
			if i > 0 && r.Intn(4) == 0 {
				snap = e.OracleAttestations[i-1].Snapshot // duplicated snapshot
			}
			var at []byte
			switch r.Intn(8) {
			case 0:
				at = nil
			case 1:
				at = []byte{}
			case 2:
				at = c17RandBytes(r, 200)
			default:
				at = c17RandBytes(r, 65)
				if !sc.big && r.Intn(8) > 0 {
					at = c17RandBytes(r, 1+r.Intn(3))
				}
			}
			e.OracleAttestations = append(e.OracleAttestations, app.OracleAttestation{Snapshot: snap, Attestation: at})
		}
	}
	b := c17JSON(e)
	if p < 16 && len(b) > 2 { // truncated
		return b[:1+r.Intn(len(b)-1)]
	}
	return b
}

func c17SortVotes(vs []abci.ExtendedVoteInfo) {
	sort.SliceStable(vs, func(i, j int) bool {
		if vs[i].Validator.Power != vs[j].Validator.Power {
			return vs[i].Validator.Power > vs[j].Validator.Power
		}
		return bytes.Compare(vs[i].Validator.Address, vs[j].Validator.Address) < 0
	})
}

func (fx *c17Fix) genCommit(r *rand.Rand, sc *c17Scn, members []int) {
	for _, vi := range members {
		v := fx.vals[vi]
		flag := cmtproto.BlockIDFlagCommit
		if q := r.Intn(100); q < 10 {
			flag = cmtproto.BlockIDFlagAbsent
		} else if q < 18 {
			flag = cmtproto.BlockIDFlagNil
		} else if q < 19 {
			flag = cmtproto.BlockIDFlagUnknown
		}
		vote := abci.ExtendedVoteInfo{Validator: abci.Validator{Address: v.cons, Power: int64(pick(r, 1, 1, 2, 3, 5, 10))}, BlockIdFlag: flag}
		if flag == cmtproto.BlockIDFlagCommit || r.Intn(3) == 0 { // non-commit votes sometimes carry (ignored) data
			vote.VoteExtension = fx.genExt(r, sc, vi, members)
			vote.ExtensionSignature = fx.signExt(v, vote.VoteExtension, sc.round)
		}
		if q := r.Intn(100); q < 2 && len(vote.ExtensionSignature) > 0 {
			vote.ExtensionSignature[3] ^= 1
		} else if q < 3 {
			vote.ExtensionSignature = nil
		} else if q < 5 { // a consensus address the staking module does not know
			vote.Validator.Address = c17RandBytes(r, 20)
		}
		sc.votes = append(sc.votes, vote)
	}
	c17SortVotes(sc.votes)
	if r.Intn(100) < 3 && len(sc.votes) > 1 {
		sc.votes[0], sc.votes[1] = sc.votes[1], sc.votes[0]
	}
}

// ---- mutations of the injected tx ---------------------------------------------------------------------
type c17Mut struct {
	name string
	txs  [][]byte
}

func c17MutStr(r *rand.Rand, l *[]string, op int, alt func(string) string) bool {
	s := *l
	switch op {
	case 0: // nil <-> empty
		if len(s) > 0 {
			return false
		}
		if s == nil {
			*l = []string{}
		} else {
			*l = nil
		}
	case 1:
		if len(s) == 0 {
			return false
		}
		*l = append([]string{}, s[:len(s)-1]...)
		if len(*l) == 0 && r.Intn(2) == 0 {
			*l = nil
		}
	case 2:
		if len(s) == 0 {
			return false
		}
		*l = append([]string{}, s[1:]...)
	case 3:
		if len(s) == 0 {
			return false
		}
		*l = append(append([]string{}, s...), s[r.Intn(len(s))])
	case 4:
		if len(s) == 0 {
			return false
		}
		n := append([]string{}, s...)
		i := r.Intn(len(n))
		n[i] = alt(n[i])
		*l = n
	case 5:
		if len(s) < 2 || s[0] == s[len(s)-1] {
			return false
		}
		n := append([]string{}, s...)
		n[0], n[len(n)-1] = n[len(n)-1], n[0]
		*l = n
	default:
		*l = append(append([]string{}, s...), alt("x"))
	}
	return true
}

func c17MutBytes(r *rand.Rand, l *[][]byte, op int) bool {
	s := *l
	switch op {
	case 0:
		if len(s) > 0 {
			return false
		}
		if s == nil {
			*l = [][]byte{}
		} else {
			*l = nil
		}
	case 1:
		if len(s) == 0 {
			return false
		}
		*l = append([][]byte{}, s[:len(s)-1]...)
	case 2:
		if len(s) == 0 {
			return false
		}
		*l = append([][]byte{}, s[1:]...)
	case 3:
		if len(s) == 0 {
			return false
		}
		*l = append(append([][]byte{}, s...), s[r.Intn(len(s))])
	case 4:
		if len(s) == 0 {
			return false
		}
		n := append([][]byte{}, s...)
		i := r.Intn(len(n))
		switch {
		case n[i] == nil:
			n[i] = []byte{}
		case len(n[i]) == 0:
			n[i] = nil
		default:
			b := append([]byte{}, n[i]...)
			b[r.Intn(len(b))] ^= 1 << uint(r.Intn(8))
			n[i] = b
		}
		*l = n
	case 5:
		if len(s) < 2 || bytes.Equal(s[0], s[len(s)-1]) {
			return false
		}
		n := append([][]byte{}, s...)
		n[0], n[len(n)-1] = n[len(n)-1], n[0]
		*l = n
	default:
		*l = append(append([][]byte{}, s...), []byte{7})
	}
	return true
}

func c17FlipChar(s string) string {
	if s == "" {
		return "0"
	}
	b := []byte(s)
	i := len(b) - 1
	if b[i] == 'a' {
		b[i] = 'b'
	} else {
		b[i] = 'a'
	}
	return string(b)
}

// one single-field mutation of the decoded injected tx; ok=false when it does not apply
func (fx *c17Fix) mutate(r *rand.Rand, orig []byte, sc *c17Scn) (c17Mut, bool) {
	var tx app.VoteExtTx
	if err := json.Unmarshal(orig, &tx); err != nil {
		return c17Mut{}, false
	}
	if r.Intn(12) == 0 {
		// the exactly correct injected tx followed by more bytes: not one JSON value any more
		tail := pick(r, "{}", "}", "0", " x", "\n{}", "null", "[]")
		return c17Mut{name: "trailing-bytes", txs: [][]byte{append(append([]byte{}, orig...), []byte(tail)...), []byte("othertx")}}, true
	}
	field := r.Intn(11)
	op := r.Intn(7)
	name := fmt.Sprintf("f%d-op%d", field, op)
	ok := false
	otherOp := func(string) string { return fx.vals[r.Intn(len(fx.vals))].op }
	switch field {
	case 0:
		ok = c17MutStr(r, &tx.OpAndEVMAddrs.OperatorAddresses, op, otherOp)
	case 1:
		ok = c17MutStr(r, &tx.OpAndEVMAddrs.EVMAddresses, op, func(string) string { return fx.keys[r.Intn(len(fx.keys))].addr.Hex() })
	case 2:
		ok = c17MutStr(r, &tx.ValsetSigs.OperatorAddresses, op, otherOp)
	case 3:
		s := tx.ValsetSigs.Timestamps
		switch op {
		case 0:
			if len(s) == 0 {
				if s == nil {
					tx.ValsetSigs.Timestamps = []int64{}
				} else {
					tx.ValsetSigs.Timestamps = nil
				}
				ok = true
			}
		case 1, 2:
			if len(s) > 0 {
				tx.ValsetSigs.Timestamps = append([]int64{}, s[:len(s)-1]...)
				ok = true
			}
		case 3, 5:
			if len(s) > 0 {
				tx.ValsetSigs.Timestamps = append(append([]int64{}, s...), s[0])
				ok = true
			}
		default:
			if len(s) > 0 {
				n := append([]int64{}, s...)
				i := r.Intn(len(n))
				n[i] += pick(r, int64(1), int64(-1))
				tx.ValsetSigs.Timestamps = n
				ok = true
			}
		}
	case 4:
		ok = c17MutStr(r, &tx.ValsetSigs.Signatures, op, c17FlipChar)
	case 5:
		ok = c17MutStr(r, &tx.OracleAttestations.OperatorAddresses, op, otherOp)
	case 6:
		ok = c17MutBytes(r, &tx.OracleAttestations.Attestations, op)
	case 7:
		ok = c17MutBytes(r, &tx.OracleAttestations.Snapshots, op)
	case 8: // not bridge data: the handlers never read it
		tx.BlockHeight += int64(1 + r.Intn(3))
		name = "block-height"
		ok = true
	default: // the embedded extended commit
		vs := append([]abci.ExtendedVoteInfo{}, tx.ExtendedCommitInfo.Votes...)
		if len(vs) == 0 {
			return c17Mut{}, false
		}
		i := r.Intn(len(vs))
		switch op {
		case 0: // a commit vote presented as absent / nil: its data must disappear from the lists
			if vs[i].BlockIdFlag != cmtproto.BlockIDFlagCommit {
				return c17Mut{}, false
			}
			vs[i].BlockIdFlag = pick(r, cmtproto.BlockIDFlagAbsent, cmtproto.BlockIDFlagNil)
			name = "commit-flag-down"
		case 1:
			if vs[i].BlockIdFlag == cmtproto.BlockIDFlagCommit {
				return c17Mut{}, false
			}
			vs[i].BlockIdFlag = cmtproto.BlockIDFlagCommit
			name = "commit-flag-up"
		case 2:
			if len(vs[i].VoteExtension) == 0 {
				return c17Mut{}, false
			}
			b := append([]byte{}, vs[i].VoteExtension...)
			b[r.Intn(len(b))] ^= 1
			vs[i].VoteExtension = b
			name = "commit-ext-byte"
		case 3: // another validator's (validly signed) extension under this validator's name
			j := r.Intn(len(vs))
			if j == i || len(vs[j].VoteExtension) == 0 {
				return c17Mut{}, false
			}
			vs[i].VoteExtension, vs[i].ExtensionSignature = vs[j].VoteExtension, vs[j].ExtensionSignature
			name = "commit-ext-foreign"
		case 4:
			vs = append(vs[:i:i], vs[i+1:]...)
			name = "commit-drop-vote"
		case 5:
			tx.ExtendedCommitInfo.Round++
			name = "commit-round"
		default: // the proposer re-signs nothing: replaces the extension by an empty one
			vs[i].VoteExtension = c17JSON(app.BridgeVoteExtension{})
			name = "commit-ext-replaced"
		}
		tx.ExtendedCommitInfo.Votes = vs
		ok = true
	}
	if !ok {
		return c17Mut{}, false
	}
	b := c17JSON(tx)
	if bytes.Equal(b, orig) {
		return c17Mut{}, false
	}
	return c17Mut{name: name, txs: [][]byte{b, []byte("othertx")}}, true
}

// ---- driver 1: the pipeline ------------------------------------------------------------------------------
func (fx *c17Fix) scenario(r *rand.Rand, out *Out, mode string, tags []string, hand func(sc *c17Scn, ctx sdk.Context, members []int)) {
	base, _ := fx.ctx.CacheContext()
	sc := &c17Scn{mode: mode, enable: 1, round: int32(pick(r, 0, 0, 0, 1, 2))}
	if q := r.Intn(100); q < 3 {
		sc.enable = fx.height // not enabled yet at this height
	} else if q < 6 {
		sc.enable = fx.height - 1 // the first height with extensions
	}
	nm := 1 + r.Intn(5)
	members := r.Perm(c17NVals)[:nm]
	if hand != nil {
		hand(sc, base, members)
	} else {
		fx.genState(r, base, sc, members)
		if mode == "rekey" {
			// the consensus key of one member is held by another operator now (or by none); the shared
			// handler instance fx.ph has resolved that key in earlier scenarios
			vi := members[r.Intn(len(members))]
			if r.Intn(5) == 0 {
				fx.sk.set(fx.vals[vi].cons, "")
			} else {
				fx.sk.set(fx.vals[vi].cons, c17FreshOp(fmt.Sprint(r.Intn(3))))
				sc.evmOf[vi] = 6 + r.Intn(2) // the new operator's own EVM key
			}
			defer fx.sk.reset()
		}
		fx.genCommit(r, sc, members)
	}
	n := c17NewNames(fx)
	hctx := fx.handlerCtx(base, sc.enable, sc.round, sc.votes)
	en := fx.height > sc.enable
	before := fx.project(hctx, n)
	stTerm := fx.stateTerm(hctx, n, sc.ghost)
	ec := abci.ExtendedCommitInfo{Round: sc.round, Votes: sc.votes}
	cmTerm, valid := fx.commitTerm(hctx, n, ec)

	// PrepareProposalHandler
	reqTxs := [][]byte{[]byte("othertx")}
	prep := "PPanic"
	var txs [][]byte
	pmsgs := []string{}
	func() {
		defer func() {
			if rec := recover(); rec != nil {
				pmsgs = append(pmsgs, "prepare: "+fmt.Sprint(rec))
			}
		}()
		resp, err := fx.ph.PrepareProposalHandler(hctx, &abci.RequestPrepareProposal{Height: fx.height, LocalLastCommit: ec, Txs: reqTxs})
		if err != nil {
			fx.t.Fatalf("prepare error: %v", err)
		}
		txs = resp.Txs
	}()
	mainTerm := "None"
	var muts []string
	kind := "prepare-panic"
	injected := 0
	accepted := 0
	if txs != nil {
		if len(txs) == len(reqTxs) {
			prep = "PNone"
			kind = "disabled"
			txs = append([][]byte{c17JSON(app.VoteExtTx{BlockHeight: fx.height, ExtendedCommitInfo: ec})}, txs...) // what a proposer of the enabled era would send
		} else {
			var tx app.VoteExtTx
			if err := json.Unmarshal(txs[0], &tx); err != nil {
				fx.t.Fatalf("prepared tx does not decode: %v", err)
			}
			if !c17CommitEqual(tx.ExtendedCommitInfo, ec) {
				fx.t.Fatalf("embedded commit differs from the local commit after the JSON round trip")
			}
			prep = "(PInj " + c17Itx(n, &tx) + ")"
			injected = len(tx.OpAndEVMAddrs.OperatorAddresses) + len(tx.ValsetSigs.OperatorAddresses) + len(tx.OracleAttestations.OperatorAddresses)
			kind = "valid"
			if !valid {
				kind = "invalid-commit"
			}
		}
		runOne := func(name string, mtxs [][]byte, sameCommit bool) (string, bool) {
			var scm *abci.ExtendedCommitInfo
			if sameCommit {
				scm = &ec
			}
			prop, ok := fx.proposalTerm(hctx, n, mtxs, scm, cmTerm)
			if !ok {
				return "", false
			}
			verdict, pm := fx.process(hctx, mtxs)
			if pm != "" {
				pmsgs = append(pmsgs, name+" process: "+pm)
			}
			pre := "None"
			other := true
			if verdict == "ACCEPT" {
				o, oth, pm2 := fx.preBlock(hctx, n, mtxs, before)
				if pm2 != "" {
					pmsgs = append(pmsgs, name+" preblock: "+pm2)
				}
				pre = "(Some " + o + ")"
				other = oth
				accepted++
			}
			return c17Mutant(prop, verdict, pre, other), true
		}
		if m, ok := runOne("main", txs, true); ok {
			mainTerm = "(Some " + m + ")"
		}
		if prep != "PNone" {
			nMut := 10
			for tries := 0; len(muts) < nMut && tries < 60; tries++ {
				mu, ok := fx.mutate(r, txs[0], sc)
				if !ok {
					continue
				}
				if m, ok := runOne(mu.name, mu.txs, false); ok {
					muts = append(muts, m)
				}
			}
		}
	}
	// the address table is filled while the other terms are printed, so it is complete here
	coq := fmt.Sprintf("CPipe %s %s %s %s %s %s %s", cbool(en), clist(n.tbl), stTerm, cmTerm, prep, mainTerm, clist(muts))
	sum := sha256.Sum256([]byte(coq))
	out.Emit(Case{Coq: coq, Kind: mode + ":" + kind, Nontrivial: valid && en && injected > 0 && len(muts) > 0, Key: hex.EncodeToString(sum[:8]), Tags: tags,
		Human: map[string]interface{}{"mode": mode, "votes": len(sc.votes), "valid": valid, "injected": injected, "mutants": len(muts), "accepted": accepted, "panics": pmsgs}})
}

func TestC17Pipeline(t *testing.T) {
	out := newOut(t, "TestC17Pipeline")
	defer out.Close()
	r := rand.New(rand.NewSource(seed()))
	fx := c17NewFix(t)
	c17Corpus(fx, r, out)
	n := count(260, 6000)
	for i := 0; i < n; i++ {
		mode := "plain"
		switch q := r.Intn(100); {
		case q < 8:
			mode = "shortsig"
		case q < 16:
			mode = "dupaddr"
		case q < 30:
			mode = "stale"
		case q < 36:
			mode = "rekey"
		}
		fx.scenario(r, out, mode, nil, nil)
	}
}

// hand-written witnesses first
func c17Corpus(fx *c17Fix, r *rand.Rand, out *Out) {
	k := fx.s.Bridgekeeper
	commitVote := func(sc *c17Scn, vi int, power int64, e app.BridgeVoteExtension) {
		ext := c17JSON(e)
		sc.votes = append(sc.votes, abci.ExtendedVoteInfo{Validator: abci.Validator{Address: fx.vals[vi].cons, Power: power}, BlockIdFlag: cmtproto.BlockIDFlagCommit,
			VoteExtension: ext, ExtensionSignature: fx.signExt(fx.vals[vi], ext, sc.round)})
	}
	fixed := func(sc *c17Scn) { sc.enable = 1; sc.round = 0 }
	// registration of one validator, nothing else
	fx.scenario(r, out, "plain", []string{"corpus"}, func(sc *c17Scn, ctx sdk.Context, _ []int) {
		fixed(sc)
		commitVote(sc, 0, 10, app.BridgeVoteExtension{InitialSignature: app.InitialSignature{SignatureA: fx.keys[0].sigA, SignatureB: fx.keys[0].sigB}})
		commitVote(sc, 1, 9, app.BridgeVoteExtension{})
		c17SortVotes(sc.votes)
	})
	// F41: a validly signed vote extension with a one-byte SignatureA / without SignatureB
	for _, is := range []app.InitialSignature{{SignatureA: []byte{1}}, {SignatureA: fx.keys[1].sigA}, {SignatureA: fx.keys[1].sigA[:63], SignatureB: fx.keys[1].sigB}} {
		is := is
		fx.scenario(r, out, "shortsig", []string{"corpus", "corpus:F41"}, func(sc *c17Scn, ctx sdk.Context, _ []int) {
			fixed(sc)
			commitVote(sc, 0, 10, app.BridgeVoteExtension{})
			commitVote(sc, 1, 9, app.BridgeVoteExtension{InitialSignature: is})
			commitVote(sc, 2, 8, app.BridgeVoteExtension{})
			c17SortVotes(sc.votes)
		})
	}
	// F28: validator 1 replays validator 0's constant-message signatures
	fx.scenario(r, out, "dupaddr", []string{"corpus", "corpus:F28"}, func(sc *c17Scn, ctx sdk.Context, _ []int) {
		fixed(sc)
		is := app.InitialSignature{SignatureA: fx.keys[0].sigA, SignatureB: fx.keys[0].sigB}
		commitVote(sc, 0, 10, app.BridgeVoteExtension{InitialSignature: is})
		commitVote(sc, 1, 9, app.BridgeVoteExtension{InitialSignature: is})
		c17SortVotes(sc.votes)
	})
	// F42: the snapshot was created under [e0,e1]; the current set is [e1,e0]; validator 0 attests
	fx.scenario(r, out, "stale", []string{"corpus", "corpus:F42"}, func(sc *c17Scn, ctx sdk.Context, _ []int) {
		fixed(sc)
		e0, e1 := fx.keys[0].addr.Bytes(), fx.keys[1].addr.Bytes()
		c17Must(fx.t, k.SetEVMAddressByOperator(ctx, fx.vals[0].op, e0))
		c17Must(fx.t, k.SetEVMAddressByOperator(ctx, fx.vals[1].op, e1))
		c17Must(fx.t, k.BridgeValset.Set(ctx, c17Valset([][]byte{e1, e0})))
		snap := []byte{0x51}
		arr := bridgetypes.NewOracleAttestations(2)
		arr.Attestations[1] = bytes.Repeat([]byte{0xB1}, 65) // validator 1 attested already (its slot under the snapshot's set)
		c17Must(fx.t, k.SnapshotToAttestationsMap.Set(ctx, snap, *arr))
		sc.ghost.snaps = []c17Snap{{key: snap, valset: [][]byte{e0, e1}}}
		commitVote(sc, 0, 10, app.BridgeVoteExtension{OracleAttestations: []app.OracleAttestation{{Snapshot: snap, Attestation: bytes.Repeat([]byte{0xA0}, 65)}}})
		commitVote(sc, 1, 9, app.BridgeVoteExtension{})
		c17SortVotes(sc.votes)
	})
	// everything at once, consistent state: registration, valset signature into the previous set's slot, attestation
	fx.scenario(r, out, "plain", []string{"corpus"}, func(sc *c17Scn, ctx sdk.Context, _ []int) {
		fixed(sc)
		e0, e1, e2 := fx.keys[0].addr.Bytes(), fx.keys[1].addr.Bytes(), fx.keys[2].addr.Bytes()
		c17Must(fx.t, k.SetEVMAddressByOperator(ctx, fx.vals[0].op, e0))
		c17Must(fx.t, k.SetEVMAddressByOperator(ctx, fx.vals[1].op, e1))
		for j, ts := range []uint64{1000, 2000} {
			c17Must(fx.t, k.ValsetTimestampToIdxMap.Set(ctx, ts, bridgetypes.CheckpointIdx{Index: uint64(j)}))
			c17Must(fx.t, k.ValidatorCheckpointIdxMap.Set(ctx, uint64(j), bridgetypes.CheckpointTimestamp{Timestamp: ts}))
		}
		c17Must(fx.t, k.BridgeValsetByTimestampMap.Set(ctx, 1000, c17Valset([][]byte{e0, e1})))
		c17Must(fx.t, k.BridgeValsetByTimestampMap.Set(ctx, 2000, c17Valset([][]byte{e1, e0, e2})))
		c17Must(fx.t, k.BridgeValsetSignaturesMap.Set(ctx, 1000, *bridgetypes.NewBridgeValsetSignatures(2)))
		c17Must(fx.t, k.BridgeValsetSignaturesMap.Set(ctx, 2000, *bridgetypes.NewBridgeValsetSignatures(2)))
		c17Must(fx.t, k.BridgeValset.Set(ctx, c17Valset([][]byte{e1, e0, e2})))
		snap := []byte{0x52, 0x01}
		c17Must(fx.t, k.SnapshotToAttestationsMap.Set(ctx, snap, *bridgetypes.NewOracleAttestations(3)))
		sc.ghost.snaps = []c17Snap{{key: snap, valset: [][]byte{e1, e0, e2}}}
		sc.tsList = []uint64{1000, 2000}
		sc.snapKey = [][]byte{snap}
		commitVote(sc, 0, 10, app.BridgeVoteExtension{ValsetSignature: app.BridgeValsetSignature{Signature: bytes.Repeat([]byte{0xC0}, 65), Timestamp: 2000},
			OracleAttestations: []app.OracleAttestation{{Snapshot: snap, Attestation: bytes.Repeat([]byte{0xA0}, 65)}}})
		commitVote(sc, 1, 9, app.BridgeVoteExtension{ValsetSignature: app.BridgeValsetSignature{Signature: bytes.Repeat([]byte{0xC1}, 65), Timestamp: 1000}})
		commitVote(sc, 2, 8, app.BridgeVoteExtension{InitialSignature: app.InitialSignature{SignatureA: fx.keys[2].sigA, SignatureB: fx.keys[2].sigB},
			OracleAttestations: []app.OracleAttestation{{Snapshot: snap, Attestation: bytes.Repeat([]byte{0xA2}, 65)}}})
		c17SortVotes(sc.votes)
	})
}

// ---- driver 2: arbitrary injected transactions -------------------------------------------------------------
func TestC17Arbitrary(t *testing.T) {
	out := newOut(t, "TestC17Arbitrary")
	defer out.Close()
	r := rand.New(rand.NewSource(seed() + 17))
	fx := c17NewFix(t)
	emit := func(kind string, tags []string, enable int64, txs [][]byte, setupState func(ctx sdk.Context, sc *c17Scn)) {
		base, _ := fx.ctx.CacheContext()
		sc := &c17Scn{mode: "plain"}
		if setupState != nil {
			setupState(base, sc)
		}
		n := c17NewNames(fx)
		hctx := fx.handlerCtx(base, enable, 0, nil)
		before := fx.project(hctx, n)
		st := fx.stateTerm(hctx, n, sc.ghost)
		prop, ok := fx.proposalTerm(hctx, n, txs, nil, "")
		if !ok {
			return
		}
		verdict, pm := fx.process(hctx, txs)
		pre, other, pm2 := fx.preBlock(hctx, n, txs, before)
		coq := fmt.Sprintf("CArb %s %s %s %s", cbool(fx.height > enable), clist(n.tbl), st, c17Mutant(prop, verdict, "(Some "+pre+")", other))
		sum := sha256.Sum256([]byte(coq))
		k := kind + ":" + verdict + ":" + strings.SplitN(strings.Trim(pre, "("), " ", 2)[0]
		out.Emit(Case{Coq: coq, Kind: k, Nontrivial: strings.HasPrefix(prop, "(Tx"), Key: hex.EncodeToString(sum[:8]), Tags: tags,
			Human: map[string]interface{}{"tx": c17Clip(txs), "process_panic": pm, "preblock_panic": pm2, "verdict": verdict}})
	}
	// corpus: F27 witnesses
	emit("corpus", []string{"corpus", "corpus:F27"}, 1, [][]byte{}, nil)
	emit("corpus", []string{"corpus", "corpus:F27"}, 1, [][]byte{[]byte(`{"valset_sigs":{"operator_addresses":["x"]}}`)}, nil)
	emit("corpus", []string{"corpus", "corpus:F27"}, 1, [][]byte{[]byte(`{"op_and_evm_addrs":{"operator_addresses":["x","y"],"evm_addresses":["0x01"]}}`)}, nil)
	emit("corpus", []string{"corpus", "corpus:F27"}, 1, [][]byte{[]byte(`{"oracle_attestations":{"operator_addresses":["x"],"attestations":["AQ=="]}}`)}, nil)
	emit("corpus", []string{"corpus"}, 1, [][]byte{[]byte(`{}`)}, nil)
	emit("corpus", []string{"corpus"}, 1, [][]byte{[]byte(`not json`)}, nil)
	emit("corpus", []string{"corpus"}, fx.height, [][]byte{[]byte(`not json`)}, nil)
	emit("corpus", []string{"corpus"}, fx.height, [][]byte{}, nil)
	emit("corpus", []string{"corpus"}, 1, [][]byte{[]byte(`{"op_and_evm_addrs":{"operator_addresses":["x"],"evm_addresses":["0x01","zz"]}}`)}, nil)

	n := count(500, 12000)
	for i := 0; i < n; i++ {
		members := r.Perm(c17NVals)[:1+r.Intn(4)]
		// the state is generated twice from the same sub-seed: once to know its timestamps and snapshots
		// for the tx, once inside emit
		rsSeed := r.Int63()
		probe, _ := fx.ctx.CacheContext()
		scp := &c17Scn{mode: "plain"}
		fx.genState(rand.New(rand.NewSource(rsSeed)), probe, scp, members)
		st := func(ctx sdk.Context, sc *c17Scn) { fx.genState(rand.New(rand.NewSource(rsSeed)), ctx, sc, members) }
		tx := app.VoteExtTx{BlockHeight: fx.height}
		strs := func(max int, f func() string) []string {
			switch r.Intn(6) {
			case 0:
				return nil
			case 1:
				return []string{}
			}
			l := make([]string, 1+r.Intn(max))
			for i := range l {
				l[i] = f()
			}
			return l
		}
		opf := func() string {
			if r.Intn(8) == 0 {
				return pick(r, "", "x", "tellorvaloper1zzz")
			}
			return fx.vals[members[r.Intn(len(members))]].op
		}
		tx.OpAndEVMAddrs.OperatorAddresses = strs(3, opf)
		tx.OpAndEVMAddrs.EVMAddresses = strs(3, func() string {
			return pick(r, fx.keys[r.Intn(len(fx.keys))].addr.Hex(), "0x01", "", "zz", strings.ToLower(fx.keys[0].addr.Hex()), "0x"+strings.Repeat("ab", 25))
		})
		tx.ValsetSigs.OperatorAddresses = strs(3, opf)
		switch r.Intn(5) {
		case 0:
		case 1:
			tx.ValsetSigs.Timestamps = []int64{}
		default:
			l := make([]int64, 1+r.Intn(3))
			for i := range l {
				if len(scp.tsList) > 0 && r.Intn(4) > 0 {
					l[i] = int64(scp.tsList[r.Intn(len(scp.tsList))])
				} else {
					l[i] = pick(r, int64(0), int64(-1), int64(1000), int64(-1<<63))
				}
			}
			tx.ValsetSigs.Timestamps = l
		}
		tx.ValsetSigs.Signatures = strs(3, func() string {
			return pick(r, hex.EncodeToString(c17RandBytes(r, 65)), "", "abc", "zz", "ABCDEF", hex.EncodeToString(c17RandBytes(r, 2)))
		})
		tx.OracleAttestations.OperatorAddresses = strs(3, opf)
		bl := func() [][]byte {
			switch r.Intn(6) {
			case 0:
				return nil
			case 1:
				return [][]byte{}
			}
			l := make([][]byte, 1+r.Intn(3))
			for i := range l {
				switch q := r.Intn(6); {
				case q == 0:
					l[i] = nil
				case q == 1:
					l[i] = []byte{}
				case q < 5 && len(scp.snapKey) > 0:
					l[i] = scp.snapKey[r.Intn(len(scp.snapKey))]
				default:
					l[i] = c17RandBytes(r, 1+r.Intn(3))
				}
			}
			return l
		}
		tx.OracleAttestations.Attestations = bl()
		tx.OracleAttestations.Snapshots = bl()
		if r.Intn(3) == 0 { // aligned lists: the PreBlocker applies unaccepted data without failing
			m := len(tx.OpAndEVMAddrs.OperatorAddresses)
			for len(tx.OpAndEVMAddrs.EVMAddresses) < m {
				tx.OpAndEVMAddrs.EVMAddresses = append(tx.OpAndEVMAddrs.EVMAddresses, fx.keys[r.Intn(len(fx.keys))].addr.Hex())
			}
			if len(tx.OpAndEVMAddrs.EVMAddresses) > m {
				tx.OpAndEVMAddrs.EVMAddresses = tx.OpAndEVMAddrs.EVMAddresses[:m]
			}
			m = len(tx.ValsetSigs.OperatorAddresses)
			for len(tx.ValsetSigs.Timestamps) < m {
				tx.ValsetSigs.Timestamps = append(tx.ValsetSigs.Timestamps, 1000)
			}
			tx.ValsetSigs.Timestamps = tx.ValsetSigs.Timestamps[:m]
			for len(tx.ValsetSigs.Signatures) < m {
				tx.ValsetSigs.Signatures = append(tx.ValsetSigs.Signatures, hex.EncodeToString(c17RandBytes(r, 65)))
			}
			tx.ValsetSigs.Signatures = tx.ValsetSigs.Signatures[:m]
			m = len(tx.OracleAttestations.OperatorAddresses)
			for len(tx.OracleAttestations.Attestations) < m {
				tx.OracleAttestations.Attestations = append(tx.OracleAttestations.Attestations, c17RandBytes(r, 65))
			}
			tx.OracleAttestations.Attestations = tx.OracleAttestations.Attestations[:m]
			for len(tx.OracleAttestations.Snapshots) < m {
				tx.OracleAttestations.Snapshots = append(tx.OracleAttestations.Snapshots, []byte{1})
			}
			tx.OracleAttestations.Snapshots = tx.OracleAttestations.Snapshots[:m]
		}
		b := c17JSON(tx)
		kind := "lists"
		switch q := r.Intn(100); {
		case q < 6:
			b = b[:1+r.Intn(len(b)-1)]
			kind = "truncated"
		case q < 10:
			b = c17RandBytes(r, 1+r.Intn(30))
			kind = "random"
		case q < 13:
			b = pick(r, []byte("null"), []byte("[]"), []byte(`{"valset_sigs":5}`), []byte(`{"block_height":"x"}`), []byte(`{"extended_commit_info":{"votes":[{}]}}`))
			kind = "odd-json"
		}
		enable := int64(1)
		if r.Intn(25) == 0 {
			enable = pick(r, fx.height, fx.height-1)
		}
		txs := [][]byte{b, []byte("othertx")}
		if r.Intn(40) == 0 {
			txs = [][]byte{}
			kind = "no-tx"
		}
		emit(kind, nil, enable, txs, st)
	}
}

func c17Clip(txs [][]byte) string {
	if len(txs) == 0 {
		return "<no tx>"
	}
	s := fmt.Sprintf("%q", txs[0])
	if len(s) > 220 {
		s = s[:220] + "..."
	}
	return s
}

// ---- driver 3: VerifyVoteExtensionHandler --------------------------------------------------------------------
func TestC17Verify(t *testing.T) {
	out := newOut(t, "TestC17Verify")
	defer out.Close()
	r := rand.New(rand.NewSource(seed() + 29))
	fx := c17NewFix(t)
	k := fx.s.Bridgekeeper
	members := []int{0, 1, 2}
	run := func(tags []string, payload []byte, vi int, nreq int, regDerived bool, regOperator bool) {
		ctx, _ := fx.ctx.CacheContext()
		v := fx.vals[vi]
		derived, err := sdk.Bech32ifyAddressBytes(sdk.GetConfig().GetBech32ValidatorAddrPrefix(), v.cons)
		c17Must(t, err)
		if regDerived {
			c17Must(t, k.SetEVMAddressByOperator(ctx, derived, fx.keys[vi].addr.Bytes()))
		}
		if regOperator {
			c17Must(t, k.SetEVMAddressByOperator(ctx, v.op, fx.keys[vi].addr.Bytes()))
		}
		if nreq >= 0 {
			reqs := bridgetypes.AttestationRequests{}
			for i := 0; i < nreq; i++ {
				reqs.AddRequest(&bridgetypes.AttestationRequest{Snapshot: []byte{byte(i)}})
			}
			c17Must(t, k.AttestRequestsByHeightMap.Set(ctx, uint64(fx.height-1), reqs))
		}
		_, herr := k.GetEVMAddressByOperator(ctx, derived)
		verdict := "PANIC"
		pm := ""
		func() {
			defer func() {
				if rec := recover(); rec != nil {
					pm = fmt.Sprint(rec)
				}
			}()
			resp, err := fx.vh.VerifyVoteExtensionHandler(ctx, &abci.RequestVerifyVoteExtension{Height: fx.height, ValidatorAddress: v.cons, VoteExtension: payload})
			if err != nil || resp == nil || resp.Status != abci.ResponseVerifyVoteExtension_ACCEPT {
				verdict = "REJECT"
			} else {
				verdict = "ACCEPT"
			}
		}()
		e := c17DecodeExt(payload)
		nr := "None"
		if nreq >= 0 {
			nr = "(Some " + czi(int64(nreq)) + ")"
		}
		coq := fmt.Sprintf("CVerify %s %s %s %s", c17Ext(e), cbool(herr == nil), nr, verdict)
		sum := sha256.Sum256([]byte(coq))
		kind := "decodable"
		if e == nil {
			kind = "undecodable"
		}
		out.Emit(Case{Coq: coq, Kind: kind + ":" + verdict, Nontrivial: e != nil, Key: hex.EncodeToString(sum[:8]), Tags: tags,
			Human: map[string]interface{}{"payload": c17Clip([][]byte{payload}), "requests": nreq, "registered_under_operator": regOperator, "registered_under_derived": regDerived, "panic": pm}})
	}
	sig := func(n int) []byte { return bytes.Repeat([]byte{7}, n) }
	// boundaries of the size checks and of the count check
	for _, n := range []int{0, 1, 64, 65, 66} {
		run([]string{"corpus"}, c17JSON(app.BridgeVoteExtension{InitialSignature: app.InitialSignature{SignatureA: sig(n)}}), 0, -1, false, false)
		run([]string{"corpus"}, c17JSON(app.BridgeVoteExtension{InitialSignature: app.InitialSignature{SignatureB: sig(n)}}), 0, -1, false, false)
		run([]string{"corpus"}, c17JSON(app.BridgeVoteExtension{ValsetSignature: app.BridgeValsetSignature{Signature: sig(n)}}), 0, -1, false, false)
	}
	for _, nreq := range []int{-1, 0, 1, 2} {
		for na := 0; na <= 3; na++ {
			e := app.BridgeVoteExtension{}
			for i := 0; i < na; i++ {
				e.OracleAttestations = append(e.OracleAttestations, app.OracleAttestation{Snapshot: []byte{byte(i)}, Attestation: sig(65)})
			}
			run([]string{"corpus"}, c17JSON(e), 1, nreq, false, false)
		}
	}
	run([]string{"corpus"}, []byte("garbage"), 0, -1, false, false)
	run([]string{"corpus"}, []byte("garbage"), 0, -1, false, true) // registered under its operator address: still accepted
	run([]string{"corpus"}, []byte("garbage"), 0, -1, true, false)
	n := count(700, 20000)
	for i := 0; i < n; i++ {
		sc := &c17Scn{big: true, mode: pick(r, "plain", "plain", "shortsig"), evmOf: map[int]int{0: 0, 1: 1, 2: 2}, tsList: []uint64{1000}, snapKey: [][]byte{{0}, {1}}}
		vi := members[r.Intn(3)]
		run(nil, fx.genExt(r, sc, vi, members), vi, pick(r, -1, -1, 0, 1, 2, 3), r.Intn(6) == 0, r.Intn(3) == 0)
	}
}

// ---- driver 4: one handler instance over consecutive blocks, the staking answer changes in between ------------
// an operator address the fixture's staking module has never seen
func c17FreshOp(tag string) string {
	h := sha256.Sum256([]byte("c17-rekey-op-" + tag))
	return sdk.ValAddress(h[:20]).String()
}

type c17Inst struct {
	name string
	ph   *app.ProposalHandler
}

// One block on the state in `base` with the commit sc.votes: every instance prepares; every instance processes every
// instance's proposal and, when it accepts, runs the PreBlocker on a copy of the state.  Emits one CPeer case and
// returns the first instance's proposal when that instance accepted it (the block that is finalized).
func (fx *c17Fix) peerBlock(out *Out, sc *c17Scn, base sdk.Context, insts []c17Inst, kind string, tags []string, nontrivOp string, human map[string]interface{}) [][]byte {
	n := c17NewNames(fx)
	hctx := fx.handlerCtx(base, sc.enable, sc.round, sc.votes)
	en := fx.height > sc.enable
	before := fx.project(hctx, n)
	stTerm := fx.stateTerm(hctx, n, sc.ghost)
	ec := abci.ExtendedCommitInfo{Round: sc.round, Votes: sc.votes}
	cmTerm, valid := fx.commitTerm(hctx, n, ec)
	reqTxs := [][]byte{[]byte("othertx")}
	pmsgs := []string{}
	var preps []string
	props := make([][][]byte, len(insts))
	injected, contributes := 0, false
	for i, in := range insts {
		prep := "PPanic"
		var txs [][]byte
		func() {
			defer func() {
				if rec := recover(); rec != nil {
					pmsgs = append(pmsgs, in.name+" prepare: "+fmt.Sprint(rec))
				}
			}()
			resp, err := in.ph.PrepareProposalHandler(hctx, &abci.RequestPrepareProposal{Height: fx.height, LocalLastCommit: ec, Txs: reqTxs})
			if err != nil {
				fx.t.Fatalf("prepare error: %v", err)
			}
			txs = resp.Txs
		}()
		if txs != nil {
			if len(txs) == len(reqTxs) {
				prep = "PNone"
				txs = append([][]byte{c17JSON(app.VoteExtTx{BlockHeight: fx.height, ExtendedCommitInfo: ec})}, txs...)
			} else {
				var tx app.VoteExtTx
				if err := json.Unmarshal(txs[0], &tx); err != nil {
					fx.t.Fatalf("prepared tx does not decode: %v", err)
				}
				if !c17CommitEqual(tx.ExtendedCommitInfo, ec) {
					fx.t.Fatalf("embedded commit differs from the local commit after the JSON round trip")
				}
				prep = "(PInj " + c17Itx(n, &tx) + ")"
				if i == len(insts)-1 { // the instance without a history
					injected = len(tx.OpAndEVMAddrs.OperatorAddresses) + len(tx.ValsetSigs.OperatorAddresses) + len(tx.OracleAttestations.OperatorAddresses)
					for _, l := range [][]string{tx.OpAndEVMAddrs.OperatorAddresses, tx.ValsetSigs.OperatorAddresses, tx.OracleAttestations.OperatorAddresses} {
						for _, o := range l {
							if o == nontrivOp {
								contributes = true
							}
						}
					}
				}
			}
			props[i] = txs
		}
		preps = append(preps, prep)
	}
	var runs []string
	verdicts := map[string]string{}
	var finalized [][]byte
	for j, txs := range props {
		if txs == nil {
			continue
		}
		prop, ok := fx.proposalTerm(hctx, n, txs, &ec, cmTerm)
		if !ok {
			continue
		}
		for i, in := range insts {
			name := in.name + " on the proposal of " + insts[j].name
			verdict, pm := fx.processWith(in.ph, hctx, txs)
			if pm != "" {
				pmsgs = append(pmsgs, name+" process: "+pm)
			}
			pre := "None"
			other := true
			if verdict == "ACCEPT" {
				o, oth, pm2 := fx.preBlockWith(in.ph, hctx, n, txs, before)
				if pm2 != "" {
					pmsgs = append(pmsgs, name+" preblock: "+pm2)
				}
				pre = "(Some " + o + ")"
				other = oth
				if i == 0 && j == 0 {
					finalized = txs
				}
			}
			verdicts[name] = verdict
			runs = append(runs, c17Mutant(prop, verdict, pre, other))
		}
	}
	coq := fmt.Sprintf("CPeer %s %s %s %s %s %s", cbool(en), clist(n.tbl), stTerm, cmTerm, clist(preps), clist(runs))
	sum := sha256.Sum256([]byte(coq))
	human["votes"] = len(sc.votes)
	human["valid"] = valid
	human["injected"] = injected
	human["verdicts"] = verdicts
	human["panics"] = pmsgs
	out.Emit(Case{Coq: coq, Kind: kind, Nontrivial: valid && en && injected > 0 && contributes, Key: hex.EncodeToString(sum[:8]), Tags: tags, Human: human})
	return finalized
}

// a consistent bridge state for the members: two checkpoints, signature arrays laid out by the previous validator
// set, the current set, snapshots created under it; the EVM keys 6 and 7 (of operators that may take over a
// consensus key later) already stand in the validator sets
func (fx *c17Fix) rekeyState(r *rand.Rand, ctx sdk.Context, sc *c17Scn, members []int) {
	k := fx.s.Bridgekeeper
	sc.evmOf = map[int]int{}
	var addrs [][]byte
	for _, vi := range members {
		sc.evmOf[vi] = vi
		a := fx.keys[vi].addr.Bytes()
		if r.Intn(100) < 70 {
			c17Must(fx.t, k.SetEVMAddressByOperator(ctx, fx.vals[vi].op, a))
		}
		addrs = append(addrs, a)
	}
	addrs = append(addrs, fx.keys[6].addr.Bytes(), fx.keys[7].addr.Bytes())
	perm := func() [][]byte {
		var vs [][]byte
		for _, i := range r.Perm(len(addrs)) {
			vs = append(vs, addrs[i])
		}
		return vs[:len(vs)-r.Intn(2)]
	}
	sets := [][][]byte{perm(), perm()}
	sc.tsList = []uint64{1000, 2000}
	for j, ts := range sc.tsList {
		c17Must(fx.t, k.ValsetTimestampToIdxMap.Set(ctx, ts, bridgetypes.CheckpointIdx{Index: uint64(j)}))
		c17Must(fx.t, k.ValidatorCheckpointIdxMap.Set(ctx, uint64(j), bridgetypes.CheckpointTimestamp{Timestamp: ts}))
		c17Must(fx.t, k.BridgeValsetByTimestampMap.Set(ctx, ts, c17Valset(sets[j])))
		c17Must(fx.t, k.BridgeValsetSignaturesMap.Set(ctx, ts, *bridgetypes.NewBridgeValsetSignatures(len(sets[0]))))
	}
	cur := sets[1]
	c17Must(fx.t, k.BridgeValset.Set(ctx, c17Valset(cur)))
	nSnap := 1 + r.Intn(2)
	for j := 0; j < nSnap; j++ {
		key := []byte{0x60 + byte(j), byte(r.Intn(256))}
		c17Must(fx.t, k.SnapshotToAttestationsMap.Set(ctx, key, *bridgetypes.NewOracleAttestations(len(cur))))
		sc.ghost.snaps = append(sc.ghost.snaps, c17Snap{key: key, valset: cur})
		sc.snapKey = append(sc.snapKey, key)
	}
}

// the commit of one block: `rich` (a member index or -1) votes with registration data of its current EVM key, a
// signature for the second checkpoint and an attestation; the others as in the pipeline driver's plain mode
func (fx *c17Fix) rekeyCommit(r *rand.Rand, sc *c17Scn, members []int, rich int, full bool) {
	sc.votes = nil
	for _, vi := range members {
		v := fx.vals[vi]
		flag := cmtproto.BlockIDFlagCommit
		if q := r.Intn(100); q < 6 {
			flag = cmtproto.BlockIDFlagAbsent
		} else if q < 12 {
			flag = cmtproto.BlockIDFlagNil
		}
		vote := abci.ExtendedVoteInfo{Validator: abci.Validator{Address: v.cons, Power: int64(pick(r, 1, 2, 3, 5, 10))}}
		switch {
		case vi == rich:
			flag = cmtproto.BlockIDFlagCommit
			key := fx.keys[sc.evmOf[vi]]
			sz := 3
			if full {
				sz = 65
			}
			e := app.BridgeVoteExtension{}
			what := 1 + r.Intn(7) // at least one of: registration, checkpoint signature, attestation
			if what&1 != 0 {
				e.InitialSignature = app.InitialSignature{SignatureA: key.sigA, SignatureB: key.sigB}
			}
			if what&2 != 0 && len(sc.tsList) > 0 {
				e.ValsetSignature = app.BridgeValsetSignature{Signature: c17RandBytes(r, sz), Timestamp: sc.tsList[len(sc.tsList)-1]}
			}
			if what&4 != 0 && len(sc.snapKey) > 0 {
				e.OracleAttestations = []app.OracleAttestation{{Snapshot: sc.snapKey[r.Intn(len(sc.snapKey))], Attestation: c17RandBytes(r, sz)}}
			}
			vote.VoteExtension = c17JSON(e)
		case flag == cmtproto.BlockIDFlagCommit || r.Intn(3) == 0:
			vote.VoteExtension = fx.genExt(r, sc, vi, members)
		}
		vote.BlockIdFlag = flag
		if vote.VoteExtension != nil || flag == cmtproto.BlockIDFlagCommit {
			vote.ExtensionSignature = fx.signExt(v, vote.VoteExtension, sc.round)
		}
		sc.votes = append(sc.votes, vote)
	}
	c17SortVotes(sc.votes)
}

// One long-lived handler instance over 2-3 consecutive blocks (Prepare -> Process -> PreBlocker, the PreBlocker's
// writes are kept); between two blocks the staking module's answer for one member's consensus key changes.  In
// every block a second instance, created for that block, runs on the same state.
func (fx *c17Fix) rekeyScenario(r *rand.Rand, out *Out, tags []string, generated bool, plan []string, full bool) {
	base, _ := fx.ctx.CacheContext()
	h0 := fx.height
	fx.sk.reset()
	defer func() { fx.height = h0; fx.sk.reset() }()
	long := c17Inst{name: "the long-lived instance", ph: fx.newHandler()}
	sc := &c17Scn{mode: "rekey", enable: 1, round: int32(pick(r, 0, 0, 0, 1))}
	members := r.Perm(c17NVals)[:2+r.Intn(4)]
	if generated {
		fx.genState(r, base, sc, members)
	} else {
		fx.rekeyState(r, base, sc, members)
	}
	target := members[r.Intn(len(members))] // the validator whose consensus key changes hands
	cons := fx.vals[target].cons
	curOp := fx.vals[target].op
	nextKey := 6
	for step, change := range plan {
		kind := "rekey:first-block"
		desc := "none"
		if step > 0 {
			fx.height++
		}
		switch change {
		case "unknown": // no validator holds the key (yet / any more)
			fx.sk.set(cons, "")
			desc = fmt.Sprintf("consensus key of validator %d: operator %s -> no validator", target, curOp)
			curOp = ""
			kind = "rekey:removed"
		case "fresh": // another operator created a validator with the same consensus key
			op := c17FreshOp(fmt.Sprintf("%d-%d", target, nextKey))
			fx.sk.set(cons, op)
			sc.evmOf[target] = nextKey
			nextKey++
			desc = fmt.Sprintf("consensus key of validator %d: operator %s -> operator %s", target, curOp, op)
			curOp = op
			kind = "rekey:new-operator"
		case "back": // the first operator holds the key again
			fx.sk.unset(cons)
			sc.evmOf[target] = target % len(fx.keys)
			desc = fmt.Sprintf("consensus key of validator %d: operator %s -> operator %s", target, curOp, fx.vals[target].op)
			curOp = fx.vals[target].op
			kind = "rekey:first-operator-again"
		}
		if step == 0 && change != "" {
			kind = "rekey:first-block-" + change
		}
		rich := -1
		if r.Intn(5) > 0 {
			rich = target
		}
		if generated && r.Intn(2) == 0 {
			sc.votes = nil
			fx.genCommit(r, sc, members)
		} else {
			fx.rekeyCommit(r, sc, members, rich, full)
		}
		fresh := c17Inst{name: "an instance created for this block", ph: fx.newHandler()}
		human := map[string]interface{}{"mode": "rekey", "block": step + 1, "height": fx.height, "staking_change_before_this_block": desc,
			"instances": []string{long.name + " (has processed the earlier blocks of this scenario)", fresh.name}}
		finalized := fx.peerBlock(out, sc, base, []c17Inst{long, fresh}, kind, tags, curOp, human)
		if finalized != nil {
			hctx := fx.handlerCtx(base, sc.enable, sc.round, sc.votes)
			func() {
				defer func() { _ = recover() }()
				_, _ = long.ph.PreBlocker(hctx, &abci.RequestFinalizeBlock{Height: fx.height, Txs: finalized})
			}()
		}
	}
}

func TestC17Rekey(t *testing.T) {
	out := newOut(t, "TestC17Rekey")
	defer out.Close()
	r := rand.New(rand.NewSource(seed() + 41))
	fx := c17NewFix(t)
	// corpus: operator A registers with key C; A is removed and operator B creates a validator with key C; B votes
	fx.rekeyScenario(r, out, []string{"corpus"}, false, []string{"", "fresh"}, true)
	fx.rekeyScenario(r, out, []string{"corpus"}, false, []string{"", "unknown", "fresh"}, true)
	fx.rekeyScenario(r, out, []string{"corpus"}, false, []string{"", "fresh", "back"}, true)
	n := count(45, 1500)
	for i := 0; i < n; i++ {
		var plan []string
		switch q := r.Intn(100); {
		case q < 45:
			plan = []string{"", "fresh"}
		case q < 60:
			plan = []string{"", "fresh", "fresh"}
		case q < 72:
			plan = []string{"", "fresh", "back"}
		case q < 82:
			plan = []string{"", "unknown"}
		case q < 90:
			plan = []string{"", "unknown", "fresh"}
		case q < 95:
			plan = []string{"unknown", "back"}
		default:
			plan = []string{"fresh", "back", "fresh"}
		}
		fx.rekeyScenario(r, out, nil, r.Intn(4) == 0, plan, false)
	}
}
