package harness

// C14 — the byte level of the bridge identifiers and of the deposit report value
// (model: coq/Model/BridgeIds.v, case type c14i_case).
//
//   TestC14QueryId  the REAL bridge keeper's GetDepositQueryId / GetWithdrawalQueryId for boundary and random ids, next to
//                   what the oracle side does with the same deposit: the registry's encoding of the query data a reporter
//                   submits, utils.QueryIDFromData of it (the key of the reports and of the aggregate ClaimDeposit looks up)
//                   and the real oracle keeper's PreventBridgeWithdrawalReport.  keccak-256 and the ABI layout are
//                   recomputed inside Coq.
//   TestC14Value    the REAL bridge keeper's DecodeDepositReportValue on report values packed by go-ethereum from generated
//                   (address word, recipient text, amount, tip), on the packed bytes with a dirty address word, and on a few
//                   mutated values; next to go-ethereum's generic Unpack and sdk.AccAddressFromBech32 on the extracted text.
//
// Self-test switch (never set by bin/check): VERIF_C14I_WRONG=qid reports the deposit query id of id+1 for the second id,
// VERIF_C14I_WRONG=amount adds one loya to the first decoded amount; the Coq check must report both.

import (
	"encoding/hex"
	"fmt"
	"math/big"
	"math/rand"
	"os"
	"strings"
	"testing"

	"github.com/ethereum/go-ethereum/common"
	keepertest "github.com/tellor-io/layer/testutil/keeper"
	"github.com/tellor-io/layer/utils"

	sdk "github.com/cosmos/cosmos-sdk/types"
)

func c14iWrong() string { return os.Getenv("VERIF_C14I_WRONG") }

// numbers beyond 64 bits as hexadecimal numerals: coqc elaborates them several times faster than decimal ones
func c14iz(v *big.Int) string {
	if v.Sign() >= 0 && v.BitLen() > 64 {
		return "0x" + v.Text(16)
	}
	return cz(v)
}

func c14iIdBucket(id uint64) string {
	switch {
	case id < 256:
		return "<2^8"
	case id < 1<<32:
		return "<2^32"
	case id < 1<<63:
		return "<2^63"
	}
	return ">=2^63"
}

func TestC14QueryId(t *testing.T) {
	out := newOut(t, "c14_queryid")
	defer out.Close()
	r := rand.New(rand.NewSource(seed() + 141))
	e := c15Setup(t) // real bridge keeper over a real store; its neighbours are not used here
	orak, _, _, _, _, _ := keepertest.OracleKeeper(t)

	ids := []uint64{0, 1, 2, 255, 256, 257, 65535, 65536, 1<<32 - 1, 1 << 32, 1<<32 + 1, 1<<63 - 1, 1 << 63, 1<<63 + 1, 1<<64 - 2, 1<<64 - 1}
	nCorpus := len(ids)
	seen := map[uint64]bool{}
	for _, id := range ids {
		seen[id] = true
	}
	n := count(44, 3000)
	for len(ids) < nCorpus+n {
		var id uint64
		switch r.Intn(5) {
		case 0:
			id = uint64(r.Intn(1000))
		case 1:
			id = uint64(r.Uint32())
		case 2: // one bit, or one bit off a power of two
			id = uint64(1)<<uint(r.Intn(64)) + uint64(r.Intn(3)) - 1
		default:
			id = r.Uint64()
		}
		if !seen[id] {
			seen[id] = true
			ids = append(ids, id)
		}
	}
	var all []string
	for i, id := range ids {
		dq, err := e.k.GetDepositQueryId(id)
		if err != nil {
			t.Fatal(err)
		}
		wq, err := e.k.GetWithdrawalQueryId(id)
		if err != nil {
			t.Fatal(err)
		}
		if c14iWrong() == "qid" && i == 1 {
			dq, _ = e.k.GetDepositQueryId(id + 1)
		}
		qd := c14qdata(true, new(big.Int).SetUint64(id)) // the registry's encoder: the path of a reporter's query data
		oq := utils.QueryIDFromData(qd)
		code := 2
		if dep, err := orak.PreventBridgeWithdrawalReport(qd); err == nil && dep {
			code = 1
		} else if err == nil {
			code = 0
		}
		var tags []string
		if i < nCorpus {
			tags = []string{"corpus"}
		}
		out.Emit(Case{
			Coq: fmt.Sprintf("IdCase (IO %s %s %s %s %s %d)", czu(id), c14hex(dq), c14hex(wq), c14hex(qd), c14hex(oq), code),
			Kind: "id" + c14iIdBucket(id), Nontrivial: true, Key: czu(id), Tags: tags,
			Human: map[string]interface{}{"id": id, "deposit_query_id": hex.EncodeToString(dq), "withdrawal_query_id": hex.EncodeToString(wq)},
		})
		all = append(all, fmt.Sprintf("(%s, %s, %s)", czu(id), c14hex(dq), c14hex(wq)))
	}
	out.Emit(Case{Coq: "IdsCase " + clist(all), Kind: "all-ids", Nontrivial: true, Key: fmt.Sprintf("all|%d|%d", len(ids), seed()),
		Human: map[string]interface{}{"ids": len(ids)}})
}

// ---- DecodeDepositReportValue ----------------------------------------------------------------------------------------------
// a tellor bech32 text of exactly this length exists for 13 + ceil(8n/5): n = 11 -> 31, 12 -> 33, 20 -> 45, 54 -> 100
func c14iRecipient(r *rand.Rand) (text, kind string) {
	acc := func(n int) string {
		a := make([]byte, n)
		r.Read(a)
		return sdk.AccAddress(a).String()
	}
	switch r.Intn(24) {
	case 0:
		return "", "len0"
	case 1:
		return acc(11), "len31"
	case 2:
		return acc(12), "len33"
	case 3:
		return acc(54), "len100"
	case 4: // 32 characters: no tellor address has that length (truncated 33)
		return acc(12)[:32], "len32-invalid"
	case 5:
		return acc(11) + "q", "len32-invalid"
	case 6:
		return strings.ToUpper(acc(20)), "upper"
	case 7:
		s := []byte(acc(20))
		s[8+r.Intn(len(s)-8)] = 'Q'
		return string(s), "mixed-case"
	case 8:
		s := acc(20)
		return "cosmos1" + s[7:], "other-prefix"
	case 9:
		b := make([]byte, pick(r, 1, 31, 32, 33, 64, 100))
		for i := range b {
			b[i] = byte(32 + r.Intn(95)) // printable garbage
		}
		return string(b), "garbage"
	case 10:
		return acc(pick(r, 1, 2, 19, 21, 32, 64, 255)), "other-length"
	case 11:
		return acc(256), "too-long" // VerifyAddressFormat: at most 255 bytes
	case 12:
		b := make([]byte, pick(r, 1, 32, 100))
		r.Read(b)
		return string(b), "binary"
	}
	return acc(20), "len45"
}

func c14iAmount(r *rand.Rand) *big.Int {
	big64 := bmul(pow2(64), c14e12)
	switch r.Intn(16) {
	case 0:
		return badd(big64, bmul(bi(int64(r.Intn(1000))), c14e12)) // >= 2^64 * 10^12
	case 1:
		return badd(badd(big64, bmul(bigRand(r, pow2(100)), c14e12)), bigRand(r, c14e12))
	case 2:
		return badd(big64, bi(int64(pick(r, -1, 0, 1))))
	case 3:
		return bsub(pow2(256), bi(1+int64(r.Intn(3))))
	case 4:
		return bigRand(r, pow2(256))
	}
	return c14amount(r)
}

func c14iTip(r *rand.Rand, amount *big.Int) *big.Int {
	switch r.Intn(8) {
	case 0:
		return new(big.Int).Set(amount) // tip = amount
	case 1:
		return new(big.Int).Mod(badd(amount, bi(int64(pick(r, 1, 1_000_000_000_000)))), pow2(256)) // tip > amount
	case 2:
		return bigRand(r, pow2(256))
	}
	return new(big.Int).Mod(c14tip(r, amount), pow2(256)) // a uint256: Pack would wrap a larger number silently
}

func TestC14Value(t *testing.T) {
	out := newOut(t, "c14_value")
	defer out.Close()
	r := rand.New(rand.NewSource(seed() + 142))
	e := c15Setup(t)

	emit := func(b []byte, packed string, kindPrefix string, tags ...string) {
		value := hex.EncodeToString(b)
		lib, bechOK := "None", false
		libText := ""
		if s, ok := c14rcptOf(value); ok {
			lib = copt(true, c14hex([]byte(s)))
			libText = s
			_, err := sdk.AccAddressFromBech32(s)
			bechOK = err == nil
		}
		impl, kind := "None", "error"
		func() {
			defer func() {
				if rec := recover(); rec != nil {
					impl, kind = "None", "panic"
				}
			}()
			rc, amount, tip, err := e.k.DecodeDepositReportValue(e.ctx, value)
			if err == nil {
				a := amount.AmountOf("loya").BigInt()
				if c14iWrong() == "amount" && out.n == 0 {
					a = badd(a, bi(1))
				}
				impl = fmt.Sprintf("(Some (%s, %s, %s))", cstr(rc.String()), c14iz(a), c14iz(tip.AmountOf("loya").BigInt()))
				kind = "ok"
			}
		}()
		out.Emit(Case{
			Coq:  fmt.Sprintf("ValueCase %s %s %s %s %s", cstr(value), packed, lib, cbool(bechOK), impl),
			Kind: kindPrefix + "/" + kind, Nontrivial: kind == "ok", Key: value, Tags: tags,
			Human: map[string]interface{}{"value": value, "recipient_text_len": len(libText), "result": impl},
		})
	}
	word0 := func(b []byte) *big.Int { return new(big.Int).SetBytes(b[:32]) }
	packedOf := func(b []byte, rcpt string, amount, tip *big.Int) string {
		return fmt.Sprintf("(Some (%s, %s, %s, %s))", c14iz(word0(b)), c14hex([]byte(rcpt)), c14iz(amount), c14iz(tip))
	}
	good := sdk.AccAddress(common.HexToAddress("0x00000000000000000000000000000000000000e1").Bytes()).String()
	evm := common.HexToAddress("0x1111111111111111111111111111111111111111")

	// ---- corpus: every amount boundary as amount and as tip; recipient texts of 0 / 31 / 32 / 33 / 100 characters
	for _, a := range []*big.Int{bi(0), bi(1), bsub(c14e12, bi(1)), c14e12, badd(c14e12, bi(1)), bsub(bmul(pow2(63), c14e12), bi(1)), bmul(pow2(63), c14e12),
		bsub(bmul(pow2(64), c14e12), bi(1)), bmul(pow2(64), c14e12), badd(bmul(pow2(64), c14e12), bmul(bi(5), c14e12)), bsub(pow2(256), bi(1))} {
		emit(c14pack(evm, good, a, bi(0)), packedOf(c14pack(evm, good, a, bi(0)), good, a, bi(0)), "corpus", "corpus")
		emit(c14pack(evm, good, a, a), packedOf(c14pack(evm, good, a, a), good, a, a), "corpus", "corpus")                                   // tip = amount
		emit(c14pack(evm, good, pow10(20), a), packedOf(c14pack(evm, good, pow10(20), a), good, pow10(20), a), "corpus", "corpus")           // tip mostly > amount
	}
	for _, n := range []int{11, 12, 54} {
		s := sdk.AccAddress(make([]byte, n)).String()
		b := c14pack(evm, s, pow10(18), pow10(12))
		emit(b, packedOf(b, s, pow10(18), pow10(12)), "corpus", "corpus")
	}
	for _, s := range []string{"", good[:32], strings.ToUpper(good)} {
		b := c14pack(evm, s, pow10(18), pow10(12))
		emit(b, packedOf(b, s, pow10(18), pow10(12)), "corpus", "corpus")
	}
	{ // dirty high bytes in the address word
		b := c14pack(evm, good, pow10(18), bi(0))
		for i := 0; i < 12; i++ {
			b[i] = 0xff
		}
		emit(b, packedOf(b, good, pow10(18), bi(0)), "corpus", "corpus")
	}

	n := count(140, 25000)
	for i := 0; i < n; i++ {
		var a common.Address
		r.Read(a[:])
		amount := c14iAmount(r)
		tip := c14iTip(r, amount)
		rcpt, rk := c14iRecipient(r)
		b := c14pack(a, rcpt, amount, tip)
		kind := "rcpt-" + rk
		switch x := r.Intn(20); {
		case x < 3: // dirty address word: go-ethereum reads the last 20 bytes only
			for j := 0; j < 1+r.Intn(12); j++ {
				b[r.Intn(12)] = byte(1 + r.Intn(255))
			}
			emit(b, packedOf(b, rcpt, amount, tip), kind+"/dirty-address")
		case x == 3: // mutated: not the encoding of the fields any more
			L := int64(len(b))
			switch r.Intn(6) {
			case 0:
				b = b[:pick(r, 0, 31, 32, 96, 127, 128, 159, 160, len(b)-1, len(b)-32)%(len(b)+1)]
			case 1:
				copy(b[32:64], c14word(pick(r, bi(0), bi(32), bi(64), bi(96), bi(129), bi(L-32), bi(L-31), bi(L), pow2(63), pow2(64), bsub(pow2(256), bi(1)))))
			case 2:
				copy(b[128:160], c14word(pick(r, bi(0), bi(1), bi(L-160), bi(L-159), bi(L), pow2(64), bsub(pow2(256), bi(1)))))
			case 3:
				extra := make([]byte, pick(r, 1, 31, 32))
				r.Read(extra)
				b = append(b, extra...)
			case 4: // non-canonical but valid: the string moved 32 bytes further, garbage in between
				gap := make([]byte, 32)
				r.Read(gap)
				b = append(append(append([]byte(nil), b[:128]...), gap...), b[128:]...)
				copy(b[32:64], c14word(bi(160)))
			case 5: // the string's length word points into the heads
				copy(b[32:64], c14word(bi(int64(pick(r, 0, 64)))))
			}
			emit(b, "None", kind+"/mutated")
		default:
			emit(b, packedOf(b, rcpt, amount, tip), kind)
		}
	}
}
