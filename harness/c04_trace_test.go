package harness

// TestC04Trace: a checked refinement between the real application and the escrow machine of
// coq/Model/Escrow.v (property C04).
//
// OBSERVED after every operation and after every Begin/EndBlock, from the stores of the real application
// (World = tests.SharedSetup with the production module-account permissions): total supply, the oracle
// module balance, the map query -> unpaid tip (Query.Amount of every stored query round, summed per query
// id), the tips escrow pool balance, the map selector -> credit (the SelectorTips collection, the 18-decimal
// LegacyDec as its raw integer), the time based rewards pool balance, the fee collector balance, the sum of
// the two staking pool balances.
//
// DERIVED, per step, the operation of the abstract machine:
//   MsgTip            -> ETip q a             q, a = the message's query and amount
//   BeginBlock        -> EMint p              p = supply after - supply before
//   MsgWithdrawTip    -> EWithdrawTip sel
//   MsgSubmitValue    -> TSkip                the machine has no operation: nothing observed may move
//   EndBlock          -> TPayBlock qs tbr delta n
//        qs    = queries whose unpaid tip was positive before the EndBlock and changed
//        tbr   = the time based rewards pool balance changed
//        delta = credit after - credit before per selector (the credits of the individual payouts of one
//                EndBlock cannot be told apart from outside)
//        n     = number of credit entries written, computed from the aggregates the block made: for every
//                paid reporter the token origins of its stake snapshot, plus 1 when its commission rate is
//                not 0 (an upper bound only where a commission rounds to 0 or where the reporters eligible
//                for time based rewards are over-approximated)
// and whether the real chain accepted the message.  coq/Model/EscrowTrace.v replays the operations with
// estep and compares every field after every step.

import (
	"encoding/hex"
	"fmt"
	"math/big"
	"math/rand"
	"os"
	"sort"
	"strings"
	"testing"
	"time"

	"cosmossdk.io/math"

	sdk "github.com/cosmos/cosmos-sdk/types"
	authtypes "github.com/cosmos/cosmos-sdk/x/auth/types"
	stakingtypes "github.com/cosmos/cosmos-sdk/x/staking/types"
	"github.com/ethereum/go-ethereum/common"
	"github.com/tellor-io/layer/utils"
	minttypes "github.com/tellor-io/layer/x/mint/types"
	oracletypes "github.com/tellor-io/layer/x/oracle/types"
	registrytypes "github.com/tellor-io/layer/x/registry/types"
	reportertypes "github.com/tellor-io/layer/x/reporter/types"
)

type c04tObs struct {
	supply, oracle, tips, tbr, feecoll, pools *big.Int
	owed, credits                             map[int]*big.Int
}

type c04tTracer struct {
	w      *World
	qidx   map[string]int // hex(query id) -> small number
	sidx   map[string]int // selector address -> account id (or 1000+ for an address the World does not know)
	steps  []string
	stats  map[string]int
	last   c04tObs
	shown  c04tObs // the previous observation as written into the case
	nVals  int
	wrongQ bool // self-test: report a wrong oracle balance once (VERIF_C04T_WRONG=1)
}

func (tr *c04tTracer) queryIndex(qid []byte) int {
	k := hex.EncodeToString(qid)
	if i, ok := tr.qidx[k]; ok {
		return i
	}
	i := len(tr.qidx) + 1
	tr.qidx[k] = i
	return i
}

func (tr *c04tTracer) selectorIndex(addr []byte) int {
	k := string(addr)
	if i, ok := tr.sidx[k]; ok {
		return i
	}
	i := tr.w.acctID(sdk.AccAddress(addr))
	if i < 0 {
		i = 1000 + len(tr.sidx)
	}
	tr.sidx[k] = i
	return i
}

func (tr *c04tTracer) observe() c04tObs {
	w := tr.w
	s := w.s
	o := c04tObs{owed: map[int]*big.Int{}, credits: map[int]*big.Int{}}
	o.supply = s.Bankkeeper.GetSupply(w.ctx, s.Denom).Amount.BigInt()
	o.oracle = w.modBal(oracletypes.ModuleName)
	_ = s.Oraclekeeper.Query.Walk(w.ctx, nil, func(k collectionsPairBytesU64, q oracletypes.QueryMeta) (bool, error) {
		i := tr.queryIndex(k.K1())
		if o.owed[i] == nil {
			o.owed[i] = new(big.Int)
		}
		o.owed[i].Add(o.owed[i], q.Amount.BigInt())
		return false, nil
	})
	o.tips = w.modBal(reportertypes.TipsEscrowPool)
	_ = s.Reporterkeeper.SelectorTips.Walk(w.ctx, nil, func(k []byte, d math.LegacyDec) (bool, error) {
		o.credits[tr.selectorIndex(k)] = new(big.Int).Set(d.BigInt())
		return false, nil
	})
	o.tbr = w.modBal(minttypes.TimeBasedRewards)
	o.feecoll = w.modBal(authtypes.FeeCollectorName)
	o.pools = badd(w.modBal(stakingtypes.BondedPoolName), w.modBal(stakingtypes.NotBondedPoolName))
	return o
}

// numbers in the case terms: decimal up to 10^9, hexadecimal above (coqc reads a 25-digit decimal literal in
// 7 ms, the same number in hexadecimal in 1 ms)
func c04tZ(v *big.Int) string {
	if v.CmpAbs(big.NewInt(1_000_000_000)) < 0 {
		return cz(v)
	}
	if v.Sign() < 0 {
		return "(-0x" + new(big.Int).Neg(v).Text(16) + ")"
	}
	return "0x" + v.Text(16)
}

func c04tMap(m map[int]*big.Int) string {
	keys := make([]int, 0, len(m))
	for k, v := range m {
		if v.Sign() != 0 {
			keys = append(keys, k)
		}
	}
	sort.Ints(keys)
	items := make([]string, len(keys))
	for i, k := range keys {
		items[i] = fmt.Sprintf("(%d, %s)", k, c04tZ(m[k]))
	}
	return clist(items)
}

func (o c04tObs) coq() string {
	return fmt.Sprintf("(TObs %s %s %s %s %s %s %s %s)", c04tZ(o.supply), c04tZ(o.oracle), c04tMap(o.owed), c04tZ(o.tips), c04tMap(o.credits), c04tZ(o.tbr), c04tZ(o.feecoll), c04tZ(o.pools))
}

// the fields of the observation that differ from the previous observation
func c04tChanged(prev, o c04tObs) string {
	var us []string
	num := func(name string, a, b *big.Int) {
		if a.Cmp(b) != 0 {
			us = append(us, fmt.Sprintf("%s %s", name, c04tZ(b)))
		}
	}
	num("USupply", prev.supply, o.supply)
	num("UOracle", prev.oracle, o.oracle)
	if pm, om := c04tMap(prev.owed), c04tMap(o.owed); pm != om {
		us = append(us, "UOwed "+om)
	}
	num("UTips", prev.tips, o.tips)
	if pm, om := c04tMap(prev.credits), c04tMap(o.credits); pm != om {
		us = append(us, "UCredits "+om)
	}
	num("UTbr", prev.tbr, o.tbr)
	num("UFeecoll", prev.feecoll, o.feecoll)
	num("UPools", prev.pools, o.pools)
	return clist(us)
}

// record one step: the derived operation, the chain's verdict, what the observation after it changed
func (tr *c04tTracer) record(op string, accepted bool) c04tObs {
	o := tr.observe()
	shown := o
	if tr.wrongQ && strings.HasPrefix(op, "(TOp (ETip") && accepted {
		// self-test: a deliberately wrong observation
		shown.oracle = badd(o.oracle, bi(1))
		tr.wrongQ = false
	}
	tr.steps = append(tr.steps, fmt.Sprintf("(TStep %s %s %s)", op, cbool(accepted), c04tChanged(tr.shown, shown)))
	tr.last = o
	tr.shown = shown
	return o
}

func (tr *c04tTracer) beginBlock(gap time.Duration) {
	before := tr.last
	res := tr.w.beginBlock(gap)
	after := tr.observe()
	p := bsub(after.supply, before.supply)
	tr.record(fmt.Sprintf("(TOp (EMint %s))", c04tZ(p)), res.result == 0)
	tr.stats["BeginBlock"]++
	if p.Sign() > 0 {
		tr.stats["BeginBlock minting"]++
	}
}

func (tr *c04tTracer) tip(a int, qd []byte, amt *big.Int) bool {
	w := tr.w
	q := tr.queryIndex(utils.QueryIDFromData(qd))
	res := w.deliver("Tip", a, nil, func(ctx sdk.Context) error {
		_, err := w.oracleMS.Tip(ctx, &oracletypes.MsgTip{Tipper: w.accts[a].String(), QueryData: qd, Amount: w.coin(amt)})
		return err
	})
	tr.record(fmt.Sprintf("(TOp (ETip %d %s))", q, c04tZ(amt)), res.result == 0)
	tr.stats[fmt.Sprintf("Tip/%d", res.result)]++
	return res.result == 0
}

func (tr *c04tTracer) report(rep int, qd []byte, val string) {
	w := tr.w
	res := w.deliver("SubmitValue", rep, nil, func(ctx sdk.Context) error {
		_, err := w.oracleMS.SubmitValue(ctx, &oracletypes.MsgSubmitValue{Creator: w.accts[rep].String(), QueryData: qd, Value: val})
		return err
	})
	tr.record("TSkip", res.result == 0)
	tr.stats[fmt.Sprintf("SubmitValue/%d", res.result)]++
}

func (tr *c04tTracer) withdraw(a int, v sdk.ValAddress) {
	w := tr.w
	res := w.deliver("WithdrawTip", a, nil, func(ctx sdk.Context) error {
		_, err := w.reporterMS.WithdrawTip(ctx, &reportertypes.MsgWithdrawTip{SelectorAddress: w.accts[a].String(), ValidatorAddress: v.String()})
		return err
	})
	tr.record(fmt.Sprintf("(TOp (EWithdrawTip %d))", tr.selectorIndex(w.accts[a].Bytes())), res.result == 0)
	tr.stats[fmt.Sprintf("WithdrawTip/%d", res.result)]++
	if res.result != 0 && strings.Contains(res.errMsg, "insufficient") {
		tr.stats["WithdrawTip/insufficient funds"]++
	}
}

// credit entries one reward payout to this reporter writes: one per token origin of the stake snapshot the
// payout uses, one more for the commission when the reporter's rate is not 0
func (tr *c04tTracer) creditEntries(qid []byte, reporter string, height uint64) int {
	w := tr.w
	ra, err := sdk.AccAddressFromBech32(reporter)
	if err != nil {
		return 0
	}
	n := 0
	if snap, err := w.s.Reporterkeeper.Report.Get(w.ctx, collectionsJoinReport(qid, ra.Bytes(), height)); err == nil {
		n = len(snap.TokenOrigins)
	}
	if rep, err := w.s.Reporterkeeper.Reporters.Get(w.ctx, ra.Bytes()); err == nil && !rep.CommissionRate.IsZero() {
		n++
	}
	return n
}

func (tr *c04tTracer) endBlock() {
	w := tr.w
	before := tr.last
	res := w.endBlock0()
	after := tr.observe()
	// derived: which queries were paid, whether the reward pool was paid out, the credits written
	var qs []int
	paid := map[int]bool{}
	for q, a := range before.owed {
		if a.Sign() > 0 && (after.owed[q] == nil || after.owed[q].Cmp(a) != 0) {
			qs = append(qs, q)
			paid[q] = true
		}
	}
	sort.Ints(qs)
	tbr := after.tbr.Cmp(before.tbr) != 0
	delta := map[int]*big.Int{}
	for s, c := range after.credits {
		d := new(big.Int).Set(c)
		if b := before.credits[s]; b != nil {
			d.Sub(d, b)
		}
		delta[s] = d
	}
	for s, b := range before.credits {
		if after.credits[s] == nil {
			delta[s] = new(big.Int).Neg(b)
		}
	}
	// derived from the aggregates of this block: the number of credit entries the payouts wrote
	n := 0
	tbrEntries := map[string]int{}
	func() {
		defer func() { _ = recover() }()
		for _, a := range w.s.Oraclekeeper.GetAggregatedReportsByHeight(w.ctx, uint64(w.height)) {
			tr.stats["aggregates"]++
			if paid[tr.queryIndex(a.QueryId)] {
				for _, r := range a.Reporters {
					n += tr.creditEntries(a.QueryId, r.Reporter, r.BlockNumber)
				}
			}
			// eligible for time based rewards: the round's reports carry the cycle-list flag
			cyc := false
			for _, r := range a.Reporters {
				if ra, err := sdk.AccAddressFromBech32(r.Reporter); err == nil {
					if mr, err := w.s.Oraclekeeper.Reports.Get(w.ctx, collectionsJoin3(a.QueryId, ra.Bytes(), a.MetaId)); err == nil && mr.Cyclelist {
						cyc = true
					}
				}
			}
			if cyc {
				for _, r := range a.Reporters {
					if e := tr.creditEntries(a.QueryId, r.Reporter, r.BlockNumber); e > tbrEntries[r.Reporter] {
						tbrEntries[r.Reporter] = e
					}
				}
			}
		}
	}()
	if tbr {
		for _, e := range tbrEntries {
			n += e
		}
	}
	qitems := make([]string, len(qs))
	for i, q := range qs {
		qitems[i] = fmt.Sprint(q)
	}
	tr.record(fmt.Sprintf("(TPayBlock %s %s %s %d)", clist(qitems), cbool(tbr), c04tMap(delta), n), res.result == 0)
	tr.stats["EndBlock"]++
	tr.stats["paid queries"] += len(qs)
	tr.stats["credit entries"] += n
	if tbr {
		tr.stats["tbr payouts"]++
	}
	if len(qs)+b2i(tbr) >= 2 {
		tr.stats["EndBlock with several payouts"]++
	}
	if len(qs) > 0 || tbr {
		tr.stats["EndBlock paying"]++
	}
}

func runC04Trace(t *testing.T, seed int64, blocks int, wrong bool) (string, map[string]int, string) {
	r := rand.New(rand.NewSource(seed))
	nVals := 3 + r.Intn(3)
	w := newWorld(t, r, nVals, 3)
	lastWorld = w
	tr := &c04tTracer{w: w, qidx: map[string]int{}, sidx: map[string]int{}, stats: map[string]int{}, nVals: nVals, wrongQ: wrong}
	for _, qd := range append(append([][]byte{}, w.queries...), w.bridgeQueries...) {
		tr.queryIndex(utils.QueryIDFromData(qd))
	}
	// every validator account is a reporter (newWorld made the first two); commission rates stay inside [0,1]
	// (a rate above 1 is finding F06 and makes a credit negative)
	third, _ := math.LegacyNewDecFromStr("0.333333333333333333")
	for i := 2; i < nVals; i++ {
		rate := pick(r, math.LegacyZeroDec(), math.LegacyNewDecWithPrec(1, 1), math.LegacyNewDecWithPrec(5, 1), math.LegacyOneDec(), third, math.LegacyNewDecWithPrec(7, 2))
		if _, err := w.reporterMS.CreateReporter(w.ctx, &reportertypes.MsgCreateReporter{ReporterAddress: w.accts[i].String(), CommissionRate: rate, MinTokensRequired: math.NewInt(loyaPerTRB)}); err != nil {
			t.Fatal(err)
		}
		w.reporters[i] = true
	}
	if r.Intn(2) == 0 {
		extra := pick(r, bi(2500*loyaPerTRB), bi(5000*loyaPerTRB), bi(1*loyaPerTRB), bi(10000*loyaPerTRB))
		who := r.Intn(nVals)
		w.s.MintTokens(w.accts[who], math.NewIntFromBigInt(extra))
		_, _ = w.stakingMS.Delegate(w.ctx, &stakingtypes.MsgDelegate{DelegatorAddress: w.accts[who].String(), ValidatorAddress: w.valOps[who].String(), Amount: w.coin(extra)})
	}
	// the plain accounts delegate (sometimes to two validators: two token origins) and select a reporter
	for k := 0; k < 3; k++ {
		a := nVals + k
		v := r.Intn(nVals)
		amt := pick(r, bi(1*loyaPerTRB), bi(333*loyaPerTRB), bi(1000*loyaPerTRB), bi(1234567), bi(int64(1_000_000+r.Intn(9_000_000))))
		_, _ = w.stakingMS.Delegate(w.ctx, &stakingtypes.MsgDelegate{DelegatorAddress: w.accts[a].String(), ValidatorAddress: w.valOps[v].String(), Amount: w.coin(amt)})
		if r.Intn(3) == 0 {
			amt2 := pick(r, bi(777_777), bi(2*loyaPerTRB), bi(1_000_003))
			_, _ = w.stakingMS.Delegate(w.ctx, &stakingtypes.MsgDelegate{DelegatorAddress: w.accts[a].String(), ValidatorAddress: w.valOps[(v+1)%nVals].String(), Amount: w.coin(amt2)})
		}
		if r.Intn(5) != 0 {
			_, _ = w.reporterMS.SelectReporter(w.ctx, &reportertypes.MsgSelectReporter{SelectorAddress: w.accts[a].String(), ReporterAddress: w.accts[r.Intn(nVals)].String()})
		}
	}
	// time based rewards run in two thirds of the histories
	if r.Intn(3) != 0 {
		_, _ = w.mintMS.Init(w.ctx, &minttypes.MsgInit{Authority: w.authority})
		w.mintInitialized = true
		tr.stats["histories with time based rewards"]++
	}
	// short bridge-deposit windows in a third: tipped deposit rounds then close (and are paid) inside the history
	depositRounds := r.Intn(3) == 0
	if depositRounds {
		if spec, err := w.s.Registrykeeper.GetSpec(w.ctx, "trbbridge"); err == nil {
			spec.ReportBlockWindow = uint64(pick(r, 1, 2, 3))
			_, _ = w.registryMS.UpdateDataSpec(w.ctx, &registrytypes.MsgUpdateDataSpec{Authority: w.authority, QueryType: "trbbridge", Spec: spec})
		}
		tr.stats["histories with bridge deposit rounds"]++
	}
	init := tr.observe()
	tr.last = init
	tr.shown = init
	supply := init.supply
	tippedOpen := map[string][]byte{} // tipped, possibly not yet reported
	for b := 0; b < blocks && w.halted == ""; b++ {
		gap := time.Duration(1+r.Intn(5000)) * time.Millisecond
		if r.Intn(6) == 0 {
			gap = pick(r, time.Millisecond, 999*time.Microsecond, time.Hour, 90*time.Second)
		}
		tr.beginBlock(gap)
		if w.halted != "" {
			break
		}
		// tips: the scheduled query, queries outside the cycle list, bridge deposit queries, earlier tipped ones again
		var tipped [][]byte
		for k := r.Intn(4); k > 0; k-- {
			a := nVals + r.Intn(3)
			if r.Intn(4) == 0 {
				a = r.Intn(nVals)
			}
			qd := w.currentCycleQuery()
			switch r.Intn(4) {
			case 0, 1:
				qd = pick(r, w.queries...)
			case 2:
				if depositRounds {
					qd = w.bridgeQueries[r.Intn(2)]
				} else if len(tippedOpen) > 0 {
					keys := make([]string, 0, len(tippedOpen))
					for k := range tippedOpen {
						keys = append(keys, k)
					}
					sort.Strings(keys)
					qd = tippedOpen[keys[r.Intn(len(keys))]]
				}
			}
			amt := pick(r, bi(1), bi(2), bi(3), bi(7), bi(49), bi(50), bi(51), bi(99), bi(100), bi(101), bi(1000), bi(1_000_001), bi(int64(1+r.Intn(5_000_000))), bi(int64(1+r.Intn(5_000_000))))
			switch r.Intn(25) {
			case 0:
				amt = bi(0) // rejected by the chain and by the machine
			case 1:
				amt = badd(supply, bi(int64(1+r.Intn(1000)))) // more than exists: rejected by both
			}
			if tr.tip(a, qd, amt) {
				tipped = append(tipped, qd)
				tippedOpen[string(qd)] = qd
			}
		}
		// reports: the scheduled query, and two thirds of the queries tipped in this block (the others stay open
		// without report: their tip must stay with the query), sometimes an earlier tipped one, sometimes a deposit
		qs := [][]byte{w.currentCycleQuery()}
		for _, qd := range tipped {
			if r.Intn(3) != 0 {
				qs = append(qs, qd)
			}
		}
		if len(tippedOpen) > 0 && r.Intn(3) == 0 {
			keys := make([]string, 0, len(tippedOpen))
			for k := range tippedOpen {
				keys = append(keys, k)
			}
			sort.Strings(keys)
			qs = append(qs, tippedOpen[keys[r.Intn(len(keys))]])
		}
		if depositRounds && r.Intn(2) == 0 {
			qs = append(qs, w.bridgeQueries[r.Intn(2)])
		}
		for _, qd := range qs {
			skip := -1
			if r.Intn(4) == 0 {
				skip = r.Intn(nVals)
			}
			val := w.randValue()
			depVal := func() string {
				amt := bmul(pick(r, bi(1), bi(5), bi(1_000_000), bi(int64(1+r.Intn(1_000_000_000)))), c14e12)
				tip := pick(r, bi(0), bquo(amt, bi(100)), amt)
				return hex.EncodeToString(c14pack(common.BytesToAddress([]byte{byte(r.Intn(250) + 1)}), w.accts[r.Intn(len(w.accts))].String(), amt, tip))
			}()
			isDeposit := string(qd) == string(w.bridgeQueries[0]) || string(qd) == string(w.bridgeQueries[1])
			for i := 0; i < nVals; i++ {
				if i == skip {
					continue
				}
				v := val
				if r.Intn(3) == 0 {
					v = w.randValue()
				}
				if isDeposit {
					v = pick(r, depVal, depVal, depVal, randHex(r, 64))
				}
				tr.report(i, qd, v)
			}
		}
		// withdrawals of credited rewards by selectors and reporters, entitled or not
		if r.Intn(2) == 0 {
			for _, a := range r.Perm(nVals + 3) {
				if r.Intn(2) == 0 {
					continue
				}
				tr.withdraw(a, w.valOps[r.Intn(nVals)])
			}
		}
		tr.endBlock()
	}
	// finally everybody withdraws, twice (the second one has nothing left above one unit)
	if w.halted == "" {
		tr.beginBlock(time.Second)
		for pass := 0; pass < 2; pass++ {
			for a := 0; a < nVals+3; a++ {
				if pass == 1 && r.Intn(3) != 0 {
					continue
				}
				tr.withdraw(a, w.valOps[a%nVals])
			}
		}
		tr.endBlock()
	}
	open := 0
	for _, a := range tr.last.owed {
		if a.Sign() > 0 {
			open++
		}
	}
	tr.stats["queries with an unpaid tip at the end"] += open
	return fmt.Sprintf("C04T %s 0 %s", init.coq(), clist(tr.steps)), tr.stats, w.halted
}

func TestC04Trace(t *testing.T) {
	out := newOut(t, "c04_trace")
	defer out.Close()
	n := count(30, 800)
	blocks := 9
	if thorough() {
		blocks = 14
	}
	base := seed()*5_000_011 + 41
	total := map[string]int{}
	for i := 0; i < n; i++ {
		hs := base + int64(i)
		term, stats, halted := runC04Trace(t, hs, blocks, os.Getenv("VERIF_C04T_WRONG") == "1" && i == 0)
		for k, v := range stats {
			total[k] += v
		}
		kind := "completed"
		if halted != "" {
			kind = "halted"
		}
		if stats["WithdrawTip/insufficient funds"] > 0 {
			kind = "withdraw-insufficient"
		}
		out.Emit(Case{Coq: term, Kind: kind, Nontrivial: stats["Tip/0"] >= 2 && stats["paid queries"] >= 1 && stats["WithdrawTip/0"] >= 1, Key: fmt.Sprint(hs),
			Human: map[string]interface{}{"history_seed": hs, "ops": stats, "halted": halted}})
	}
	keys := make([]string, 0, len(total))
	for k := range total {
		keys = append(keys, k)
	}
	sort.Strings(keys)
	var sb strings.Builder
	for _, k := range keys {
		sb.WriteString(fmt.Sprintf("%s=%d ", k, total[k]))
	}
	t.Logf("c04_trace: %d histories: %s", n, sb.String())
}
