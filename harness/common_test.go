package harness

// Shared plumbing of the correspondence drivers.  Every driver runs the REAL code of
// /repo (this module replaces github.com/tellor-io/layer by the working tree) on generated
// inputs and writes one JSON line per case: the case as a Gallina term ("coq") that the Coq
// side evaluates with the model's check function, plus bookkeeping for the evidence.

import (
	"bufio"
	"encoding/json"
	"fmt"
	"math/big"
	"math/rand"
	"os"
	"path/filepath"
	"strconv"
	"strings"
	"testing"
)

func seed() int64 {
	if s := os.Getenv("VERIF_SEED"); s != "" {
		if v, err := strconv.ParseInt(s, 10, 64); err == nil {
			return v
		}
	}
	return 1
}

func thorough() bool { return os.Getenv("VERIF_TIER") == "thorough" }

// count returns the number of cases for the tier, scalable by VERIF_SCALE (percent).
func count(quick, thoroughN int) int {
	n := quick
	if thorough() {
		n = thoroughN
	}
	if s := os.Getenv("VERIF_SCALE"); s != "" {
		if v, err := strconv.Atoi(s); err == nil && v > 0 {
			n = n * v / 100
			if n < 1 {
				n = 1
			}
		}
	}
	return n
}

type Case struct {
	ID         int                    `json:"id"`
	Driver     string                 `json:"driver"`
	Coq        string                 `json:"coq"`
	Kind       string                 `json:"kind"`       // distribution bucket
	Nontrivial bool                   `json:"nontrivial"` // by the driver's stated rule
	Key        string                 `json:"key"`        // distinctness key
	Tags       []string               `json:"tags,omitempty"`
	Human      map[string]interface{} `json:"human,omitempty"`
}

type Out struct {
	f      *os.File
	w      *bufio.Writer
	n      int
	driver string
}

func newOut(t testing.TB, driver string) *Out {
	dir := os.Getenv("VERIF_OUT")
	if dir == "" {
		dir = t.TempDir()
	}
	if err := os.MkdirAll(dir, 0o755); err != nil {
		t.Fatal(err)
	}
	f, err := os.Create(filepath.Join(dir, driver+".jsonl"))
	if err != nil {
		t.Fatal(err)
	}
	return &Out{f: f, w: bufio.NewWriterSize(f, 1<<20), driver: driver}
}

func (o *Out) Emit(c Case) {
	c.ID = o.n
	c.Driver = o.driver
	o.n++
	b, err := json.Marshal(c)
	if err != nil {
		panic(err)
	}
	o.w.Write(b)
	o.w.WriteByte('\n')
}

func (o *Out) Close() {
	o.w.Flush()
	o.f.Close()
}

// ---- Gallina term printers ---------------------------------------------------------
func cz(v *big.Int) string {
	if v.Sign() < 0 {
		return "(" + v.String() + ")"
	}
	return v.String()
}
func czi(v int64) string { return cz(big.NewInt(v)) }
func czu(v uint64) string { return new(big.Int).SetUint64(v).String() }
func cbool(b bool) string {
	if b {
		return "true"
	}
	return "false"
}
func clist(items []string) string { return "[" + strings.Join(items, "; ") + "]" }
func cstr(s string) string {
	// Coq string literal; only printable ASCII without quotes is emitted verbatim
	var sb strings.Builder
	sb.WriteByte('"')
	for _, r := range []byte(s) {
		if r == '"' {
			sb.WriteString("\"\"")
		} else if r >= 32 && r < 127 {
			sb.WriteByte(r)
		} else {
			panic(fmt.Sprintf("cstr: non printable byte %d", r))
		}
	}
	sb.WriteByte('"')
	return sb.String()
}
func copt(present bool, v string) string {
	if present {
		return "(Some " + v + ")"
	}
	return "None"
}

// bytes as a Coq list of Z
func cbytes(b []byte) string {
	items := make([]string, len(b))
	for i, x := range b {
		items[i] = strconv.Itoa(int(x))
	}
	return clist(items)
}

// ---- random helpers ------------------------------------------------------------------
func pick[T any](r *rand.Rand, xs ...T) T { return xs[r.Intn(len(xs))] }

func bigRand(r *rand.Rand, max *big.Int) *big.Int {
	if max.Sign() <= 0 {
		return big.NewInt(0)
	}
	return new(big.Int).Rand(r, max)
}

func pow10(n int) *big.Int { return new(big.Int).Exp(big.NewInt(10), big.NewInt(int64(n)), nil) }
func pow2(n int) *big.Int  { return new(big.Int).Lsh(big.NewInt(1), uint(n)) }
func bi(v int64) *big.Int  { return big.NewInt(v) }
func badd(a, b *big.Int) *big.Int { return new(big.Int).Add(a, b) }
func bsub(a, b *big.Int) *big.Int { return new(big.Int).Sub(a, b) }
func bmul(a, b *big.Int) *big.Int { return new(big.Int).Mul(a, b) }
func bquo(a, b *big.Int) *big.Int { return new(big.Int).Quo(a, b) }
