package harness

// C20 — the price daemon serves the true median of fresh exchange prices under concurrency.
//
// Four drivers on the REAL code of the repository:
//   TestC20Median          lib.Median (all four instantiations) on boundary-biased inputs + grids
//   TestC20Sequential      operation sequences on one real MarketToExchangePrices; every read result
//                          and a reflection dump of the private maps after every update
//   TestC20Concurrent      G goroutines on one real MarketToExchangePrices; invocation / response
//                          stamps from one atomic counter; final dump of the store
//   TestC20LockDiscipline  go/ast scan: every function that mentions the mutex-guarded map field
//                          starts with recv.Lock(); defer recv.Unlock()

import (
	"fmt"
	"go/ast"
	"go/parser"
	"go/token"
	"math"
	"math/big"
	"math/rand"
	"os"
	"path/filepath"
	"reflect"
	"runtime"
	"sort"
	"strings"
	"sync"
	"sync/atomic"
	"testing"
	"time"
	"unsafe"

	clienttypes "github.com/tellor-io/layer/daemons/pricefeed/client/types"
	pftypes "github.com/tellor-io/layer/daemons/pricefeed/types"
	servertypes "github.com/tellor-io/layer/daemons/server/types"
	pricefeed "github.com/tellor-io/layer/daemons/server/types/pricefeed"
	"github.com/tellor-io/layer/lib"
)

// ---------------------------------------------------------------------------------------------
// lib.Median
// ---------------------------------------------------------------------------------------------
type c20int interface {
	uint64 | uint32 | int64 | int32
}

func c20big[V c20int](v V) *big.Int {
	switch x := any(v).(type) {
	case uint64:
		return new(big.Int).SetUint64(x)
	case uint32:
		return new(big.Int).SetUint64(uint64(x))
	case int64:
		return big.NewInt(x)
	case int32:
		return big.NewInt(int64(x))
	}
	panic("c20big")
}

func c20median[V c20int](out *Out, ty string, in []V, tags ...string) {
	cp := append([]V(nil), in...)
	m, err := lib.Median(in)
	for i := range in {
		if in[i] != cp[i] {
			panic("lib.Median modified its input")
		}
	}
	items := make([]string, len(in))
	for i, v := range in {
		items[i] = cz(c20big(v))
	}
	par := "odd"
	if len(in)%2 == 0 {
		par = "even"
	}
	if len(in) == 0 {
		par = "empty"
	}
	out.Emit(Case{
		Coq:        fmt.Sprintf("MedianCase %s %s %s", ty, clist(items), copt(err == nil, cz(c20big(m)))),
		Kind:       ty + ":" + par,
		Nontrivial: len(in) >= 2,
		Key:        ty + clist(items),
		Tags:       tags,
		Human:      map[string]interface{}{"type": ty, "input": clist(items), "median": c20big(m).String(), "err": err != nil},
	})
}

// boundary values of every comparison / wrap in Median, per type (as big integers)
func c20specials(bitsN int, signed bool) []*big.Int {
	var s []*big.Int
	add := func(v *big.Int) {
		for d := int64(-2); d <= 2; d++ {
			s = append(s, badd(v, bi(d)))
		}
	}
	add(bi(0))
	add(pow2(bitsN/2 - 1))
	add(pow2(bitsN / 2))
	add(pow2(bitsN - 2))
	add(pow2(bitsN - 1))
	add(pow2(bitsN))
	if signed {
		n := len(s)
		for i := 0; i < n; i++ {
			s = append(s, new(big.Int).Neg(s[i]))
		}
	}
	lo, hi := bi(0), bsub(pow2(bitsN), bi(1))
	if signed {
		lo, hi = new(big.Int).Neg(pow2(bitsN-1)), bsub(pow2(bitsN-1), bi(1))
	}
	var in []*big.Int
	for _, v := range s {
		if v.Cmp(lo) >= 0 && v.Cmp(hi) <= 0 {
			in = append(in, v)
		}
	}
	return in
}

func c20conv[V c20int](v *big.Int) V {
	var z V
	switch any(z).(type) {
	case uint64:
		return V(v.Uint64())
	case uint32:
		return V(uint32(v.Uint64()))
	case int64:
		return V(v.Int64())
	default:
		return V(int32(v.Int64()))
	}
}

func c20genList[V c20int](r *rand.Rand, bitsN int, signed bool, specials []*big.Int) []V {
	n := 1 + r.Intn(9)
	lo, hi := bi(0), bsub(pow2(bitsN), bi(1))
	if signed {
		lo, hi = new(big.Int).Neg(pow2(bitsN-1)), bsub(pow2(bitsN-1), bi(1))
	}
	clamp := func(v *big.Int) *big.Int {
		if v.Cmp(lo) < 0 {
			return lo
		}
		if v.Cmp(hi) > 0 {
			return hi
		}
		return v
	}
	vals := make([]*big.Int, 0, n)
	mode := r.Intn(4) // 0 mixed, 1 all special, 2 clustered around one value, 3 random
	var centre *big.Int
	if mode == 2 {
		centre = pick(r, specials...)
	}
	for i := 0; i < n; i++ {
		var v *big.Int
		switch {
		case mode == 2:
			v = clamp(badd(centre, bi(int64(r.Intn(7)-3))))
		case mode == 1 || (mode == 0 && r.Intn(2) == 0):
			v = pick(r, specials...)
		case len(vals) > 0 && r.Intn(3) == 0:
			v = clamp(badd(vals[r.Intn(len(vals))], bi(int64(r.Intn(5)-2))))
		default:
			v = badd(lo, bigRand(r, badd(bsub(hi, lo), bi(1))))
		}
		vals = append(vals, v)
	}
	outv := make([]V, n)
	for i, v := range vals {
		outv[i] = c20conv[V](v)
	}
	return outv
}

func c20grid[V c20int](out *Out, ty string, grid []V, maxLen int) {
	var rec func(prefix []V)
	rec = func(prefix []V) {
		if len(prefix) > 0 {
			c20median(out, ty, append([]V(nil), prefix...), "exhaustive")
		}
		if len(prefix) == maxLen {
			return
		}
		for _, g := range grid {
			rec(append(prefix, g))
		}
	}
	rec(nil)
}

func c20pairs[V c20int](out *Out, ty string, bitsN int, signed bool) {
	var vals []*big.Int
	seen := map[string]bool{}
	lo, hi := bi(0), bsub(pow2(bitsN), bi(1))
	if signed {
		lo, hi = new(big.Int).Neg(pow2(bitsN-1)), bsub(pow2(bitsN-1), bi(1))
	}
	bases := []*big.Int{bi(0), pow2(bitsN / 2), pow2(bitsN - 2), pow2(bitsN - 1), pow2(bitsN)}
	for _, b := range bases {
		for _, sg := range []int64{1, -1} {
			for d := int64(-1); d <= 1; d++ {
				v := badd(bmul(b, bi(sg)), bi(d))
				if v.Cmp(lo) >= 0 && v.Cmp(hi) <= 0 && !seen[v.String()] {
					seen[v.String()] = true
					vals = append(vals, v)
				}
			}
		}
	}
	for _, a := range vals {
		for _, b := range vals {
			c20median(out, ty, []V{c20conv[V](a), c20conv[V](b)}, "pairs")
		}
	}
}

func TestC20Median(t *testing.T) {
	out := newOut(t, "c20_median")
	defer out.Close()
	r := rand.New(rand.NewSource(seed()))
	// corpus: empty input, the three branches of the even case at their extremes
	c20median(out, "U64", []uint64{}, "corpus")
	c20median(out, "I64", []int64{}, "corpus")
	c20median(out, "U64", []uint64{math.MaxUint64, math.MaxUint64 - 1}, "corpus")
	c20median(out, "U64", []uint64{math.MaxUint64, 1}, "corpus")
	c20median(out, "U64", []uint64{0, math.MaxUint64}, "corpus")
	c20median(out, "U64", []uint64{1 << 63, 1 << 63}, "corpus")
	c20median(out, "I64", []int64{math.MinInt64, math.MaxInt64}, "corpus")
	c20median(out, "I64", []int64{math.MinInt64, math.MinInt64 + 1}, "corpus")
	c20median(out, "I64", []int64{math.MinInt64, -1}, "corpus")
	c20median(out, "I64", []int64{math.MinInt64, 0}, "corpus")
	c20median(out, "I64", []int64{math.MaxInt64, math.MaxInt64 - 1}, "corpus")
	c20median(out, "I64", []int64{math.MaxInt64, 1}, "corpus")
	c20median(out, "I64", []int64{-3, 0}, "corpus")
	c20median(out, "I64", []int64{-2, 1}, "corpus")
	c20median(out, "I64", []int64{-1, 2}, "corpus")
	c20median(out, "I32", []int32{math.MinInt32, math.MaxInt32}, "corpus")
	c20median(out, "I32", []int32{math.MinInt32, -2}, "corpus")
	c20median(out, "U32", []uint32{math.MaxUint32, math.MaxUint32 - 2}, "corpus")
	c20median(out, "U32", []uint32{3, math.MaxUint32, 1, 2}, "corpus")

	n := count(450, 250000)
	su64, si64 := c20specials(64, false), c20specials(64, true)
	su32, si32 := c20specials(32, false), c20specials(32, true)
	for i := 0; i < n; i++ {
		c20median(out, "U64", c20genList[uint64](r, 64, false, su64))
		c20median(out, "I64", c20genList[int64](r, 64, true, si64))
		c20median(out, "U32", c20genList[uint32](r, 32, false, su32))
		c20median(out, "I32", c20genList[int32](r, 32, true, si32))
	}
	// all ordered pairs of the boundary values +-1 (the even case is where the arithmetic is)
	c20pairs[uint64](out, "U64", 64, false)
	c20pairs[int64](out, "I64", 64, true)
	// exhaustive grids of 9 boundary values: lengths <= 3 (64 bit), <= 2 (32 bit); thorough: 4 / 3
	l64, l32 := 3, 2
	if thorough() {
		l64, l32 = 4, 3
	}
	c20grid(out, "U64", []uint64{0, 1, 2, 1 << 31, 1 << 32, 1<<63 - 1, 1 << 63, 1<<63 + 1, math.MaxUint64}, l64)
	c20grid(out, "I64", []int64{math.MinInt64, math.MinInt64 + 1, -2, -1, 0, 1, 2, math.MaxInt64 - 1, math.MaxInt64}, l64)
	c20grid(out, "U32", []uint32{0, 1, 2, 3, 1<<31 - 1, 1 << 31, 1<<31 + 1, math.MaxUint32 - 1, math.MaxUint32}, l32)
	c20grid(out, "I32", []int32{math.MinInt32, math.MinInt32 + 1, -2, -1, 0, 1, 2, math.MaxInt32 - 1, math.MaxInt32}, l32)
}

// ---------------------------------------------------------------------------------------------
// the price store
// ---------------------------------------------------------------------------------------------
var c20ns = big.NewInt(1_000_000_000)

// model time = nanoseconds since the Unix epoch (big, since Go's zero Time is -6.2e19 ns)
func c20time(ns *big.Int) time.Time {
	sec, nsec := new(big.Int).DivMod(ns, c20ns, new(big.Int)) // Euclidean: 0 <= nsec
	return time.Unix(sec.Int64(), nsec.Int64()).UTC()
}

func c20unix(t time.Time) *big.Int {
	return badd(bmul(bi(t.Unix()), c20ns), bi(int64(t.Nanosecond())))
}

var c20zero = c20unix(time.Time{})

const c20T0 = int64(1_700_000_000) * 1_000_000_000

type c20xp struct {
	ex    int
	price uint64
	t     *big.Int
}
type c20mu struct {
	market uint32
	prices []c20xp
}
type c20mp struct {
	id  uint32
	min uint32
}

func c20exName(i int) string { return fmt.Sprintf("exchange%d", i) }
func c20exID(s string) int {
	var i int
	if _, err := fmt.Sscanf(s, "exchange%d", &i); err != nil {
		panic(err)
	}
	return i
}

func c20coqUpdates(us []c20mu) string {
	ms := make([]string, len(us))
	for i, u := range us {
		xs := make([]string, len(u.prices))
		for j, x := range u.prices {
			xs[j] = fmt.Sprintf("XP %d %s %s", x.ex, czu(x.price), cz(x.t))
		}
		ms[i] = fmt.Sprintf("MU %d %s", u.market, clist(xs))
	}
	return clist(ms)
}

func c20realUpdates(us []c20mu) []*servertypes.MarketPriceUpdate {
	res := make([]*servertypes.MarketPriceUpdate, len(us))
	for i, u := range us {
		xs := make([]*servertypes.ExchangePrice, len(u.prices))
		for j, x := range u.prices {
			tt := c20time(x.t)
			xs[j] = &servertypes.ExchangePrice{ExchangeId: c20exName(x.ex), Price: x.price, LastUpdateTime: &tt}
		}
		res[i] = &servertypes.MarketPriceUpdate{MarketId: u.market, ExchangePrices: xs}
	}
	return res
}

func c20coqParams(ps []c20mp) string {
	items := make([]string, len(ps))
	for i, p := range ps {
		items[i] = fmt.Sprintf("MP %d %d", p.id, p.min)
	}
	return clist(items)
}

func c20realParams(ps []c20mp) []clienttypes.MarketParam {
	res := make([]clienttypes.MarketParam, len(ps))
	for i, p := range ps {
		res[i] = clienttypes.MarketParam{Id: p.id, MinExchanges: p.min, Pair: fmt.Sprintf("M%d-USD", p.id), Exponent: -5}
	}
	return res
}

func c20coqResult(m map[uint32]uint64) string {
	keys := make([]int, 0, len(m))
	for k := range m {
		keys = append(keys, int(k))
	}
	sort.Ints(keys)
	items := make([]string, len(keys))
	for i, k := range keys {
		items[i] = fmt.Sprintf("(%d, %s)", k, czu(m[uint32(k)]))
	}
	return clist(items)
}

// c20dump reads the private maps of the real object (reflection; the caller holds no lock and
// no other goroutine is running)
func c20dump(mte *pricefeed.MarketToExchangePrices) string {
	type cellT struct {
		m, x int
		t    *big.Int
		p    uint64
	}
	var cells []cellT
	mv := reflect.ValueOf(mte).Elem().FieldByName("marketToExchangePrices")
	if !mv.IsValid() || mv.Kind() != reflect.Map {
		panic("c20dump: field marketToExchangePrices not found")
	}
	it := mv.MapRange()
	for it.Next() {
		market := int(it.Key().Uint())
		ev := it.Value().Elem().FieldByName("exchangeToPriceTimestamp")
		if !ev.IsValid() || ev.Kind() != reflect.Map {
			panic("c20dump: field exchangeToPriceTimestamp not found")
		}
		it2 := ev.MapRange()
		for it2.Next() {
			pt := (*pftypes.PriceTimestamp)(unsafe.Pointer(it2.Value().Pointer()))
			cells = append(cells, cellT{market, c20exID(it2.Key().String()), c20unix(pt.LastUpdateTime), pt.Price})
		}
	}
	sort.Slice(cells, func(i, j int) bool {
		if cells[i].m != cells[j].m {
			return cells[i].m < cells[j].m
		}
		return cells[i].x < cells[j].x
	})
	items := make([]string, len(cells))
	for i, c := range cells {
		items[i] = fmt.Sprintf("Cell %d %d %s %s", c.m, c.x, cz(c.t), czu(c.p))
	}
	return clist(items)
}

var c20prices = []uint64{0, 1, 2, 3, 10, 11, 100, 1 << 31, 1<<32 + 1, 1<<63 - 1, 1 << 63, 1<<63 + 1, math.MaxUint64 - 1, math.MaxUint64}

type c20seqGen struct {
	r      *rand.Rand
	maxAge int64
	used   []*big.Int // update times used so far
}

func (g *c20seqGen) updTime() *big.Int {
	r := g.r
	if len(g.used) > 0 && r.Intn(10) < 7 {
		// equal / one older / one newer than a time already used: stale, equal, out of order
		return badd(g.used[r.Intn(len(g.used))], bi(int64(r.Intn(3)-1)))
	}
	return badd(bi(c20T0), bi(int64(r.Intn(8))*pick(r, int64(1), 1, 1000, g.maxAge+1)))
}

func (g *c20seqGen) update() []c20mu {
	r := g.r
	us := make([]c20mu, 1+r.Intn(3))
	for i := range us {
		us[i].market = uint32(r.Intn(3))
		k := r.Intn(5)
		if r.Intn(8) == 0 {
			k = 0 // market entry created without any exchange price
		}
		for j := 0; j < k; j++ {
			t := g.updTime()
			g.used = append(g.used, t)
			p := pick(r, c20prices...)
			if r.Intn(3) == 0 {
				p = r.Uint64()
			}
			us[i].prices = append(us[i].prices, c20xp{r.Intn(5), p, t})
		}
	}
	return us
}

func (g *c20seqGen) read() ([]c20mp, *big.Int) {
	r := g.r
	ps := make([]c20mp, 0, 4)
	for m := 0; m < 4; m++ { // market 3 never receives a price
		if r.Intn(5) > 0 {
			ps = append(ps, c20mp{uint32(m), uint32(r.Intn(5))})
		}
	}
	if r.Intn(6) == 0 && len(ps) > 0 { // the same market twice, with another minimum
		ps = append(ps, c20mp{ps[0].id, uint32(r.Intn(5))})
	}
	r.Shuffle(len(ps), func(a, b int) { ps[a], ps[b] = ps[b], ps[a] })
	var readT *big.Int
	if len(g.used) > 0 && r.Intn(10) < 8 {
		// cutoff = readT - maxAge at a stored time +-1 ns
		readT = badd(badd(g.used[r.Intn(len(g.used))], bi(g.maxAge)), bi(int64(r.Intn(3)-1)))
	} else {
		readT = badd(bi(c20T0), bi(r.Int63n(4*(g.maxAge+2))))
	}
	return ps, readT
}

func TestC20Sequential(t *testing.T) {
	out := newOut(t, "c20_seq")
	defer out.Close()
	r := rand.New(rand.NewSource(seed()))
	type step struct {
		upd   []c20mu // nil = read
		ps    []c20mp
		readT *big.Int
	}
	run := func(maxAge int64, steps []step, tags ...string) {
		mte := pricefeed.NewMarketToExchangePrices(time.Duration(maxAge))
		var ops []string
		reads, served, updates := 0, 0, 0
		for _, s := range steps {
			if s.upd != nil {
				mte.UpdatePrices(c20realUpdates(s.upd))
				ops = append(ops, "SUpdate "+c20coqUpdates(s.upd), "SDump "+c20dump(mte))
				updates++
			} else {
				res := mte.GetValidMedianPrices(c20realParams(s.ps), c20time(s.readT))
				ops = append(ops, fmt.Sprintf("SRead %s %s %s", c20coqParams(s.ps), cz(s.readT), c20coqResult(res)))
				reads++
				served += len(res)
			}
		}
		kind := "served=0"
		if served > 0 {
			kind = "served>0"
		}
		coq := fmt.Sprintf("SeqCase %d %s", maxAge, clist(ops))
		out.Emit(Case{Coq: coq, Kind: kind, Nontrivial: updates >= 1 && reads >= 1, Key: coq, Tags: tags,
			Human: map[string]interface{}{"maxAge_ns": maxAge, "updates": updates, "reads": reads, "prices_served": served}})
	}
	T := func(d int64) *big.Int { return badd(bi(c20T0), bi(d)) }
	U := func(m uint32, xs ...c20xp) step { return step{upd: []c20mu{{m, xs}}} }
	R := func(readT *big.Int, ps ...c20mp) step { return step{ps: ps, readT: readT} }
	// corpus: equal / stale / newer timestamps; the cutoff exactly at, 1 ns before and after the update time
	run(10, []step{U(0, c20xp{0, 100, T(5)}), R(T(15), c20mp{0, 1}), R(T(16), c20mp{0, 1}), R(T(14), c20mp{0, 1})}, "corpus")
	run(10, []step{U(0, c20xp{0, 100, T(5)}), U(0, c20xp{0, 200, T(5)}), R(T(15), c20mp{0, 1}),
		U(0, c20xp{0, 300, T(4)}), R(T(14), c20mp{0, 1}), U(0, c20xp{0, 400, T(6)}), R(T(16), c20mp{0, 1})}, "corpus")
	run(0, []step{U(1, c20xp{0, math.MaxUint64, T(1)}, c20xp{1, math.MaxUint64 - 1, T(1)}), R(T(1), c20mp{1, 2}), R(T(1), c20mp{1, 3}),
		R(T(2), c20mp{1, 0})}, "corpus")
	run(5, []step{U(2), R(T(0), c20mp{2, 0}), R(T(0), c20mp{3, 0})}, "corpus")
	run(5, []step{U(0, c20xp{0, 1, T(0)}, c20xp{1, 2, T(1)}, c20xp{2, 4, T(2)}, c20xp{0, 7, T(0)}, c20xp{1, 9, T(2)}),
		R(T(5), c20mp{0, 3}, c20mp{0, 4}), R(T(6), c20mp{0, 4}, c20mp{0, 2}), R(T(7), c20mp{0, 1}), R(T(8), c20mp{0, 0})}, "corpus")
	// Go's zero Time: an update stamped at (or before) 0001-01-01 is never "After" the fresh entry
	run(5, []step{U(0, c20xp{0, 77, c20zero}), R(T(0), c20mp{0, 0}), U(0, c20xp{0, 78, badd(c20zero, bi(1))}),
		U(0, c20xp{1, 79, bsub(c20zero, bi(1))}), R(T(0), c20mp{0, 0}), R(badd(c20zero, bi(5)), c20mp{0, 0}),
		R(badd(c20zero, bi(6)), c20mp{0, 1}), R(badd(c20zero, bi(7)), c20mp{0, 1})}, "corpus:zero-time")

	n := count(320, 12000)
	for i := 0; i < n; i++ {
		g := &c20seqGen{r: r, maxAge: pick(r, int64(0), 1, 2, 1000, 30_000_000_000)}
		k := 3 + r.Intn(12)
		steps := make([]step, 0, k)
		for j := 0; j < k; j++ {
			if j == 0 || r.Intn(2) == 0 {
				steps = append(steps, step{upd: g.update()})
			} else {
				ps, rt := g.read()
				steps = append(steps, step{ps: ps, readT: rt})
			}
		}
		ps, rt := g.read()
		steps = append(steps, step{ps: ps, readT: rt})
		run(g.maxAge, steps)
	}
}

// ---------------------------------------------------------------------------------------------
// concurrent histories
// ---------------------------------------------------------------------------------------------
type c20call struct {
	upd      []c20mu
	ps       []c20mp
	readT    *big.Int
	inv, res int64
	out      map[uint32]uint64
}

func TestC20Concurrent(t *testing.T) {
	out := newOut(t, "c20_conc")
	defer out.Close()
	r := rand.New(rand.NewSource(seed()))
	n := count(220, 10000)
	for i := 0; i < n; i++ {
		G := 2 + r.Intn(3)
		per := 2 + r.Intn(3)
		if G*per > 12 {
			per = 12 / G
		}
		maxAge := pick(r, int64(0), 1, 2)
		priceCtr := uint64(100) // distinct prices: a lost update is visible in the final store
		plans := make([][]*c20call, G)
		for g := range plans {
			for j := 0; j < per; j++ {
				c := &c20call{}
				if r.Intn(5) < 3 {
					k := 1 + r.Intn(2)
					first := r.Intn(2)
					for a := 0; a < k; a++ {
						// a two-part update always touches both markets: a read in between would see half of it
						mu := c20mu{market: uint32((first + a) % 2)}
						for b := 0; b < 1+r.Intn(3); b++ {
							priceCtr += uint64(1 + r.Intn(3))
							mu.prices = append(mu.prices, c20xp{r.Intn(3), priceCtr, badd(bi(c20T0), bi(int64(r.Intn(4))))})
						}
						c.upd = append(c.upd, mu)
					}
				} else {
					for m := 0; m < 2; m++ {
						if r.Intn(4) > 0 {
							c.ps = append(c.ps, c20mp{uint32(m), uint32(r.Intn(3))})
						}
					}
					c.readT = badd(bi(c20T0), bi(maxAge+int64(r.Intn(4))))
				}
				plans[g] = append(plans[g], c)
			}
		}
		mte := pricefeed.NewMarketToExchangePrices(time.Duration(maxAge))
		var ctr atomic.Int64
		var wg sync.WaitGroup
		start := make(chan struct{})
		// four fifths of the histories: all goroutines enter round k together (spin barrier), so
		// that the calls really contend for the mutex; the rest only share the start signal
		lockstep := i%5 != 0
		arrived := make([]atomic.Int32, per)
		for g := range plans {
			wg.Add(1)
			go func(calls []*c20call) {
				defer wg.Done()
				// arguments are built before the stamp so that the stamped interval is the call itself
				type prepared struct {
					u  []*servertypes.MarketPriceUpdate
					p  []clienttypes.MarketParam
					rt time.Time
				}
				pre := make([]prepared, len(calls))
				for k, c := range calls {
					if c.upd != nil {
						pre[k].u = c20realUpdates(c.upd)
					} else {
						pre[k].p, pre[k].rt = c20realParams(c.ps), c20time(c.readT)
					}
				}
				<-start
				for k, c := range calls {
					if lockstep {
						arrived[k].Add(1)
						for spin := 0; arrived[k].Load() < int32(G); spin++ {
							if spin%1024 == 1023 {
								runtime.Gosched()
							}
						}
					}
					c.inv = ctr.Add(1)
					if c.upd != nil {
						mte.UpdatePrices(pre[k].u)
					} else {
						c.out = mte.GetValidMedianPrices(pre[k].p, pre[k].rt)
					}
					c.res = ctr.Add(1)
				}
			}(plans[g])
		}
		close(start)
		wg.Wait()
		var all []*c20call
		for _, p := range plans {
			all = append(all, p...)
		}
		sort.Slice(all, func(a, b int) bool { return all[a].inv < all[b].inv })
		overlaps := 0
		for a := range all {
			for b := a + 1; b < len(all); b++ {
				if all[b].inv < all[a].res {
					overlaps++
				}
			}
		}
		items := make([]string, len(all))
		for k, c := range all {
			op := ""
			if c.upd != nil {
				op = "(CUpdate " + c20coqUpdates(c.upd) + ")"
			} else {
				op = fmt.Sprintf("(CRead %s %s)", c20coqParams(c.ps), cz(c.readT))
			}
			items[k] = fmt.Sprintf("Call %d %d %s %s", c.inv, c.res, op, c20coqResult(c.out))
		}
		kind := "overlap=0"
		switch {
		case overlaps >= 4:
			kind = "overlap>=4"
		case overlaps >= 1:
			kind = "overlap=1..3"
		}
		coq := fmt.Sprintf("ConcCase %d %s %s", maxAge, clist(items), c20dump(mte))
		out.Emit(Case{Coq: coq, Kind: kind, Nontrivial: overlaps >= 1, Key: coq,
			Human: map[string]interface{}{"goroutines": G, "calls": len(all), "overlapping_pairs": overlaps}})
	}
}

// ---------------------------------------------------------------------------------------------
// lock discipline: source scan
// ---------------------------------------------------------------------------------------------
func c20repo() string {
	if d := os.Getenv("VERIF_REPO"); d != "" {
		return d
	}
	return "/repo"
}

func c20isRecvCall(e ast.Expr, recv, method string) bool {
	call, ok := e.(*ast.CallExpr)
	if !ok || len(call.Args) != 0 {
		return false
	}
	sel, ok := call.Fun.(*ast.SelectorExpr)
	if !ok || sel.Sel.Name != method {
		return false
	}
	id, ok := sel.X.(*ast.Ident)
	return ok && recv != "" && id.Name == recv
}

func TestC20LockDiscipline(t *testing.T) {
	out := newOut(t, "c20_lock")
	defer out.Close()
	dir := filepath.Join(c20repo(), "daemons", "server", "types", "pricefeed")
	fset := token.NewFileSet()
	pkgs, err := parser.ParseDir(fset, dir, func(fi os.FileInfo) bool { return !strings.HasSuffix(fi.Name(), "_test.go") }, 0)
	if err != nil {
		t.Fatal(err)
	}
	// the guarded fields: map-typed fields of the struct that embeds sync.Mutex
	guardedFields := map[string]bool{}
	structName := ""
	var files []*ast.File
	for _, p := range pkgs {
		for _, f := range p.Files {
			files = append(files, f)
			ast.Inspect(f, func(n ast.Node) bool {
				ts, ok := n.(*ast.TypeSpec)
				if !ok {
					return true
				}
				st, ok := ts.Type.(*ast.StructType)
				if !ok {
					return true
				}
				hasMutex := false
				var maps []string
				for _, fld := range st.Fields.List {
					if len(fld.Names) == 0 {
						// (a sync.RWMutex also marks the struct; its read path then shows up as "not guarded by Lock()")
						if se, ok := fld.Type.(*ast.SelectorExpr); ok && (se.Sel.Name == "Mutex" || se.Sel.Name == "RWMutex") {
							hasMutex = true
						}
					}
					if _, ok := fld.Type.(*ast.MapType); ok {
						for _, nm := range fld.Names {
							maps = append(maps, nm.Name)
						}
					}
				}
				if hasMutex {
					structName = ts.Name.Name
					for _, m := range maps {
						guardedFields[m] = true
					}
				}
				return true
			})
		}
	}
	if structName == "" || len(guardedFields) == 0 {
		// no mutex-guarded struct with a map field: report an empty scan (the Coq side then misses the two methods)
		out.Emit(Case{Coq: "LockCase []", Kind: "lock-scan", Nontrivial: false, Key: "LockCase []",
			Human: map[string]interface{}{"struct": "", "note": "no mutex-guarded struct with a map field found in " + dir}})
		return
	}
	mentions := func(n ast.Node) bool {
		found := false
		ast.Inspect(n, func(x ast.Node) bool {
			if se, ok := x.(*ast.SelectorExpr); ok && guardedFields[se.Sel.Name] {
				found = true
			}
			return !found
		})
		return found
	}
	var facts, names []string
	sort.Slice(files, func(i, j int) bool { return fset.Position(files[i].Pos()).Filename < fset.Position(files[j].Pos()).Filename })
	for _, f := range files {
		for _, d := range f.Decls {
			fd, ok := d.(*ast.FuncDecl)
			if !ok || fd.Body == nil || !mentions(fd.Body) {
				continue
			}
			recv := ""
			if fd.Recv != nil && len(fd.Recv.List) == 1 && len(fd.Recv.List[0].Names) == 1 {
				recv = fd.Recv.List[0].Names[0].Name
			}
			iLock, iDefer, iFirst := -1, -1, -1
			for i, s := range fd.Body.List {
				if es, ok := s.(*ast.ExprStmt); ok && iLock < 0 && c20isRecvCall(es.X, recv, "Lock") {
					iLock = i
					continue
				}
				if ds, ok := s.(*ast.DeferStmt); ok && iDefer < 0 && c20isRecvCall(ds.Call, recv, "Unlock") {
					iDefer = i
					continue
				}
				if iFirst < 0 && mentions(s) {
					iFirst = i
				}
			}
			unlocks, gos := 0, 0
			ast.Inspect(fd.Body, func(x ast.Node) bool {
				switch v := x.(type) {
				case *ast.CallExpr:
					if se, ok := v.Fun.(*ast.SelectorExpr); ok && (se.Sel.Name == "Unlock" || se.Sel.Name == "TryLock") {
						unlocks++
					}
				case *ast.GoStmt:
					gos++
				}
				return true
			})
			guarded := iLock >= 0 && iDefer == iLock+1 && iFirst > iDefer && unlocks == 1 && gos == 0
			escapes := false
			if fd.Type.Results != nil {
				for _, res := range fd.Type.Results.List {
					ast.Inspect(res.Type, func(x ast.Node) bool {
						if id, ok := x.(*ast.Ident); ok && id.Name == "ExchangeToPrice" {
							escapes = true
						}
						return true
					})
				}
			}
			facts = append(facts, fmt.Sprintf("LockFact %s %s %s", cstr(fd.Name.Name), cbool(guarded), cbool(escapes)))
			names = append(names, fd.Name.Name)
		}
	}
	coq := "LockCase " + clist(facts)
	out.Emit(Case{Coq: coq, Kind: "lock-scan", Nontrivial: len(facts) >= 2, Key: coq,
		Human: map[string]interface{}{"struct": structName, "functions_touching_the_map": names}})
}


// TestC20ParallelReads: after a batch of updates, many goroutines read the SAME markets at the same time (no update
// runs meanwhile, so every read has one correct answer: the sequential one).  Emitted as a SeqCase whose reads are the
// concurrent ones: state that readers share (a reused buffer, a cached result) shows up as a wrong median.
func TestC20ParallelReads(t *testing.T) {
	out := newOut(t, "c20_parreads")
	defer out.Close()
	r := rand.New(rand.NewSource(seed()*17 + 3))
	n := count(40, 1500)
	for i := 0; i < n; i++ {
		g := &c20seqGen{r: r, maxAge: pick(r, int64(2), 1000, 30_000_000_000)}
		mte := pricefeed.NewMarketToExchangePrices(time.Duration(g.maxAge))
		var ops []string
		nu := 2 + r.Intn(4)
		for k := 0; k < nu; k++ {
			u := g.update()
			mte.UpdatePrices(c20realUpdates(u))
			ops = append(ops, "SUpdate "+c20coqUpdates(u))
		}
		type rd struct {
			ps    []c20mp
			readT *big.Int
			res   map[uint32]uint64
		}
		G := 4 + r.Intn(5)
		per := 6 + r.Intn(10)
		reads := make([][]rd, G)
		for gi := 0; gi < G; gi++ {
			for k := 0; k < per; k++ {
				ps, rt := g.read()
				reads[gi] = append(reads[gi], rd{ps: ps, readT: rt})
			}
		}
		var wg sync.WaitGroup
		start := make(chan struct{})
		for gi := 0; gi < G; gi++ {
			wg.Add(1)
			go func(gi int) {
				defer wg.Done()
				<-start
				for k := range reads[gi] {
					reads[gi][k].res = mte.GetValidMedianPrices(c20realParams(reads[gi][k].ps), c20time(reads[gi][k].readT))
					if k%3 == 0 {
						runtime.Gosched()
					}
				}
			}(gi)
		}
		close(start)
		wg.Wait()
		served := 0
		for gi := range reads {
			for _, x := range reads[gi] {
				ops = append(ops, fmt.Sprintf("SRead %s %s %s", c20coqParams(x.ps), cz(x.readT), c20coqResult(x.res)))
				served += len(x.res)
			}
		}
		kind := "served=0"
		if served > 0 {
			kind = "served>0"
		}
		coq := fmt.Sprintf("SeqCase %d %s", g.maxAge, clist(ops))
		out.Emit(Case{Coq: coq, Kind: kind, Nontrivial: served > 0, Key: fmt.Sprint(i),
			Human: map[string]interface{}{"maxAge_ns": g.maxAge, "updates": nu, "goroutines": G, "reads_per_goroutine": per, "prices_served": served}})
	}
}
