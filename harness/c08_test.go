package harness

import (
	"encoding/binary"
	"encoding/hex"
	"fmt"
	"math/rand"
	"strings"
	"testing"
	"time"

	"github.com/tellor-io/layer/utils"
	oraclekeeper "github.com/tellor-io/layer/x/oracle/keeper"
	bridgetypes "github.com/tellor-io/layer/x/bridge/types"
	disputetypes "github.com/tellor-io/layer/x/dispute/types"
	oracletypes "github.com/tellor-io/layer/x/oracle/types"
	registrytypes "github.com/tellor-io/layer/x/registry/types"

	"cosmossdk.io/collections"

	sdk "github.com/cosmos/cosmos-sdk/types"
)

// query ids are identified by their first 7 bytes (order preserving)
func qidNum(q []byte) uint64 {
	b := make([]byte, 8)
	copy(b[1:], q[:7])
	return binary.BigEndian.Uint64(b)
}

func (w *World) c08Store() ([]string, map[uint64][]uint64, map[uint64][]byte) {
	var aggs []string
	tss := map[uint64][]uint64{}
	full := map[uint64][]byte{}
	_ = w.s.Oraclekeeper.Aggregates.Walk(w.ctx, nil, func(k collections.Pair[[]byte, uint64], a oracletypes.Aggregate) (bool, error) {
		rs := make([]string, len(a.Reporters))
		for i, x := range a.Reporters {
			rs[i] = fmt.Sprint(w.acctByBech(x.Reporter))
		}
		q := qidNum(k.K1())
		aggs = append(aggs, fmt.Sprintf("{| ag_qid := %d; ag_ts := %d; ag_height := %d; ag_nonce := %d; ag_meta := %d; ag_reporters := %s; ag_power := %d; ag_flagged := %s; ag_agg_reporter := %d; ag_micro_height := %d |}",
			q, k.K2(), a.Height, a.Index, a.MetaId, clist(rs), a.ReporterPower, cbool(a.Flagged), w.acctByBech(a.AggregateReporter), a.MicroHeight))
		tss[q] = append(tss[q], k.K2())
		full[q] = k.K1()
		return false, nil
	})
	return aggs, tss, full
}

func (w *World) acctByBech(s string) int {
	a, err := sdk.AccAddressFromBech32(s)
	if err != nil {
		return -7
	}
	return w.acctID(a)
}

func optKey(a *oracletypes.Aggregate, ts time.Time, err error) string {
	if err != nil || a == nil {
		return "None"
	}
	return fmt.Sprintf("(Some (%d, %d))", ts.UnixMilli(), a.Index)
}

func optTs(t time.Time, err error) string {
	if err != nil {
		return "None"
	}
	return fmt.Sprintf("(Some %d)", t.UnixMilli())
}

func TestC08History(t *testing.T) {
	out := newOut(t, "c08_history")
	defer out.Close()
	n := count(14, 500)
	for i := 0; i < n; i++ {
		r := rand.New(rand.NewSource(seed()*32452843 + int64(i)))
		w := newWorld(t, r, 2+r.Intn(2), 3)
		for _, qt := range []string{"spotprice"} {
			spec, _ := w.s.Registrykeeper.GetSpec(w.ctx, qt)
			spec.ReportBlockWindow = uint64(pick(r, 0, 1, 2))
			w.deliver("UpdateDataSpec", -3, nil, func(ctx sdk.Context) error {
				_, err := w.registryMS.UpdateDataSpec(ctx, &registrytypes.MsgUpdateDataSpec{Authority: w.authority, QueryType: qt, Spec: spec})
				return err
			})
		}
		nProbe, nAppend, nFlag := 0, 0, 0
		for b := 0; b < 30 && w.halted == ""; b++ {
			w.beginBlock(time.Duration(1+r.Intn(4000)) * time.Millisecond)
			step := func(name string, flags []string, f func()) {
				before, _, _ := w.c08Store()
				f()
				after, _, _ := w.c08Store()
				out.Emit(Case{Coq: fmt.Sprintf("AppendCase %s %s %s %s", cstr(name), clist(before), clist(after), clist(flags)), Kind: "append/" + name,
					Nontrivial: len(before) >= 2, Key: fmt.Sprint(seed(), i, b, nAppend)})
				nAppend++
			}
			for m := r.Intn(5); m > 0; m-- {
				a := w.randAcct()
				switch r.Intn(10) {
				case 0, 1:
					qd := pick(r, w.queries...)
					step("Tip", nil, func() {
						w.deliver("Tip", a, nil, func(ctx sdk.Context) error {
							_, err := w.oracleMS.Tip(ctx, &oracletypes.MsgTip{Tipper: w.accts[a].String(), QueryData: qd, Amount: w.coin(bi(100000))})
							return err
						})
					})
				case 2, 3, 4, 5:
					rep := r.Intn(2)
					qd := w.currentCycleQuery()
					if r.Intn(3) == 0 {
						qd = pick(r, w.queries...)
					}
					qds := [][]byte{qd}
					if r.Intn(3) == 0 {
						// reports on several queries in one block: their aggregates share the block of the deciding report
						qds = append(qds, pick(r, w.queries...), pick(r, w.queries...))
					}
					for _, qd := range qds {
						qd := qd
						step("SubmitValue", nil, func() {
							w.deliver("SubmitValue", rep, nil, func(ctx sdk.Context) error {
								_, err := w.oracleMS.SubmitValue(ctx, &oracletypes.MsgSubmitValue{Creator: w.accts[rep].String(), QueryData: qd, Value: randHex(r, 64)})
								if err == nil {
									w.noteReport(ctx, utils.QueryIDFromData(qd), w.accts[rep])
								}
								return err
							})
						})
					}
				case 6:
					step("WithdrawTokens", nil, func() {
						w.deliver("WithdrawTokens", a, nil, func(ctx sdk.Context) error {
							_, err := w.bridgeMS.WithdrawTokens(ctx, &bridgetypes.MsgWithdrawTokens{Creator: w.accts[a].String(), Recipient: randHex(r, 40), Amount: w.coin(bi(int64(1 + r.Intn(1000000))))})
							return err
						})
					})
				case 7, 8:
					if len(w.recent) == 0 {
						continue
					}
					rep := pick(r, w.recent...)
					if r.Intn(5) == 0 && len(w.accts) > 2 {
						rep.Reporter = w.accts[r.Intn(2)].String() // name the other reporter
					}
					if r.Intn(4) == 0 {
						rep.Reporter = strings.ToUpper(rep.Reporter) // the all-upper-case spelling of the same address
					}
					cat := pick(r, disputetypes.Warning, disputetypes.Minor, disputetypes.Major)
					pct := map[disputetypes.DisputeCategory]int64{disputetypes.Warning: 100, disputetypes.Minor: 20, disputetypes.Major: 1}[cat]
					fee := bquo(bmul(bi(int64(rep.Power)), bi(loyaPerTRB)), bi(pct))
					if r.Intn(3) == 0 {
						fee = bquo(fee, bi(2))
					}
					var flags []string
					op := func(ctx sdk.Context) error {
						_, err := w.disputeMS.ProposeDispute(ctx, &disputetypes.MsgProposeDispute{Creator: w.accts[a].String(), Report: &rep, DisputeCategory: cat, Fee: w.coin(fee), PayFromBond: false})
						return err
					}
					// flagged iff the dispute becomes fully funded (status voting) in this operation
					cctx, _ := w.ctx.CacheContext()
					funded := false
					func() {
						defer func() { _ = recover() }()
						if op(cctx) == nil {
							ds, _ := w.s.Disputekeeper.GetOpenDisputes(cctx)
							for _, id := range ds {
								if d, err := w.s.Disputekeeper.Disputes.Get(cctx, id); err == nil && d.DisputeStatus == disputetypes.Voting {
									if _, errOld := w.s.Disputekeeper.Disputes.Get(w.ctx, id); errOld != nil {
										funded = true
									}
								}
							}
						}
					}()
					if funded {
						flags = append(flags, fmt.Sprintf("(%d, %d, %d)", qidNum(rep.QueryId), w.acctByBech(rep.Reporter), rep.BlockNumber))
						nFlag++
					}
					step("ProposeDispute", flags, func() {
						res := w.deliver("ProposeDispute", a, nil, op)
						if res.result == 0 {
							ds, _ := w.s.Disputekeeper.GetOpenDisputes(w.ctx)
							w.disputes = ds
						}
					})
				case 9:
					if len(w.disputes) == 0 || len(w.recent) == 0 {
						continue
					}
					id := pick(r, w.disputes...)
					rep := pick(r, w.recent...)
					if r.Intn(4) == 0 {
						rep.Reporter = strings.ToUpper(rep.Reporter)
					}
					accepted := false
					var flags []string
					d, err := w.s.Disputekeeper.Disputes.Get(w.ctx, id)
					if err == nil && d.Open {
						accepted = true
						flags = append(flags, fmt.Sprintf("(%d, %d, %d)", qidNum(rep.QueryId), w.acctByBech(rep.Reporter), rep.BlockNumber))
						nFlag++
					}
					_ = accepted
					step("AddEvidence", flags, func() {
						w.deliver("AddEvidence", a, nil, func(ctx sdk.Context) error {
							_, err := w.disputeMS.AddEvidence(ctx, &disputetypes.MsgAddEvidence{CallerAddress: w.accts[a].String(), DisputeId: id, Reports: []*oracletypes.MicroReport{&rep}})
							return err
						})
					})
				}
			}
			{
				before, _, _ := w.c08Store()
				w.endBlock()
				after, tss, full := w.c08Store()
				out.Emit(Case{Coq: fmt.Sprintf("AppendCase %s %s %s []", cstr("EndBlock"), clist(before), clist(after)), Kind: "append/EndBlock",
					Nontrivial: len(after) > len(before), Key: fmt.Sprint(seed(), i, b, "end")})
				// attestation snapshots written in this block (bridge end blocker) and, every third block, snapshots
				// requested for up to three stored aggregates (CreateSnapshot as MsgRequestAttestations calls it), on a cache context
				{
					cctx, _ := w.ctx.CacheContext()
					if b%3 == 1 {
						for q, ts := range tss {
							for k := 0; k < 3 && len(ts) > 0; k++ {
								func() {
									defer func() { _ = recover() }()
									_ = w.s.Bridgekeeper.CreateSnapshot(cctx, full[q], time.UnixMilli(int64(ts[r.Intn(len(ts))])), true)
								}()
							}
						}
					}
					var snaps []string
					_ = w.s.Bridgekeeper.AttestSnapshotDataMap.Walk(cctx, nil, func(k []byte, d bridgetypes.AttestationSnapshotData) (bool, error) {
						if d.AttestationTimestamp == uint64(w.now.UnixMilli()) {
							snaps = append(snaps, fmt.Sprintf("(%d, %d, %d, %d)", qidNum(d.QueryId), d.Timestamp, d.PrevReportTimestamp, d.NextReportTimestamp))
						}
						return false, nil
					})
					if len(snaps) > 0 {
						out.Emit(Case{Coq: fmt.Sprintf("SnapshotCase %s %s", clist(after), clist(snaps)), Kind: fmt.Sprintf("snapshots/n=%d", bucket(len(snaps))),
							Nontrivial: len(after) >= 2, Key: fmt.Sprint(seed(), i, b, "snap")})
					}
				}
				// probes on the state after the block
				if b%3 == 2 || b == 29 {
					var probes []string
					for q, ts := range tss {
						qid := full[q]
						var Ts []uint64
						Ts = append(Ts, 0, 1, uint64(w.now.UnixMilli())+5)
						for k, x := range ts {
							if k < 2 || k >= len(ts)-2 {
								Ts = append(Ts, x-1, x, x+1)
							}
						}
						for pi, T := range Ts {
							tt := time.UnixMilli(int64(T))
							idx := uint64(pi % (len(ts) + 2))
							tb, e1 := w.s.Oraclekeeper.GetTimestampBefore(w.ctx, qid, tt)
							ta, e2 := w.s.Oraclekeeper.GetTimestampAfter(w.ctx, qid, tt)
							ca, cts, e3 := w.s.Oraclekeeper.GetCurrentAggregateReport(w.ctx, qid)
							ba, bts, e4 := w.s.Oraclekeeper.GetAggregateBefore(w.ctx, qid, tt)
							if pi%2 == 1 {
								// the same lookup through the query endpoint (it runs in the block that made the newest aggregate)
								resp, qerr := oraclekeeper.NewQuerier(w.s.Oraclekeeper).GetDataBefore(w.ctx, &oracletypes.QueryGetDataBeforeRequest{QueryId: hex.EncodeToString(qid), Timestamp: T})
								if qerr != nil || resp == nil {
									ba, e4 = nil, fmt.Errorf("not found")
								} else {
									ba, bts, e4 = resp.Aggregate, time.UnixMilli(int64(resp.Timestamp)), nil
								}
							}
							ya, e5 := w.s.Oraclekeeper.GetAggregateByTimestamp(w.ctx, qid, tt)
							ia, its, e6 := w.s.Oraclekeeper.GetAggregateByIndex(w.ctx, qid, idx)
							probes = append(probes, fmt.Sprintf("Probe %d %d %d %s %s %s %s %s %s", q, T, idx, optTs(tb, e1), optTs(ta, e2),
								optKey(ca, cts, e3), optKey(ba, bts, e4), optKey(&ya, tt, e5), optKey(ia, its, e6)))
							nProbe++
						}
					}
					out.Emit(Case{Coq: fmt.Sprintf("GetterCase %s %s", clist(after), clist(probes)), Kind: fmt.Sprintf("getters/aggs=%d", bucket(len(after))),
						Nontrivial: len(after) >= 3, Key: fmt.Sprint(seed(), i, b, "probe")})
				}
			}
		}
		_ = nFlag
	}
}
