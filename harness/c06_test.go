package harness

import (
	"fmt"
	"math/big"
	"math/rand"
	"sort"
	"strings"
	"testing"
	"time"

	"cosmossdk.io/collections"
	"cosmossdk.io/math"

	keepertest "github.com/tellor-io/layer/testutil/keeper"
	otypes "github.com/tellor-io/layer/x/oracle/types"
)

type aggRep struct {
	who   int
	power uint64
	value string
	blk   uint64
}

func repName(i int) string { return fmt.Sprintf("reporter%03d", i) }
func repID(s string) int64 {
	if s == "" {
		return -1
	}
	var i int64
	fmt.Sscanf(s, "reporter%d", &i)
	return i
}

func coqReports(rs []aggRep) string {
	items := make([]string, len(rs))
	for i, r := range rs {
		items[i] = fmt.Sprintf("{| r_who := %d; r_pw := %s; r_value := %s; r_blk := %d |}", r.who, czu(r.power), cstr(r.value), r.blk)
	}
	return clist(items)
}

func toMicro(rs []aggRep, method string) []otypes.MicroReport {
	out := make([]otypes.MicroReport, len(rs))
	for i, r := range rs {
		out[i] = otypes.MicroReport{Reporter: repName(r.who), Power: r.power, Value: r.value, BlockNumber: r.blk,
			QueryId: []byte("qid"), AggregateMethod: method, QueryType: "SpotPrice"}
	}
	return out
}

func coqAggregate(a *otypes.Aggregate, err error) string {
	if err != nil || a == nil {
		return "None"
	}
	reps := make([]string, len(a.Reporters))
	for i, r := range a.Reporters {
		reps[i] = fmt.Sprintf("(%d, %s, %d)", repID(r.Reporter), czu(r.Power), r.BlockNumber)
	}
	return fmt.Sprintf("(Some {| a_value := %s; a_reporter := %d; a_power := %s; a_index := %d; a_micro := %d; a_reporters := %s |})",
		cstr(a.AggregateValue), repID(a.AggregateReporter), czu(a.ReporterPower), a.AggregateReportIndex, a.MicroHeight, clist(reps))
}

var hexAlphabet = "0123456789abcdef"

func randHex(r *rand.Rand, n int) string {
	var sb strings.Builder
	for i := 0; i < n; i++ {
		sb.WriteByte(hexAlphabet[r.Intn(16)])
	}
	return sb.String()
}

// genReports builds a report multiset biased to duplicates, near-equal values, exact
// half-power boundaries and equal-weight ties.
func genReports(r *rand.Rand, forMode bool, malformed bool) []aggRep {
	n := 1 + r.Intn(pick(r, 2, 4, 8, 16, 40))
	// value pool
	pool := []string{}
	np := 1 + r.Intn(4)
	for i := 0; i < np; i++ {
		switch r.Intn(6) {
		case 0:
			pool = append(pool, randHex(r, 64))
		case 1:
			pool = append(pool, randHex(r, 1+r.Intn(4)))
		case 2:
			pool = append(pool, pick(r, "0", "00", "0a", "0A", "a", "A", "ff", "FF", "0000ff", "10", "f"))
		case 3:
			// near-equal 64 digit values
			base := randHex(r, 63)
			pool = append(pool, base+string(hexAlphabet[r.Intn(16)]))
			pool = append(pool, base+string(hexAlphabet[r.Intn(16)]))
		default:
			pool = append(pool, randHex(r, 2*(1+r.Intn(40))))
		}
	}
	if malformed {
		pool = append(pool, pick(r, "", "0x12", "zz", "+", "-", "-ff", "+0f", "12 ", "1_0", "g", "0X1", "--1"))
	}
	powChoice := func() uint64 {
		switch r.Intn(7) {
		case 0:
			return 1
		case 1:
			return uint64(1 + r.Intn(3))
		case 2:
			if forMode {
				return 1000 // WeightedMode loops `power` times per report
			}
			return 1_000_000
		case 3:
			if forMode {
				return uint64(1 + r.Intn(2000))
			}
			return (uint64(1) << 62) / uint64(n)
		case 4:
			if forMode {
				return uint64(1 + r.Intn(200))
			}
			return uint64(r.Int63n(1 << 40))+1
		default:
			return uint64(1 + r.Intn(20))
		}
	}
	rs := make([]aggRep, n)
	perm := r.Perm(400)
	for i := range rs {
		rs[i] = aggRep{who: perm[i], power: powChoice(), value: pick(r, pool...), blk: uint64(1 + r.Intn(50))}
	}
	// construct an exact half boundary / tie on purpose
	if n >= 2 && r.Intn(3) == 0 {
		var rest uint64
		for _, x := range rs[1:] {
			rest += x.power
		}
		if forMode || rest < (1<<61) {
			if forMode && rest > 20000 {
				rest = 20000
			}
			rs[0].power = rest // reporter 0 holds exactly half (median) / ties with all others when they agree (mode)
			if rs[0].power == 0 {
				rs[0].power = 1
			}
		}
	}
	if forMode && n >= 2 && r.Intn(3) == 0 && len(pool) >= 2 {
		// exact tie between two values
		rs[0].value, rs[1].value = pool[0], pool[1]
		rs[1].power = rs[0].power
		for i := 2; i < n; i++ {
			if rs[i].value == pool[0] || rs[i].value == pool[1] {
				rs[i].value = pool[len(pool)-1]
				if rs[i].value == pool[0] || rs[i].value == pool[1] {
					rs[i].power = 1
					rs[i].value = pool[0] + "0"
				}
			}
		}
	}
	return rs
}

func totalPower(rs []aggRep) *big.Int {
	t := new(big.Int)
	for _, r := range rs {
		t.Add(t, new(big.Int).SetUint64(r.power))
	}
	return t
}

func distinctVals(rs []aggRep) int {
	m := map[string]bool{}
	for _, r := range rs {
		m[r.value] = true
	}
	return len(m)
}

func TestC06Median(t *testing.T) {
	out := newOut(t, "c06_median")
	defer out.Close()
	r := rand.New(rand.NewSource(seed()))
	k, _, _, _, _, ctx := keepertest.OracleKeeper(t)
	n := count(1500, 60000)
	emit := func(rs []aggRep, tags ...string) {
		in := toMicro(rs, "weighted-median")
		a, err := k.WeightedMedian(ctx, in, 7)
		kind := fmt.Sprintf("n=%d", bucket(len(rs)))
		if err != nil {
			kind = "parse-error"
		}
		out.Emit(Case{Coq: fmt.Sprintf("MedianCase %s %s", coqReports(rs), coqAggregate(a, err)), Kind: kind,
			Nontrivial: len(rs) >= 2 && distinctVals(rs) >= 2 && err == nil, Key: coqReports(rs), Tags: tags,
			Human: map[string]interface{}{"reports": len(rs), "distinct_values": distinctVals(rs), "total_power": totalPower(rs).String()}})
	}
	// corpus: half boundaries, duplicates, spelling variants
	emit([]aggRep{{1, 5, "0a", 3}, {2, 5, "0b", 4}}, "corpus")
	emit([]aggRep{{1, 5, "0b", 3}, {2, 5, "0a", 4}}, "corpus")
	emit([]aggRep{{1, 1, "ff", 3}, {2, 1, "0a", 4}, {3, 2, "10", 5}}, "corpus")
	emit([]aggRep{{1, 1, "0a", 3}, {2, 1, "0A", 4}}, "corpus:F32")
	emit([]aggRep{{1, 1, "0x0a", 3}}, "corpus:F02")
	for i := 0; i < n; i++ {
		rs := genReports(r, false, r.Intn(25) == 0)
		if totalPower(rs).Cmp(pow2(63)) >= 0 {
			continue
		}
		emit(rs)
		// the same multiset in another arrival order
		if r.Intn(3) == 0 && len(rs) > 1 {
			p := append([]aggRep(nil), rs...)
			r.Shuffle(len(p), func(a, b int) { p[a], p[b] = p[b], p[a] })
			emit(p, "permuted")
		}
	}
	// exhaustive small space: n <= 3 (thorough: 4) reporters, powers 1..3, 3 value strings
	vals := []string{"0a", "0b", "1f"}
	maxN := 3
	if thorough() {
		maxN = 4
	}
	var rec func(prefix []aggRep)
	rec = func(prefix []aggRep) {
		if len(prefix) > 0 {
			emit(append([]aggRep(nil), prefix...), "exhaustive")
		}
		if len(prefix) == maxN {
			return
		}
		for p := uint64(1); p <= 3; p++ {
			for _, v := range vals {
				rec(append(prefix, aggRep{len(prefix) + 1, p, v, uint64(len(prefix) + 1)}))
			}
		}
	}
	rec(nil)
}

func bucket(n int) int {
	switch {
	case n <= 1:
		return 1
	case n <= 2:
		return 2
	case n <= 4:
		return 4
	case n <= 8:
		return 8
	case n <= 16:
		return 16
	}
	return 40
}


func TestC06Mode(t *testing.T) {
	out := newOut(t, "c06_mode")
	defer out.Close()
	r := rand.New(rand.NewSource(seed() + 1))
	k, _, _, _, _, ctx := keepertest.OracleKeeper(t)
	n := count(1200, 40000)
	reps := 16
	if thorough() {
		reps = 64
	}
	emit := func(rs []aggRep, tags ...string) {
		var outs []string // the distinct answers of `reps` identical calls
		distinct := map[string]bool{}
		for j := 0; j < reps; j++ {
			in := toMicro(rs, "weighted-mode")
			a, err := k.WeightedMode(ctx, in, 7)
			o := coqAggregate(a, err)
			if !distinct[o] {
				outs = append(outs, o)
			}
			distinct[o] = true
		}
		out.Emit(Case{Coq: fmt.Sprintf("ModeCase %s %s", coqReports(rs), clist(outs)), Kind: fmt.Sprintf("n=%d/outcomes=%d", bucket(len(rs)), len(distinct)),
			Nontrivial: len(rs) >= 2 && distinctVals(rs) >= 2, Key: coqReports(rs), Tags: tags,
			Human: map[string]interface{}{"reports": len(rs), "distinct_values": distinctVals(rs), "repetitions": reps, "distinct_outcomes": len(distinct)}})
	}
	emit([]aggRep{{1, 5, "aa", 3}, {2, 5, "bb", 4}}, "corpus:F01")
	emit([]aggRep{{1, 5, "bb", 3}, {2, 5, "aa", 4}}, "corpus:F01")
	emit([]aggRep{{1, 2, "aa", 3}, {2, 1, "bb", 4}, {3, 1, "bb", 5}, {4, 2, "cc", 5}}, "corpus:F01")
	emit([]aggRep{{1, 2, "aa", 3}, {2, 2, "aa", 4}, {3, 1, "bb", 5}}, "corpus")
	// powers in the millions (one reporter outweighing several that agree with each other), fewer repetitions
	savedReps := reps
	reps = 3
	emit([]aggRep{{1, 3_500_000, "aa", 3}, {2, 1_200_000, "bb", 4}, {3, 1_100_000, "bb", 5}}, "corpus:large-power")
	emit([]aggRep{{1, 1_000_001, "aa", 3}, {2, 600_000, "bb", 4}, {3, 400_000, "bb", 5}}, "corpus:large-power")
	for i := 0; i < count(6, 60); i++ {
		big := uint64(1_000_000 + r.Intn(4_000_000))
		k1 := uint64(1 + r.Intn(int(big)))
		rs := []aggRep{{1, big, "aa", 3}, {2, k1, "bb", 4}, {3, big - k1 + uint64(r.Intn(3)) - 1, "bb", 5}}
		if r.Intn(2) == 0 {
			rs = append(rs, aggRep{4, uint64(1 + r.Intn(2_000_000)), pick(r, "aa", "cc"), 6})
		}
		emit(rs, "large-power")
	}
	reps = savedReps
	for i := 0; i < n; i++ {
		rs := genReports(r, true, r.Intn(25) == 0)
		emit(rs)
		if r.Intn(3) == 0 && len(rs) > 1 {
			p := append([]aggRep(nil), rs...)
			r.Shuffle(len(p), func(a, b int) { p[a], p[b] = p[b], p[a] })
			emit(p, "permuted")
		}
	}
	vals := []string{"aa", "bb", "0c"}
	maxN := 3
	if thorough() {
		maxN = 4
	}
	var rec func(prefix []aggRep)
	rec = func(prefix []aggRep) {
		if len(prefix) > 0 {
			emit(append([]aggRep(nil), prefix...), "exhaustive")
		}
		if len(prefix) == maxN {
			return
		}
		for p := uint64(1); p <= 3; p++ {
			for _, v := range vals {
				rec(append(prefix, aggRep{len(prefix) + 1, p, v, uint64(len(prefix) + 1)}))
			}
		}
	}
	rec(nil)
}

// TestC06EndBlock drives the real SetAggregatedReport (the end blocker's aggregation pass) with several
// closing rounds in one block whose reports carry different aggregation methods: the aggregate stored for
// each query must be the weighted median / weighted mode of that query's reports according to ITS method
// (the dispatch, the collection of a round's reports through the Id index, and SetAggregate are exercised).
func TestC06EndBlock(t *testing.T) {
	out := newOut(t, "c06_endblock")
	defer out.Close()
	r := rand.New(rand.NewSource(seed() + 2))
	n := count(160, 6000)
	k, _, _, _, _, ctx0 := keepertest.OracleKeeper(t)
	metaID := uint64(1)
	for i := 0; i < n; i++ {
		height := int64(10 + i)
		ctx := ctx0.WithBlockHeight(height).WithBlockTime(time.UnixMilli(1_700_000_000_000 + int64(i)*1000))
		nq := 2 + r.Intn(3)
		type round struct {
			qid    []byte
			method string
			rs     []aggRep
			id     uint64
		}
		var rounds []round
		for q := 0; q < nq; q++ {
			method := pick(r, "weighted-median", "weighted-mode", "weighted-mode", "")
			forMode := method != "weighted-median"
			rs := genReports(r, forMode, false)
			if len(rs) > 6 {
				rs = rs[:6]
			}
			if i%20 == 7 && q == 0 {
				// a round with more than a hundred reporters (every one of them must be aggregated)
				m := []int{101, 130, 100, 117}[(i/20)%4]
				rs = nil
				for j := 0; j < m; j++ {
					rs = append(rs, aggRep{who: j, power: uint64(1 + r.Intn(9)), value: fmt.Sprintf("%04x", 1000+r.Intn(60)), blk: uint64(1 + r.Intn(50))})
				}
				if forMode {
					for j := range rs {
						rs[j].value = pick(r, "0a", "0b", "0c")
					}
				}
			}
			if forMode && r.Intn(2) == 0 && len(rs) >= 3 {
				// mode != median on purpose: values a<c<b with powers 2,3,2 style
				rs = []aggRep{{rs[0].who, 2, "01", 3}, {rs[1].who, 3, "03", 4}, {rs[2].who, 2, "02", 5}}
			}
			if totalPower(rs).Cmp(pow2(62)) >= 0 {
				continue
			}
			// query ids sort in generation order or reversed, so that median rounds come both before and after mode rounds
			qid := make([]byte, 32)
			if i%2 == 0 {
				qid[0] = byte(q + 1)
			} else {
				qid[0] = byte(200 - q)
			}
			qid[31] = byte(i)
			qid[30] = byte(i >> 8)
			rounds = append(rounds, round{qid, method, rs, metaID})
			metaID++
		}
		for _, rd := range rounds {
			err := k.Query.Set(ctx, collections.Join(rd.qid, rd.id), otypes.QueryMeta{Id: rd.id, Amount: math.ZeroInt(), Expiration: uint64(height) - uint64(r.Intn(2)),
				RegistrySpecBlockWindow: 2, HasRevealedReports: true, QueryData: rd.qid, QueryType: "SpotPrice"})
			if err != nil {
				t.Fatal(err)
			}
			for _, x := range rd.rs {
				m := otypes.MicroReport{Reporter: repName(x.who), Power: x.power, Value: x.value, BlockNumber: x.blk, QueryId: rd.qid,
					AggregateMethod: rd.method, QueryType: "SpotPrice"}
				if err := k.Reports.Set(ctx, collections.Join3(rd.qid, []byte(repName(x.who)), rd.id), m); err != nil {
					t.Fatal(err)
				}
			}
		}
		var runErr error
		func() {
			defer func() {
				if p := recover(); p != nil {
					runErr = fmt.Errorf("panic: %v", p)
				}
			}()
			runErr = k.SetAggregatedReport(ctx)
		}()
		for _, rd := range rounds {
			a, err := k.Aggregates.Get(ctx, collections.Join(rd.qid, uint64(ctx.BlockTime().UnixMilli())))
			var ap *otypes.Aggregate
			if err == nil {
				ap = &a
			}
			if runErr != nil {
				ap = nil
			}
			// the Id index returns the reports in key order (reporter bytes): the model gets them in that order
			rs := append([]aggRep(nil), rd.rs...)
			sort.Slice(rs, func(a, b int) bool { return repName(rs[a].who) < repName(rs[b].who) })
			// drop duplicates of one reporter (a later Set replaces the earlier)
			var uniq []aggRep
			for j, x := range rs {
				if j+1 < len(rs) && rs[j+1].who == x.who {
					continue
				}
				uniq = append(uniq, x)
			}
			kind := "endblock/" + rd.method
			if rd.method == "weighted-median" {
				out.Emit(Case{Coq: fmt.Sprintf("MedianCase %s %s", coqReports(uniq), coqAggregate(ap, err)), Kind: kind,
					Nontrivial: len(uniq) >= 2 && distinctVals(uniq) >= 2 && len(rounds) >= 2, Key: fmt.Sprint("eb", seed(), i, rd.id),
					Human: map[string]interface{}{"reports": len(uniq), "rounds_in_block": len(rounds), "method": rd.method, "error": fmt.Sprint(runErr)}})
			} else {
				out.Emit(Case{Coq: fmt.Sprintf("ModeCase %s %s", coqReports(uniq), clist([]string{coqAggregate(ap, err)})), Kind: kind,
					Nontrivial: len(uniq) >= 2 && distinctVals(uniq) >= 2 && len(rounds) >= 2, Key: fmt.Sprint("eb", seed(), i, rd.id),
					Human: map[string]interface{}{"reports": len(uniq), "rounds_in_block": len(rounds), "method": rd.method, "error": fmt.Sprint(runErr)}})
			}
		}
	}
}
