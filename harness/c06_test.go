package harness

import (
	"fmt"
	"math/big"
	"math/rand"
	"strings"
	"testing"

	keepertest "github.com/tellor-io/layer/testutil/keeper"
	otypes "github.com/tellor-io/layer/x/oracle/types"
)

type aggRep struct {
	who   int
	power uint64
	value string
	blk   uint64
}

func repName(i int) string { return fmt.Sprintf("reporter%03d", i) }
func repID(s string) int64 {
	if s == "" {
		return -1
	}
	var i int64
	fmt.Sscanf(s, "reporter%d", &i)
	return i
}

func coqReports(rs []aggRep) string {
	items := make([]string, len(rs))
	for i, r := range rs {
		items[i] = fmt.Sprintf("{| r_who := %d; r_pw := %s; r_value := %s; r_blk := %d |}", r.who, czu(r.power), cstr(r.value), r.blk)
	}
	return clist(items)
}

func toMicro(rs []aggRep, method string) []otypes.MicroReport {
	out := make([]otypes.MicroReport, len(rs))
	for i, r := range rs {
		out[i] = otypes.MicroReport{Reporter: repName(r.who), Power: r.power, Value: r.value, BlockNumber: r.blk,
			QueryId: []byte("qid"), AggregateMethod: method, QueryType: "SpotPrice"}
	}
	return out
}

func coqAggregate(a *otypes.Aggregate, err error) string {
	if err != nil || a == nil {
		return "None"
	}
	reps := make([]string, len(a.Reporters))
	for i, r := range a.Reporters {
		reps[i] = fmt.Sprintf("(%d, %s, %d)", repID(r.Reporter), czu(r.Power), r.BlockNumber)
	}
	return fmt.Sprintf("(Some {| a_value := %s; a_reporter := %d; a_power := %s; a_index := %d; a_micro := %d; a_reporters := %s |})",
		cstr(a.AggregateValue), repID(a.AggregateReporter), czu(a.ReporterPower), a.AggregateReportIndex, a.MicroHeight, clist(reps))
}

var hexAlphabet = "0123456789abcdef"

func randHex(r *rand.Rand, n int) string {
	var sb strings.Builder
	for i := 0; i < n; i++ {
		sb.WriteByte(hexAlphabet[r.Intn(16)])
	}
	return sb.String()
}

// genReports builds a report multiset biased to duplicates, near-equal values, exact
// half-power boundaries and equal-weight ties.
func genReports(r *rand.Rand, forMode bool, malformed bool) []aggRep {
	n := 1 + r.Intn(pick(r, 2, 4, 8, 16, 40))
	// value pool
	pool := []string{}
	np := 1 + r.Intn(4)
	for i := 0; i < np; i++ {
		switch r.Intn(6) {
		case 0:
			pool = append(pool, randHex(r, 64))
		case 1:
			pool = append(pool, randHex(r, 1+r.Intn(4)))
		case 2:
			pool = append(pool, pick(r, "0", "00", "0a", "0A", "a", "A", "ff", "FF", "0000ff", "10", "f"))
		case 3:
			// near-equal 64 digit values
			base := randHex(r, 63)
			pool = append(pool, base+string(hexAlphabet[r.Intn(16)]))
			pool = append(pool, base+string(hexAlphabet[r.Intn(16)]))
		default:
			pool = append(pool, randHex(r, 2*(1+r.Intn(40))))
		}
	}
	if malformed {
		pool = append(pool, pick(r, "", "0x12", "zz", "+", "-", "-ff", "+0f", "12 ", "1_0", "g", "0X1", "--1"))
	}
	powChoice := func() uint64 {
		switch r.Intn(7) {
		case 0:
			return 1
		case 1:
			return uint64(1 + r.Intn(3))
		case 2:
			if forMode {
				return 1000 // WeightedMode loops `power` times per report
			}
			return 1_000_000
		case 3:
			if forMode {
				return uint64(1 + r.Intn(2000))
			}
			return (uint64(1) << 62) / uint64(n)
		case 4:
			if forMode {
				return uint64(1 + r.Intn(200))
			}
			return uint64(r.Int63n(1 << 40))+1
		default:
			return uint64(1 + r.Intn(20))
		}
	}
	rs := make([]aggRep, n)
	perm := r.Perm(400)
	for i := range rs {
		rs[i] = aggRep{who: perm[i], power: powChoice(), value: pick(r, pool...), blk: uint64(1 + r.Intn(50))}
	}
	// construct an exact half boundary / tie on purpose
	if n >= 2 && r.Intn(3) == 0 {
		var rest uint64
		for _, x := range rs[1:] {
			rest += x.power
		}
		if forMode || rest < (1<<61) {
			if forMode && rest > 20000 {
				rest = 20000
			}
			rs[0].power = rest // reporter 0 holds exactly half (median) / ties with all others when they agree (mode)
			if rs[0].power == 0 {
				rs[0].power = 1
			}
		}
	}
	if forMode && n >= 2 && r.Intn(3) == 0 && len(pool) >= 2 {
		// exact tie between two values
		rs[0].value, rs[1].value = pool[0], pool[1]
		rs[1].power = rs[0].power
		for i := 2; i < n; i++ {
			if rs[i].value == pool[0] || rs[i].value == pool[1] {
				rs[i].value = pool[len(pool)-1]
				if rs[i].value == pool[0] || rs[i].value == pool[1] {
					rs[i].power = 1
					rs[i].value = pool[0] + "0"
				}
			}
		}
	}
	return rs
}

func totalPower(rs []aggRep) *big.Int {
	t := new(big.Int)
	for _, r := range rs {
		t.Add(t, new(big.Int).SetUint64(r.power))
	}
	return t
}

func distinctVals(rs []aggRep) int {
	m := map[string]bool{}
	for _, r := range rs {
		m[r.value] = true
	}
	return len(m)
}

func TestC06Median(t *testing.T) {
	out := newOut(t, "c06_median")
	defer out.Close()
	r := rand.New(rand.NewSource(seed()))
	k, _, _, _, _, ctx := keepertest.OracleKeeper(t)
	n := count(1500, 60000)
	emit := func(rs []aggRep, tags ...string) {
		in := toMicro(rs, "weighted-median")
		a, err := k.WeightedMedian(ctx, in, 7)
		kind := fmt.Sprintf("n=%d", bucket(len(rs)))
		if err != nil {
			kind = "parse-error"
		}
		out.Emit(Case{Coq: fmt.Sprintf("MedianCase %s %s", coqReports(rs), coqAggregate(a, err)), Kind: kind,
			Nontrivial: len(rs) >= 2 && distinctVals(rs) >= 2 && err == nil, Key: coqReports(rs), Tags: tags,
			Human: map[string]interface{}{"reports": len(rs), "distinct_values": distinctVals(rs), "total_power": totalPower(rs).String()}})
	}
	// corpus: half boundaries, duplicates, spelling variants
	emit([]aggRep{{1, 5, "0a", 3}, {2, 5, "0b", 4}}, "corpus")
	emit([]aggRep{{1, 5, "0b", 3}, {2, 5, "0a", 4}}, "corpus")
	emit([]aggRep{{1, 1, "ff", 3}, {2, 1, "0a", 4}, {3, 2, "10", 5}}, "corpus")
	emit([]aggRep{{1, 1, "0a", 3}, {2, 1, "0A", 4}}, "corpus:F32")
	emit([]aggRep{{1, 1, "0x0a", 3}}, "corpus:F02")
	for i := 0; i < n; i++ {
		rs := genReports(r, false, r.Intn(25) == 0)
		if totalPower(rs).Cmp(pow2(63)) >= 0 {
			continue
		}
		emit(rs)
		// the same multiset in another arrival order
		if r.Intn(3) == 0 && len(rs) > 1 {
			p := append([]aggRep(nil), rs...)
			r.Shuffle(len(p), func(a, b int) { p[a], p[b] = p[b], p[a] })
			emit(p, "permuted")
		}
	}
	// exhaustive small space: n <= 3 (thorough: 4) reporters, powers 1..3, 3 value strings
	vals := []string{"0a", "0b", "1f"}
	maxN := 3
	if thorough() {
		maxN = 4
	}
	var rec func(prefix []aggRep)
	rec = func(prefix []aggRep) {
		if len(prefix) > 0 {
			emit(append([]aggRep(nil), prefix...), "exhaustive")
		}
		if len(prefix) == maxN {
			return
		}
		for p := uint64(1); p <= 3; p++ {
			for _, v := range vals {
				rec(append(prefix, aggRep{len(prefix) + 1, p, v, uint64(len(prefix) + 1)}))
			}
		}
	}
	rec(nil)
}

func bucket(n int) int {
	switch {
	case n <= 1:
		return 1
	case n <= 2:
		return 2
	case n <= 4:
		return 4
	case n <= 8:
		return 8
	case n <= 16:
		return 16
	}
	return 40
}


func TestC06Mode(t *testing.T) {
	out := newOut(t, "c06_mode")
	defer out.Close()
	r := rand.New(rand.NewSource(seed() + 1))
	k, _, _, _, _, ctx := keepertest.OracleKeeper(t)
	n := count(1200, 40000)
	reps := 16
	if thorough() {
		reps = 64
	}
	emit := func(rs []aggRep, tags ...string) {
		var outs []string // the distinct answers of `reps` identical calls
		distinct := map[string]bool{}
		for j := 0; j < reps; j++ {
			in := toMicro(rs, "weighted-mode")
			a, err := k.WeightedMode(ctx, in, 7)
			o := coqAggregate(a, err)
			if !distinct[o] {
				outs = append(outs, o)
			}
			distinct[o] = true
		}
		out.Emit(Case{Coq: fmt.Sprintf("ModeCase %s %s", coqReports(rs), clist(outs)), Kind: fmt.Sprintf("n=%d/outcomes=%d", bucket(len(rs)), len(distinct)),
			Nontrivial: len(rs) >= 2 && distinctVals(rs) >= 2, Key: coqReports(rs), Tags: tags,
			Human: map[string]interface{}{"reports": len(rs), "distinct_values": distinctVals(rs), "repetitions": reps, "distinct_outcomes": len(distinct)}})
	}
	emit([]aggRep{{1, 5, "aa", 3}, {2, 5, "bb", 4}}, "corpus:F01")
	emit([]aggRep{{1, 5, "bb", 3}, {2, 5, "aa", 4}}, "corpus:F01")
	emit([]aggRep{{1, 2, "aa", 3}, {2, 1, "bb", 4}, {3, 1, "bb", 5}, {4, 2, "cc", 5}}, "corpus:F01")
	emit([]aggRep{{1, 2, "aa", 3}, {2, 2, "aa", 4}, {3, 1, "bb", 5}}, "corpus")
	for i := 0; i < n; i++ {
		rs := genReports(r, true, r.Intn(25) == 0)
		emit(rs)
		if r.Intn(3) == 0 && len(rs) > 1 {
			p := append([]aggRep(nil), rs...)
			r.Shuffle(len(p), func(a, b int) { p[a], p[b] = p[b], p[a] })
			emit(p, "permuted")
		}
	}
	vals := []string{"aa", "bb", "0c"}
	maxN := 3
	if thorough() {
		maxN = 4
	}
	var rec func(prefix []aggRep)
	rec = func(prefix []aggRep) {
		if len(prefix) > 0 {
			emit(append([]aggRep(nil), prefix...), "exhaustive")
		}
		if len(prefix) == maxN {
			return
		}
		for p := uint64(1); p <= 3; p++ {
			for _, v := range vals {
				rec(append(prefix, aggRep{len(prefix) + 1, p, v, uint64(len(prefix) + 1)}))
			}
		}
	}
	rec(nil)
}
