package harness

import (
	"encoding/binary"
	"fmt"
	"math/big"
	"math/rand"
	"sort"
	"strings"
	"testing"

	"github.com/stretchr/testify/mock"
	keepertest "github.com/tellor-io/layer/testutil/keeper"
	okeeper "github.com/tellor-io/layer/x/oracle/keeper"
	otypes "github.com/tellor-io/layer/x/oracle/types"
	rtypes "github.com/tellor-io/layer/x/reporter/types"

	"cosmossdk.io/collections"
	"cosmossdk.io/math"

	sdk "github.com/cosmos/cosmos-sdk/types"
)

// rankedAddrs returns n fresh addresses sorted by their bech32 string (id = rank)
func rankedAddrs(r *rand.Rand, n int) []sdk.AccAddress {
	as := make([]sdk.AccAddress, n)
	for i := range as {
		b := make([]byte, 20)
		r.Read(b)
		as[i] = sdk.AccAddress(b)
	}
	sort.Slice(as, func(i, j int) bool { return as[i].String() < as[j].String() })
	return as
}

type c09agg struct {
	query int
	reps  [][3]uint64 // id, power, block
}

func coqAggs(as []c09agg) string {
	items := make([]string, len(as))
	for i, a := range as {
		rs := make([]string, len(a.reps))
		for j, x := range a.reps {
			rs[j] = fmt.Sprintf("(%d, %d, %d)", x[0], x[1], x[2])
		}
		items[i] = fmt.Sprintf("{| g_query := %d; g_reporters := %s |}", a.query, clist(rs))
	}
	return clist(items)
}

func decScaled(d math.LegacyDec) *big.Int { return d.BigInt() }

func TestC09Alloc(t *testing.T) {
	out := newOut(t, "c09_alloc")
	defer out.Close()
	r := rand.New(rand.NewSource(seed()))
	k, rk, _, _, bk, ctx := keepertest.OracleKeeper(t)
	var addrs []sdk.AccAddress
	var calls []string
	rk.On("DivvyingTips", mock.Anything, mock.Anything, mock.Anything, mock.Anything, mock.Anything).Return(nil).Run(func(args mock.Arguments) {
		addr := args.Get(1).(sdk.AccAddress)
		amt := args.Get(2).(math.LegacyDec)
		q := args.Get(3).([]byte)
		h := args.Get(4).(uint64)
		id := -1
		for i, a := range addrs {
			if a.Equals(addr) {
				id = i
			}
		}
		calls = append(calls, fmt.Sprintf("(%d, %s, %d, %d)", id, cz(decScaled(amt)), binary.BigEndian.Uint64(q), h))
	})
	bk.On("SendCoinsFromModuleToModule", mock.Anything, mock.Anything, mock.Anything, mock.Anything).Return(nil).Run(func(args mock.Arguments) {
		// the coins moved into the tips escrow pool: recorded as a pseudo payment with id -2
		coins := args.Get(3).(sdk.Coins)
		amt := new(big.Int)
		for _, c := range coins {
			amt.Add(amt, c.Amount.BigInt())
		}
		calls = append(calls, fmt.Sprintf("(-2, %s, 0, 0)", cz(amt)))
	})
	reps := 4
	if thorough() {
		reps = 16
	}
	emit := func(as []c09agg, R *big.Int, tags ...string) {
		var outs []string
		seen := map[string]bool{}
		for j := 0; j < reps; j++ {
			calls = nil
			in := make([]*otypes.Aggregate, len(as))
			for i, a := range as {
				q := make([]byte, 8)
				binary.BigEndian.PutUint64(q, uint64(a.query))
				ag := &otypes.Aggregate{QueryId: q}
				for _, x := range a.reps {
					ag.Reporters = append(ag.Reporters, &otypes.AggregateReporter{Reporter: addrs[x[0]].String(), Power: x[1], BlockNumber: x[2]})
				}
				in[i] = ag
			}
			if err := k.AllocateRewards(ctx, in, math.NewIntFromBigInt(R), "oracle"); err != nil {
				t.Fatalf("AllocateRewards: %v", err)
			}
			o := clist(calls)
			if !seen[o] {
				outs = append(outs, o)
			}
			seen[o] = true
		}
		nrep := 0
		multi := false
		ids := map[uint64]int{}
		for _, a := range as {
			for _, x := range a.reps {
				ids[x[0]]++
				if ids[x[0]] > 1 {
					multi = true
				}
			}
		}
		nrep = len(ids)
		kind := fmt.Sprintf("aggs=%d/reporters=%d", len(as), bucket(nrep))
		if multi {
			kind += "/multi"
		}
		out.Emit(Case{Coq: fmt.Sprintf("AllocCase %s %s %s", coqAggs(as), cz(R), clist(outs)), Kind: kind,
			Nontrivial: nrep >= 2, Key: coqAggs(as) + R.String(), Tags: tags,
			Human: map[string]interface{}{"aggregates": len(as), "reporters": nrep, "reward": R.String(), "distinct_outcomes": len(outs)}})
	}
	addrs = rankedAddrs(r, 12)
	// corpus
	emit([]c09agg{{1, [][3]uint64{{0, 10, 5}, {1, 1, 5}}}, {2, [][3]uint64{{0, 1, 6}}}}, bi(1200), "corpus:F16")
	emit([]c09agg{{1, [][3]uint64{{0, 1, 5}, {1, 1, 5}, {2, 1, 5}}}}, bi(1), "corpus")
	emit([]c09agg{{1, [][3]uint64{{2, 3, 5}, {0, 3, 5}, {1, 3, 7}}}}, bi(1000000), "corpus")
	emit([]c09agg{{1, [][3]uint64{{0, 5, 5}, {1, 7, 5}}}, {2, [][3]uint64{{0, 5, 6}, {1, 7, 6}}}}, bi(999999), "corpus")
	n := count(1500, 40000)
	for i := 0; i < n; i++ {
		addrs = rankedAddrs(r, 12)
		var R *big.Int
		switch r.Intn(5) {
		case 0:
			R = bi(int64(pick(r, 1, 2, 3, 7, 999999, 1000000)))
		case 1:
			R = pow10(15)
		default:
			R = badd(bigRand(r, pow10(pick(r, 3, 6, 9, 15))), bi(1))
		}
		nag := pick(r, 1, 1, 1, 2, 3)
		pool := 1 + r.Intn(12)
		basePow := make([]uint64, 12)
		for j := range basePow {
			basePow[j] = pick(r, uint64(1), 2, 3, 10, 1_000_000, 10_000_000, uint64(1+r.Intn(1000)), uint64(1+r.Intn(100000)))
		}
		as := make([]c09agg, nag)
		for a := range as {
			as[a].query = a + 1
			perm := r.Perm(pool)
			cnt := 1 + r.Intn(pool)
			for _, id := range perm[:cnt] {
				p := basePow[id]
				if a > 0 && r.Intn(4) == 0 {
					p = pick(r, uint64(1), 2, 3, p+1, uint64(1+r.Intn(50))) // a different power in a later aggregate
				}
				as[a].reps = append(as[a].reps, [3]uint64{uint64(id), p, uint64(10 + a + r.Intn(3))})
			}
		}
		emit(as, R)
	}
	// exhaustive: R <= 6, 1..3 reporters, powers 1..3, one aggregate
	addrs = rankedAddrs(r, 12)
	for R := int64(1); R <= 6; R++ {
		for p0 := uint64(1); p0 <= 3; p0++ {
			emit([]c09agg{{1, [][3]uint64{{0, p0, 5}}}}, bi(R), "exhaustive")
			for p1 := uint64(1); p1 <= 3; p1++ {
				emit([]c09agg{{1, [][3]uint64{{1, p0, 5}, {0, p1, 5}}}}, bi(R), "exhaustive")
				for p2 := uint64(1); p2 <= 3; p2++ {
					emit([]c09agg{{1, [][3]uint64{{1, p0, 5}, {2, p1, 5}, {0, p2, 5}}}}, bi(R), "exhaustive")
				}
			}
		}
	}
}

func TestC09Calc(t *testing.T) {
	out := newOut(t, "c09_calc")
	defer out.Close()
	r := rand.New(rand.NewSource(seed() + 3))
	n := count(1500, 60000)
	for i := 0; i < n; i++ {
		T := uint64(1 + r.Int63n(int64(pick(r, 10, 1000, 1_000_000, 1_000_000_000_000))))
		p := uint64(1 + r.Int63n(int64(T)))
		cnt := uint64(1 + r.Intn(3))
		if p*cnt > T {
			cnt = 1
		}
		R := badd(bigRand(r, pow10(pick(r, 1, 6, 15))), bi(1))
		got := okeeper.CalculateRewardAmount(p, cnt, T, math.NewIntFromBigInt(R))
		out.Emit(Case{Coq: fmt.Sprintf("CalcCase %d %d %d %s %s", p, cnt, T, cz(R), cz(decScaled(got))), Kind: "calc",
			Nontrivial: T > 1, Key: fmt.Sprintf("%d|%d|%d|%s", p, cnt, T, R)})
	}
}

func TestC09Divvy(t *testing.T) {
	out := newOut(t, "c09_divvy")
	defer out.Close()
	r := rand.New(rand.NewSource(seed() + 5))
	k, _, _, _, ctx, _ := keepertest.ReporterKeeper(t)
	P := pow10(18)
	counter := uint64(0)
	fresh := func() sdk.AccAddress {
		counter++
		b := make([]byte, 20)
		binary.BigEndian.PutUint64(b[12:], counter)
		return sdk.AccAddress(b)
	}
	emit := func(rate, reward *big.Int, reporterIdx int, origins [][2]int64, tags ...string) {
		// delegator ids are small ints; id reporterIdx is the reporter (may have no origin)
		ids := map[int64]sdk.AccAddress{}
		get := func(i int64) sdk.AccAddress {
			if a, ok := ids[i]; ok {
				return a
			}
			ids[i] = fresh()
			return ids[i]
		}
		rep := get(int64(reporterIdx))
		var tos []*rtypes.TokenOriginInfo
		total := new(big.Int)
		co := make([]string, len(origins))
		for j, o := range origins {
			tos = append(tos, &rtypes.TokenOriginInfo{DelegatorAddress: get(o[0]).Bytes(), ValidatorAddress: []byte{byte(j + 1)}, Amount: math.NewInt(o[1])})
			total.Add(total, bi(o[1]))
			co[j] = fmt.Sprintf("(%d, %d)", o[0], o[1])
		}
		rateDec := math.LegacyNewDecFromBigIntWithPrec(rate, 18)
		if err := k.Reporters.Set(ctx, rep.Bytes(), rtypes.NewReporter(rateDec, math.OneInt())); err != nil {
			t.Fatal(err)
		}
		q := []byte("q")
		h := uint64(7)
		if err := k.Report.Set(ctx, collections.Join(q, collections.Join(rep.Bytes(), h)), rtypes.DelegationsAmounts{TokenOrigins: tos, Total: math.NewIntFromBigInt(total)}); err != nil {
			t.Fatal(err)
		}
		// decoy snapshots of the same reporter: another query at the same height (sorting before and after "q"), the same
		// query at the neighbouring heights - the split must use exactly the snapshot of (query, reporter, height)
		if len(tos) > 0 {
			decoy := []*rtypes.TokenOriginInfo{{DelegatorAddress: tos[0].DelegatorAddress, ValidatorAddress: []byte{9}, Amount: math.NewInt(12345)}}
			for _, dk := range []struct {
				q []byte
				h uint64
			}{{[]byte("p"), h}, {[]byte("r"), h}, {q, h - 1}, {q, h + 1}, {[]byte("zz"), h}} {
				if err := k.Report.Set(ctx, collections.Join(dk.q, collections.Join(rep.Bytes(), dk.h)), rtypes.DelegationsAmounts{TokenOrigins: decoy, Total: math.NewInt(12345)}); err != nil {
					t.Fatal(err)
				}
			}
		}
		if err := k.DivvyingTips(ctx, rep, math.LegacyNewDecFromBigIntWithPrec(reward, 18), q, h); err != nil {
			t.Fatalf("DivvyingTips: %v", err)
		}
		var keys []int64
		for i := range ids {
			keys = append(keys, i)
		}
		sort.Slice(keys, func(a, b int) bool { return keys[a] < keys[b] })
		var credits []string
		for _, i := range keys {
			tips, err := k.SelectorTips.Get(ctx, ids[i].Bytes())
			if err == nil {
				credits = append(credits, fmt.Sprintf("(%d, %s)", i, cz(tips.BigInt())))
			}
		}
		own := 0
		for _, o := range origins {
			if o[0] == int64(reporterIdx) {
				own++
			}
		}
		kind := fmt.Sprintf("origins=%d/own=%d", bucket(len(origins)), own)
		switch {
		case rate.Sign() < 0 || rate.Cmp(P) > 0:
			kind += "/rate-out-of-range"
		case rate.Sign() == 0:
			kind += "/rate0"
		}
		out.Emit(Case{Coq: fmt.Sprintf("DivvyCase %d %s %s %s %s %s", reporterIdx, cz(rate), cz(reward), clist(co), cz(total), clist(credits)),
			Kind: kind, Nontrivial: len(origins) >= 2 && rate.Sign() != 0, Key: fmt.Sprintf("%s|%s|%d|%v", rate, reward, reporterIdx, origins), Tags: tags,
			Human: map[string]interface{}{"rate": rate.String(), "reward": reward.String(), "origins": strings.Join(co, " "), "credits": strings.Join(credits, " ")}})
	}
	half := bquo(P, bi(2))
	// corpus
	emit(half, bmul(bi(1000000), P), 0, [][2]int64{{0, 600000}, {0, 400000}}, "corpus:F05")
	emit(bmul(bi(2), P), bmul(bi(1000), P), 0, [][2]int64{{0, 1000}, {1, 1000}}, "corpus:F06")
	emit(half, bmul(bi(1000), P), 0, [][2]int64{{1, 1000}, {2, 1000}}, "corpus")
	emit(bi(0), bmul(bi(10000000), P), 0, [][2]int64{{0, 1000000000}, {1, 1000000000}}, "corpus")
	n := count(2000, 60000)
	for i := 0; i < n; i++ {
		var rate *big.Int
		switch r.Intn(12) {
		case 0:
			rate = bi(0)
		case 1:
			rate = bi(1)
		case 2:
			rate = bquo(P, bi(3))
		case 3:
			rate = new(big.Int).Set(half)
		case 4:
			rate = new(big.Int).Set(P)
		case 5:
			rate = pick(r, bmul(bi(2), P), bmul(bi(100), P), new(big.Int).Neg(half), badd(P, bi(1)))
		default:
			rate = bigRand(r, badd(P, bi(1)))
		}
		var reward *big.Int
		switch r.Intn(4) {
		case 0:
			reward = bmul(bi(int64(pick(r, 1, 2, 3, 999999, 1000000))), P)
		case 1:
			reward = bigRand(r, bmul(pow10(pick(r, 1, 6, 15)), P)) // with a fractional part
		default:
			reward = bmul(badd(bigRand(r, pow10(pick(r, 3, 9, 15))), bi(1)), P)
		}
		no := 1 + r.Intn(pick(r, 2, 4, 8))
		nd := 1 + r.Intn(4)
		origins := make([][2]int64, no)
		for j := range origins {
			origins[j] = [2]int64{int64(r.Intn(nd)), pick(r, int64(1), 3, 1000000, 999999, 1+r.Int63n(1000), 1+r.Int63n(1_000_000_000_000))}
		}
		repIdx := r.Intn(nd)
		if r.Intn(6) == 0 {
			repIdx = nd // the reporter has no token origin of its own
		}
		emit(rate, reward, repIdx, origins)
	}
}
