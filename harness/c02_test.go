package harness

import (
	"encoding/hex"
	"fmt"
	"math/big"
	"math/rand"
	"strings"
	"testing"
	"time"

	"github.com/tellor-io/layer/utils"
	oracletypes "github.com/tellor-io/layer/x/oracle/types"

	sdk "github.com/cosmos/cosmos-sdk/types"
)

// report values: what the message boundary does to a value (prefix removal + validation against
// the data spec) and whether the two parsers of the end blocker accept what would be stored
func TestC02Value(t *testing.T) {
	out := newOut(t, "c02_value")
	defer out.Close()
	r := rand.New(rand.NewSource(seed() + 21))
	n := count(1500, 40000)
	gen := func() string {
		body := randHex(r, pick(r, 64, 64, 64, 63, 65, 128, 2, 0, 32))
		if r.Intn(4) == 0 {
			body = strings.ToUpper(body)
		}
		switch r.Intn(10) {
		case 0:
			return "0x" + body
		case 1:
			return "0X" + body
		case 2:
			return "+" + body
		case 3:
			return body[:len(body)/2] + pick(r, "g", " ", "_", "x", "-") + body[len(body)/2:]
		case 4:
			return "0x0x" + body
		}
		return body
	}
	corpus := []string{"0x" + strings.Repeat("0a", 32), "0X" + strings.Repeat("FF", 32), strings.Repeat("0", 64), "0x", "", "0", "zz",
		"0x0x" + strings.Repeat("5c", 32), "0X0x" + strings.Repeat("5c", 32)}
	// the real message server on the full application: reporter 0 reports on a tipped query
	w := newWorld(t, rand.New(rand.NewSource(seed()+22)), 2, 2)
	w.beginBlock(2 * time.Second)
	qd := w.queries[3]
	qid := utils.QueryIDFromData(qd)
	rep := w.accts[0]
	for i := 0; i < n+len(corpus); i++ {
		var v string
		if i < len(corpus) {
			v = corpus[i]
		} else {
			v = gen()
		}
		if i%200 == 0 { // keep the round open
			w.deliver("Tip", 1, nil, func(ctx sdk.Context) error {
				_, err := w.oracleMS.Tip(ctx, &oracletypes.MsgTip{Tipper: w.accts[2].String(), QueryData: qd, Amount: w.coin(bi(1000))})
				return err
			})
		}
		res := w.deliver("SubmitValue", 0, nil, func(ctx sdk.Context) error {
			_, err := w.oracleMS.SubmitValue(ctx, &oracletypes.MsgSubmitValue{Creator: rep.String(), QueryData: qd, Value: v})
			return err
		})
		accepted := res.result == 0
		stored := utils.Remove0xPrefix(v)
		if accepted {
			q, err := w.s.Oraclekeeper.CurrentQuery(w.ctx, qid)
			if err != nil {
				t.Fatal(err)
			}
			mr, err := w.s.Oraclekeeper.Reports.Get(w.ctx, collectionsJoin3(qid, rep.Bytes(), q.Id))
			if err != nil {
				t.Fatal(err)
			}
			stored = mr.Value
		}
		_, okBig := new(big.Int).SetString(stored, 16)
		_, errHex := hex.DecodeString(stored)
		out.Emit(Case{Coq: fmt.Sprintf("ValueCase %s %s %s %s", cstr(v), cbool(accepted), cstr(stored), cbool(okBig && errHex == nil)),
			Kind: fmt.Sprintf("accepted=%v/parses=%v", accepted, okBig && errHex == nil), Nontrivial: accepted, Key: v})
	}
}

// cycle list: real rotation and governance replacement on the full application
func TestC02Cycle(t *testing.T) {
	out := newOut(t, "c02_cycle")
	defer out.Close()
	n := count(25, 600)
	for i := 0; i < n; i++ {
		r := rand.New(rand.NewSource(seed()*7919 + int64(i)))
		w := newWorld(t, r, 2, 2)
		var states []string
		obs := func(label string) {
			idx, _ := w.s.Oraclekeeper.CyclelistSequencer.Peek(w.ctx)
			cl, _ := w.s.Oraclekeeper.GetCyclelist(w.ctx)
			states = append(states, fmt.Sprintf("(%s, %d, %d)", cstr(label), len(cl), idx))
		}
		obs("init")
		updates := 0
		for b := 0; b < 30 && w.halted == ""; b++ {
			w.beginBlock(blockGap(r))
			if r.Intn(4) == 0 {
				nq := pick(r, 0, 1, 1, 2, 3, 4, 5)
				var cl [][]byte
				for _, j := range r.Perm(len(w.queries))[:nq] {
					cl = append(cl, w.queries[j])
				}
				if r.Intn(8) == 0 {
					cl = append(cl, []byte("garbage"))
				}
				// repeated entries: the stored list (keyed by query id) is then shorter than the request
				for len(cl) > 0 && r.Intn(3) == 0 {
					cl = append(cl, cl[r.Intn(len(cl))])
				}
				res := w.deliver("UpdateCyclelist", -3, nil, func(ctx sdk.Context) error {
					_, err := w.oracleMS.UpdateCyclelist(ctx, &oracletypes.MsgUpdateCyclelist{Authority: w.authority, Cyclelist: cl})
					return err
				})
				if res.result == 0 {
					updates++
				}
				obs(fmt.Sprintf("update/%d", res.result))
			}
			if r.Intn(3) == 0 {
				// a report on the current query lets its window close
				qd := w.currentCycleQuery()
				w.deliver("SubmitValue", 0, nil, func(ctx sdk.Context) error {
					_, err := w.oracleMS.SubmitValue(ctx, &oracletypes.MsgSubmitValue{Creator: w.accts[0].String(), QueryData: qd, Value: randHex(r, 64)})
					return err
				})
			}
			res := w.endBlock()
			obs(fmt.Sprintf("end/%d", res.result))
		}
		out.Emit(Case{Coq: fmt.Sprintf("CycleCase %s", clist(states)), Kind: fmt.Sprintf("updates=%d/halted=%v", updates, w.halted != ""),
			Nontrivial: updates >= 1, Key: fmt.Sprint(i, seed()), Human: map[string]interface{}{"states": len(states), "updates": updates, "halted": w.halted}})
	}
}
