package harness

// World: a full in-memory application (tests.SharedSetup: real auth/bank/staking/slashing/
// distribution/gov + all Layer keepers) driven block by block with generated transactions.
// Used by the history drivers of C02/C03/C04/C05/C19/C01.

import (
	"encoding/binary"
	"encoding/hex"
	"fmt"
	"math/big"
	"math/rand"
	"sort"
	"strings"
	"testing"
	"time"

	setup "github.com/tellor-io/layer/tests"
	"github.com/tellor-io/layer/utils"
	bridgekeeper "github.com/tellor-io/layer/x/bridge/keeper"
	bridgetypes "github.com/tellor-io/layer/x/bridge/types"
	"github.com/tellor-io/layer/x/dispute"
	disputekeeper "github.com/tellor-io/layer/x/dispute/keeper"
	disputetypes "github.com/tellor-io/layer/x/dispute/types"
	"github.com/tellor-io/layer/x/mint"
	mintkeeper "github.com/tellor-io/layer/x/mint/keeper"
	minttypes "github.com/tellor-io/layer/x/mint/types"
	"github.com/tellor-io/layer/x/oracle"
	oraclekeeper "github.com/tellor-io/layer/x/oracle/keeper"
	oracletypes "github.com/tellor-io/layer/x/oracle/types"
	registrykeeper "github.com/tellor-io/layer/x/registry/keeper"
	registrytypes "github.com/tellor-io/layer/x/registry/types"
	reporterkeeper "github.com/tellor-io/layer/x/reporter/keeper"
	reportertypes "github.com/tellor-io/layer/x/reporter/types"

	"cosmossdk.io/collections"
	"cosmossdk.io/core/appmodule"
	"cosmossdk.io/math"

	"github.com/cosmos/cosmos-sdk/crypto/keys/secp256k1"
	sdk "github.com/cosmos/cosmos-sdk/types"
	authtypes "github.com/cosmos/cosmos-sdk/x/auth/types"
	govtypes "github.com/cosmos/cosmos-sdk/x/gov/types"
	stakingkeeper "github.com/cosmos/cosmos-sdk/x/staking/keeper"
	stakingtypes "github.com/cosmos/cosmos-sdk/x/staking/types"
)

type World struct {
	t   *testing.T
	s   *setup.SharedSetup
	r   *rand.Rand
	ctx sdk.Context

	height int64
	now    time.Time

	accts     []sdk.AccAddress // id = index
	valOps    []sdk.ValAddress // validators (operator addresses); validator i is run by account i
	authority string
	team      int // account id of the dispute team address

	queries   [][]byte // query data pool
	bridgeQueries [][]byte
	touched       uint64 // the dispute an AddFeeToDispute message names
	recent    []oracletypes.MicroReport
	disputes  []uint64
	reporters map[int]bool

	oracleMS   oracletypes.MsgServer
	disputeMS  disputetypes.MsgServer
	reporterMS reportertypes.MsgServer
	bridgeMS   bridgetypes.MsgServer
	registryMS registrytypes.MsgServer
	mintMS     minttypes.MsgServer
	stakingMS  stakingtypes.MsgServer

	mintInitialized bool
	halted          string
	events          []string // all events emitted so far (type and attributes, in order), when recordEvents is set
	focus           string // "" = all messages evenly; "dispute" = histories directed at dispute rounds, votes, execution and claims

	// optional knobs, used by the restart driver of C01 only (c01_restart_test.go).  All nil / zero for every other
	// driver: their behaviour and random streams are unchanged (no knob draws from w.r).
	hookBlockStart func()                             // first thing in beginBlock (a block boundary)
	hookBlockEnd   func()                             // last thing in endBlock
	hookOp         func(opResult)                     // after every delivered message and every Begin/EndBlock
	rollback       func(name string, signer int) bool // true: the message ran successfully on a cache context that is then discarded (result 4)
	privBias       int                                // > 0: one generated operation in privBias is a privileged (governance-style) message
	kr             *rand.Rand                         // random stream of the knobs
	staleRouters   []interface{}                      // routers replaced by restarts (for the census of the restart driver)
}

// worldInit, when set, configures every new World at the end of newWorld (restart driver of C01)
var worldInit func(*World)

const loyaPerTRB = 1_000_000

// recordEvents: the World keeps every emitted event (replay driver of C01)
var recordEvents = false

// worldDeterministic: newWorld builds the application from fixed keys only (used by the replay driver of C01)
var worldDeterministic = false

func spotQuery(w *World, params string) []byte {
	res, err := w.s.Registrykeeper.GenerateQuerydata(w.ctx, &registrytypes.QueryGenerateQuerydataRequest{Querytype: "SpotPrice", Parameters: params})
	if err != nil {
		w.t.Fatal(err)
	}
	return res.QueryData
}

func newWorld(t *testing.T, r *rand.Rand, nVals, nPlain int) *World {
	s := &setup.SharedSetup{}
	s.SetupTest(t)
	if worldDeterministic {
		c10Rewire(t, s) // fixed genesis validator and genesis account: a seed then determines the whole history
	} else {
		rewire(t, s)
	}
	w := &World{t: t, s: s, r: r, reporters: map[int]bool{}}
	w.height = 2
	w.now = time.Unix(1_700_000_000, 0).UTC()
	s.Ctx = s.Ctx.WithBlockHeight(w.height).WithBlockTime(w.now)
	w.ctx = s.Ctx
	w.authority = authtypes.NewModuleAddress(govtypes.ModuleName).String()
	w.oracleMS = oraclekeeper.NewMsgServerImpl(s.Oraclekeeper)
	w.disputeMS = disputekeeper.NewMsgServerImpl(s.Disputekeeper)
	w.reporterMS = reporterkeeper.NewMsgServerImpl(s.Reporterkeeper)
	w.bridgeMS = bridgekeeper.NewMsgServerImpl(s.Bridgekeeper)
	w.registryMS = registrykeeper.NewMsgServerImpl(s.Registrykeeper)
	w.mintMS = mintkeeper.NewMsgServerImpl(s.Mintkeeper)
	w.stakingMS = stakingkeeper.NewMsgServerImpl(s.Stakingkeeper)

	valAccs, valOps, _ := s.CreateValidators(nVals)
	w.accts = append(w.accts, valAccs...)
	w.valOps = valOps
	for i, op := range valOps {
		evm := make([]byte, 20)
		binary.BigEndian.PutUint64(evm[12:], uint64(i+1))
		evm[0] = 0xE0
		if err := s.Bridgekeeper.SetEVMAddressByOperator(w.ctx, op.String(), evm); err != nil {
			t.Fatal(err)
		}
		s.MintTokens(valAccs[i], math.NewInt(2000*loyaPerTRB))
	}
	// the genesis validator of the fixture also runs a bridge key (environment assumption of C02/C16:
	// at least one bonded validator with a registered EVM address exists); it is never jailed here
	allVals, _ := s.Stakingkeeper.GetAllValidators(w.ctx)
	for i, v := range allVals {
		if _, err := s.Bridgekeeper.OperatorToEVMAddressMap.Get(w.ctx, v.GetOperator()); err != nil {
			evm := make([]byte, 20)
			evm[0] = 0xE1
			evm[19] = byte(i + 1)
			if err := s.Bridgekeeper.SetEVMAddressByOperator(w.ctx, v.GetOperator(), evm); err != nil {
				t.Fatal(err)
			}
		}
	}
	for i := 0; i < nPlain; i++ {
		var a sdk.AccAddress
		if worldDeterministic {
			a = sdk.AccAddress(secp256k1.GenPrivKeyFromSecret([]byte(fmt.Sprintf("plain account %d", i))).PubKey().Address())
			s.MintTokens(a, math.NewInt(10_000*loyaPerTRB))
		} else {
			a, _ = s.CreateFundedAccount(10_000)
		}
		w.accts = append(w.accts, a)
	}
	// the dispute team address becomes an actor
	dp, err := s.Disputekeeper.Params.Get(w.ctx)
	if err != nil {
		t.Fatal(err)
	}
	teamAddr := sdk.AccAddress(dp.TeamAddress)
	s.MintTokens(teamAddr, math.NewInt(1000*loyaPerTRB))
	w.team = len(w.accts)
	w.accts = append(w.accts, teamAddr)

	for _, m := range []string{bridgetypes.ModuleName, disputetypes.ModuleName, oracletypes.ModuleName, reportertypes.TipsEscrowPool, minttypes.TimeBasedRewards} {
		s.Accountkeeper.GetModuleAccount(w.ctx, m) // production creates the module accounts at genesis
	}
	w.queries = [][]byte{
		spotQuery(w, `["eth","usd"]`), spotQuery(w, `["btc","usd"]`), spotQuery(w, `["trb","usd"]`),
		spotQuery(w, `["sol","usd"]`), spotQuery(w, `["ada","eur"]`),
	}
	// bridge deposit / withdrawal query data (deposits are reportable without tip, withdrawals never)
	bspec := registrytypes.DataSpec{AbiComponents: []*registrytypes.ABIComponent{{Name: "tolayer", FieldType: "bool"}, {Name: "depositId", FieldType: "uint256"}}}
	for _, p := range []string{`["true","1"]`, `["true","2"]`, `["false","1"]`} {
		if qd, err := bspec.EncodeData("TRBBridge", p); err == nil {
			w.bridgeQueries = append(w.bridgeQueries, qd)
		} else {
			t.Fatal(err)
		}
	}
	// the first validators' accounts are reporters; plain accounts partly select them
	nrep := 2
	if nVals < 2 {
		nrep = nVals
	}
	for i := 0; i < nrep; i++ {
		rate := pick(r, math.LegacyZeroDec(), math.LegacyNewDecWithPrec(1, 1), math.LegacyNewDecWithPrec(5, 1), math.LegacyOneDec())
		if _, err := w.reporterMS.CreateReporter(w.ctx, &reportertypes.MsgCreateReporter{ReporterAddress: w.accts[i].String(), CommissionRate: rate, MinTokensRequired: math.NewInt(loyaPerTRB)}); err != nil {
			t.Fatal(err)
		}
		w.reporters[i] = true
	}
	if worldInit != nil {
		worldInit(w)
	}
	return w
}

// ---- execution -----------------------------------------------------------------------------
type opResult struct {
	name   string
	signer int
	result int // 0 ok, 1 rejected, 2 halt
	errMsg string
	params []*big.Int
}

func (w *World) deliver(name string, signer int, params []*big.Int, f func(ctx sdk.Context) error) opResult {
	res := opResult{name: name, signer: signer, params: params}
	// fee totals of the disputes before a dispute message (to tell what the message was credited with)
	feeBefore := map[uint64]*big.Int{}
	var prevID uint64
	if name == "ProposeDispute" || name == "AddFeeToDispute" {
		_ = w.s.Disputekeeper.Disputes.Walk(w.ctx, nil, func(k uint64, d disputetypes.Dispute) (bool, error) {
			feeBefore[k] = d.FeeTotal.BigInt()
			if k > prevID {
				prevID = k
			}
			return false, nil
		})
	}
	cctx, write := w.ctx.CacheContext()
	func() {
		defer func() {
			if rec := recover(); rec != nil {
				res.result = 1
				res.errMsg = fmt.Sprintf("panic: %v", rec)
			}
		}()
		if err := f(cctx); err != nil {
			res.result = 1
			res.errMsg = err.Error()
			// a withdrawal of credited tips that fails because the escrow pool cannot pay (C04)
			if (name == "WithdrawTip" || name == "ClaimReward" || name == "WithdrawFeeRefund") && strings.Contains(res.errMsg, "insufficient funds") {
				res.result = 3
			}
			return
		}
		if w.rollback != nil && w.rollback(name, signer) {
			// what x/gov does with the earlier messages of a proposal whose later message fails, and baseapp with the
			// earlier messages of such a transaction: executed, then the cache context (state and events) is dropped
			res.result = 4
			return
		}
		write()
	}()
	// a dispute message: was the dispute it opened / paid into fully funded afterwards?  (the fee paid so far covers
	// the dispute fee of its category; further rounds take no stake and count as funded)
	if res.result == 0 && (name == "ProposeDispute" || name == "AddFeeToDispute") {
		id := w.touched
		if name == "ProposeDispute" {
			id = 0
			_ = w.s.Disputekeeper.Disputes.Walk(w.ctx, nil, func(k uint64, _ disputetypes.Dispute) (bool, error) {
				if k > id {
					id = k
				}
				return false, nil
			})
		}
		funded := int64(0)
		credited, slashNow := bi(0), bi(0)
		if d, err := w.s.Disputekeeper.Disputes.Get(w.ctx, id); err == nil {
			// funded: the fee payments on record for this dispute (a refunded payment is taken off the record) cover the
			// dispute fee; further rounds take no stake and count as funded
			paidOnRecord := math.ZeroInt()
			_ = w.s.Disputekeeper.DisputeFeePayer.Walk(w.ctx, collections.NewPrefixedPairRange[uint64, []byte](id), func(_ collections.Pair[uint64, []byte], p disputetypes.PayerInfo) (bool, error) {
				paidOnRecord = paidOnRecord.Add(p.Amount)
				return false, nil
			})
			if d.DisputeRound > 1 || (d.FeeTotal.GTE(d.SlashAmount) && paidOnRecord.GTE(d.SlashAmount)) {
				funded = 1
			}
			// what the message added to the fee total of the dispute, and the stake the same message escrowed (the slash
			// amount, when this payment completed the fee of a first round)
			was := feeBefore[id]
			if name == "ProposeDispute" && d.DisputeRound > 1 && prevID != 0 {
				was = feeBefore[prevID]
			}
			if was == nil {
				was = bi(0)
			}
			credited = bsub(d.FeeTotal.BigInt(), was)
			if d.DisputeRound == 1 && d.FeeTotal.GTE(d.SlashAmount) && (feeBefore[id] == nil || feeBefore[id].Cmp(d.SlashAmount.BigInt()) < 0) {
				slashNow = d.SlashAmount.BigInt()
			}
		}
		res.params = append(append([]*big.Int{}, res.params...), bi(funded), credited, slashNow)
	}
	if w.hookOp != nil {
		w.hookOp(res)
	}
	return res
}

// block functions in the production order of app/app.go (the SDK modules that matter here)
func (w *World) blockFn(name string, params []*big.Int, fns ...func(ctx sdk.Context) error) opResult {
	res := opResult{name: name, signer: -1, params: params}
	func() {
		defer func() {
			if rec := recover(); rec != nil {
				res.result = 2
				res.errMsg = fmt.Sprintf("panic: %v", rec)
			}
		}()
		for _, f := range fns {
			if err := f(w.ctx); err != nil {
				res.result = 2
				res.errMsg = err.Error()
				return
			}
		}
	}()
	if res.result == 2 {
		w.halted = name + ": " + res.errMsg
	}
	return res
}

func (w *World) beginBlock(gap time.Duration) opResult {
	if w.hookBlockStart != nil {
		w.hookBlockStart()
	}
	w.height++
	prev := w.now
	w.now = w.now.Add(gap)
	w.ctx = w.s.Ctx.WithBlockHeight(w.height).WithBlockTime(w.now).WithEventManager(sdk.NewEventManager())
	w.s.Ctx = w.ctx
	ini := int64(0)
	minter, _ := w.s.Mintkeeper.Minter.Get(w.ctx)
	prevNs := int64(-1)
	if minter.Initialized {
		ini = 1
		if minter.PreviousBlockTime != nil {
			prevNs = minter.PreviousBlockTime.UnixNano()
		}
	}
	_ = prev
	notExecuted := map[uint64]bool{}
	_ = w.s.Disputekeeper.Votes.Walk(w.ctx, nil, func(id uint64, v disputetypes.Vote) (bool, error) {
		if !v.Executed {
			notExecuted[id] = true
		}
		return false, nil
	})
	res := w.blockFn("BeginBlock", []*big.Int{bi(ini), bi(prevNs), bi(w.now.UnixNano())},
		func(ctx sdk.Context) error { return mint.BeginBlocker(ctx, w.s.Mintkeeper) },
		func(ctx sdk.Context) error { return w.s.Stakingkeeper.BeginBlocker(ctx) },
		func(ctx sdk.Context) error { return dispute.BeginBlocker(ctx, w.s.Disputekeeper) },
	)
	// the disputes this begin blocker executed: (id, burn amount of the record, flags: 1 = no voting power was cast in
	// any round, 2 = a later round of the same dispute exists)
	if res.result == 0 {
		func() {
			defer func() { _ = recover() }()
			var all []disputetypes.Dispute
			_ = w.s.Disputekeeper.Disputes.Walk(w.ctx, nil, func(_ uint64, d disputetypes.Dispute) (bool, error) {
				all = append(all, d)
				return false, nil
			})
			for _, d := range all {
				v, err := w.s.Disputekeeper.Votes.Get(w.ctx, d.DisputeId)
				if err != nil || !v.Executed || !notExecuted[d.DisputeId] {
					continue
				}
				flags := int64(0)
				if tot, err := w.s.Disputekeeper.GetSumOfAllGroupVotesAllRounds(w.ctx, d.DisputeId); err == nil && tot.IsZero() {
					flags |= 1
				}
				for _, o := range all {
					if string(o.HashId) == string(d.HashId) && o.DisputeId > d.DisputeId {
						flags |= 2
					}
				}
				res.params = append(res.params, new(big.Int).SetUint64(d.DisputeId), d.BurnAmount.BigInt(), bi(flags))
			}
		}()
	}
	if w.hookOp != nil {
		w.hookOp(res)
	}
	return res
}

func (w *World) endBlock() opResult {
	res := w.endBlock0()
	// how many aggregates of bridge-deposit queries this block made (their reports always count for the time based
	// rewards), and how many aggregates in all
	nDeposit, nAll := 0, 0
	if res.result == 0 {
		func() {
			defer func() { _ = recover() }()
			for _, a := range w.s.Oraclekeeper.GetAggregatedReportsByHeight(w.ctx, uint64(w.height)) {
				nAll++
				for _, qd := range w.bridgeQueries[:2] {
					if string(a.QueryId) == string(utils.QueryIDFromData(qd)) {
						nDeposit++
					}
				}
			}
		}()
	}
	res.params = []*big.Int{bi(int64(nDeposit)), bi(int64(nAll))}
	if recordEvents {
		for _, e := range w.ctx.EventManager().Events() {
			line := e.Type
			for _, a := range e.Attributes {
				line += " " + a.Key + "=" + a.Value
			}
			w.events = append(w.events, line)
		}
	}
	if w.hookOp != nil {
		w.hookOp(res)
	}
	if w.hookBlockEnd != nil {
		w.hookBlockEnd()
	}
	return res
}

func (w *World) endBlock0() opResult {
	return w.blockFn("EndBlock", nil,
		func(ctx sdk.Context) error { _, err := w.s.Stakingkeeper.EndBlocker(ctx); return err },
		func(ctx sdk.Context) error { return oracle.EndBlocker(ctx, w.s.Oraclekeeper) },
		func(ctx sdk.Context) error {
			m := w.s.App.ModuleManager.Modules[bridgetypes.ModuleName]
			return m.(appmodule.HasEndBlocker).EndBlock(ctx)
		},
		func(ctx sdk.Context) error { return w.s.Reporterkeeper.TrackStakeChange(ctx) },
	)
}

// ---- projection -----------------------------------------------------------------------------
type snapshot struct {
	supply, balsum                            *big.Int
	oracle, oracleOwed                        *big.Int
	tips, tipsFloor, tipsScaled               *big.Int
	tipsEntries                               int
	dispute, bridge, tbr, feecoll             *big.Int
	bonded, bondedLedger, notBonded, nbLedger *big.Int
	sharesPos, tokensNonneg, creditsNonneg    bool
	recordsSum                                bool
}

func (w *World) modBal(name string) *big.Int {
	addr := authtypes.NewModuleAddress(name)
	return w.s.Bankkeeper.GetBalance(w.ctx, addr, w.s.Denom).Amount.BigInt()
}

func (w *World) snap() snapshot {
	s := w.s
	var sn snapshot
	sn.supply = s.Bankkeeper.GetSupply(w.ctx, s.Denom).Amount.BigInt()
	sn.balsum = new(big.Int)
	s.Bankkeeper.IterateAllBalances(w.ctx, func(_ sdk.AccAddress, c sdk.Coin) bool {
		if c.Denom == s.Denom {
			sn.balsum.Add(sn.balsum, c.Amount.BigInt())
		}
		return false
	})
	sn.oracle = w.modBal(oracletypes.ModuleName)
	sn.oracleOwed = new(big.Int)
	_ = s.Oraclekeeper.Query.Walk(w.ctx, nil, func(_ collectionsPairBytesU64, q oracletypes.QueryMeta) (bool, error) {
		sn.oracleOwed.Add(sn.oracleOwed, q.Amount.BigInt())
		return false, nil
	})
	sn.tips = w.modBal(reportertypes.TipsEscrowPool)
	sn.tipsFloor, sn.tipsScaled = new(big.Int), new(big.Int)
	sn.creditsNonneg = true
	_ = s.Reporterkeeper.SelectorTips.Walk(w.ctx, nil, func(_ []byte, d math.LegacyDec) (bool, error) {
		if d.IsNegative() {
			sn.creditsNonneg = false
		}
		sn.tipsFloor.Add(sn.tipsFloor, d.TruncateInt().BigInt())
		sn.tipsScaled.Add(sn.tipsScaled, d.BigInt())
		sn.tipsEntries++
		return false, nil
	})
	sn.dispute = w.modBal(disputetypes.ModuleName)
	sn.bridge = w.modBal(bridgetypes.ModuleName)
	sn.tbr = w.modBal(minttypes.TimeBasedRewards)
	sn.feecoll = w.modBal(authtypes.FeeCollectorName)
	sn.bonded = w.modBal(stakingtypes.BondedPoolName)
	sn.notBonded = w.modBal(stakingtypes.NotBondedPoolName)
	sn.bondedLedger, sn.nbLedger = new(big.Int), new(big.Int)
	sn.sharesPos, sn.tokensNonneg = true, true
	vals, _ := s.Stakingkeeper.GetAllValidators(w.ctx)
	for _, v := range vals {
		if v.Tokens.IsNegative() {
			sn.tokensNonneg = false
		}
		if v.IsBonded() {
			sn.bondedLedger.Add(sn.bondedLedger, v.Tokens.BigInt())
		} else {
			sn.nbLedger.Add(sn.nbLedger, v.Tokens.BigInt())
		}
	}
	_ = s.Stakingkeeper.IterateUnbondingDelegations(w.ctx, func(_ int64, ubd stakingtypes.UnbondingDelegation) bool {
		for _, e := range ubd.Entries {
			sn.nbLedger.Add(sn.nbLedger, e.Balance.BigInt())
		}
		return false
	})
	dels, _ := s.Stakingkeeper.GetAllDelegations(w.ctx)
	for _, d := range dels {
		if !d.Shares.IsPositive() {
			sn.sharesPos = false
		}
	}
	// the per-backer records of stake taken for dispute fees sum to their totals
	sn.recordsSum = true
	_ = s.Reporterkeeper.FeePaidFromStake.Walk(w.ctx, nil, func(_ []byte, d reportertypes.DelegationsAmounts) (bool, error) {
		sum := math.ZeroInt()
		for _, o := range d.TokenOrigins {
			sum = sum.Add(o.Amount)
		}
		if !sum.Equal(d.Total) {
			sn.recordsSum = false
		}
		return false, nil
	})
	return sn
}

func (sn snapshot) coq() string {
	return fmt.Sprintf("(Snap %s %s %s %s %s %s %s %d %s %s %s %s %s %s %s %s %s %s %s %s)",
		cz(sn.supply), cz(sn.balsum), cz(sn.oracle), cz(sn.oracleOwed), cz(sn.tips), cz(sn.tipsFloor), cz(sn.tipsScaled), sn.tipsEntries,
		cz(sn.dispute), cz(sn.bridge), cz(sn.tbr), cz(sn.feecoll), cz(sn.bonded), cz(sn.bondedLedger), cz(sn.notBonded), cz(sn.nbLedger),
		cbool(sn.sharesPos), cbool(sn.tokensNonneg), cbool(sn.creditsNonneg), cbool(sn.recordsSum))
}

// holdings of one account (C19): liquid, delegated (whole loya), tip credit (10^-18), selected reporter id
type holding struct {
	liquid, staked, credit *big.Int
	selected               int
	inexact                int64 // delegations at validators whose exchange rate is not one
}

func (w *World) acctID(a sdk.AccAddress) int {
	for i, x := range w.accts {
		if x.Equals(a) {
			return i
		}
	}
	return -1
}

func (w *World) holdings() []holding {
	hs := make([]holding, len(w.accts))
	for i, a := range w.accts {
		h := holding{liquid: w.s.Bankkeeper.GetBalance(w.ctx, a, w.s.Denom).Amount.BigInt(), staked: new(big.Int), credit: new(big.Int), selected: -1}
		_ = w.s.Stakingkeeper.IterateDelegatorDelegations(w.ctx, a, func(d stakingtypes.Delegation) bool {
			va, _ := sdk.ValAddressFromBech32(d.ValidatorAddress)
			v, err := w.s.Stakingkeeper.GetValidator(w.ctx, va)
			if err == nil {
				h.staked.Add(h.staked, v.TokensFromShares(d.Shares).TruncateInt().BigInt())
				// at a validator whose exchange rate is not one (it was slashed) the whole-token value of a delegation is a
				// rounded-down fraction: somebody else's (un)delegation there can move it by one unit
				if !v.DelegatorShares.Equal(math.LegacyNewDecFromInt(v.Tokens)) {
					h.inexact++
				}
			}
			return false
		})
		ubds, _ := w.s.Stakingkeeper.GetUnbondingDelegations(w.ctx, a, 100)
		for _, u := range ubds {
			for _, e := range u.Entries {
				h.staked.Add(h.staked, e.Balance.BigInt())
			}
		}
		if d, err := w.s.Reporterkeeper.SelectorTips.Get(w.ctx, a.Bytes()); err == nil {
			h.credit = d.BigInt()
		}
		if sel, err := w.s.Reporterkeeper.Selectors.Get(w.ctx, a.Bytes()); err == nil {
			h.selected = w.acctID(sdk.AccAddress(sel.Reporter))
			if h.selected < 0 {
				h.selected = 9999
			}
		}
		hs[i] = h
	}
	return hs
}

// ---- message generators ----------------------------------------------------------------------
type genOp struct {
	name   string
	signer int
	params []*big.Int
	roles  map[int]string // accounts (other than the signer) the message may legitimately affect, with the reason
	run    func(ctx sdk.Context) error
}

func (w *World) coin(a *big.Int) sdk.Coin { return sdk.NewCoin(w.s.Denom, math.NewIntFromBigInt(a)) }

func (w *World) randAcct() int { return w.r.Intn(len(w.accts)) }

func (w *World) randValue() string {
	r := w.r
	switch r.Intn(12) {
	case 0:
		return "0x" + randHex(r, 64)
	case 1:
		return pick(r, "0X", "0X", "0x0x", "0X0x") + randHex(r, 64)
	case 2:
		return randHex(r, 63)
	case 3:
		return pick(r, "", "zz", "0x", "g"+randHex(r, 63), strings.ToUpper(randHex(r, 64)))
	case 4:
		return randHex(r, 128)
	default:
		return randHex(r, 64)
	}
}

func (w *World) currentCycleQuery() []byte {
	q, err := w.s.Oraclekeeper.GetCurrentQueryInCycleList(w.ctx)
	if err != nil {
		return w.queries[0]
	}
	return q
}

func (w *World) amount(maxTRB int64) *big.Int {
	r := w.r
	switch r.Intn(5) {
	case 0:
		return bi(int64(pick(r, 1, 2, 49, 50, 51, 99, 100, 101)))
	case 1:
		return bi(int64(1+r.Intn(int(maxTRB))) * loyaPerTRB)
	default:
		return bi(1 + r.Int63n(maxTRB*loyaPerTRB))
	}
}

func (w *World) genOp() genOp {
	r := w.r
	s := w.s
	a := w.randAcct()
	addr := w.accts[a].String()
	if w.focus == "dispute" && r.Intn(2) == 0 {
		switch r.Intn(6) {
		case 0, 1:
			return w.genDisputeOp(a)
		case 2, 3:
			return w.genVoteOp(a)
		default:
			return w.genClaimOp(a)
		}
	}
	if w.privBias > 0 && w.kr.Intn(w.privBias) == 0 {
		return w.genPrivileged(a)
	}
	switch r.Intn(30) {
	case 0, 1, 2:
		qd := pick(r, w.queries...)
		amt := w.amount(20)
		return genOp{name: "Tip", signer: a, params: []*big.Int{amt}, run: func(ctx sdk.Context) error {
			_, err := w.oracleMS.Tip(ctx, &oracletypes.MsgTip{Tipper: addr, QueryData: qd, Amount: w.coin(amt)})
			return err
		}}
	case 3, 4, 5, 6, 7:
		// reports mostly by reporters, on the cycle-list query or a pool query
		rep := a
		if r.Intn(5) != 0 && len(w.reporters) > 0 {
			ids := make([]int, 0)
			for id := range w.reporters {
				ids = append(ids, id)
			}
			sort.Ints(ids)
			rep = ids[r.Intn(len(ids))]
		}
		qd := w.currentCycleQuery()
		if r.Intn(3) == 0 {
			qd = pick(r, w.queries...)
		}
		val := w.randValue()
		if r.Intn(8) == 0 {
			qd = pick(r, w.bridgeQueries...)
			val = pick(r, "000000000000000000000000000000000000000000000058528649cf80ee0000", randHex(r, 64), randHex(r, 256), w.randValue())
		}
		raddr := w.accts[rep]
		return genOp{name: "SubmitValue", signer: rep, run: func(ctx sdk.Context) error {
			_, err := w.oracleMS.SubmitValue(ctx, &oracletypes.MsgSubmitValue{Creator: raddr.String(), QueryData: qd, Value: val})
			if err == nil {
				qid := utils.QueryIDFromData(qd)
				w.noteReport(ctx, qid, raddr)
			}
			return err
		}}
	case 8:
		rate := pick(r, math.LegacyZeroDec(), math.LegacyNewDecWithPrec(5, 1), math.LegacyOneDec(), math.LegacyNewDec(2), math.LegacyNewDec(101), math.LegacyNewDecWithPrec(-5, 1))
		return genOp{name: "CreateReporter", signer: a, run: func(ctx sdk.Context) error {
			_, err := w.reporterMS.CreateReporter(ctx, &reportertypes.MsgCreateReporter{ReporterAddress: addr, CommissionRate: rate, MinTokensRequired: math.NewInt(loyaPerTRB)})
			if err == nil {
				w.reporters[a] = true
			}
			return err
		}}
	case 9, 10:
		rep := w.randAcct()
		name := pick(r, "SelectReporter", "SwitchReporter")
		if r.Intn(5) != 0 && len(w.reporters) > 0 {
			ids := make([]int, 0)
			for id := range w.reporters {
				ids = append(ids, id)
			}
			sort.Ints(ids)
			rep = ids[r.Intn(len(ids))]
			// a signer for whom the message can succeed: (not) yet a selector, with a delegation
			for _, i := range r.Perm(len(w.accts)) {
				_, err := s.Reporterkeeper.Selectors.Get(w.ctx, w.accts[i].Bytes())
				_, _, hasDel := w.someDelegation(i)
				if hasDel && ((name == "SelectReporter") == (err != nil)) && !w.reporters[i] {
					a, addr = i, w.accts[i].String()
					break
				}
			}
		}
		return genOp{name: name, signer: a, run: func(ctx sdk.Context) error {
			var err error
			if name == "SelectReporter" {
				_, err = w.reporterMS.SelectReporter(ctx, &reportertypes.MsgSelectReporter{SelectorAddress: addr, ReporterAddress: w.accts[rep].String()})
			} else {
				_, err = w.reporterMS.SwitchReporter(ctx, &reportertypes.MsgSwitchReporter{SelectorAddress: addr, ReporterAddress: w.accts[rep].String()})
			}
			return err
		}}
	case 11:
		sel := w.randAcct()
		return genOp{name: "RemoveSelector", signer: a, roles: map[int]string{sel: "removed_selector"}, run: func(ctx sdk.Context) error {
			_, err := w.reporterMS.RemoveSelector(ctx, &reportertypes.MsgRemoveSelector{AnyAddress: addr, SelectorAddress: w.accts[sel].String()})
			return err
		}}
	case 12:
		return genOp{name: "UnjailReporter", signer: a, run: func(ctx sdk.Context) error {
			_, err := w.reporterMS.UnjailReporter(ctx, &reportertypes.MsgUnjailReporter{ReporterAddress: addr})
			return err
		}}
	case 13:
		v := pick(r, w.valOps...)
		if r.Intn(5) != 0 {
			for _, i := range r.Perm(len(w.accts)) {
				if d, err := s.Reporterkeeper.SelectorTips.Get(w.ctx, w.accts[i].Bytes()); err == nil && d.GTE(math.LegacyOneDec()) {
					a, addr = i, w.accts[i].String()
					break
				}
			}
		}
		return genOp{name: "WithdrawTip", signer: a, run: func(ctx sdk.Context) error {
			_, err := w.reporterMS.WithdrawTip(ctx, &reportertypes.MsgWithdrawTip{SelectorAddress: addr, ValidatorAddress: v.String()})
			return err
		}}
	case 14, 15:
		v := pick(r, w.valOps...)
		amt := w.amount(300)
		return genOp{name: "Delegate", signer: a, run: func(ctx sdk.Context) error {
			_, err := w.stakingMS.Delegate(ctx, &stakingtypes.MsgDelegate{DelegatorAddress: addr, ValidatorAddress: v.String(), Amount: w.coin(amt)})
			return err
		}}
	case 16:
		v := pick(r, w.valOps...)
		amt := w.amount(300)
		if vv, aa, ok := w.someDelegation(a); ok && r.Intn(5) != 0 {
			v = vv
			amt = pick(r, aa, bquo(aa, bi(2)), bquo(aa, bi(3)), badd(aa, bi(1)), bi(loyaPerTRB))
			if amt.Sign() == 0 {
				amt = bi(1)
			}
		}
		return genOp{name: "Undelegate", signer: a, run: func(ctx sdk.Context) error {
			_, err := w.stakingMS.Undelegate(ctx, &stakingtypes.MsgUndelegate{DelegatorAddress: addr, ValidatorAddress: v.String(), Amount: w.coin(amt)})
			return err
		}}
	case 17:
		v1, v2 := pick(r, w.valOps...), pick(r, w.valOps...)
		amt := w.amount(300)
		if vv, aa, ok := w.someDelegation(a); ok && r.Intn(5) != 0 {
			v1 = vv
			amt = pick(r, aa, bquo(aa, bi(2)), bquo(aa, bi(3)), bi(loyaPerTRB))
			if amt.Sign() == 0 {
				amt = bi(1)
			}
		}
		return genOp{name: "BeginRedelegate", signer: a, run: func(ctx sdk.Context) error {
			_, err := w.stakingMS.BeginRedelegate(ctx, &stakingtypes.MsgBeginRedelegate{DelegatorAddress: addr, ValidatorSrcAddress: v1.String(), ValidatorDstAddress: v2.String(), Amount: w.coin(amt)})
			return err
		}}
	case 18, 19:
		return w.genDisputeOp(a)
	case 20:
		return w.genVoteOp(a)
	case 21:
		return w.genClaimOp(a)
	case 22:
		amt := w.amount(50)
		rcpt := pick(r, hex.EncodeToString(make([]byte, 20)), "0x"+randHex(r, 40), randHex(r, 40), "zz", randHex(r, 10))
		return genOp{name: "WithdrawTokens", signer: a, params: []*big.Int{amt}, run: func(ctx sdk.Context) error {
			_, err := w.bridgeMS.WithdrawTokens(ctx, &bridgetypes.MsgWithdrawTokens{Creator: addr, Recipient: rcpt, Amount: w.coin(amt)})
			return err
		}}
	case 23:
		return genOp{name: "RequestAttestations", signer: a, run: func(ctx sdk.Context) error {
			qid := hex.EncodeToString(utils.QueryIDFromData(pick(r, w.queries...)))
			ts := uint64(w.now.UnixMilli() - int64(r.Intn(5000)))
			// mostly an existing aggregate
			type qt struct {
				q  []byte
				ts uint64
			}
			var all []qt
			_ = w.s.Oraclekeeper.Aggregates.Walk(ctx, nil, func(k collectionsPairBytesU64, _ oracletypes.Aggregate) (bool, error) {
				all = append(all, qt{k.K1(), k.K2()})
				return len(all) > 50, nil
			})
			if len(all) > 0 && r.Intn(5) != 0 {
				x := all[r.Intn(len(all))]
				qid, ts = hex.EncodeToString(x.q), x.ts
			}
			_, err := w.bridgeMS.RequestAttestations(ctx, &bridgetypes.MsgRequestAttestations{Creator: addr, QueryId: qid, Timestamp: fmt.Sprintf("%d", ts)})
			return err
		}}
	case 24:
		return genOp{name: "ClaimDeposits", signer: a, run: func(ctx sdk.Context) error {
			_, err := w.bridgeMS.ClaimDeposits(ctx, &bridgetypes.MsgClaimDepositsRequest{Creator: addr, DepositIds: []uint64{uint64(1 + r.Intn(3))}, Indices: []uint64{uint64(r.Intn(2))}})
			return err
		}}
	case 25:
		return w.genPrivileged(a)
	case 26:
		// a validator is jailed / unjailed (downtime), reached through the staking keeper
		vi := r.Intn(len(w.valOps))
		return genOp{name: "ValidatorJailToggle", signer: -2, run: func(ctx sdk.Context) error {
			v, err := s.Stakingkeeper.GetValidator(ctx, w.valOps[vi])
			if err != nil {
				return err
			}
			cons, err := v.GetConsAddr()
			if err != nil {
				return err
			}
			if v.Jailed {
				return s.Stakingkeeper.Unjail(ctx, cons)
			}
			// never jail the last bonded validator
			bonded, _ := s.Stakingkeeper.GetBondedValidatorsByPower(ctx)
			active := 0
			for _, b := range bonded {
				if !b.Jailed {
					active++
				}
			}
			if active <= 1 {
				return fmt.Errorf("last active validator")
			}
			return s.Stakingkeeper.Jail(ctx, cons)
		}}
	case 27:
		newTeam := w.randAcct()
		return genOp{name: "UpdateTeam", signer: a, run: func(ctx sdk.Context) error {
			_, err := w.disputeMS.UpdateTeam(ctx, &disputetypes.MsgUpdateTeam{CurrentTeamAddress: addr, NewTeamAddress: w.accts[newTeam].String()})
			if err == nil {
				w.team = newTeam
			}
			return err
		}}
	case 28:
		qt := pick(r, "spotprice", "SpotPrice", "NewType"+fmt.Sprint(r.Intn(3)), "trbbridge")
		return genOp{name: "RegisterSpec", signer: a, run: func(ctx sdk.Context) error {
			_, err := w.registryMS.RegisterSpec(ctx, &registrytypes.MsgRegisterSpec{Registrar: addr, QueryType: qt, Spec: registrytypes.DataSpec{
				DocumentHash: "x", ResponseValueType: "uint256", AggregationMethod: pick(r, "weighted-median", "weighted-mode"), Registrar: addr,
				ReportBlockWindow: uint64(pick(r, 0, 1, 2, 5)), AbiComponents: []*registrytypes.ABIComponent{{Name: "a", FieldType: "string"}}}})
			return err
		}}
	default:
		v := pick(r, w.valOps...)
		amt := w.amount(100)
		height := w.height - int64(r.Intn(3))
		// mostly an existing unbonding entry of somebody
		if r.Intn(5) != 0 {
			for _, i := range r.Perm(len(w.accts)) {
				ubds, _ := s.Stakingkeeper.GetUnbondingDelegations(w.ctx, w.accts[i], 10)
				if len(ubds) > 0 {
					u := ubds[r.Intn(len(ubds))]
					e := u.Entries[r.Intn(len(u.Entries))]
					a, addr = i, w.accts[i].String()
					v, _ = sdk.ValAddressFromBech32(u.ValidatorAddress)
					height = e.CreationHeight
					amt = pick(r, e.Balance.BigInt(), bquo(e.Balance.BigInt(), bi(2)), badd(e.Balance.BigInt(), bi(1)))
					if amt.Sign() == 0 {
						amt = bi(1)
					}
					break
				}
			}
		}
		return genOp{name: "CancelUnbondingDelegation", signer: a, run: func(ctx sdk.Context) error {
			_, err := w.stakingMS.CancelUnbondingDelegation(ctx, &stakingtypes.MsgCancelUnbondingDelegation{DelegatorAddress: addr, ValidatorAddress: v.String(), Amount: w.coin(amt), CreationHeight: height})
			return err
		}}
	}
}

// noteReport remembers the stored micro report for later disputes
func (w *World) noteReport(ctx sdk.Context, qid []byte, reporter sdk.AccAddress) {
	q, err := w.s.Oraclekeeper.CurrentQuery(ctx, qid)
	if err != nil {
		return
	}
	rep, err := w.s.Oraclekeeper.Reports.Get(ctx, collectionsJoin3(qid, reporter.Bytes(), q.Id))
	if err != nil {
		return
	}
	w.recent = append(w.recent, rep)
	if len(w.recent) > 12 {
		w.recent = w.recent[1:]
	}
}

func (w *World) backersOf(rep oracletypes.MicroReport) map[int]string {
	roles := map[int]string{}
	ra, err := sdk.AccAddressFromBech32(rep.Reporter)
	if err != nil {
		return roles
	}
	if id := w.acctID(ra); id >= 0 {
		roles[id] = "disputed_reporter"
	}
	snap, err := w.s.Reporterkeeper.Report.Get(w.ctx, collectionsJoinReport(rep.QueryId, ra.Bytes(), rep.BlockNumber))
	if err == nil {
		for _, o := range snap.TokenOrigins {
			if id := w.acctID(sdk.AccAddress(o.DelegatorAddress)); id >= 0 && roles[id] == "" {
				roles[id] = "backer_of_disputed"
			}
		}
	}
	return roles
}

func (w *World) selectorsOf(rep int) map[int]string {
	roles := map[int]string{}
	for i, a := range w.accts {
		if sel, err := w.s.Reporterkeeper.Selectors.Get(w.ctx, a.Bytes()); err == nil && sdk.AccAddress(sel.Reporter).Equals(w.accts[rep]) && i != rep {
			roles[i] = "selector_of_signer"
		}
	}
	return roles
}

func (w *World) genDisputeOp(a int) genOp {
	r := w.r
	addr := w.accts[a].String()
	if len(w.recent) == 0 || (len(w.disputes) > 0 && r.Intn(3) == 0) {
		if len(w.disputes) == 0 {
			return genOp{name: "Noop", signer: a, run: func(sdk.Context) error { return fmt.Errorf("nothing to dispute") }}
		}
		id := pick(r, w.disputes...)
		amt := w.amount(100)
		bond := r.Intn(3) == 0
		roles := map[int]string{}
		if bond {
			roles = w.selectorsOf(a)
		}
		if d, err := w.s.Disputekeeper.Disputes.Get(w.ctx, id); err == nil {
			for k, v := range w.backersOf(d.InitialEvidence) {
				if roles[k] == "" {
					roles[k] = v
				}
			}
		}
		return genOp{name: "AddFeeToDispute", signer: a, roles: roles, params: []*big.Int{bi(int64(b2i(bond)))}, run: func(ctx sdk.Context) error {
			w.touched = id
			_, err := w.disputeMS.AddFeeToDispute(ctx, &disputetypes.MsgAddFeeToDispute{Creator: addr, DisputeId: id, Amount: w.coin(amt), PayFromBond: bond})
			return err
		}}
	}
	if w.focus == "dispute" && len(w.disputes) > 0 && r.Intn(2) == 0 {
		// a further round of an existing dispute: the same report and category again
		id := pick(r, w.disputes...)
		for _, i := range r.Perm(len(w.disputes)) {
			if d, err := w.s.Disputekeeper.Disputes.Get(w.ctx, w.disputes[i]); err == nil && d.DisputeStatus == disputetypes.Unresolved {
				id = w.disputes[i]
				break
			}
		}
		if d, err := w.s.Disputekeeper.Disputes.Get(w.ctx, id); err == nil {
			rep := d.InitialEvidence
			fee := pick(r, d.SlashAmount.BigInt(), d.DisputeFee.BigInt(), bquo(d.SlashAmount.BigInt(), bi(10)), bi(1))
			if fee.Sign() <= 0 {
				fee = bi(1)
			}
			return genOp{name: "ProposeDispute", signer: a, roles: w.backersOf(rep), params: []*big.Int{bi(0)}, run: func(ctx sdk.Context) error {
				_, err := w.disputeMS.ProposeDispute(ctx, &disputetypes.MsgProposeDispute{Creator: addr, Report: &rep, DisputeCategory: d.DisputeCategory, Fee: w.coin(fee), PayFromBond: false})
				if err == nil {
					ds, _ := w.s.Disputekeeper.GetOpenDisputes(ctx)
					for _, id := range ds {
						known := false
						for _, k := range w.disputes {
							if k == id {
								known = true
							}
						}
						if !known {
							w.disputes = append(w.disputes, id)
						}
					}
				}
				return err
			}}
		}
	}
	rep := pick(r, w.recent...)
	if r.Intn(6) == 0 {
		rep.Value = randHex(r, 64) // altered report
	}
	if r.Intn(8) == 0 {
		rep.Power = rep.Power * 3
	}
	cat := pick(r, disputetypes.Warning, disputetypes.Minor, disputetypes.Major)
	// fee: full for the category, or partial
	pct := map[disputetypes.DisputeCategory]int64{disputetypes.Warning: 100, disputetypes.Minor: 20, disputetypes.Major: 1}[cat]
	full := bquo(bmul(new(big.Int).SetUint64(rep.Power), bi(loyaPerTRB)), bi(pct))
	fee := full
	switch r.Intn(5) {
	case 0:
		fee = bquo(full, bi(2))
	case 1:
		fee = badd(full, bi(int64(r.Intn(1000))))
	case 2:
		// just short of the full fee (the fee net of the 5 % burn, one unit less, ...)
		fee = pick(r, bquo(bmul(full, bi(95)), bi(100)), bquo(bmul(full, bi(97)), bi(100)), bsub(full, bi(1)), bquo(bmul(full, bi(99)), bi(100)))
	}
	if fee.Sign() == 0 {
		fee = bi(1)
	}
	bond := r.Intn(4) == 0
	roles := w.backersOf(rep)
	if bond {
		for k, v := range w.selectorsOf(a) {
			// also when the account backs the disputed reporter as well (a reporter disputing its own report, a shared
			// selector): the second exception names it
			roles[k] = v
		}
	}
	return genOp{name: "ProposeDispute", signer: a, roles: roles, params: []*big.Int{bi(int64(b2i(bond)))}, run: func(ctx sdk.Context) error {
		_, err := w.disputeMS.ProposeDispute(ctx, &disputetypes.MsgProposeDispute{Creator: addr, Report: &rep, DisputeCategory: cat, Fee: w.coin(fee), PayFromBond: bond})
		if err == nil {
			ds, _ := w.s.Disputekeeper.GetOpenDisputes(ctx)
			for _, id := range ds {
				known := false
				for _, k := range w.disputes {
					if k == id {
						known = true
					}
				}
				if !known {
					w.disputes = append(w.disputes, id)
				}
			}
		}
		return err
	}}
}

func (w *World) genVoteOp(a int) genOp {
	r := w.r
	if len(w.disputes) == 0 {
		return genOp{name: "Noop", signer: a, run: func(sdk.Context) error { return fmt.Errorf("no dispute") }}
	}
	id := pick(r, w.disputes...)
	if r.Intn(5) != 0 {
		for _, i := range r.Perm(len(w.disputes)) {
			if d, err := w.s.Disputekeeper.Disputes.Get(w.ctx, w.disputes[i]); err == nil && d.DisputeStatus == disputetypes.Voting {
				id = w.disputes[i]
				break
			}
		}
	}
	if r.Intn(4) == 0 {
		a = w.team
	}
	choice := pick(r, disputetypes.VoteEnum_VOTE_SUPPORT, disputetypes.VoteEnum_VOTE_AGAINST, disputetypes.VoteEnum_VOTE_INVALID)
	return genOp{name: "Vote", signer: a, run: func(ctx sdk.Context) error {
		_, err := w.disputeMS.Vote(ctx, &disputetypes.MsgVote{Voter: w.accts[a].String(), Id: id, Vote: choice})
		return err
	}}
}

func (w *World) genClaimOp(a int) genOp {
	r := w.r
	if len(w.disputes) == 0 {
		return genOp{name: "Noop", signer: a, run: func(sdk.Context) error { return fmt.Errorf("no dispute") }}
	}
	id := pick(r, w.disputes...)
	// prefer an executed dispute and a party of it
	if r.Intn(5) != 0 {
		for _, i := range r.Perm(len(w.disputes)) {
			if v, err := w.s.Disputekeeper.Votes.Get(w.ctx, w.disputes[i]); err == nil && v.Executed {
				id = w.disputes[i]
				break
			}
		}
	}
	kind := r.Intn(3)
	if r.Intn(5) != 0 {
		for _, i := range r.Perm(len(w.accts)) {
			if kind == 0 {
				if _, err := w.s.Disputekeeper.DisputeFeePayer.Get(w.ctx, collections.Join(id, w.accts[i].Bytes())); err == nil {
					a = i
					break
				}
			} else if kind == 1 {
				if _, err := w.s.Disputekeeper.Voter.Get(w.ctx, collections.Join(id, w.accts[i].Bytes())); err == nil {
					a = i
					break
				}
			}
		}
	}
	addr := w.accts[a].String()
	switch kind {
	case 0:
		payer := a
		if r.Intn(6) == 0 {
			payer = w.randAcct()
		}
		return genOp{name: "WithdrawFeeRefund", signer: a, run: func(ctx sdk.Context) error {
			_, err := w.disputeMS.WithdrawFeeRefund(ctx, &disputetypes.MsgWithdrawFeeRefund{CallerAddress: addr, PayerAddress: w.accts[payer].String(), Id: id})
			return err
		}}
	case 1:
		return genOp{name: "ClaimReward", signer: a, params: []*big.Int{new(big.Int).SetUint64(id), w.voterPot(id)}, run: func(ctx sdk.Context) error {
			_, err := w.disputeMS.ClaimReward(ctx, &disputetypes.MsgClaimReward{CallerAddress: addr, DisputeId: id})
			return err
		}}
	default:
		var reps []*oracletypes.MicroReport
		if len(w.recent) > 0 {
			x := pick(r, w.recent...)
			reps = append(reps, &x)
		}
		return genOp{name: "AddEvidence", signer: a, run: func(ctx sdk.Context) error {
			_, err := w.disputeMS.AddEvidence(ctx, &disputetypes.MsgAddEvidence{CallerAddress: addr, DisputeId: id, Reports: reps})
			return err
		}}
	}
}

// the voter-reward pot the executed dispute set aside (0 before execution: a claim is then refused)
func (w *World) voterPot(id uint64) *big.Int {
	d, err := w.s.Disputekeeper.Disputes.Get(w.ctx, id)
	if err != nil || d.VoterReward.IsNil() {
		return bi(0)
	}
	return d.VoterReward.BigInt()
}

// privileged messages: by the governance authority (accepted transactions) or by somebody else
func (w *World) genPrivileged(a int) genOp {
	r := w.r
	auth := w.authority
	byAuthority := r.Intn(2) == 0
	if w.privBias > 0 && !byAuthority && w.kr.Intn(2) == 0 {
		byAuthority = true // (knob of the restart driver: three quarters of the privileged messages come from the authority)
	}
	signer := -3 // governance
	if !byAuthority {
		auth = pick(r, w.accts[a].String(), authtypes.NewModuleAddress("oracle").String(), strings.ToUpper(w.authority), w.authority+" ")
		signer = a
	}
	name := pick(r, "oracle.UpdateParams", "UpdateCyclelist", "UpdateDataSpec", "reporter.UpdateParams", "mint.Init", "UpdateSnapshotLimit")
	return genOp{name: "Priv:" + name, signer: signer, params: []*big.Int{bi(int64(b2i(byAuthority)))}, run: func(ctx sdk.Context) error {
		var err error
		switch name {
		case "oracle.UpdateParams":
			p := oracletypes.DefaultParams()
			p.MinStakeAmount = math.NewInt(int64(pick(r, 1, 1, 2)) * loyaPerTRB)
			_, err = w.oracleMS.UpdateParams(ctx, &oracletypes.MsgUpdateParams{Authority: auth, Params: p})
		case "UpdateCyclelist":
			n := pick(r, 1, 2, 3, 4)
			perm := r.Perm(len(w.queries))
			var cl [][]byte
			for _, i := range perm[:n] {
				cl = append(cl, w.queries[i])
			}
			if r.Intn(6) == 0 {
				cl = nil
			}
			if r.Intn(6) == 0 {
				cl = append(cl, []byte("garbage"))
			}
			_, err = w.oracleMS.UpdateCyclelist(ctx, &oracletypes.MsgUpdateCyclelist{Authority: auth, Cyclelist: cl})
		case "UpdateDataSpec":
			spec, e2 := w.s.Registrykeeper.GetSpec(ctx, "spotprice")
			if e2 != nil {
				return e2
			}
			spec.ReportBlockWindow = uint64(pick(r, 0, 1, 2, 5, 20))
			_, err = w.registryMS.UpdateDataSpec(ctx, &registrytypes.MsgUpdateDataSpec{Authority: auth, QueryType: "spotprice", Spec: spec})
		case "reporter.UpdateParams":
			p := reportertypes.DefaultParams()
			p.MaxSelectors = uint64(pick(r, 1, 2, 100))
			_, err = w.reporterMS.UpdateParams(ctx, &reportertypes.MsgUpdateParams{Authority: auth, Params: p})
		case "mint.Init":
			_, err = w.mintMS.Init(ctx, &minttypes.MsgInit{Authority: auth})
		case "UpdateSnapshotLimit":
			a2 := auth
			if byAuthority {
				a2 = w.s.Bridgekeeper.GetAuthority()
			}
			_, err = w.bridgeMS.UpdateSnapshotLimit(ctx, &bridgetypes.MsgUpdateSnapshotLimit{Authority: a2, Limit: uint64(pick(r, 0, 1, 10))})
		}
		return err
	}}
}

func b2i(b bool) int {
	if b {
		return 1
	}
	return 0
}

// someDelegation returns a validator the account delegates to and the token value
func (w *World) someDelegation(a int) (sdk.ValAddress, *big.Int, bool) {
	var v sdk.ValAddress
	var amt *big.Int
	found := false
	_ = w.s.Stakingkeeper.IterateDelegatorDelegations(w.ctx, w.accts[a], func(d stakingtypes.Delegation) bool {
		va, _ := sdk.ValAddressFromBech32(d.ValidatorAddress)
		val, err := w.s.Stakingkeeper.GetValidator(w.ctx, va)
		if err != nil {
			return false
		}
		v, amt, found = va, val.TokensFromShares(d.Shares).TruncateInt().BigInt(), true
		return w.r.Intn(2) == 0
	})
	return v, amt, found
}
