package harness

// C20, fifth driver: the gRPC median server object (daemons/server/median) that reporters query.  Both endpoints,
// GetAllMedianValues and GetMedianValue (by query data), on the REAL server over a REAL MarketToExchangePrices.
// The server reads the wall clock, so update times are placed seconds away from the cut-off (fresh: 1-10 s old,
// stale: >= 10 minutes old, max age 30 s); the cut-off boundary itself is the subject of TestC20Sequential.

import (
	"context"
	"encoding/hex"
	"fmt"
	"math"
	"math/rand"
	"strings"
	"testing"
	"time"

	"github.com/cosmos/cosmos-sdk/client"
	clienttypes "github.com/tellor-io/layer/daemons/pricefeed/client/types"
	"github.com/tellor-io/layer/daemons/server/median"
	servertypes "github.com/tellor-io/layer/daemons/server/types"
	pricefeed "github.com/tellor-io/layer/daemons/server/types/pricefeed"
)

func TestC20Server(t *testing.T) {
	out := newOut(t, "c20_server")
	defer out.Close()
	r := rand.New(rand.NewSource(seed()*31 + 7))
	const maxAge = int64(30_000_000_000)
	n := count(300, 6000)
	for i := 0; i < n; i++ {
		now := time.Now()
		nowNs := c20unix(now)
		nMarkets := 1 + r.Intn(4)
		nEx := 1 + r.Intn(5)
		var ups []c20mu
		freshCount := map[uint32]int{}
		for m := 0; m < nMarkets; m++ {
			if r.Intn(6) == 0 {
				continue // a market that never receives a price
			}
			var xs []c20xp
			for x := 0; x < nEx; x++ {
				if r.Intn(5) == 0 {
					continue
				}
				age := int64(1+r.Intn(10)) * 1_000_000_000
				if r.Intn(3) == 0 {
					age = int64(600+r.Intn(3000)) * 1_000_000_000 // stale
				} else {
					freshCount[uint32(m)]++
				}
				price := pick(r, uint64(r.Intn(1000)), uint64(r.Int63()), math.MaxUint64, math.MaxUint64-uint64(r.Intn(3)), uint64(1)<<63, uint64(100_000+r.Intn(50)))
				xs = append(xs, c20xp{x, price, bsub(nowNs, bi(age))})
			}
			ups = append(ups, c20mu{uint32(m), xs})
		}
		var ps []c20mp
		var real []clienttypes.MarketParam
		var qds [][]byte
		for m := 0; m < nMarkets; m++ {
			min := uint32(r.Intn(nEx + 2))
			if r.Intn(2) == 0 && freshCount[uint32(m)] > 0 {
				// the minimum right at / one above the number of fresh exchanges
				min = uint32(freshCount[uint32(m)] + r.Intn(2))
			}
			ps = append(ps, c20mp{uint32(m), min})
			qd := []byte{0xab, byte(m), 0xcd, byte(r.Intn(256)), 0xef}
			qds = append(qds, qd)
			qdHex := hex.EncodeToString(qd)
			if r.Intn(2) == 0 {
				qdHex = strings.ToUpper(qdHex)
			}
			real = append(real, clienttypes.MarketParam{Id: uint32(m), MinExchanges: min, Pair: fmt.Sprintf("M%d-USD", m), Exponent: -5, QueryData: qdHex})
		}
		mte := pricefeed.NewMarketToExchangePrices(time.Duration(maxAge))
		if len(ups) > 0 {
			mte.UpdatePrices(c20realUpdates(ups))
		}
		srv := median.NewMedianValuesServer(client.Context{}, mte, real)
		all, err := srv.GetAllMedianValues(context.Background(), &servertypes.GetAllMedianValuesRequest{})
		if err != nil {
			t.Fatal(err)
		}
		allMap := map[uint32]uint64{}
		for _, mv := range all.MedianValues {
			allMap[mv.MarketId] = mv.Price
		}
		var singles []string
		served := len(allMap)
		for m := 0; m < nMarkets; m++ {
			res, err := srv.GetMedianValue(context.Background(), &servertypes.GetMedianValueRequest{QueryData: qds[m]})
			if err != nil || res == nil || res.MedianValues == nil {
				singles = append(singles, fmt.Sprintf("(%d, None)", m))
			} else {
				if res.MedianValues.MarketId != uint32(m) {
					t.Fatalf("GetMedianValue answered for market %d when asked for %d", res.MedianValues.MarketId, m)
				}
				singles = append(singles, fmt.Sprintf("(%d, Some %s)", m, czu(res.MedianValues.Price)))
				served++
			}
		}
		kind := "served=0"
		if served > 0 {
			kind = "served>0"
		}
		coq := fmt.Sprintf("ServerCase %d %s %s %s %s %s", maxAge, c20coqUpdates(ups), c20coqParams(ps), cz(nowNs), c20coqResult(allMap), clist(singles))
		out.Emit(Case{Coq: coq, Kind: kind, Nontrivial: len(ups) >= 1, Key: fmt.Sprint(i),
			Human: map[string]interface{}{"markets": nMarkets, "exchanges": nEx, "fresh_per_market": fmt.Sprint(freshCount), "served": served}})
	}
}
