package harness

import (
	"encoding/binary"
	"fmt"
	"math/rand"
	"testing"

	keepertest "github.com/tellor-io/layer/testutil/keeper"
	btypes "github.com/tellor-io/layer/x/bridge/types"
)

func TestC01PowerDiff(t *testing.T) {
	out := newOut(t, "c01_powerdiff")
	defer out.Close()
	r := rand.New(rand.NewSource(seed() + 11))
	k, _, _, _, _, _, ctx := keepertest.BridgeKeeper(t)
	mk := func(vs [][2]uint64) btypes.BridgeValidatorSet {
		var s btypes.BridgeValidatorSet
		for _, v := range vs {
			a := make([]byte, 20)
			binary.BigEndian.PutUint64(a[12:], v[0])
			s.BridgeValidatorSet = append(s.BridgeValidatorSet, &btypes.BridgeValidator{EthereumAddress: a, Power: v[1]})
		}
		return s
	}
	coq := func(vs [][2]uint64) string {
		items := make([]string, len(vs))
		for i, v := range vs {
			items[i] = fmt.Sprintf("(%d, %d)", v[0], v[1])
		}
		return clist(items)
	}
	n := count(1500, 40000)
	reps := 8
	if thorough() {
		reps = 32
	}
	for i := 0; i < n; i++ {
		nb, nc := r.Intn(9), r.Intn(9)
		pool := uint64(1 + r.Intn(10))
		gen := func(n int) [][2]uint64 {
			vs := make([][2]uint64, n)
			for j := range vs {
				vs[j] = [2]uint64{uint64(r.Int63n(int64(pool))), pick(r, uint64(0), 1, 2, 100, 1000, uint64(r.Intn(1_000_000)), uint64(r.Int63n(1_000_000_000_000)))}
			}
			return vs
		}
		b, c := gen(nb), gen(nc)
		if r.Intn(3) == 0 && nb > 0 { // c = b with a small shift: the 5 % boundary region
			c = append([][2]uint64(nil), b...)
			j := r.Intn(len(c))
			c[j][1] += c[j][1] / uint64(pick(r, 19, 20, 21, 40))
		}
		var outs []string
		seen := map[int64]bool{}
		for j := 0; j < reps; j++ {
			d := k.PowerDiff(ctx, mk(b), mk(c))
			if !seen[d] {
				outs = append(outs, czi(d))
			}
			seen[d] = true
		}
		out.Emit(Case{Coq: fmt.Sprintf("PowerDiffCase %s %s %s", coq(b), coq(c), clist(outs)), Kind: fmt.Sprintf("b=%d/c=%d", bucket(nb), bucket(nc)),
			Nontrivial: nb >= 2 && nc >= 1, Key: coq(b) + coq(c)})
	}
}
