package harness

// C16 — validator-set checkpoints.  The drivers run the real bridge keeper, the real bridge module
// EndBlock, the real ProposalHandler (PrepareProposalHandler / PreBlocker) and the real VoteExtHandler
// (ExtendVoteHandler, file keyring) of /repo on a full in-memory application with the real staking
// module, block by block, and emit one Gallina term per history.

import (
	"bytes"
	"crypto/sha256"
	"encoding/hex"
	"encoding/json"
	"fmt"
	"math/big"
	"math/rand"
	"os"
	"regexp"
	"sort"
	"strings"
	"testing"
	"time"

	abci "github.com/cometbft/cometbft/abci/types"
	cmtproto "github.com/cometbft/cometbft/proto/tendermint/types"
	"github.com/cometbft/cometbft/libs/protoio"
	"github.com/ethereum/go-ethereum/accounts/abi"
	"github.com/ethereum/go-ethereum/common"
	ethcrypto "github.com/ethereum/go-ethereum/crypto"
	"github.com/spf13/viper"
	"github.com/stretchr/testify/mock"
	"github.com/tellor-io/layer/app"
	setup "github.com/tellor-io/layer/tests"
	keepertest "github.com/tellor-io/layer/testutil/keeper"
	bridgetypes "github.com/tellor-io/layer/x/bridge/types"

	"cosmossdk.io/core/appmodule"
	"cosmossdk.io/core/header"
	"cosmossdk.io/log"
	"cosmossdk.io/math"

	"github.com/cosmos/cosmos-sdk/baseapp"
	"github.com/cosmos/cosmos-sdk/codec"
	codectypes "github.com/cosmos/cosmos-sdk/codec/types"
	cryptocodec "github.com/cosmos/cosmos-sdk/crypto/codec"
	"github.com/cosmos/cosmos-sdk/crypto/keyring"
	"github.com/cosmos/cosmos-sdk/crypto/keys/ed25519"
	"github.com/cosmos/cosmos-sdk/crypto/keys/secp256k1"
	sdk "github.com/cosmos/cosmos-sdk/types"
	stakingkeeper "github.com/cosmos/cosmos-sdk/x/staking/keeper"
	stakingtypes "github.com/cosmos/cosmos-sdk/x/staking/types"
)

// ---- fixture ---------------------------------------------------------------------------------

type c16Val struct {
	id      int
	op      sdk.ValAddress
	acc     sdk.AccAddress
	cons    sdk.ConsAddress
	consKey *ed25519.PrivKey // nil for the genesis validator (never votes)
	key     *secp256k1.PrivKey // EVM / operator key (for the genesis validator: EVM key only)
	keyName string             // name in the file keyring ("" = not in the keyring)
	evm     common.Address     // address of key
}

type c16Sig struct { // symbolic view of signature bytes created by the harness
	id     int
	signer string // token of the EVM address whose key made it ("0" = garbage)
	digest string // token of the 32-byte message it was made over ("0" = garbage)
}

type c16World struct {
	t      *testing.T
	r      *rand.Rand
	s      *setup.SharedSetup
	ctx    sdk.Context
	height int64
	now    time.Time
	vals   []*c16Val
	byOp   map[string]*c16Val
	ph     *app.ProposalHandler
	veh    *app.VoteExtHandler
	sms    stakingtypes.MsgServer
	krDir  string
	kr     keyring.Keyring
	sigs   map[string]c16Sig // hex(signature bytes) -> symbolic
	nsig   int
	useKeyring bool
}

func c16AddrZ(b []byte) *big.Int { return new(big.Int).SetBytes(b) }

// Case terms carry EVM addresses as their rank in byte order among all addresses of the history and
// 32-byte values (hashes, checkpoints, signed digests) as first-occurrence numbers: the model uses
// only the order of addresses and equality of hashes.  Printers write tokens, c16Abstract replaces them.
func c16TokA(b []byte) string { return fmt.Sprintf("@A%040x@", new(big.Int).SetBytes(b)) }
func c16TokH(b []byte) string {
	if len(b) == 0 || new(big.Int).SetBytes(b).Sign() == 0 {
		return "0"
	}
	return fmt.Sprintf("@H%064x@", new(big.Int).SetBytes(b))
}

var c16TokRe = regexp.MustCompile(`@([AH])([0-9a-f]+)@`)

func c16Abstract(term string) string {
	addrs := map[string]bool{}
	for _, m := range c16TokRe.FindAllStringSubmatch(term, -1) {
		if m[1] == "A" {
			addrs[m[2]] = true
		}
	}
	sorted := make([]string, 0, len(addrs))
	for a := range addrs {
		sorted = append(sorted, a)
	}
	sort.Strings(sorted) // fixed-width hex: string order = byte order
	rank := map[string]int{}
	for i, a := range sorted {
		rank[a] = i + 1
	}
	hid := map[string]int{}
	return c16TokRe.ReplaceAllStringFunc(term, func(tok string) string {
		m := c16TokRe.FindStringSubmatch(tok)
		if m[1] == "A" {
			return fmt.Sprint(rank[m[2]])
		}
		if _, ok := hid[m[2]]; !ok {
			hid[m[2]] = len(hid) + 1
		}
		return fmt.Sprint(hid[m[2]])
	})
}

func newC16World(t *testing.T, r *rand.Rand, useKeyring bool) *c16World {
	s := &setup.SharedSetup{}
	s.SetupTest(t)
	w := &c16World{t: t, r: r, s: s, byOp: map[string]*c16Val{}, sigs: map[string]c16Sig{}, useKeyring: useKeyring}
	w.height = 1
	w.now = time.Unix(1_700_000_000, 0).UTC()
	cp := s.Ctx.ConsensusParams()
	cp.Abci = &cmtproto.ABCIParams{VoteExtensionsEnableHeight: 1}
	s.Ctx = s.Ctx.WithBlockHeight(w.height).WithBlockTime(w.now).WithConsensusParams(cp).WithChainID("c16")
	w.ctx = s.Ctx
	w.sms = stakingkeeper.NewMsgServerImpl(s.Stakingkeeper)
	ir := codectypes.NewInterfaceRegistry()
	cryptocodec.RegisterInterfaces(ir)
	cdc := codec.NewProtoCodec(ir)
	w.ph = app.NewProposalHandler(log.NewNopLogger(), s.Stakingkeeper, cdc, s.Oraclekeeper, s.Bridgekeeper, s.Stakingkeeper)
	w.veh = app.NewVoteExtHandler(log.NewNopLogger(), cdc, s.Oraclekeeper, s.Bridgekeeper)
	if useKeyring {
		w.krDir = t.TempDir()
		kr, err := keyring.New(sdk.KeyringServiceName(), "test", w.krDir, nil, cdc)
		if err != nil {
			t.Fatal(err)
		}
		w.kr = kr
		viper.Set("keyring-backend", "test")
		viper.Set("keyring-dir", w.krDir)
	}
	// the genesis validator of the fixture
	all, err := s.Stakingkeeper.GetAllValidators(w.ctx)
	if err != nil {
		t.Fatal(err)
	}
	for _, v := range all {
		w.adopt(v)
	}
	return w
}

func (w *c16World) adopt(v stakingtypes.Validator) *c16Val {
	opb, err := sdk.ValAddressFromBech32(v.GetOperator())
	if err != nil {
		w.t.Fatal(err)
	}
	cons, err := v.GetConsAddr()
	if err != nil {
		w.t.Fatal(err)
	}
	key := c16Key(w.r)
	cv := &c16Val{id: len(w.vals), op: opb, acc: sdk.AccAddress(opb), cons: cons, key: key, evm: c16EvmOf(key)}
	w.vals = append(w.vals, cv)
	w.byOp[v.GetOperator()] = cv
	return cv
}

func c16Key(r *rand.Rand) *secp256k1.PrivKey {
	for {
		b := make([]byte, 32)
		r.Read(b)
		if _, err := ethcrypto.ToECDSA(b); err == nil {
			return &secp256k1.PrivKey{Key: b}
		}
	}
}

func c16EvmOf(k *secp256k1.PrivKey) common.Address {
	pk, err := ethcrypto.ToECDSA(k.Key)
	if err != nil {
		panic(err)
	}
	return ethcrypto.PubkeyToAddress(pk.PublicKey)
}

// join: a new validator whose operator account is derived from its secp256k1 key (as in production,
// where the bridge key is the operator key of the keyring)
func (w *c16World) join(selfLoya int64) (*c16Val, error) {
	key := c16Key(w.r)
	acc := sdk.AccAddress(key.PubKey().Address())
	op := sdk.ValAddress(acc)
	w.s.MintTokens(acc, math.NewInt(selfLoya))
	w.s.Accountkeeper.NewAccountWithAddress(w.ctx, acc)
	seedb := make([]byte, 32)
	w.r.Read(seedb)
	csk := ed25519.GenPrivKeyFromSecret(seedb)
	cpk := csk.PubKey()
	msg, err := stakingtypes.NewMsgCreateValidator(op.String(), cpk, sdk.NewInt64Coin(w.s.Denom, selfLoya),
		stakingtypes.Description{Moniker: fmt.Sprint(len(w.vals))},
		stakingtypes.CommissionRates{Rate: math.LegacyNewDecWithPrec(5, 1), MaxRate: math.LegacyNewDecWithPrec(5, 1), MaxChangeRate: math.LegacyNewDec(0)},
		math.OneInt())
	if err != nil {
		return nil, err
	}
	if _, err := w.sms.CreateValidator(w.ctx, msg); err != nil {
		return nil, err
	}
	cv := &c16Val{id: len(w.vals), op: op, acc: acc, cons: sdk.ConsAddress(cpk.Address()), consKey: csk, key: key, evm: c16EvmOf(key)}
	if w.useKeyring && cv.id <= 2 { // the nodes of the first two validators run the real ExtendVoteHandler
		cv.keyName = fmt.Sprintf("val%d", cv.id)
		if err := w.kr.ImportPrivKeyHex(cv.keyName, hex.EncodeToString(key.Key), "secp256k1"); err != nil {
			w.t.Fatal(err)
		}
	}
	w.vals = append(w.vals, cv)
	w.byOp[op.String()] = cv
	return cv, nil
}

func (w *c16World) sval(cv *c16Val) stakingtypes.Validator {
	v, err := w.s.Stakingkeeper.GetValidator(w.ctx, cv.op)
	if err != nil {
		w.t.Fatal(err)
	}
	return v
}

// signature bytes as the node's keyring makes them: 64 bytes r||s over sha256(msg)
func (w *c16World) signBytes(key *secp256k1.PrivKey, msg []byte) []byte {
	sig, err := key.Sign(msg)
	if err != nil {
		w.t.Fatal(err)
	}
	return sig
}

// what BlobstreamO._verifySig does: ecrecover(sha256(digest), v, r, s) == signer, for one of the two v
func c16ContractVerifies(signer common.Address, digest, sig []byte) bool {
	if len(sig) < 64 {
		return false
	}
	h := sha256.Sum256(digest)
	for _, v := range []byte{0, 1} {
		pub, err := ethcrypto.SigToPub(h[:], append(append([]byte{}, sig[:64]...), v))
		if err == nil && ethcrypto.PubkeyToAddress(*pub) == signer {
			return true
		}
	}
	return false
}

func (w *c16World) remember(sig []byte, signer common.Address, digest []byte, valid bool) c16Sig {
	k := hex.EncodeToString(sig)
	if s, ok := w.sigs[k]; ok {
		return s
	}
	w.nsig++
	s := c16Sig{id: w.nsig, signer: "0", digest: "0"}
	if valid {
		if !c16ContractVerifies(signer, digest, sig) {
			w.t.Fatalf("harness: signature does not verify the way the contract verifies it")
		}
		s.signer = c16TokA(signer.Bytes())
		s.digest = c16TokH(digest)
	}
	w.sigs[k] = s
	return s
}

func (s c16Sig) coq() string { return fmt.Sprintf("(Sg %d %s %s)", s.id, s.signer, s.digest) }

// ---- reference encodings (what the contract computes) ---------------------------------------
func c16RefValsetHash(set []*bridgetypes.BridgeValidator) []byte {
	// keccak256(abi.encode(Validator[])) with Validator = (address addr, uint256 power)
	typ, err := abi.NewType("tuple[]", "", []abi.ArgumentMarshaling{{Name: "addr", Type: "address"}, {Name: "power", Type: "uint256"}})
	if err != nil {
		panic(err)
	}
	type V struct {
		Addr  common.Address
		Power *big.Int
	}
	vs := make([]V, len(set))
	for i, v := range set {
		vs[i] = V{common.BytesToAddress(v.EthereumAddress), new(big.Int).SetUint64(v.Power)}
	}
	enc, err := abi.Arguments{{Type: typ}}.Pack(vs)
	if err != nil {
		panic(err)
	}
	return ethcrypto.Keccak256(enc)
}

func c16RefCheckpoint(thr, ts uint64, hash []byte) []byte {
	b32, _ := abi.NewType("bytes32", "", nil)
	u256, _ := abi.NewType("uint256", "", nil)
	var dom, h [32]byte
	copy(dom[:], []byte("checkpoint"))
	copy(h[:], hash)
	enc, err := abi.Arguments{{Type: b32}, {Type: u256}, {Type: u256}, {Type: b32}}.Pack(dom, new(big.Int).SetUint64(thr), new(big.Int).SetUint64(ts), h)
	if err != nil {
		panic(err)
	}
	return ethcrypto.Keccak256(enc)
}

// ---- printers --------------------------------------------------------------------------------
func c16Set(set []*bridgetypes.BridgeValidator) string {
	items := make([]string, len(set))
	for i, v := range set {
		items[i] = fmt.Sprintf("BV %s %s", c16TokA(v.EthereumAddress), czu(v.Power))
	}
	return clist(items)
}

func c16OptSet(ok bool, set []*bridgetypes.BridgeValidator) string { return copt(ok, c16Set(set)) }

func (w *c16World) slots(sigs [][]byte) string {
	items := make([]string, len(sigs))
	for i, sg := range sigs {
		if len(sg) == 0 {
			items[i] = "None"
			continue
		}
		s, ok := w.sigs[hex.EncodeToString(sg)]
		if !ok {
			w.t.Fatalf("stored signature bytes unknown to the harness: %x", sg)
		}
		items[i] = "Some " + s.coq()
	}
	return clist(items)
}

func c16ZBytes(b []byte) string { return c16TokH(b) }


// ---- one block --------------------------------------------------------------------------------

type c16Vote struct {
	val *c16Val
	ext []byte // vote extension bytes
	// symbolic content, for the case term
	claim    bool     // carries an initial signature
	claimOK  bool     // ... that recovers one address from both messages
	claimEvm string   // that address (token)
	sign     bool     // carries a valset signature
	signTs   uint64
	signSig  c16Sig
}

func c16InitialMsgs() ([]byte, []byte) {
	a := sha256.Sum256([]byte("TellorLayer: Initial bridge signature A"))
	b := sha256.Sum256([]byte("TellorLayer: Initial bridge signature B"))
	return a[:], b[:]
}

// vote extension as the real ExtendVoteHandler of the node of validator cv builds it (file keyring)
func (w *c16World) extendReal(cv *c16Val, ctx sdk.Context) (vote c16Vote) {
	defer func() {
		if rec := recover(); rec != nil {
			vote = w.craft(cv, nil, nil, nil, 0)
		}
	}()
	viper.Set("key-name", cv.keyName)
	resp, err := w.veh.ExtendVoteHandler(ctx, &abci.RequestExtendVote{Height: ctx.BlockHeight()})
	if err != nil {
		w.t.Fatal(err)
	}
	return w.parseExt(cv, resp.VoteExtension)
}

// symbolic reading of a vote extension (signatures made by known keys only)
func (w *c16World) parseExt(cv *c16Val, ext []byte) c16Vote {
	v := c16Vote{val: cv, ext: ext}
	var e app.BridgeVoteExtension
	if err := json.Unmarshal(ext, &e); err != nil {
		w.t.Fatal(err)
	}
	if len(e.InitialSignature.SignatureA) > 0 {
		v.claim = true
		ma, mb := c16InitialMsgs()
		for _, x := range w.vals {
			if c16ContractVerifies(x.evm, ma, e.InitialSignature.SignatureA) && c16ContractVerifies(x.evm, mb, e.InitialSignature.SignatureB) {
				v.claimOK = true
				v.claimEvm = c16TokA(x.evm.Bytes())
			}
		}
	}
	if len(e.ValsetSignature.Signature) > 0 {
		v.sign = true
		v.signTs = e.ValsetSignature.Timestamp
		s, ok := w.sigs[hex.EncodeToString(e.ValsetSignature.Signature)]
		if !ok {
			// made by the real handler: identify signer and digest
			p, err := w.s.Bridgekeeper.ValidatorCheckpointParamsMap.Get(w.ctx, v.signTs)
			if err != nil {
				w.t.Fatal(err)
			}
			s = w.remember(e.ValsetSignature.Signature, cv.evm, p.Checkpoint, true)
		}
		v.signSig = s
	}
	return v
}

func (w *c16World) craft(cv *c16Val, sigA, sigB, vsig []byte, ts uint64) c16Vote {
	e := app.BridgeVoteExtension{}
	e.InitialSignature.SignatureA = sigA
	e.InitialSignature.SignatureB = sigB
	e.ValsetSignature.Signature = vsig
	e.ValsetSignature.Timestamp = ts
	bz, err := json.Marshal(e)
	if err != nil {
		w.t.Fatal(err)
	}
	return w.parseExt(cv, bz)
}

type c16Obs struct {
	height   int64
	nowMs    int64
	claims   string // list (op, option addr)
	signs    string // list (op, ts, sig)
	regDump  string // registry after PreBlocker
	touched  string // slots of the timestamps signed for, after PreBlocker
	vals     string // staking view at EndBlock
	cur      string // option set: GetCurrentValidatorSetEVMCompatible at EndBlock
	err      bool
	errMsg   string
	valset   string // option set
	latest   string // option Z
	ckpt     string // option Z
	newrec   string // option record at key now
	recorded bool
	procOK   bool
}

func (w *c16World) regDump() string {
	var items []string
	err := w.s.Bridgekeeper.OperatorToEVMAddressMap.Walk(w.ctx, nil, func(k string, v bridgetypes.EVMAddress) (bool, error) {
		cv, ok := w.byOp[k]
		if !ok {
			w.t.Fatalf("unknown operator %s", k)
		}
		items = append(items, fmt.Sprintf("(%d, %s)", cv.id, c16TokA(v.EVMAddress)))
		return false, nil
	})
	if err != nil {
		w.t.Fatal(err)
	}
	return clist(items)
}

func (w *c16World) stakingView() (string, int) {
	all, err := w.s.Stakingkeeper.GetAllValidators(w.ctx)
	if err != nil {
		w.t.Fatal(err)
	}
	items := make([]string, 0, len(all))
	bonded := 0
	for _, v := range all {
		cv, ok := w.byOp[v.GetOperator()]
		if !ok {
			w.t.Fatalf("unknown operator %s", v.GetOperator())
		}
		if v.IsBonded() {
			bonded++
		}
		items = append(items, fmt.Sprintf("SV %d %s %s", cv.id, cbool(v.IsBonded()), cz(v.Tokens.BigInt())))
	}
	return clist(items), bonded
}

func (w *c16World) bondedVals() []*c16Val {
	var out []*c16Val
	for _, cv := range w.vals {
		if v, err := w.s.Stakingkeeper.GetValidator(w.ctx, cv.op); err == nil && v.IsBonded() {
			out = append(out, cv)
		}
	}
	return out
}

// runBlock: PrepareProposal + PreBlocker on the votes, the staking transactions, staking EndBlocker,
// bridge EndBlock
func (w *c16World) runBlock(gap time.Duration, votes []c16Vote, txs func()) c16Obs {
	w.height++
	w.now = w.now.Add(gap)
	w.ctx = w.s.Ctx.WithBlockHeight(w.height).WithBlockTime(w.now).WithEventManager(sdk.NewEventManager())
	w.s.Ctx = w.ctx
	k := w.s.Bridgekeeper
	o := c16Obs{height: w.height, nowMs: w.now.UnixMilli()}
	// last commit: votes ordered by (power desc, address asc), extensions signed by the consensus keys
	sort.SliceStable(votes, func(i, j int) bool { return bytes.Compare(votes[i].val.cons, votes[j].val.cons) < 0 })
	commit := abci.ExtendedCommitInfo{}
	last := abci.CommitInfo{}
	var claims, signs []string
	touchedTs := map[uint64]bool{}
	for _, v := range votes {
		cve := cmtproto.CanonicalVoteExtension{Extension: v.ext, Height: w.height - 1, Round: 0, ChainId: "c16"}
		var buf bytes.Buffer
		if _, err := protoio.NewDelimitedWriter(&buf).WriteMsg(&cve); err != nil {
			w.t.Fatal(err)
		}
		extSig, err := v.val.consKey.Sign(buf.Bytes())
		if err != nil {
			w.t.Fatal(err)
		}
		av := abci.Validator{Address: v.val.cons, Power: 1}
		commit.Votes = append(commit.Votes, abci.ExtendedVoteInfo{Validator: av, VoteExtension: v.ext, ExtensionSignature: extSig, BlockIdFlag: cmtproto.BlockIDFlagCommit})
		last.Votes = append(last.Votes, abci.VoteInfo{Validator: av, BlockIdFlag: cmtproto.BlockIDFlagCommit})
		if v.claim {
			claims = append(claims, fmt.Sprintf("(%d, %s)", v.val.id, copt(v.claimOK, v.claimEvm)))
		}
		if v.sign {
			signs = append(signs, fmt.Sprintf("(%d, %s, %s)", v.val.id, czu(v.signTs), v.signSig.coq()))
			touchedTs[v.signTs] = true
		}
	}
	o.claims, o.signs = clist(claims), clist(signs)
	w.ctx = w.ctx.WithCometInfo(baseapp.NewBlockInfo(nil, nil, nil, last)).WithHeaderInfo(header.Info{Height: w.height, ChainID: "c16", Time: w.now})
	w.s.Ctx = w.ctx
	resp, err := w.ph.PrepareProposalHandler(w.ctx, &abci.RequestPrepareProposal{Height: w.height, LocalLastCommit: commit})
	if err != nil {
		w.t.Fatal(err)
	}
	o.procOK = true
	if len(votes) > 0 {
		pres, err := w.ph.ProcessProposalHandler(w.ctx, &abci.RequestProcessProposal{Height: w.height, Txs: resp.Txs})
		if err != nil {
			w.t.Fatal(err)
		}
		o.procOK = pres.Status == abci.ResponseProcessProposal_ACCEPT
	}
	if _, err := w.ph.PreBlocker(w.ctx, &abci.RequestFinalizeBlock{Height: w.height, Txs: resp.Txs}); err != nil {
		w.t.Fatal(err)
	}
	o.regDump = w.regDump()
	var tts []uint64
	for ts := range touchedTs {
		tts = append(tts, ts)
	}
	sort.Slice(tts, func(i, j int) bool { return tts[i] < tts[j] })
	var touched []string
	for _, ts := range tts {
		if sg, err := k.BridgeValsetSignaturesMap.Get(w.ctx, ts); err == nil {
			touched = append(touched, fmt.Sprintf("(%s, %s)", czu(ts), w.slots(sg.Signatures)))
		}
	}
	o.touched = clist(touched)
	// transactions
	if txs != nil {
		txs()
	}
	if _, err := w.s.Stakingkeeper.EndBlocker(w.ctx); err != nil {
		w.t.Fatal(err)
	}
	o.vals, _ = w.stakingView()
	cur, cerr := k.GetCurrentValidatorSetEVMCompatible(w.ctx)
	if cerr == nil {
		o.cur = c16OptSet(true, cur.BridgeValidatorSet)
	} else {
		o.cur = "None"
	}
	latestBefore, lerr := k.LatestCheckpointIdx.Get(w.ctx)
	cctx, write := w.ctx.CacheContext()
	m := w.s.App.ModuleManager.Modules[bridgetypes.ModuleName]
	func() {
		defer func() {
			if rec := recover(); rec != nil {
				o.err, o.errMsg = true, fmt.Sprintf("panic: %v", rec)
			}
		}()
		if err := m.(appmodule.HasEndBlocker).EndBlock(cctx); err != nil {
			o.err, o.errMsg = true, err.Error()
		}
	}()
	if !o.err {
		write()
	}
	if vs, err := k.BridgeValset.Get(w.ctx); err == nil {
		o.valset = c16OptSet(true, vs.BridgeValidatorSet)
	} else {
		o.valset = "None"
	}
	latest, err := k.LatestCheckpointIdx.Get(w.ctx)
	o.latest = copt(err == nil, czu(latest.Index))
	o.recorded = (err == nil) && (lerr != nil || latestBefore.Index != latest.Index)
	if cp, err := k.ValidatorCheckpoint.Get(w.ctx); err == nil {
		o.ckpt = copt(true, c16ZBytes(cp.Checkpoint))
	} else {
		o.ckpt = "None"
	}
	o.newrec = w.recAt(uint64(o.nowMs))
	return o
}

// everything stored under timestamp ts (None when the params map has no such key)
func (w *c16World) recAt(ts uint64) string {
	k := w.s.Bridgekeeper
	p, err := k.ValidatorCheckpointParamsMap.Get(w.ctx, ts)
	if err != nil {
		return "None"
	}
	set, err1 := k.BridgeValsetByTimestampMap.Get(w.ctx, ts)
	sg, err2 := k.BridgeValsetSignaturesMap.Get(w.ctx, ts)
	idx, err3 := k.ValsetTimestampToIdxMap.Get(w.ctx, ts)
	back, err4 := k.ValidatorCheckpointIdxMap.Get(w.ctx, idx.Index)
	if err1 != nil || err2 != nil || err3 != nil || err4 != nil {
		w.t.Fatalf("checkpoint %d: incomplete record %v %v %v %v", ts, err1, err2, err3, err4)
	}
	return "(Some " + w.rec(ts, p, set, sg, idx.Index, back.Timestamp) + ")"
}

func (w *c16World) rec(ts uint64, p bridgetypes.ValidatorCheckpointParams, set bridgetypes.BridgeValidatorSet, sg bridgetypes.BridgeValsetSignatures, idx, back uint64) string {
	refHash := c16RefValsetHash(set.BridgeValidatorSet)
	refCk := c16RefCheckpoint(p.PowerThreshold, p.Timestamp, p.ValsetHash)
	return fmt.Sprintf("(Rec %s %s %s %s %s %s %s %s %s %s %s)", czu(ts), czu(idx), czu(back),
		c16ZBytes(p.Checkpoint), c16ZBytes(p.ValsetHash), czu(p.Timestamp), czu(p.PowerThreshold),
		c16Set(set.BridgeValidatorSet), w.slots(sg.Signatures), c16ZBytes(refHash), c16ZBytes(refCk))
}

func (o c16Obs) coq() string {
	return fmt.Sprintf("(Blk %d %d %s %s %s %s %s %s %s %s %s %s %s %s)", o.height, o.nowMs, o.claims, o.signs, o.vals,
		o.regDump, o.touched, o.cur, cbool(o.err), o.valset, o.latest, o.ckpt, o.newrec, cbool(o.procOK))
}


// ---- vote extensions of one validator ----------------------------------------------------------

func (w *c16World) initialSigs(cv *c16Val) ([]byte, []byte) {
	ma, mb := c16InitialMsgs()
	return w.signBytes(cv.key, ma), w.signBytes(cv.key, mb)
}

func (w *c16World) latestTs() (uint64, uint64, bool) {
	k := w.s.Bridgekeeper
	idx, err := k.LatestCheckpointIdx.Get(w.ctx)
	if err != nil {
		return 0, 0, false
	}
	ts, err := k.ValidatorCheckpointIdxMap.Get(w.ctx, idx.Index)
	if err != nil {
		return 0, 0, false
	}
	return idx.Index, ts.Timestamp, true
}

func (w *c16World) validSig(cv *c16Val, ts uint64) ([]byte, bool) {
	p, err := w.s.Bridgekeeper.ValidatorCheckpointParamsMap.Get(w.ctx, ts)
	if err != nil {
		return nil, false
	}
	sig := w.signBytes(cv.key, p.Checkpoint)
	w.remember(sig, cv.evm, p.Checkpoint, true)
	return sig, true
}

// what an honest node does (app/extend_vote.go), for validators whose key is not in the file keyring
func (w *c16World) extendEmulated(cv *c16Val) (vote c16Vote) {
	var sa, sb, vs []byte
	var ts uint64
	k := w.s.Bridgekeeper
	defer func() { // a panic inside the keeper: the node produces no extension content
		if rec := recover(); rec != nil {
			vote = w.craft(cv, nil, nil, nil, 0)
		}
	}()
	if _, err := k.GetEVMAddressByOperator(w.ctx, cv.op.String()); err != nil {
		sa, sb = w.initialSigs(cv)
	}
	if _, lts, ok := w.latestTs(); ok {
		did, idx, err := k.GetValidatorDidSignCheckpoint(w.ctx, cv.op.String(), lts)
		if err == nil && !did && idx >= 0 {
			if sig, ok := w.validSig(cv, lts); ok {
				vs, ts = sig, lts
			}
		}
	}
	return w.craft(cv, sa, sb, vs, ts)
}

func (w *c16World) extend(cv *c16Val, behaviour string, victim *c16Val) c16Vote {
	k := w.s.Bridgekeeper
	lidx, lts, have := w.latestTs()
	switch behaviour {
	case "silent":
		return w.craft(cv, nil, nil, nil, 0)
	case "garbage":
		if have {
			g := make([]byte, 64)
			w.r.Read(g)
			w.remember(g, common.Address{}, nil, false)
			return w.craft(cv, nil, nil, g, lts)
		}
	case "old":
		if have && lidx >= 1 {
			if ts, err := k.ValidatorCheckpointIdxMap.Get(w.ctx, uint64(w.r.Int63n(int64(lidx)+1))); err == nil {
				if sig, ok := w.validSig(cv, ts.Timestamp); ok {
					return w.craft(cv, nil, nil, sig, ts.Timestamp)
				}
			}
		}
	case "wrongdigest":
		if have && lidx >= 1 {
			if ts, err := k.ValidatorCheckpointIdxMap.Get(w.ctx, lidx-1); err == nil {
				if sig, ok := w.validSig(cv, ts.Timestamp); ok {
					return w.craft(cv, nil, nil, sig, lts)
				}
			}
		}
	case "unknownts":
		if have {
			if sig, ok := w.validSig(cv, lts); ok {
				return w.craft(cv, nil, nil, sig, lts+1)
			}
		}
	case "resign":
		if have {
			if sig, ok := w.validSig(cv, lts); ok {
				return w.craft(cv, nil, nil, sig, lts)
			}
		}
	case "copyinit", "reinit":
		if victim != nil {
			sa, sb := w.initialSigs(victim)
			return w.craft(cv, sa, sb, nil, 0)
		}
	case "mismatchinit":
		if victim != nil {
			sa, _ := w.initialSigs(cv)
			_, sb := w.initialSigs(victim)
			return w.craft(cv, sa, sb, nil, 0)
		}
	}
	if cv.keyName != "" {
		real, emu := w.extendReal(cv, w.ctx), w.extendEmulated(cv)
		if !bytes.Equal(real.ext, emu.ext) {
			w.t.Fatalf("harness: ExtendVoteHandler and its emulation differ: %s / %s", real.ext, emu.ext)
		}
		return real
	}
	return w.extendEmulated(cv)
}

// ---- staking operations ------------------------------------------------------------------------
func (w *c16World) delegate(cv *c16Val, loya int64) error {
	w.s.MintTokens(cv.acc, math.NewInt(loya))
	_, err := w.sms.Delegate(w.ctx, &stakingtypes.MsgDelegate{DelegatorAddress: cv.acc.String(), ValidatorAddress: cv.op.String(), Amount: sdk.NewInt64Coin(w.s.Denom, loya)})
	return err
}

func (w *c16World) undelegate(cv *c16Val, loya int64) (err error) {
	defer func() {
		if rec := recover(); rec != nil {
			err = fmt.Errorf("panic: %v", rec)
		}
	}()
	cctx, write := w.ctx.CacheContext()
	_, err = w.sms.Undelegate(cctx, &stakingtypes.MsgUndelegate{DelegatorAddress: cv.acc.String(), ValidatorAddress: cv.op.String(), Amount: sdk.NewInt64Coin(w.s.Denom, loya)})
	if err == nil {
		write()
	}
	return err
}

func (w *c16World) jail(cv *c16Val, on bool) {
	v, err := w.s.Stakingkeeper.GetValidator(w.ctx, cv.op)
	if err != nil || v.Jailed == on {
		return
	}
	if on {
		_ = w.s.Stakingkeeper.Jail(w.ctx, cv.cons)
	} else if v.Tokens.IsPositive() {
		_ = w.s.Stakingkeeper.Unjail(w.ctx, cv.cons)
	}
}

func (w *c16World) slash(cv *c16Val, percent int64) {
	v, err := w.s.Stakingkeeper.GetValidator(w.ctx, cv.op)
	if err != nil || !v.IsBonded() {
		return
	}
	defer func() { recover() }()
	cctx, write := w.ctx.CacheContext()
	if _, err := w.s.Stakingkeeper.Slash(cctx, cv.cons, w.height, v.GetConsensusPower(sdk.DefaultPowerReduction), math.LegacyNewDecWithPrec(percent, 2)); err == nil {
		write()
	}
}

// ---- one history ----------------------------------------------------------------------------------
const c16TwoWeeksMs = int64(14 * 24 * 3600 * 1000)

type c16Stats struct {
	blocks, checkpoints, signs, claims, byz, maxVals int
	dupReg, halted, aged, followPairs               bool
}

func c16SplitPower(r *rand.Rand, total int64, n int, equal bool) []int64 {
	out := make([]int64, n)
	if equal {
		for i := range out {
			out[i] = total / int64(n)
		}
		out[0] += total - (total/int64(n))*int64(n)
		return out
	}
	rest := total
	for i := 0; i < n-1; i++ {
		var x int64
		if rest > 0 {
			x = r.Int63n(rest/int64(n-i)*2 + 1)
			if x > rest {
				x = rest
			}
		}
		out[i] = x
		rest -= x
	}
	out[n-1] = rest
	r.Shuffle(n, func(i, j int) { out[i], out[j] = out[j], out[i] })
	return out
}

func (w *c16World) gap(profile int) time.Duration {
	r := w.r
	_, lts, have := w.latestTs()
	age := int64(0)
	if have {
		age = w.now.UnixMilli() - int64(lts)
	}
	x := r.Intn(100)
	switch {
	case x < 8:
		return time.Millisecond
	case x < 14:
		return time.Duration(1+r.Intn(999))*time.Millisecond + time.Duration(r.Intn(1000))*time.Microsecond
	case x < 14+profile && have: // place the age of the last checkpoint at the staleness boundaries
		target := pick(r, c16TwoWeeksMs-1000, c16TwoWeeksMs) + int64(pick(r, -1, 0, 1, 1, 2))
		if target > age {
			return time.Duration(target-age) * time.Millisecond
		}
		return time.Second
	case x < 60:
		return time.Duration(1+r.Intn(6)) * time.Second
	case x < 75:
		return time.Duration(1+r.Intn(86400)) * time.Second
	case x < 80:
		return pick(r, 7*24*time.Hour, 14*24*time.Hour, 15*24*time.Hour, 21*24*time.Hour+time.Second, 30*24*time.Hour)
	default:
		return time.Duration(1+r.Intn(3600*24*5)) * time.Second
	}
}

func c16RunHistory(t *testing.T, hs int64, nblocks, maxInit int, keyring bool) (string, c16Stats) {
	r := rand.New(rand.NewSource(hs))
	w := newC16World(t, r, keyring)
	st := c16Stats{}
	// initial validators
	n := 1 + r.Intn(maxInit)
	if r.Intn(4) == 0 {
		n = 1 + r.Intn(3)
	}
	total := pick(r, int64(2), 3, 5, 19, 20, 21, 40, 60, 100, 200, 1000, 2+r.Int63n(500), 2+r.Int63n(100000))
	if total < int64(n) && r.Intn(3) > 0 {
		total = int64(n) * pick(r, int64(1), 2, 20)
	}
	equal := r.Intn(4) == 0
	powers := c16SplitPower(r, total, n, equal)
	startup := r.Intn(30) > 0 // the first validator has power and its node registers in block 2 (else: possibly no bridge validator, F07)
	if startup && powers[0] == 0 {
		powers[0] = 1
	}
	if mv := r.Intn(5); mv == 0 && n > 2 { // a small active set: validators leave by rank
		p, _ := w.s.Stakingkeeper.GetParams(w.ctx)
		p.MaxValidators = uint32(2 + r.Intn(n-1))
		_ = w.s.Stakingkeeper.SetParams(w.ctx, p)
	}
	frac := func() int64 { return pick(r, int64(0), 0, 0, 1, 999_999, r.Int63n(1_000_000)) }
	for i := 0; i < n; i++ {
		loya := powers[i]*1_000_000 + frac()
		if loya < 1 {
			loya = 1 + r.Int63n(999_999)
		}
		if _, err := w.join(loya); err != nil {
			t.Fatal(err)
		}
	}
	if _, err := w.s.Stakingkeeper.EndBlocker(w.ctx); err != nil {
		t.Fatal(err)
	}
	// behaviour profile
	regDelay := map[int]int64{} // validator id -> first height at which its node offers its initial signature
	for _, cv := range w.vals {
		if r.Intn(5) == 0 && !(startup && cv.id == 1) {
			regDelay[cv.id] = int64(2 + r.Intn(nblocks))
		}
	}
	var attacker, victim *c16Val
	if r.Intn(8) == 0 && len(w.vals) >= 3 {
		attacker = w.vals[2+r.Intn(len(w.vals)-2)]
		for victim == nil || victim == attacker {
			victim = w.vals[1+r.Intn(len(w.vals)-1)]
		}
		regDelay[attacker.id] = 0
		delete(regDelay, victim.id)
	}
	byzRate := pick(r, 0, 0, 5, 15, 40)
	offlineRate := pick(r, 0, 0, 10, 30)
	profile := pick(r, 6, 6, 20)
	queue := map[int64][]c16Vote{}
	makeExts := func() []c16Vote {
		var out []c16Vote
		for _, cv := range w.bondedVals() {
			if cv.consKey == nil || (r.Intn(100) < offlineRate && !(startup && cv.id == 1 && w.height == 1)) {
				continue
			}
			beh := "honest"
			if d, ok := regDelay[cv.id]; ok && w.height < d {
				beh = "silent"
				if _, err := w.s.Bridgekeeper.GetEVMAddressByOperator(w.ctx, cv.op.String()); err == nil {
					beh = "honest"
				}
			}
			var vic *c16Val
			if cv == attacker {
				if _, err := w.s.Bridgekeeper.GetEVMAddressByOperator(w.ctx, cv.op.String()); err != nil {
					// wait until the victim's signatures are public, then replay them
					if _, err := w.s.Bridgekeeper.GetEVMAddressByOperator(w.ctx, victim.op.String()); err == nil {
						beh, vic = "copyinit", victim
					} else {
						beh = "silent"
					}
				} else {
					beh = pick(r, "garbage", "garbage", "honest", "silent")
				}
			} else if r.Intn(100) < byzRate {
				beh = pick(r, "garbage", "old", "wrongdigest", "unknownts", "resign", "mismatchinit", "reinit", "silent")
				if beh == "reinit" { // a registered validator offers valid initial signatures of another key again
					vic = w.vals[1+r.Intn(len(w.vals)-1)]
					if _, err := w.s.Bridgekeeper.GetEVMAddressByOperator(w.ctx, cv.op.String()); err != nil {
						beh, vic = "honest", nil
					}
				}
				if beh == "mismatchinit" {
					vic = w.vals[1+r.Intn(len(w.vals)-1)]
					if _, err := w.s.Bridgekeeper.GetEVMAddressByOperator(w.ctx, cv.op.String()); err == nil {
						beh = "garbage"
					}
				}
			}
			if beh != "honest" && beh != "silent" {
				st.byz++
			}
			out = append(out, w.extend(cv, beh, vic))
		}
		return out
	}
	queue[w.height+1] = makeExts() // extensions of height 1 arrive in block 2
	var blocks []string
	for b := 0; b < nblocks; b++ {
		gap := w.gap(profile)
		votes := queue[w.height+1]
		delete(queue, w.height+1)
		// a vote counts only while its validator is known to staking by consensus address
		var live []c16Vote
		for _, v := range votes {
			if _, err := w.s.Stakingkeeper.GetValidatorByConsAddr(w.ctx, v.val.cons); err == nil {
				live = append(live, v)
			}
		}
		o := w.runBlock(gap, live, func() {
			nops := pick(r, 0, 0, 1, 1, 2, 3)
			for i := 0; i < nops; i++ {
				cv := w.vals[r.Intn(len(w.vals))]
				T := int64(0)
				if vs, err := w.s.Bridgekeeper.BridgeValset.Get(w.ctx); err == nil {
					for _, v := range vs.BridgeValidatorSet {
						T += int64(v.Power)
					}
				}
				edge := (T + 19) / 20
				dp := pick(r, int64(1), 1, edge-1, edge, edge, edge+1, 1+r.Int63n(edge+3), 1+r.Int63n(T+2))
				if dp < 1 {
					dp = 1
				}
				loya := dp*1_000_000 + pick(r, int64(0), 0, 0, 0, 1, -1, r.Int63n(1_000_000))
				switch x := r.Intn(100); {
				case x < 40:
					_ = w.delegate(cv, loya)
				case x < 70:
					_ = w.undelegate(cv, loya)
				case x < 78:
					w.jail(cv, true)
				case x < 86:
					w.jail(cv, false)
				case x < 91:
					w.slash(cv, pick(r, int64(1), 5, 10, 33, 50))
				default:
					if len(w.vals) < maxInit+6 {
						if nv, err := w.join(loya); err == nil && r.Intn(3) == 0 {
							regDelay[nv.id] = w.height + int64(r.Intn(10))
						}
					}
				}
			}
		})
		blocks = append(blocks, o.coq())
		st.blocks++
		st.signs += strings.Count(o.signs, "Sg ")
		st.claims += strings.Count(o.claims, "Some")
		if !o.procOK {
			t.Logf("history %d height %d: ProcessProposal rejected", hs, w.height)
		}
		if o.err {
			st.halted = true
			break
		}
		if bv := len(w.bondedVals()); bv > st.maxVals {
			st.maxVals = bv
		}
		queue[w.height+2] = makeExts()
	}
	term := w.finish(blocks, &st)
	return term, st
}

// the final dump of the five checkpoint maps, and the case term
func (w *c16World) finish(blocks []string, st *c16Stats) string {
	t := w.t
	k := w.s.Bridgekeeper
	var recs []string
	counts := make([]int, 5)
	err := k.ValidatorCheckpointParamsMap.Walk(w.ctx, nil, func(ts uint64, _ bridgetypes.ValidatorCheckpointParams) (bool, error) {
		recs = append(recs, strings.TrimSuffix(strings.TrimPrefix(w.recAt(ts), "(Some "), ")"))
		counts[0]++
		return false, nil
	})
	if err != nil {
		t.Fatal(err)
	}
	_ = k.ValidatorCheckpointIdxMap.Walk(w.ctx, nil, func(uint64, bridgetypes.CheckpointTimestamp) (bool, error) { counts[1]++; return false, nil })
	_ = k.ValsetTimestampToIdxMap.Walk(w.ctx, nil, func(uint64, bridgetypes.CheckpointIdx) (bool, error) { counts[2]++; return false, nil })
	_ = k.BridgeValsetByTimestampMap.Walk(w.ctx, nil, func(uint64, bridgetypes.BridgeValidatorSet) (bool, error) { counts[3]++; return false, nil })
	_ = k.BridgeValsetSignaturesMap.Walk(w.ctx, nil, func(uint64, bridgetypes.BridgeValsetSignatures) (bool, error) { counts[4]++; return false, nil })
	cs := make([]string, 5)
	for i, c := range counts {
		cs[i] = fmt.Sprint(c)
	}
	latest, lerr := k.LatestCheckpointIdx.Get(w.ctx)
	st.checkpoints = counts[0]
	// duplicate registrations
	seen := map[string]bool{}
	_ = k.OperatorToEVMAddressMap.Walk(w.ctx, nil, func(_ string, v bridgetypes.EVMAddress) (bool, error) {
		if seen[string(v.EVMAddress)] {
			st.dupReg = true
		}
		seen[string(v.EVMAddress)] = true
		return false, nil
	})
	return c16Abstract(fmt.Sprintf("HistCase %s %s %s %s", clist(blocks), clist(recs), copt(lerr == nil, czu(latest.Index)), clist(cs)))
}

// hand-written histories.  F28: validator B replays validator A's initial signatures, is registered
// with A's address and later overwrites A's signature slot with garbage.  boundary: powers 20 -> 21
// (exactly 5 %), 21 -> 22 (below), and block times that put the last checkpoint at 14 d - 1 s and 1 ms past it.
func c16Corpus(t *testing.T, which string) (string, c16Stats) {
	r := rand.New(rand.NewSource(2816))
	w := newC16World(t, r, false)
	st := c16Stats{}
	var blocks []string
	run := func(gap time.Duration, votes []c16Vote, txs func()) {
		o := w.runBlock(gap, votes, txs)
		blocks = append(blocks, o.coq())
		st.blocks++
		st.signs += strings.Count(o.signs, "Sg ")
	}
	must := func(err error) {
		if err != nil {
			t.Fatal(err)
		}
	}
	switch which {
	case "F28":
		A, err := w.join(2_000_000)
		must(err)
		B, err := w.join(1_000_000)
		must(err)
		C, err := w.join(1_000_000)
		must(err)
		_, err = w.s.Stakingkeeper.EndBlocker(w.ctx)
		must(err)
		run(time.Second, []c16Vote{w.extend(A, "honest", nil), w.extend(C, "honest", nil), w.extend(B, "silent", nil)}, nil)
		run(time.Second, []c16Vote{w.extend(B, "copyinit", A)}, nil)                     // B now holds A's address: new set, new checkpoint
		run(time.Second, nil, func() { must(w.delegate(A, 1_000_000)) })                  // power shift: checkpoint whose slots follow [A, B, C]
		run(time.Second, []c16Vote{w.extend(A, "honest", nil), w.extend(C, "honest", nil)}, nil) // A and C sign: 4 of 4 power have signed
		run(time.Second, []c16Vote{w.extend(B, "garbage", nil)}, nil)                     // B's bytes replace A's signature
		st.byz = 2
	case "boundary":
		A, err := w.join(20_000_000)
		must(err)
		_, err = w.s.Stakingkeeper.EndBlocker(w.ctx)
		must(err)
		run(time.Second, []c16Vote{w.extend(A, "honest", nil)}, nil)
		run(time.Second, nil, func() { must(w.delegate(A, 999_999)) })   // 20.999999 -> power 20: nothing
		run(time.Second, nil, func() { must(w.delegate(A, 1)) })         // power 21: exactly 5 % of 20
		run(time.Second, nil, func() { must(w.delegate(A, 1_000_000)) }) // power 22: 4.76 % of 21
		run(time.Second, []c16Vote{w.extend(A, "honest", nil)}, nil)
		_, lts, _ := w.latestTs()
		age := w.now.UnixMilli() - int64(lts)
		run(time.Duration(c16TwoWeeksMs-1000-age)*time.Millisecond, nil, nil) // age exactly 14 d - 1 s: not yet
		run(time.Millisecond, nil, nil)                                      // one millisecond later: recorded
		run(time.Duration(c16TwoWeeksMs)*time.Millisecond, nil, nil)          // exactly 14 d: recorded
	}
	return w.finish(blocks, &st), st
}


func c16Bucket(n int) string {
	switch {
	case n <= 1:
		return fmt.Sprint(n)
	case n <= 4:
		return "2-4"
	case n <= 12:
		return "5-12"
	case n <= 40:
		return "13-40"
	}
	return ">40"
}

func TestC16Hist(t *testing.T) {
	out := newOut(t, "c16_hist")
	defer out.Close()
	n := count(60, 1500)
	base := seed()*1_000_003 + 16
	for _, which := range []string{"F28", "boundary"} {
		term, st := c16Corpus(t, which)
		out.Emit(Case{Coq: term, Kind: "corpus", Nontrivial: true, Key: "corpus:" + which, Tags: []string{"corpus", "corpus:" + which},
			Human: map[string]interface{}{"corpus": which, "blocks": st.blocks, "checkpoints": st.checkpoints, "valset_signatures": st.signs, "duplicate_registration": st.dupReg}})
	}
	for i := 0; i < n; i++ {
		hs := base + int64(i)
		r := rand.New(rand.NewSource(hs ^ 0x5eed))
		nblocks, maxInit := 40, 8
		if i%10 == 9 {
			nblocks, maxInit = 25, 14
		}
		if thorough() {
			nblocks = pick(r, 40, 60, 80)
			maxInit = pick(r, 8, 12, 12, 30)
			if i%60 == 59 {
				nblocks, maxInit = 30, 100
			}
		}
		keyring := i%70 == 1
		if keyring {
			nblocks = 20
		}
		term, st := c16RunHistory(t, hs, nblocks, maxInit, keyring)
		kind := fmt.Sprintf("checkpoints=%s/vals=%s", c16Bucket(st.checkpoints), c16Bucket(st.maxVals))
		var tags []string
		if st.dupReg {
			tags = append(tags, "corpus:F28-class")
		}
		if st.halted {
			tags = append(tags, "halted")
		}
		out.Emit(Case{Coq: term, Kind: kind, Nontrivial: st.checkpoints >= 3 && st.signs >= 2, Key: fmt.Sprint(hs), Tags: tags,
			Human: map[string]interface{}{"history_seed": hs, "blocks": st.blocks, "checkpoints": st.checkpoints, "valset_signatures": st.signs,
				"registrations": st.claims, "byzantine_votes": st.byz, "max_bonded": st.maxVals, "duplicate_registration": st.dupReg, "halted": st.halted}})
	}
}


// ---- unit-level drivers: the real keeper on mocked staking ------------------------------------------

// a pair (last, cur) of bridge sets whose L1 distance sits at a chosen place relative to T/20
func c16GenPair(r *rand.Rand, maxN int) (last, cur []*bridgetypes.BridgeValidator) {
	n := 1 + r.Intn(maxN)
	big1 := r.Intn(12) == 0
	addr := func(i int) []byte {
		b := make([]byte, 20)
		b[0] = byte(r.Intn(3)) // equal leading bytes: order decided late
		b[18], b[19] = byte(i>>8), byte(i)
		if r.Intn(3) == 0 {
			b[10] = byte(r.Intn(256))
		}
		return b
	}
	total := pick(r, int64(2), 3, 19, 20, 21, 40, 60, 100, 200, 1000, 2+r.Int63n(500), 20*(1+r.Int63n(5000)), 2+r.Int63n(1_000_000))
	if big1 {
		total = 1_000_000_000 + r.Int63n(8_000_000_000_000) // up to ~2^63/10^6
	}
	if total < int64(n) {
		total = int64(n)
	}
	ps := c16SplitPower(r, total, n, r.Intn(4) == 0)
	for i, p := range ps {
		if p == 0 {
			p = 1
		}
		last = append(last, &bridgetypes.BridgeValidator{EthereumAddress: addr(i), Power: uint64(p)})
	}
	T := int64(0)
	for _, v := range last {
		T += int64(v.Power)
	}
	edge := (T + 19) / 20
	d := pick(r, int64(0), 0, 1, edge-1, edge-1, edge, edge, edge+1, 1+r.Int63n(edge+2), r.Int63n(T+1))
	if d < 0 {
		d = 0
	}
	for _, v := range last {
		cur = append(cur, &bridgetypes.BridgeValidator{EthereumAddress: v.EthereumAddress, Power: v.Power})
	}
	touched := map[int]bool{}
	next := n
	for guard := 0; d > 0 && guard < 50; guard++ {
		x := 1 + r.Int63n(d)
		if r.Intn(3) == 0 {
			x = d
		}
		switch r.Intn(4) {
		case 0, 1: // change the power of an untouched member
			i := r.Intn(n)
			if touched[i] {
				continue
			}
			touched[i] = true
			if r.Intn(2) == 0 {
				cur[i].Power += uint64(x)
			} else {
				if uint64(x) > cur[i].Power {
					x = int64(cur[i].Power)
				}
				cur[i].Power -= uint64(x)
			}
			d -= x
		case 2: // a new member
			cur = append(cur, &bridgetypes.BridgeValidator{EthereumAddress: addr(next), Power: uint64(x)})
			next++
			d -= x
		case 3: // a member leaves
			i := r.Intn(n)
			if touched[i] || int64(cur[i].Power) > d {
				continue
			}
			touched[i] = true
			d -= int64(cur[i].Power)
			cur[i].Power = 0
		}
	}
	var out []*bridgetypes.BridgeValidator
	for _, v := range cur {
		if v.Power > 0 {
			out = append(out, v)
		}
	}
	if len(out) == 0 {
		out = append(out, &bridgetypes.BridgeValidator{EthereumAddress: addr(next), Power: 1})
	}
	return last, out
}

func c16SortSet(set []*bridgetypes.BridgeValidator) {
	sort.Slice(set, func(i, j int) bool {
		if set[i].Power == set[j].Power {
			return bytes.Compare(set[i].EthereumAddress, set[j].EthereumAddress) < 0
		}
		return set[i].Power > set[j].Power
	})
}

func c16SetKey(set []*bridgetypes.BridgeValidator) string {
	var sb strings.Builder
	for _, v := range set {
		fmt.Fprintf(&sb, "%x:%d,", v.EthereumAddress, v.Power)
	}
	return sb.String()
}

func TestC16Unit(t *testing.T) {
	out := newOut(t, "c16_unit")
	defer out.Close()
	r := rand.New(rand.NewSource(seed() + 1616))
	k, _, _, _, _, sk, ctx := keepertest.BridgeKeeper(t)
	maxN := 12
	if thorough() {
		maxN = 100
	}
	// --- PowerDiff ---
	nd := count(300, 8000)
	type pair struct{ b, c []*bridgetypes.BridgeValidator }
	A := func(i byte) []byte { b := make([]byte, 20); b[19] = i; return b }
	bv := func(a []byte, p uint64) *bridgetypes.BridgeValidator { return &bridgetypes.BridgeValidator{EthereumAddress: a, Power: p} }
	corpus := []pair{
		{[]*bridgetypes.BridgeValidator{bv(A(1), 20)}, []*bridgetypes.BridgeValidator{bv(A(1), 21)}},                         // exactly 5 %
		{[]*bridgetypes.BridgeValidator{bv(A(1), 21)}, []*bridgetypes.BridgeValidator{bv(A(1), 22)}},                         // 4.76 %
		{[]*bridgetypes.BridgeValidator{bv(A(1), 10), bv(A(2), 10)}, []*bridgetypes.BridgeValidator{bv(A(1), 10), bv(A(2), 10)}}, // equal
		{[]*bridgetypes.BridgeValidator{bv(A(1), 40), bv(A(2), 40)}, []*bridgetypes.BridgeValidator{bv(A(1), 42), bv(A(2), 38)}}, // 2+2 of 80
		{[]*bridgetypes.BridgeValidator{bv(A(1), 100)}, []*bridgetypes.BridgeValidator{bv(A(1), 100), bv(A(2), 5)}},          // join with 5 %
		{[]*bridgetypes.BridgeValidator{bv(A(1), 100), bv(A(2), 4)}, []*bridgetypes.BridgeValidator{bv(A(1), 100)}},          // exit with 3.8 %
		{[]*bridgetypes.BridgeValidator{bv(A(1), 2), bv(A(1), 1)}, []*bridgetypes.BridgeValidator{bv(A(1), 2), bv(A(1), 1)}}, // F28: duplicate address, nothing changed
	}
	for i := 0; i < nd+len(corpus); i++ {
		var b, c []*bridgetypes.BridgeValidator
		tags := []string(nil)
		if i < len(corpus) {
			b, c = corpus[i].b, corpus[i].c
			tags = []string{"corpus"}
		} else {
			b, c = c16GenPair(r, maxN)
			if r.Intn(25) == 0 && len(b) > 1 { // duplicate address (finding F28): only the map semantics is compared
				b[r.Intn(len(b))].EthereumAddress = b[0].EthereumAddress
			}
			if r.Intn(2) == 0 {
				c16SortSet(b)
				c16SortSet(c)
			}
		}
		impl := k.PowerDiff(ctx, bridgetypes.BridgeValidatorSet{BridgeValidatorSet: b}, bridgetypes.BridgeValidatorSet{BridgeValidatorSet: c})
		kind := "below"
		if impl >= 50000 {
			kind = "at-or-above"
		}
		if impl == 50000 || impl == 49999 {
			kind = "boundary"
		}
		out.Emit(Case{Coq: c16Abstract(fmt.Sprintf("DiffCase %s %s %s", c16Set(b), c16Set(c), czi(impl))), Kind: "diff/" + kind,
			Nontrivial: len(b) >= 2 && impl > 0, Key: "d" + c16SetKey(b) + "|" + c16SetKey(c), Tags: tags})
	}
	// --- LastSavedValidatorSetStale ---
	ns := count(120, 3000)
	for i := 0; i < ns; i++ {
		cctx, _ := ctx.CacheContext()
		now := int64(1_700_000_000_000) + r.Int63n(1_000_000_000)
		age := pick(r, c16TwoWeeksMs-1000, c16TwoWeeksMs-1000, c16TwoWeeksMs, c16TwoWeeksMs-2000, r.Int63n(2*c16TwoWeeksMs)) + int64(pick(r, -2, -1, 0, 1, 2))
		nkeys := r.Intn(4)
		keys := []int64{}
		if r.Intn(20) > 0 {
			keys = append(keys, now-age)
		}
		for j := 0; j < nkeys; j++ {
			keys = append(keys, now-age-1-r.Int63n(c16TwoWeeksMs))
		}
		if r.Intn(15) == 0 { // a key in the future of the block (not reachable on a chain)
			keys = append(keys, now+pick(r, int64(999), 1000, 1001, 5000))
		}
		items := make([]string, len(keys))
		for j, ts := range keys {
			_ = k.ValidatorCheckpointParamsMap.Set(cctx, uint64(ts), bridgetypes.ValidatorCheckpointParams{Timestamp: uint64(ts)})
			items[j] = czi(ts)
		}
		ns := int64(r.Intn(1_000_000)) // sub-millisecond part of the block time
		sctx := sdk.UnwrapSDKContext(cctx).WithBlockTime(time.UnixMilli(now).Add(time.Duration(ns)).UTC())
		st, err := k.LastSavedValidatorSetStale(sctx)
		kind := "fresh"
		if st {
			kind = "stale"
		}
		if err != nil {
			kind = "error"
		}
		out.Emit(Case{Coq: fmt.Sprintf("StaleCase %s %s %s %s", clist(items), czi(now), cbool(err != nil), cbool(st)), Kind: "stale/" + kind,
			Nontrivial: err == nil, Key: fmt.Sprintf("s%v/%d", keys, now)})
	}
	// --- CompareAndSetBridgeValidators on a written state ---
	nu := count(300, 8000)
	for i := 0; i < nu; i++ {
		cctx, _ := ctx.CacheContext()
		last, cur := c16GenPair(r, maxN)
		c16SortSet(last)
		now := int64(1_700_000_000_000) + r.Int63n(1_000_000_000)
		age := pick(r, c16TwoWeeksMs-1000, c16TwoWeeksMs, r.Int63n(c16TwoWeeksMs-1000), r.Int63n(c16TwoWeeksMs-1000), r.Int63n(c16TwoWeeksMs-1000), 1) + int64(pick(r, -1, 0, 0, 1))
		if age < 1 {
			age = 1
		}
		tsLast := uint64(now - age)
		lastSet := bridgetypes.BridgeValidatorSet{BridgeValidatorSet: last}
		_ = k.BridgeValset.Set(cctx, lastSet)
		_ = k.ValidatorCheckpointParamsMap.Set(cctx, tsLast, bridgetypes.ValidatorCheckpointParams{Timestamp: tsLast})
		_ = k.BridgeValsetByTimestampMap.Set(cctx, tsLast, lastSet)
		_ = k.ValidatorCheckpointIdxMap.Set(cctx, 0, bridgetypes.CheckpointTimestamp{Timestamp: tsLast})
		_ = k.ValsetTimestampToIdxMap.Set(cctx, tsLast, bridgetypes.CheckpointIdx{Index: 0})
		_ = k.LatestCheckpointIdx.Set(cctx, bridgetypes.CheckpointIdx{Index: 0})
		// staking validators realising cur, plus validators that must be left out
		var vals []stakingtypes.Validator
		var regs, svs []string
		add := func(id int, bonded bool, tokens int64, evm []byte) {
			op := fmt.Sprintf("op%04d", id)
			st := stakingtypes.Unbonded
			if bonded {
				st = stakingtypes.Bonded
			} else if r.Intn(2) == 0 {
				st = stakingtypes.Unbonding
			}
			vals = append(vals, stakingtypes.Validator{OperatorAddress: op, Status: st, Tokens: math.NewInt(tokens)})
			svs = append(svs, fmt.Sprintf("SV %d %s %d", id, cbool(bonded), tokens))
			if evm != nil {
				_ = k.SetEVMAddressByOperator(cctx, op, evm)
				regs = append(regs, fmt.Sprintf("(%d, %s)", id, c16TokA(evm)))
			}
		}
		id := 0
		for _, v := range cur {
			add(id, true, int64(v.Power)*1_000_000+pick(r, int64(0), 0, 1, 999_999, r.Int63n(1_000_000)), v.EthereumAddress)
			id++
		}
		for j := r.Intn(4); j > 0; j-- {
			e := make([]byte, 20)
			e[0], e[19] = 0xFF, byte(id)
			switch r.Intn(3) {
			case 0:
				add(id, true, 1+r.Int63n(999_999), e) // bonded, below one whole token
			case 1:
				add(id, false, 1_000_000*(1+r.Int63n(50)), e) // not bonded
			default:
				add(id, true, 1_000_000*(1+r.Int63n(50)), nil) // no EVM address
			}
			id++
		}
		r.Shuffle(len(vals), func(a, b int) { vals[a], vals[b] = vals[b], vals[a]; svs[a], svs[b] = svs[b], svs[a] })
		sk.ExpectedCalls = nil
		sk.On("GetAllValidators", mock.Anything).Return(vals, nil)
		sctx := sdk.UnwrapSDKContext(cctx).WithBlockTime(time.UnixMilli(now).UTC()).WithBlockHeight(10)
		rec, err := k.CompareAndSetBridgeValidators(sctx)
		after, _ := k.BridgeValset.Get(sctx)
		kind := "same"
		if rec {
			kind = "recorded"
		}
		out.Emit(Case{Coq: c16Abstract(fmt.Sprintf("UpdCase %s %s %s %d %d %s %s %s", clist(regs), clist(svs), c16Set(last), tsLast, now, cbool(err != nil), cbool(rec), c16Set(after.BridgeValidatorSet))),
			Kind: "update/" + kind, Nontrivial: len(last) >= 2, Key: fmt.Sprintf("u%s|%v|%d|%d", c16SetKey(last), svs, tsLast, now)})
	}
	// --- the contract text the contract model was transcribed from ---
	out.Emit(Case{Coq: "SolCase " + clist(c16SolFacts(t)), Kind: "sol", Nontrivial: true, Key: "sol"})
}

// the statements of updateValidatorSet, _checkValidatorSignatures, _domainSeparateValidatorSetHash and
// _verifySig that decide acceptance, whitespace-normalised
func c16SolFacts(t *testing.T) []string {
	src, err := os.ReadFile(repoDir() + "/evm/contracts/bridge/BlobstreamO.sol")
	if err != nil {
		t.Fatal(err)
	}
	text := string(src)
	body := func(name string) string {
		i := strings.Index(text, "function "+name+"(")
		if i < 0 {
			t.Fatalf("BlobstreamO.sol: function %s not found", name)
		}
		j := strings.Index(text[i:], "{")
		depth, k := 0, i+j
		for ; k < len(text); k++ {
			if text[k] == '{' {
				depth++
			} else if text[k] == '}' {
				depth--
				if depth == 0 {
					break
				}
			}
		}
		return text[i+j+1 : k]
	}
	var facts []string
	for _, fn := range []string{"updateValidatorSet", "_checkValidatorSignatures", "_domainSeparateValidatorSetHash", "_verifySig"} {
		b := body(fn)
		// drop comments, join continuation lines of one statement
		var clean []string
		for _, ln := range strings.Split(b, "\n") {
			if k := strings.Index(ln, "//"); k >= 0 {
				ln = ln[:k]
			}
			ln = strings.TrimSpace(ln)
			if ln != "" {
				clean = append(clean, ln)
			}
		}
		var stmt string
		flush := func() {
			s := strings.TrimSpace(stmt)
			stmt = ""
			if s == "" || s == "}" || s == "return" || strings.HasPrefix(s, "revert ") || strings.HasPrefix(s, "emit ") || s == ");" {
				return
			}
			facts = append(facts, s)
		}
		open := 0
		for _, ln := range clean {
			if open > 0 || strings.HasSuffix(stmt, "(") || strings.HasSuffix(stmt, ",") {
				stmt += ln
			} else {
				if stmt != "" {
					stmt += " "
				}
				stmt += ln
			}
			open += strings.Count(ln, "(") - strings.Count(ln, ")")
			if open <= 0 && (strings.HasSuffix(ln, ";") || strings.HasSuffix(ln, "{") || strings.HasSuffix(ln, "}")) {
				open = 0
				flush()
			}
		}
		flush()
	}
	for i, f := range facts {
		facts[i] = cstr(f)
	}
	return facts
}

func TestC16Debug(t *testing.T) {
	var hs int64 = 1
	fmt.Sscan(os.Getenv("HIST_SEED"), &hs)
	t0 := time.Now()
	term, st := c16RunHistory(t, hs, 40, 8, os.Getenv("C16_KEYRING") != "")
	fmt.Println(len(term), fmt.Sprintf("%+v", st), time.Since(t0))
	if os.Getenv("HIST_PRINT") != "" {
		fmt.Println(term)
	}
}
