package harness

import (
	"encoding/hex"
	"fmt"
	"os"
	"math/big"
	"math/rand"
	"sort"
	"strings"
	"testing"
	"time"

	"cosmossdk.io/collections"
	"cosmossdk.io/math"

	sdk "github.com/cosmos/cosmos-sdk/types"
	stakingtypes "github.com/cosmos/cosmos-sdk/x/staking/types"
	"github.com/ethereum/go-ethereum/common"
	"github.com/tellor-io/layer/utils"
	bridgetypes "github.com/tellor-io/layer/x/bridge/types"
	disputetypes "github.com/tellor-io/layer/x/dispute/types"
	minttypes "github.com/tellor-io/layer/x/mint/types"
	oracletypes "github.com/tellor-io/layer/x/oracle/types"
	registrytypes "github.com/tellor-io/layer/x/registry/types"
	reportertypes "github.com/tellor-io/layer/x/reporter/types"
)

var histDebug = false

type collectionsPairBytesU64 = collections.Pair[[]byte, uint64]

func collectionsJoin3(a, b []byte, c uint64) collections.Triple[[]byte, []byte, uint64] {
	return collections.Join3(a, b, c)
}

func collectionsJoinReport(q, r []byte, h uint64) collections.Pair[[]byte, collections.Pair[[]byte, uint64]] {
	return collections.Join(q, collections.Join(r, h))
}

// a decrease of somebody's holdings caused by one operation
type decrease struct {
	acct      int
	component string // liquid staked credit selection
	role      string // "" (no relation), signer, or the role recorded by the generator
}

func diffHoldings(before, after []holding, signer int, roles map[int]string) []decrease {
	var ds []decrease
	add := func(i int, comp string) {
		role := roles[i]
		if i == signer {
			role = "signer"
		}
		ds = append(ds, decrease{i, comp, role})
	}
	for i := range before {
		if after[i].liquid.Cmp(before[i].liquid) < 0 {
			add(i, "liquid")
		}
		// a non-signer's stake is measured in whole tokens: one unit per delegation at a slashed validator is rounding
		tol := int64(0)
		if i != signer {
			tol = before[i].inexact
			if after[i].inexact > tol {
				tol = after[i].inexact
			}
		}
		if badd(after[i].staked, bi(tol)).Cmp(before[i].staked) < 0 {
			add(i, "staked")
		}
		if after[i].credit.Cmp(before[i].credit) < 0 {
			add(i, "credit")
		}
		if after[i].selected != before[i].selected {
			add(i, "selection")
		}
	}
	return ds
}

func coqParams(ps []*big.Int) string {
	items := make([]string, len(ps))
	for i, p := range ps {
		items[i] = cz(p)
	}
	return clist(items)
}

func coqStep(res opResult, sn snapshot, ds []decrease) string {
	items := make([]string, len(ds))
	for i, d := range ds {
		items[i] = fmt.Sprintf("(%d, %s, %s)", d.acct, cstr(d.component), cstr(d.role))
	}
	return fmt.Sprintf("(Step %s %s %d %s %s %s)", cstr(res.name), czi(int64(res.signer)), res.result, coqParams(res.params), sn.coq(), clist(items))
}

func blockGap(r *rand.Rand) time.Duration {
	switch r.Intn(12) {
	case 0:
		return time.Millisecond
	case 1:
		return time.Duration(1+r.Intn(999)) * time.Millisecond
	case 2:
		return 12 * time.Hour
	case 3:
		return pick(r, 24*time.Hour, 24*time.Hour+time.Nanosecond, 48*time.Hour, 72*time.Hour+time.Second)
	case 4:
		return pick(r, 14*24*time.Hour, 21*24*time.Hour+time.Second, 30*24*time.Hour)
	case 5:
		return 1500*time.Millisecond + time.Duration(r.Intn(1000))*time.Microsecond
	default:
		return time.Duration(1+r.Intn(6)) * time.Second
	}
}

// runHistory executes one generated history and returns the case term plus bookkeeping
var lastWorld *World

func runHistory(t *testing.T, seed int64, blocks int) (string, map[string]int, string) {
	r := rand.New(rand.NewSource(seed))
	w := newWorld(t, r, 2+r.Intn(2), 4+r.Intn(3))
	lastWorld = w
	if seed%3 == 2 {
		w.focus = "dispute"
	}
	stats := map[string]int{}
	var steps []string
	init := w.snap()
	for b := 0; b < blocks && w.halted == ""; b++ {
		gap := blockGap(r)
		if w.focus == "dispute" && r.Intn(2) == 0 {
			// the periods of the dispute module: 1 d prevote, 2 d vote, 3 d round / dispute end
			gap = pick(r, 12*time.Hour, 24*time.Hour, 24*time.Hour+time.Nanosecond, 36*time.Hour, 48*time.Hour, 48*time.Hour+time.Second, 72*time.Hour, 72*time.Hour+time.Second)
		}
		res := w.beginBlock(gap)
		steps = append(steps, coqStep(res, w.snap(), nil))
		stats[fmt.Sprintf("%s/%d", res.name, res.result)]++
		if w.halted != "" {
			break
		}
		nmsg := r.Intn(7)
		for m := 0; m < nmsg; m++ {
			op := w.genOp()
			before := w.holdings()
			res := w.deliver(op.name, op.signer, op.params, op.run)
			if histDebug {
				sn := w.snap()
				fmt.Printf("h=%d %s signer=%d result=%d %s | bonded %s ledger %s notbonded %s ledger %s dispute %s params %v\n", w.height, res.name, res.signer, res.result, res.errMsg,
					sn.bonded, sn.bondedLedger, sn.notBonded, sn.nbLedger, sn.dispute, op.params)
				if os.Getenv("HIST_DISPUTES") != "" && res.result == 0 && (strings.Contains(res.name, "Dispute") || strings.Contains(res.name, "Refund") || res.name == "Vote") {
					for _, id := range w.allDisputeIDs(6) {
						if d, err := w.s.Disputekeeper.Disputes.Get(w.ctx, id); err == nil {
							v, _ := w.s.Disputekeeper.Votes.Get(w.ctx, id)
							fmt.Printf("    dispute %d status %v cat %v slash %s fee %s feeTotal %s burn %s reward %s open %v pending %v round %d reporter %s power %d result %v executed %v\n", id, d.DisputeStatus, d.DisputeCategory,
								d.SlashAmount, d.DisputeFee, d.FeeTotal, d.BurnAmount, d.VoterReward, d.Open, d.PendingExecution, d.DisputeRound, d.InitialEvidence.Reporter[:12], d.InitialEvidence.Power, v.VoteResult, v.Executed)
						}
					}
				}
			}
			after := w.holdings()
			ds := diffHoldings(before, after, op.signer, op.roles)
			steps = append(steps, coqStep(res, w.snap(), ds))
			stats[fmt.Sprintf("%s/%d", res.name, res.result)]++
		}
		res = w.endBlock()
		steps = append(steps, coqStep(res, w.snap(), nil))
		stats[fmt.Sprintf("%s/%d", res.name, res.result)]++
	}
	return fmt.Sprintf("Hist %s %s", init.coq(), clist(steps)), stats, w.halted
}

func TestHistAll(t *testing.T) {
	out := newOut(t, "hist_all")
	defer out.Close()
	n := count(80, 1500)
	blocks := 25
	if thorough() {
		blocks = 50
	}
	base := seed() * 1_000_003
	for i := 0; i < n; i++ {
		hs := base + int64(i)
		term, stats, halted := runHistory(t, hs, blocks)
		keys := make([]string, 0, len(stats))
		accepted := 0
		for k, v := range stats {
			keys = append(keys, k)
			if strings.HasSuffix(k, "/0") && !strings.HasPrefix(k, "BeginBlock") && !strings.HasPrefix(k, "EndBlock") {
				accepted += v
			}
		}
		sort.Strings(keys)
		kind := "completed"
		if halted != "" {
			kind = "halted"
		}
		out.Emit(Case{Coq: term, Kind: kind, Nontrivial: accepted >= 10, Key: fmt.Sprint(hs),
			Human: map[string]interface{}{"history_seed": hs, "blocks": blocks, "ops": stats, "halted": halted}})
	}
}

func TestHistDebug(t *testing.T) {
	histDebug = true
	var hs int64
	fmt.Sscan(os.Getenv("HIST_SEED"), &hs)
	blocks := 25
	if b := os.Getenv("HIST_BLOCKS"); b != "" {
		fmt.Sscan(b, &blocks)
	}
	term, stats, halted := runHistory(t, hs, blocks)
	fmt.Println(stats, "HALTED:", halted)
	if f := os.Getenv("HIST_TERM"); f != "" {
		_ = os.WriteFile(f, []byte(term), 0o644)
	}
	w := lastWorld
	vals, _ := w.s.Stakingkeeper.GetAllValidators(w.ctx)
	for _, v := range vals {
		evm, err := w.s.Bridgekeeper.OperatorToEVMAddressMap.Get(w.ctx, v.GetOperator())
		fmt.Println("validator", v.GetOperator(), v.Status, v.Tokens, "jailed", v.Jailed, "evm", evm.EVMAddress, err)
	}
}

// runPayoutHistory: a history directed at the reward paths (C04/C09): 3-5 reporters with equal or
// 3:3:1-style powers, selectors joining them, tips whose amounts do not divide by the number of
// reporters, every reporter reporting the tipped / scheduled query, time based rewards running, and tip
// withdrawals by every party, through the real message servers and Begin/EndBlockers.
func runPayoutHistory(t *testing.T, seed int64, blocks int, f06 bool) (string, map[string]int, string) {
	r := rand.New(rand.NewSource(seed))
	nVals := 3 + r.Intn(3)
	w := newWorld(t, r, nVals, 3)
	lastWorld = w
	stats := map[string]int{}
	var steps []string
	do := func(name string, signer int, params []*big.Int, f func(ctx sdk.Context) error) opResult {
		res := w.deliver(name, signer, params, f)
		steps = append(steps, coqStep(res, w.snap(), nil))
		stats[fmt.Sprintf("%s/%d", res.name, res.result)]++
		return res
	}
	// every validator account becomes a reporter (newWorld made the first two)
	for i := 2; i < nVals; i++ {
		i := i
		rate := pick(r, math.LegacyZeroDec(), math.LegacyNewDecWithPrec(1, 1), math.LegacyNewDecWithPrec(5, 1))
		if f06 {
			rate = math.LegacyNewDec(2) // witness of finding F06: a commission "rate" of 2 is accepted
		}
		if _, err := w.reporterMS.CreateReporter(w.ctx, &reportertypes.MsgCreateReporter{ReporterAddress: w.accts[i].String(), CommissionRate: rate, MinTokensRequired: math.NewInt(loyaPerTRB)}); err != nil {
			t.Fatal(err)
		}
		w.reporters[i] = true
	}
	// power profile: equal, or one reporter with extra stake (3:3:1-like ratios arise from the extra)
	if r.Intn(2) == 0 {
		extra := pick(r, bi(2500*loyaPerTRB), bi(5000*loyaPerTRB), bi(1*loyaPerTRB), bi(10000*loyaPerTRB))
		who := r.Intn(nVals)
		w.s.MintTokens(w.accts[who], math.NewIntFromBigInt(extra))
		_, _ = w.stakingMS.Delegate(w.ctx, &stakingtypes.MsgDelegate{DelegatorAddress: w.accts[who].String(), ValidatorAddress: w.valOps[who].String(), Amount: w.coin(extra)})
	}
	// plain accounts delegate and select a reporter
	for k := 0; k < 3; k++ {
		a := nVals + k
		v := r.Intn(nVals)
		amt := pick(r, bi(1*loyaPerTRB), bi(333*loyaPerTRB), bi(1000*loyaPerTRB), bi(1234567))
		_, _ = w.stakingMS.Delegate(w.ctx, &stakingtypes.MsgDelegate{DelegatorAddress: w.accts[a].String(), ValidatorAddress: w.valOps[v].String(), Amount: w.coin(amt)})
		rep := r.Intn(nVals)
		if f06 {
			rep = 2
		}
		_, _ = w.reporterMS.SelectReporter(w.ctx, &reportertypes.MsgSelectReporter{SelectorAddress: w.accts[a].String(), ReporterAddress: w.accts[rep].String()})
	}
	if r.Intn(2) == 0 {
		_, _ = w.mintMS.Init(w.ctx, &minttypes.MsgInit{Authority: w.authority})
		w.mintInitialized = true
	}
	// short bridge-deposit windows, so that tipped deposit rounds expire, re-open and close inside the history
	depositRounds := r.Intn(2) == 0
	if depositRounds {
		if spec, err := w.s.Registrykeeper.GetSpec(w.ctx, "trbbridge"); err == nil {
			spec.ReportBlockWindow = uint64(pick(r, 1, 2, 3))
			_, _ = w.registryMS.UpdateDataSpec(w.ctx, &registrytypes.MsgUpdateDataSpec{Authority: w.authority, QueryType: "trbbridge", Spec: spec})
		}
	}
	init := w.snap()
	for b := 0; b < blocks && w.halted == ""; b++ {
		res := w.beginBlock(time.Duration(1+r.Intn(5000)) * time.Millisecond)
		steps = append(steps, coqStep(res, w.snap(), nil))
		stats[fmt.Sprintf("%s/%d", res.name, res.result)]++
		if w.halted != "" {
			break
		}
		// tips
		var tipped [][]byte
		for k := r.Intn(3); k > 0; k-- {
			a := nVals + r.Intn(3)
			qd := w.currentCycleQuery()
			if r.Intn(2) == 0 {
				qd = pick(r, w.queries...)
			}
			if depositRounds && r.Intn(2) == 0 {
				qd = w.bridgeQueries[r.Intn(2)]
			}
			amt := pick(r, bi(100), bi(101), bi(1000), bi(3), bi(7), bi(1_000_001), bi(50), bi(int64(1+r.Intn(5_000_000))))
			tipped = append(tipped, qd)
			do("Tip", a, []*big.Int{amt}, func(ctx sdk.Context) error {
				_, err := w.oracleMS.Tip(ctx, &oracletypes.MsgTip{Tipper: w.accts[a].String(), QueryData: qd, Amount: w.coin(amt)})
				return err
			})
		}
		// reports: all (or all but one) reporters on the cycle query and on the tipped queries
		qs := append([][]byte{w.currentCycleQuery()}, tipped...)
		if depositRounds && r.Intn(2) == 0 {
			qs = append(qs, w.bridgeQueries[r.Intn(2)])
		}
		for _, qd := range qs {
			skip := -1
			if r.Intn(4) == 0 {
				skip = r.Intn(nVals)
			}
			val := w.randValue()
			// a well-formed deposit report (ethereum sender, recipient on this chain, amount and claim tip in 10^-18)
			depVal := func() string {
				amt := bmul(pick(r, bi(1), bi(5), bi(1_000_000), bi(123_456_789), bi(int64(1+r.Intn(1_000_000_000)))), c14e12)
				if r.Intn(3) == 0 {
					amt = badd(amt, bi(int64(r.Intn(1_000_000)))) // below one loya: dropped by the conversion
				}
				tip := pick(r, bi(0), bi(0), bquo(amt, bi(2)), bquo(amt, bi(100)), amt, bi(999_999_999_999), bmul(bi(1), c14e12))
				return hex.EncodeToString(c14pack(common.BytesToAddress([]byte{byte(r.Intn(250) + 1)}), w.accts[r.Intn(len(w.accts))].String(), amt, tip))
			}()
			for i := 0; i < nVals; i++ {
				if i == skip {
					continue
				}
				i, qd := i, qd
				v := val
				if r.Intn(3) == 0 {
					v = w.randValue()
				}
				if depositRounds && (string(qd) == string(w.bridgeQueries[0]) || string(qd) == string(w.bridgeQueries[1])) {
					v = pick(r, "000000000000000000000000000000000000000000000058528649cf80ee0000", randHex(r, 256), randHex(r, 64), depVal, depVal, depVal, depVal)
				}
				do("SubmitValue", i, nil, func(ctx sdk.Context) error {
					_, err := w.oracleMS.SubmitValue(ctx, &oracletypes.MsgSubmitValue{Creator: w.accts[i].String(), QueryData: qd, Value: v})
					return err
				})
			}
		}
		// withdrawals of credited tips
		if r.Intn(3) == 0 {
			for _, a := range r.Perm(nVals + 3) {
				if r.Intn(2) == 0 {
					continue
				}
				a := a
				v := w.valOps[r.Intn(nVals)]
				do("WithdrawTip", a, nil, func(ctx sdk.Context) error {
					_, err := w.reporterMS.WithdrawTip(ctx, &reportertypes.MsgWithdrawTip{SelectorAddress: w.accts[a].String(), ValidatorAddress: v.String()})
					return err
				})
			}
		}
		res = w.endBlock()
		steps = append(steps, coqStep(res, w.snap(), nil))
		stats[fmt.Sprintf("%s/%d", res.name, res.result)]++
	}
	// the deposit reports become claimable after 12 hours: claims by the recipient itself and by others, of every
	// aggregate of the two deposit ids, also repeated; the claim carries the reported amount (in loya) it should mint
	if w.halted == "" && depositRounds {
		res := w.beginBlock(12*time.Hour + time.Duration(r.Intn(3))*time.Second)
		steps = append(steps, coqStep(res, w.snap(), nil))
		for k := 0; k < 8; k++ {
			dep := uint64(1 + r.Intn(2))
			qid := utils.QueryIDFromData(w.bridgeQueries[dep-1])
			idx := uint64(pick(r, 0, 0, 0, 1, 1, 2, 3))
			claimer := r.Intn(len(w.accts))
			amount := bi(0)
			if agg, _, err := w.s.Oraclekeeper.GetAggregateByIndex(w.ctx, qid, idx); err == nil && agg != nil {
				if raw, err := hex.DecodeString(agg.AggregateValue); err == nil {
					if vals, err := c14valueArgs.Unpack(raw); err == nil {
						amount = bquo(vals[2].(*big.Int), c14e12)
						if rcpt, err := sdk.AccAddressFromBech32(vals[1].(string)); err == nil && r.Intn(2) == 0 {
							claimer = w.acctID(rcpt)
							if claimer < 0 {
								claimer = r.Intn(len(w.accts))
							}
						}
					}
				}
			}
			res := do("ClaimDeposits", claimer, []*big.Int{amount}, func(ctx sdk.Context) error {
				_, err := w.bridgeMS.ClaimDeposits(ctx, &bridgetypes.MsgClaimDepositsRequest{Creator: w.accts[claimer].String(), DepositIds: []uint64{dep}, Indices: []uint64{idx}})
				return err
			})
			if res.result != 0 {
				e := res.errMsg
				if len(e) > 50 {
					e = e[:50]
				}
				stats["ClaimDeposits error: "+e]++
			}
		}
		res = w.endBlock()
		steps = append(steps, coqStep(res, w.snap(), nil))
	}
	// finally everybody withdraws: no entitled withdrawal may fail for lack of funds
	if w.halted == "" {
		res := w.beginBlock(time.Second)
		steps = append(steps, coqStep(res, w.snap(), nil))
		for a := 0; a < nVals+3; a++ {
			a := a
			res := do("WithdrawTip", a, nil, func(ctx sdk.Context) error {
				_, err := w.reporterMS.WithdrawTip(ctx, &reportertypes.MsgWithdrawTip{SelectorAddress: w.accts[a].String(), ValidatorAddress: w.valOps[a%nVals].String()})
				return err
			})
			if res.result != 0 && strings.Contains(res.errMsg, "insufficient") {
				stats["WithdrawTip/insufficient"]++
			}
		}
		res = w.endBlock()
		steps = append(steps, coqStep(res, w.snap(), nil))
	}
	return fmt.Sprintf("Hist %s %s", init.coq(), clist(steps)), stats, w.halted
}

func TestHistPayouts(t *testing.T) {
	out := newOut(t, "hist_payouts")
	defer out.Close()
	n := count(40, 1000)
	base := seed()*7_000_003 + 17
	for i := 0; i < n; i++ {
		hs := base + int64(i)
		term, stats, halted := runPayoutHistory(t, hs, 10, i == 0)
		kind := "completed"
		var tags []string
		if i == 0 {
			tags = []string{"corpus:F06"}
		}
		if halted != "" {
			kind = "halted"
		}
		if stats["WithdrawTip/insufficient"] > 0 {
			kind = "withdraw-insufficient"
		}
		out.Emit(Case{Coq: term, Kind: kind, Nontrivial: stats["SubmitValue/0"] >= 6 && stats["Tip/0"] >= 2, Key: fmt.Sprint(hs), Tags: tags,
			Human: map[string]interface{}{"history_seed": hs, "ops": stats, "halted": halted}})
	}
}

// runDisputeHistory: a history directed at the dispute paths (C02/C04/C05/C19): a reporter backed by
// selectors with fractional stakes at one or two validators reports; its report is disputed (any
// category, fully funded from balance or from stake, sometimes in two payments); the team and others vote;
// the periods pass; the begin blocker tallies and executes; parties claim; sometimes a further round.
func runDisputeHistory(t *testing.T, seed int64) (string, map[string]int, string) {
	r := rand.New(rand.NewSource(seed))
	nVals := 3
	w := newWorld(t, r, nVals, 4)
	lastWorld = w
	w.focus = "dispute"
	stats := map[string]int{}
	var steps []string
	var nextParams []*big.Int
	do := func(name string, signer int, roles map[int]string, f func(ctx sdk.Context) error) opResult {
		before := w.holdings()
		res := w.deliver(name, signer, nextParams, f)
		nextParams = nil
		ds := diffHoldings(before, w.holdings(), signer, roles)
		steps = append(steps, coqStep(res, w.snap(), ds))
		stats[fmt.Sprintf("%s/%d", res.name, res.result)]++
		if os.Getenv("HIST_DISPUTES") != "" && (res.result != 1 || name == "ProposeDispute") {
			fmt.Printf("h=%d t=%s %s signer=%d result=%d %s params %v | dispute account %s\n", w.height, w.now.Format("01-02 15:04:05"), name, signer, res.result, res.errMsg, res.params, w.snap().dispute)
			for _, id := range w.allDisputeIDs(6) {
				if d, err := w.s.Disputekeeper.Disputes.Get(w.ctx, id); err == nil {
					v, _ := w.s.Disputekeeper.Votes.Get(w.ctx, id)
					fmt.Printf("    dispute %d status %v cat %v slash %s fee %s feeTotal %s burn %s reward %s open %v pending %v round %d power %d result %v executed %v\n", id, d.DisputeStatus, d.DisputeCategory,
						d.SlashAmount, d.DisputeFee, d.FeeTotal, d.BurnAmount, d.VoterReward, d.Open, d.PendingExecution, d.DisputeRound, d.InitialEvidence.Power, v.VoteResult, v.Executed)
				}
			}
		}
		return res
	}
	block := func(gap time.Duration, f func()) {
		res := w.beginBlock(gap)
		steps = append(steps, coqStep(res, w.snap(), nil))
		stats[fmt.Sprintf("%s/%d", res.name, res.result)]++
		if w.halted != "" {
			return
		}
		if f != nil {
			f()
		}
		res = w.endBlock()
		steps = append(steps, coqStep(res, w.snap(), nil))
		stats[fmt.Sprintf("%s/%d", res.name, res.result)]++
	}
	// sub-scenario (one history in six): the validator that holds all of the disputed reporter's stake leaves the
	// bonded set after the report, finishes unbonding, loses every delegation to a major dispute (and is removed from
	// the staking store) before the dispute is executed and the stake returned
	valGone := r.Intn(6) == 0
	// selectors of reporter 0 with fractional stakes (set-up, before the recorded history)
	for k := 0; k < 3; k++ {
		a := nVals + k
		amt := pick(r, bi(2_000_800), bi(1_998_400), bi(333_333), bi(1_000_001), bi(5*loyaPerTRB), bi(2_500_000), bi(int64(1_000_000+r.Intn(3_000_000))))
		v := pick(r, 0, 0, 1, 2)
		if valGone {
			v = 0
			amt = bi(int64(1+r.Intn(5)) * loyaPerTRB) // whole units: a 100 % slash then leaves the validator without shares
			if _, err := w.stakingMS.Delegate(w.ctx, &stakingtypes.MsgDelegate{DelegatorAddress: w.accts[a].String(), ValidatorAddress: w.valOps[v].String(), Amount: w.coin(amt)}); err == nil {
				_, _ = w.reporterMS.SelectReporter(w.ctx, &reportertypes.MsgSelectReporter{SelectorAddress: w.accts[a].String(), ReporterAddress: w.accts[0].String()})
			}
			continue
		}
		_, _ = w.stakingMS.Delegate(w.ctx, &stakingtypes.MsgDelegate{DelegatorAddress: w.accts[a].String(), ValidatorAddress: w.valOps[v].String(), Amount: w.coin(amt)})
		if r.Intn(3) == 0 {
			amt2 := pick(r, bi(1_000_003), bi(777_777), bi(2*loyaPerTRB))
			_, _ = w.stakingMS.Delegate(w.ctx, &stakingtypes.MsgDelegate{DelegatorAddress: w.accts[a].String(), ValidatorAddress: w.valOps[(v+1)%nVals].String(), Amount: w.coin(amt2)})
		}
		if r.Intn(4) != 0 {
			_, _ = w.reporterMS.SelectReporter(w.ctx, &reportertypes.MsgSelectReporter{SelectorAddress: w.accts[a].String(), ReporterAddress: w.accts[0].String()})
		}
	}
	if valGone {
		// the reporter's own delegation is rounded up to whole units as well
		if v, err := w.s.Stakingkeeper.GetValidator(w.ctx, w.valOps[0]); err == nil {
			rem := new(big.Int).Mod(v.Tokens.BigInt(), bi(loyaPerTRB))
			if rem.Sign() > 0 {
				_, _ = w.stakingMS.Delegate(w.ctx, &stakingtypes.MsgDelegate{DelegatorAddress: w.accts[0].String(), ValidatorAddress: w.valOps[0].String(), Amount: w.coin(bsub(bi(loyaPerTRB), rem))})
			}
		}
	}
	// a selector of reporter 1 at another validator: a fee paid from reporter 1's stake then has two origins
	bondOrigins := r.Intn(2) == 0
	// sub-scenario: a fee paid from a stake with two origins is refunded after both origin validators left the bonded set
	refundAfterJail := r.Intn(4) == 0
	if refundAfterJail {
		bondOrigins = true
	}
	if bondOrigins {
		a := nVals + 3
		_, _ = w.stakingMS.Delegate(w.ctx, &stakingtypes.MsgDelegate{DelegatorAddress: w.accts[a].String(), ValidatorAddress: w.valOps[2].String(), Amount: w.coin(bi(3000 * loyaPerTRB))})
		_, _ = w.reporterMS.SelectReporter(w.ctx, &reportertypes.MsgSelectReporter{SelectorAddress: w.accts[a].String(), ReporterAddress: w.accts[1].String()})
	}
	jailVal := func(vi int) {
		v, err := w.s.Stakingkeeper.GetValidator(w.ctx, w.valOps[vi])
		if err != nil || v.Jailed {
			return
		}
		if cons, err := v.GetConsAddr(); err == nil {
			res := w.deliver("ValidatorJailToggle", -2, nil, func(ctx sdk.Context) error { return w.s.Stakingkeeper.Jail(ctx, cons) })
			steps = append(steps, coqStep(res, w.snap(), nil))
			stats[fmt.Sprintf("%s/%d", res.name, res.result)]++
		}
	}
	// in a third of the histories a validator was slashed earlier: its share price is not 1, so token amounts do not
	// round-trip through shares
	if r.Intn(3) == 0 && !valGone {
		vi := r.Intn(nVals)
		if v, err := w.s.Stakingkeeper.GetValidator(w.ctx, w.valOps[vi]); err == nil {
			if cons, err := v.GetConsAddr(); err == nil {
				func() {
					defer func() { _ = recover() }()
					_, _ = w.s.Stakingkeeper.Slash(w.ctx, cons, w.height, v.ConsensusPower(sdk.DefaultPowerReduction), math.LegacyNewDecWithPrec(int64(pick(r, 333333, 100000, 70001)), 6))
				}()
			}
		}
	}
	// the later voters nVals+3 and nVals are tippers (the users group of a vote) in two thirds of the histories; in half
	// of those they tip again between the rounds of the dispute
	tippers := r.Intn(3) != 0
	tipAgain := tippers && r.Intn(2) == 0
	tipNow := func(a int) {
		amt := pick(r, bi(1_000_000), bi(2_500_000), bi(10_000_000), bi(int64(1_000_000+r.Intn(5_000_000))))
		qd := pick(r, w.queries...)
		res := w.deliver("Tip", a, []*big.Int{amt}, func(ctx sdk.Context) error {
			_, err := w.oracleMS.Tip(ctx, &oracletypes.MsgTip{Tipper: w.accts[a].String(), QueryData: qd, Amount: w.coin(amt)})
			return err
		})
		steps = append(steps, coqStep(res, w.snap(), nil))
		stats[fmt.Sprintf("%s/%d", res.name, res.result)]++
	}
	// a donor that never votes holds the coins for the (large) offers of later rounds: handing them to the voters up front
	// would make the token-holder group large enough for a quorum in the first round
	donor := nVals + 2
	w.s.MintTokens(w.accts[donor], math.NewInt(600_000*loyaPerTRB))
	init := w.snap()
	if tippers {
		block(time.Duration(1+r.Intn(3))*time.Second, func() {
			tipNow(nVals + 3)
			if r.Intn(2) == 0 {
				tipNow(nVals)
			}
		})
	}
	// a report by reporter 0 (and 1) on the scheduled query, aggregated
	for b := 0; b < 4 && w.halted == ""; b++ {
		block(time.Duration(1+r.Intn(3))*time.Second, func() {
			qd := w.currentCycleQuery()
			for _, rep := range []int{0, 1} {
				rep := rep
				do("SubmitValue", rep, nil, func(ctx sdk.Context) error {
					_, err := w.oracleMS.SubmitValue(ctx, &oracletypes.MsgSubmitValue{Creator: w.accts[rep].String(), QueryData: qd, Value: w.randValue()})
					if err == nil {
						w.noteReport(ctx, utils.QueryIDFromData(qd), w.accts[rep])
					}
					return err
				})
			}
		})
	}
	var mine []oracletypes.MicroReport
	for _, x := range w.recent {
		if x.Reporter == w.accts[0].String() {
			mine = append(mine, x)
		}
	}
	if len(mine) == 0 || w.halted != "" {
		return fmt.Sprintf("Hist %s %s", init.coq(), clist(steps)), stats, w.halted
	}
	rep := pick(r, mine...)
	// backers of reporter 0 undelegate in two different blocks (two unbonding entries); sometimes their validator is
	// then slashed for an infraction before those entries (entry balance < initial balance)
	slashed := false
	if valGone {
		block(time.Second, func() { jailVal(0) })
		block(21*24*time.Hour+time.Duration(1+r.Intn(3600))*time.Second, nil)
		if v, err := w.s.Stakingkeeper.GetValidator(w.ctx, w.valOps[0]); err == nil {
			stats["valGone: validator status "+v.Status.String()]++
		}
	}
	// backers of reporter 0 redelegate part of the reported stake (to one or two other validators) after the report: a
	// slash larger than what is left at the source validator has to follow the stake to its destinations
	redelegated := false
	if r.Intn(3) == 0 && !valGone {
		redelegated = true
		block(time.Duration(1+r.Intn(3))*time.Second, func() {
			for _, a := range []int{0, nVals, nVals + 1, nVals + 2} {
				if r.Intn(3) == 0 {
					continue
				}
				a := a
				if v, amt, ok := w.someDelegation(a); ok {
					src := -1
					for vi, vo := range w.valOps {
						if vo.Equals(v) {
							src = vi
						}
					}
					if src < 0 {
						continue
					}
					parts := pick(r, 1, 1, 2)
					for k := 1; k <= parts; k++ {
						dst := w.valOps[(src+k)%nVals]
						x := pick(r, bquo(amt, bi(2)), bquo(amt, bi(3)), bquo(bmul(amt, bi(9)), bi(10)), bquo(amt, bi(4)), amt, amt)
						if parts == 2 {
							x = bquo(x, bi(2)) // (two halves of everything leave nothing behind either)
						}
						if x.Sign() <= 0 {
							continue
						}
						do("BeginRedelegate", a, nil, func(ctx sdk.Context) error {
							_, err := w.stakingMS.BeginRedelegate(ctx, &stakingtypes.MsgBeginRedelegate{DelegatorAddress: w.accts[a].String(), ValidatorSrcAddress: v.String(), ValidatorDstAddress: dst.String(), Amount: w.coin(x)})
							return err
						})
					}
				}
			}
		})
	}
	if r.Intn(2) == 0 && !valGone {
		slashIt := r.Intn(3) != 0
		smallThenAll := r.Intn(2) == 0
		infraction := w.height
		var touched []int
		for k := 0; k < 2 && w.halted == ""; k++ {
			block(time.Duration(1+r.Intn(3))*time.Second, func() {
				for _, a := range []int{0, nVals, nVals + 1, nVals + 2} {
					if k == 0 && r.Intn(2) == 0 && !smallThenAll {
						continue
					}
					a := a
					if v, amt, ok := w.someDelegation(a); ok {
						x := pick(r, bquo(amt, bi(2)), bquo(amt, bi(3)), bquo(amt, bi(4)), bi(400_000), bi(1))
						if smallThenAll {
							// a small first entry, then nearly everything: a 1 % / 5 % share then consumes the first entry
							// entirely and takes the rest from the second
							if k == 0 {
								x = bquo(amt, bi(int64(pick(r, 150, 200, 400))))
							} else {
								x = bsub(amt, bi(int64(pick(r, 1, 1000, 10_000))))
							}
						}
						if x.Sign() <= 0 {
							continue
						}
						res := do("Undelegate", a, nil, func(ctx sdk.Context) error {
							_, err := w.stakingMS.Undelegate(ctx, &stakingtypes.MsgUndelegate{DelegatorAddress: w.accts[a].String(), ValidatorAddress: v.String(), Amount: w.coin(x)})
							return err
						})
						if res.result == 0 {
							for vi, vo := range w.valOps {
								if vo.Equals(v) {
									touched = append(touched, vi)
								}
							}
						}
					}
				}
			})
		}
		if slashIt && len(touched) > 0 && w.halted == "" {
			block(time.Second, func() {
				vi := touched[0]
				if v, err := w.s.Stakingkeeper.GetValidator(w.ctx, w.valOps[vi]); err == nil {
					if cons, err := v.GetConsAddr(); err == nil {
						res := w.deliver("ValidatorSlash", -2, nil, func(ctx sdk.Context) error {
							_, err := w.s.Stakingkeeper.Slash(ctx, cons, infraction, v.ConsensusPower(sdk.DefaultPowerReduction), math.LegacyNewDecWithPrec(int64(pick(r, 1, 5, 10)), 2))
							return err
						})
						steps = append(steps, coqStep(res, w.snap(), nil))
						stats[fmt.Sprintf("%s/%d", res.name, res.result)]++
						slashed = slashed || res.result == 0
					}
				}
			})
		}
	}
	cat := pick(r, disputetypes.Warning, disputetypes.Minor, disputetypes.Major)
	if slashed && r.Intn(3) != 0 {
		// after a slash the whole recorded stake no longer exists (a major dispute cannot be opened); a warning or minor
		// share is found in the unbonding entries
		cat = pick(r, disputetypes.Warning, disputetypes.Minor)
	}
	if redelegated && !slashed && r.Intn(3) != 0 {
		cat = disputetypes.Major // the slash exceeds what is left at the source validators
	}
	pct := map[disputetypes.DisputeCategory]int64{disputetypes.Warning: 100, disputetypes.Minor: 20, disputetypes.Major: 1}[cat]
	full := bquo(bmul(new(big.Int).SetUint64(rep.Power), bi(loyaPerTRB)), bi(pct))
	proposer := pick(r, 1, nVals+3, w.team)
	if bondOrigins && (refundAfterJail || r.Intn(3) != 0) {
		proposer = 1
	}
	fromBond := proposer == 1 && (bondOrigins || r.Intn(2) == 0)
	first := full
	if r.Intn(3) == 0 {
		// (full-7 / full-13 / a third: the other payer's part is then not a multiple of 20 and its 95 % refund has a fraction)
		first = pick(r, bquo(full, bi(int64(2+r.Intn(3)))), bquo(bmul(full, bi(96)), bi(100)), bsub(full, bi(1)), bquo(bmul(full, bi(95)), bi(100)),
			bsub(full, bi(7)), bsub(full, bi(13)), bquo(full, bi(3)))
	}
	rounds := pick(r, 1, 2, 2, 3)
	if v := os.Getenv("HIST_ROUNDS"); v != "" {
		fmt.Sscan(v, &rounds)
	}
	choice := pick(r, disputetypes.VoteEnum_VOTE_AGAINST, disputetypes.VoteEnum_VOTE_AGAINST, disputetypes.VoteEnum_VOTE_SUPPORT, disputetypes.VoteEnum_VOTE_INVALID)
	if refundAfterJail {
		rounds = 1
		choice = pick(r, disputetypes.VoteEnum_VOTE_INVALID, disputetypes.VoteEnum_VOTE_SUPPORT)
		first = full
	}
	// sub-scenario (one history in six): reporter 1 pays the first part of the fee from its balance and the rest from the
	// stake selected to it, the dispute ends INVALID or SUPPORT and the refund goes back to both sources
	mixedPay := !refundAfterJail && !valGone && r.Intn(6) == 0
	if mixedPay {
		proposer, fromBond, rounds = 1, false, 1
		first = pick(r, bquo(full, bi(2)), bquo(full, bi(3)), bquo(bmul(full, bi(3)), bi(4)), bquo(full, bi(10)))
		choice = pick(r, disputetypes.VoteEnum_VOTE_INVALID, disputetypes.VoteEnum_VOTE_SUPPORT)
	}
	if valGone {
		cat = disputetypes.Major
		full = bmul(new(big.Int).SetUint64(rep.Power), bi(loyaPerTRB))
		first = full
		rounds = 1
		choice = pick(r, disputetypes.VoteEnum_VOTE_INVALID, disputetypes.VoteEnum_VOTE_AGAINST)
		if proposer == 1 && fromBond {
			fromBond = false
		}
	}
	var id uint64
	propose := func(fee *big.Int, bond bool) {
		roles := w.backersOf(rep)
		if bond {
			for k, v := range w.selectorsOf(proposer) {
				// also when the account backs the disputed reporter as well (a reporter disputing its own report, a shared
				// selector): the second exception names it
				roles[k] = v
			}
		}
		nextParams = []*big.Int{bi(int64(b2i(bond)))}
		res := do("ProposeDispute", proposer, roles, func(ctx sdk.Context) error {
			_, err := w.disputeMS.ProposeDispute(ctx, &disputetypes.MsgProposeDispute{Creator: w.accts[proposer].String(), Report: &rep, DisputeCategory: cat, Fee: w.coin(fee), PayFromBond: bond})
			return err
		})
		if res.result != 0 {
			e := res.errMsg
			if len(e) > 60 {
				e = e[:60]
			}
			stats["ProposeDispute error: "+e]++
		}
		if res.result == 0 {
			ds, _ := w.s.Disputekeeper.GetOpenDisputes(w.ctx)
			for _, d := range ds {
				if d > id {
					id = d
				}
			}
			w.disputes = ds
		}
	}
	for round := 1; round <= rounds && w.halted == ""; round++ {
		block(time.Duration(1+r.Intn(5))*time.Second, func() {
			if round == 1 {
				propose(first, fromBond)
				if first.Cmp(full) < 0 && r.Intn(3) == 0 {
					// the payer asks for its fee back while the dispute still waits for the rest of the fee (refused)
					do("WithdrawFeeRefund", proposer, nil, func(ctx sdk.Context) error {
						_, err := w.disputeMS.WithdrawFeeRefund(ctx, &disputetypes.MsgWithdrawFeeRefund{CallerAddress: w.accts[proposer].String(), PayerAddress: w.accts[proposer].String(), Id: id})
						return err
					})
				}
				if first.Cmp(full) < 0 && (mixedPay || r.Intn(4) != 0) {
					payer := pick(r, proposer, nVals+3, nVals+3)
					if payer == proposer && proposer != 1 {
						payer = 1 // two different payers
					}
					if proposer == 1 && fromBond && r.Intn(2) == 0 {
						payer = 1 // the same reporter pays the rest from its balance after a first payment from stake
					}
					if mixedPay {
						payer = 1
					}
					roles := w.backersOf(rep)
					// the same reporter pays the first part from its balance and the rest from the stake selected to it
					secondFromBond := payer == 1 && proposer == 1 && !fromBond && (mixedPay || r.Intn(2) == 0)
					if secondFromBond {
						for k, v := range w.selectorsOf(payer) {
							roles[k] = v
						}
					}
					nextParams = []*big.Int{bi(int64(b2i(secondFromBond)))}
					do("AddFeeToDispute", payer, roles, func(ctx sdk.Context) error {
						w.touched = id
						_, err := w.disputeMS.AddFeeToDispute(ctx, &disputetypes.MsgAddFeeToDispute{Creator: w.accts[payer].String(), DisputeId: id, Amount: w.coin(bsub(full, first)), PayFromBond: secondFromBond})
						return err
					})
				}
			} else {
				// a later round: the offer may be far above the round fee (only the round fee is charged)
				offer := pick(r, full, full, bmul(full, bi(5)), bmul(full, bi(12)), bquo(full, bi(2)))
				do("BankSend", donor, nil, func(ctx sdk.Context) error {
					return w.s.Bankkeeper.SendCoins(ctx, w.accts[donor], w.accts[proposer], sdk.NewCoins(w.coin(offer)))
				})
				propose(offer, false)
			}
		})
		// votes: in the last round the team decides; earlier rounds stay without quorum
		block(time.Duration(1+r.Intn(3600))*time.Second, func() {
			// reporters and their selectors in either order (a selector voting after its reporter takes its share out of
			// the reporter's recorded power), the disputed reporter too
			voters := []int{nVals + 3, nVals, 1, 0, nVals + 1}
			if round < rounds {
				// an earlier round has to end without quorum: the disputed reporter and its other selector stay away
				voters = []int{nVals + 3, nVals, 1}
			}
			r.Shuffle(len(voters), func(a, b int) { voters[a], voters[b] = voters[b], voters[a] })
			if round == rounds {
				voters = append(voters, w.team)
			}
			for _, v := range voters {
				if v != w.team && r.Intn(2) == 0 {
					continue
				}
				v := v
				c := choice
				if v != w.team && r.Intn(3) == 0 {
					c = pick(r, disputetypes.VoteEnum_VOTE_AGAINST, disputetypes.VoteEnum_VOTE_SUPPORT, disputetypes.VoteEnum_VOTE_INVALID)
				}
				do("Vote", v, nil, func(ctx sdk.Context) error {
					_, err := w.disputeMS.Vote(ctx, &disputetypes.MsgVote{Voter: w.accts[v].String(), Id: id, Vote: c})
					return err
				})
			}
		})
		// the vote period (2 days) ends: tally; the next round must come before the 3-day end of the dispute
		if valGone {
			if v, err := w.s.Stakingkeeper.GetValidator(w.ctx, w.valOps[0]); err != nil {
				stats["valGone: validator removed before execution"]++
			} else if os.Getenv("HIST_DISPUTES") != "" {
				fmt.Println("valGone: validator 0 still has tokens", v.Tokens, "shares", v.DelegatorShares, "reported power", rep.Power)
				dels, _ := w.s.Stakingkeeper.GetValidatorDelegations(w.ctx, w.valOps[0])
				for _, d := range dels {
					fmt.Println("   delegation", d.DelegatorAddress, d.Shares)
				}
			}
		}
		block(48*time.Hour+time.Duration(r.Intn(3))*time.Second, nil)
		if round < rounds {
			if tipAgain {
				block(time.Duration(1+r.Intn(3))*time.Second, func() {
					tipNow(nVals + 3)
					if r.Intn(2) == 0 {
						tipNow(nVals)
					}
				})
			}
			continue
		}
		block(pick(r, 12*time.Hour, 24*time.Hour+time.Second, 72*time.Hour+time.Second), nil)
		block(pick(r, 24*time.Hour, 72*time.Hour+time.Second), nil)
	}
	// the validators that backed a fee paid from stake leave the bonded set before the refunds
	if bondOrigins && fromBond && (refundAfterJail || r.Intn(3) != 0) && w.halted == "" {
		block(time.Second, func() {
			jailVal(1)
			jailVal(2)
		})
	}
	// claims by everybody, twice
	for pass := 0; pass < 2 && w.halted == ""; pass++ {
		block(time.Duration(1+r.Intn(5))*time.Second, func() {
			for _, a := range r.Perm(len(w.accts)) {
				a := a
				for _, d := range w.allDisputeIDs(id) {
					d := d
					do("WithdrawFeeRefund", a, nil, func(ctx sdk.Context) error {
						_, err := w.disputeMS.WithdrawFeeRefund(ctx, &disputetypes.MsgWithdrawFeeRefund{CallerAddress: w.accts[a].String(), PayerAddress: w.accts[a].String(), Id: d})
						return err
					})
					nextParams = []*big.Int{new(big.Int).SetUint64(d), w.voterPot(d)}
					do("ClaimReward", a, nil, func(ctx sdk.Context) error {
						_, err := w.disputeMS.ClaimReward(ctx, &disputetypes.MsgClaimReward{CallerAddress: w.accts[a].String(), DisputeId: d})
						return err
					})
				}
			}
			do("UnjailReporter", 0, nil, func(ctx sdk.Context) error {
				_, err := w.reporterMS.UnjailReporter(ctx, &reportertypes.MsgUnjailReporter{ReporterAddress: w.accts[0].String()})
				return err
			})
		})
	}
	return fmt.Sprintf("Hist %s %s", init.coq(), clist(steps)), stats, w.halted
}

// ids 1..max (the rounds of one lineage take consecutive ids in these histories)
func (w *World) allDisputeIDs(max uint64) []uint64 {
	var ids []uint64
	for i := uint64(1); i <= max; i++ {
		ids = append(ids, i)
	}
	return ids
}

func TestHistDisputesDebug(t *testing.T) {
	var hs int64
	fmt.Sscan(os.Getenv("HIST_SEED"), &hs)
	_, stats, halted := runDisputeHistory(t, hs)
	fmt.Println(stats, "HALTED:", halted)
}

// witness of the open finding C13b for C02 (a chain halt): a reporter whose stake comes from three selectors pays a
// dispute fee from stake in one-loya payments: each is credited but each selector's share of it truncates to nothing, so
// nothing reaches the escrow; once more than half the burn amount is missing the begin blocker that executes the dispute
// (AGAINST: burn + stake + fees - burn amount) fails with insufficient funds
func runC13bHalt(t *testing.T) (string, map[string]int, string) {
	r := rand.New(rand.NewSource(5))
	nVals := 3
	w := newWorld(t, r, nVals, 4)
	lastWorld = w
	w.focus = "dispute"
	stats := map[string]int{}
	var steps []string
	rec := func(res opResult) {
		steps = append(steps, coqStep(res, w.snap(), nil))
		stats[fmt.Sprintf("%s/%d", res.name, res.result)]++
	}
	block := func(gap time.Duration, f func()) {
		rec(w.beginBlock(gap))
		if w.halted != "" {
			return
		}
		if f != nil {
			f()
		}
		rec(w.endBlock())
	}
	small := nVals + 2
	_, _ = w.stakingMS.Delegate(w.ctx, &stakingtypes.MsgDelegate{DelegatorAddress: w.accts[small].String(), ValidatorAddress: w.valOps[2].String(), Amount: w.coin(bi(2 * loyaPerTRB))})
	if _, err := w.reporterMS.CreateReporter(w.ctx, &reportertypes.MsgCreateReporter{ReporterAddress: w.accts[small].String(), CommissionRate: math.LegacyZeroDec(), MinTokensRequired: math.NewInt(loyaPerTRB)}); err != nil {
		t.Fatal(err)
	}
	w.reporters[small] = true
	for _, a := range []int{nVals, nVals + 1} {
		_, _ = w.stakingMS.Delegate(w.ctx, &stakingtypes.MsgDelegate{DelegatorAddress: w.accts[a].String(), ValidatorAddress: w.valOps[1].String(), Amount: w.coin(bi(1000 * loyaPerTRB))})
		if _, err := w.reporterMS.SelectReporter(w.ctx, &reportertypes.MsgSelectReporter{SelectorAddress: w.accts[a].String(), ReporterAddress: w.accts[1].String()}); err != nil {
			_, _ = w.reporterMS.SwitchReporter(w.ctx, &reportertypes.MsgSwitchReporter{SelectorAddress: w.accts[a].String(), ReporterAddress: w.accts[1].String()})
		}
	}
	init := w.snap()
	for b := 0; b < 3 && w.halted == ""; b++ {
		block(time.Second, func() {
			qd := w.currentCycleQuery()
			for _, rep := range []int{small, 1} {
				rep := rep
				rec(w.deliver("SubmitValue", rep, nil, func(ctx sdk.Context) error {
					_, err := w.oracleMS.SubmitValue(ctx, &oracletypes.MsgSubmitValue{Creator: w.accts[rep].String(), QueryData: qd, Value: "00000000000000000000000000000000000000000000000000000000000004d2"})
					if err == nil {
						w.noteReport(ctx, utils.QueryIDFromData(qd), w.accts[rep])
					}
					return err
				}))
			}
		})
	}
	var rep oracletypes.MicroReport
	found := false
	for _, x := range w.recent {
		if x.Reporter == w.accts[small].String() {
			rep, found = x, true
		}
	}
	if !found {
		t.Fatal("C13b witness: the small reporter has no report")
	}
	full := bquo(bmul(new(big.Int).SetUint64(rep.Power), bi(loyaPerTRB)), bi(20)) // minor: 5 %
	payer := nVals + 3
	var id uint64
	block(time.Second, func() {
		rec(w.deliver("ProposeDispute", payer, []*big.Int{bi(0)}, func(ctx sdk.Context) error {
			_, err := w.disputeMS.ProposeDispute(ctx, &disputetypes.MsgProposeDispute{Creator: w.accts[payer].String(), Report: &rep, DisputeCategory: disputetypes.Minor, Fee: w.coin(bquo(full, bi(10))), PayFromBond: false})
			return err
		}))
		ds, _ := w.s.Disputekeeper.GetOpenDisputes(w.ctx)
		if len(ds) == 0 {
			t.Fatal("C13b witness: the dispute was not opened")
		}
		id = ds[len(ds)-1]
		w.disputes = ds
		d, _ := w.s.Disputekeeper.Disputes.Get(w.ctx, id)
		n := int(d.BurnAmount.Int64()/2) + 5
		for i := 0; i < n; i++ {
			rec(w.deliver("AddFeeToDispute", 1, []*big.Int{bi(1)}, func(ctx sdk.Context) error {
				w.touched = id
				_, err := w.disputeMS.AddFeeToDispute(ctx, &disputetypes.MsgAddFeeToDispute{Creator: w.accts[1].String(), DisputeId: id, Amount: w.coin(bi(1)), PayFromBond: true})
				return err
			}))
		}
		d, _ = w.s.Disputekeeper.Disputes.Get(w.ctx, id)
		rest := d.SlashAmount.Sub(d.FeeTotal).BigInt()
		rec(w.deliver("AddFeeToDispute", payer, []*big.Int{bi(0)}, func(ctx sdk.Context) error {
			w.touched = id
			_, err := w.disputeMS.AddFeeToDispute(ctx, &disputetypes.MsgAddFeeToDispute{Creator: w.accts[payer].String(), DisputeId: id, Amount: w.coin(rest), PayFromBond: false})
			return err
		}))
	})
	block(time.Hour, func() {
		rec(w.deliver("Vote", w.team, nil, func(ctx sdk.Context) error {
			_, err := w.disputeMS.Vote(ctx, &disputetypes.MsgVote{Voter: w.accts[w.team].String(), Id: id, Vote: disputetypes.VoteEnum_VOTE_AGAINST})
			return err
		}))
	})
	if w.halted == "" {
		block(72*time.Hour+time.Second, nil)
	}
	return fmt.Sprintf("Hist %s %s", init.coq(), clist(steps)), stats, w.halted
}

func TestHistDisputes(t *testing.T) {
	out := newOut(t, "hist_disputes")
	defer out.Close()
	{
		term, stats, halted := runC13bHalt(t)
		kind := "completed"
		if halted != "" {
			kind = "halted"
		}
		out.Emit(Case{Coq: term, Kind: kind, Nontrivial: true, Key: "corpus:C13b-halt", Tags: []string{"corpus:C13b"},
			Human: map[string]interface{}{"history": "corpus: 2505 one-loya fee payments from the stake of a reporter with three selectors, dispute decided AGAINST", "ops": stats, "halted": halted}})
	}
	n := count(60, 1000)
	base := seed()*9_000_011 + 29
	for i := 0; i < n; i++ {
		hs := base + int64(i)
		term, stats, halted := runDisputeHistory(t, hs)
		kind := "completed"
		if halted != "" {
			kind = "halted"
		}
		out.Emit(Case{Coq: term, Kind: kind, Nontrivial: stats["ProposeDispute/0"] >= 1 && stats["Vote/0"] >= 1, Key: fmt.Sprint(hs),
			Human: map[string]interface{}{"history_seed": hs, "ops": stats, "halted": halted}})
	}
}
