package harness

import (
	"fmt"
	"os"
	"math/big"
	"math/rand"
	"sort"
	"strings"
	"testing"
	"time"

	"cosmossdk.io/collections"
)

var histDebug = false

type collectionsPairBytesU64 = collections.Pair[[]byte, uint64]

func collectionsJoin3(a, b []byte, c uint64) collections.Triple[[]byte, []byte, uint64] {
	return collections.Join3(a, b, c)
}

func collectionsJoinReport(q, r []byte, h uint64) collections.Pair[[]byte, collections.Pair[[]byte, uint64]] {
	return collections.Join(q, collections.Join(r, h))
}

// a decrease of somebody's holdings caused by one operation
type decrease struct {
	acct      int
	component string // liquid staked credit selection
	role      string // "" (no relation), signer, or the role recorded by the generator
}

func diffHoldings(before, after []holding, signer int, roles map[int]string) []decrease {
	var ds []decrease
	add := func(i int, comp string) {
		role := roles[i]
		if i == signer {
			role = "signer"
		}
		ds = append(ds, decrease{i, comp, role})
	}
	for i := range before {
		if after[i].liquid.Cmp(before[i].liquid) < 0 {
			add(i, "liquid")
		}
		if after[i].staked.Cmp(before[i].staked) < 0 {
			add(i, "staked")
		}
		if after[i].credit.Cmp(before[i].credit) < 0 {
			add(i, "credit")
		}
		if after[i].selected != before[i].selected {
			add(i, "selection")
		}
	}
	return ds
}

func coqParams(ps []*big.Int) string {
	items := make([]string, len(ps))
	for i, p := range ps {
		items[i] = cz(p)
	}
	return clist(items)
}

func coqStep(res opResult, sn snapshot, ds []decrease) string {
	items := make([]string, len(ds))
	for i, d := range ds {
		items[i] = fmt.Sprintf("(%d, %s, %s)", d.acct, cstr(d.component), cstr(d.role))
	}
	return fmt.Sprintf("(Step %s %s %d %s %s %s)", cstr(res.name), czi(int64(res.signer)), res.result, coqParams(res.params), sn.coq(), clist(items))
}

func blockGap(r *rand.Rand) time.Duration {
	switch r.Intn(12) {
	case 0:
		return time.Millisecond
	case 1:
		return time.Duration(1+r.Intn(999)) * time.Millisecond
	case 2:
		return 12 * time.Hour
	case 3:
		return pick(r, 24*time.Hour, 24*time.Hour+time.Nanosecond, 48*time.Hour, 72*time.Hour+time.Second)
	case 4:
		return pick(r, 14*24*time.Hour, 21*24*time.Hour+time.Second, 30*24*time.Hour)
	case 5:
		return 1500*time.Millisecond + time.Duration(r.Intn(1000))*time.Microsecond
	default:
		return time.Duration(1+r.Intn(6)) * time.Second
	}
}

// runHistory executes one generated history and returns the case term plus bookkeeping
var lastWorld *World

func runHistory(t *testing.T, seed int64, blocks int) (string, map[string]int, string) {
	r := rand.New(rand.NewSource(seed))
	w := newWorld(t, r, 2+r.Intn(2), 4+r.Intn(3))
	lastWorld = w
	stats := map[string]int{}
	var steps []string
	init := w.snap()
	for b := 0; b < blocks && w.halted == ""; b++ {
		res := w.beginBlock(blockGap(r))
		steps = append(steps, coqStep(res, w.snap(), nil))
		stats[fmt.Sprintf("%s/%d", res.name, res.result)]++
		if w.halted != "" {
			break
		}
		nmsg := r.Intn(7)
		for m := 0; m < nmsg; m++ {
			op := w.genOp()
			before := w.holdings()
			res := w.deliver(op.name, op.signer, op.params, op.run)
			if histDebug {
				fmt.Printf("h=%d %s signer=%d result=%d %s\n", w.height, res.name, res.signer, res.result, res.errMsg)
			}
			after := w.holdings()
			ds := diffHoldings(before, after, op.signer, op.roles)
			steps = append(steps, coqStep(res, w.snap(), ds))
			stats[fmt.Sprintf("%s/%d", res.name, res.result)]++
		}
		res = w.endBlock()
		steps = append(steps, coqStep(res, w.snap(), nil))
		stats[fmt.Sprintf("%s/%d", res.name, res.result)]++
	}
	return fmt.Sprintf("Hist %s %s", init.coq(), clist(steps)), stats, w.halted
}

func TestHistAll(t *testing.T) {
	out := newOut(t, "hist_all")
	defer out.Close()
	n := count(80, 1500)
	blocks := 25
	if thorough() {
		blocks = 50
	}
	base := seed() * 1_000_003
	for i := 0; i < n; i++ {
		hs := base + int64(i)
		term, stats, halted := runHistory(t, hs, blocks)
		keys := make([]string, 0, len(stats))
		accepted := 0
		for k, v := range stats {
			keys = append(keys, k)
			if strings.HasSuffix(k, "/0") && !strings.HasPrefix(k, "BeginBlock") && !strings.HasPrefix(k, "EndBlock") {
				accepted += v
			}
		}
		sort.Strings(keys)
		kind := "completed"
		if halted != "" {
			kind = "halted"
		}
		out.Emit(Case{Coq: term, Kind: kind, Nontrivial: accepted >= 10, Key: fmt.Sprint(hs),
			Human: map[string]interface{}{"history_seed": hs, "blocks": blocks, "ops": stats, "halted": halted}})
	}
}

func TestHistDebug(t *testing.T) {
	histDebug = true
	var hs int64
	fmt.Sscan(os.Getenv("HIST_SEED"), &hs)
	_, stats, halted := runHistory(t, hs, 25)
	fmt.Println(stats, "HALTED:", halted)
	w := lastWorld
	vals, _ := w.s.Stakingkeeper.GetAllValidators(w.ctx)
	for _, v := range vals {
		evm, err := w.s.Bridgekeeper.OperatorToEVMAddressMap.Get(w.ctx, v.GetOperator())
		fmt.Println("validator", v.GetOperator(), v.Status, v.Tokens, "jailed", v.Jailed, "evm", evm.EVMAddress, err)
	}
}
