"""C18 configuration for bin/check (see bin/verifcfg.py)."""
PROP = dict(
    title='Staking transactions cannot move bonded stake more than 5% per 12-hour period',
    drivers=['TestC18Ante', 'TestC18Track'],
    coq_modules=['Model.Ante'], case_type='c18_case', check_fn='c18_check', classes_fn='c18_classes',
    rule='ante: generated transactions of 1-6 staking/other messages whose combined increase and decrease are placed at the +-5% boundary (exact, +-1, +2) of a generated recorded amount, run through the real TrackStakeChangesDecorator; non-trivial = tracker present and >= 2 staking messages, distinct by (A, current, message list). track: real Keeper.TrackStakeChange at block times around the expiration (+-2 ns and random); every case non-trivial, distinct by inputs',
    technique='Coq theorems over the decorator/tracker model (induction over the message list and over histories) + differential execution of the real decorator and keeper against the model inside Coq (vm_compute)',
    level_text='Machine-checked theorems: an admitted transaction keeps bonded + combined additions <= A + A/20 and bonded - combined removals >= A - A/20 for all message lists; tracker refreshed only at/after expiry, lifted over all histories. The model is tied to the code by running the real AnteHandle / TrackStakeChange on generated transactions and comparing inside Coq.',
    level_note='Trusted: Coq kernel; the correspondence harness (generated transactions reach the decorator directly, not through the full ante chain); math.Int modelled as Z; amounts of later-rejected non-positive messages are modelled with the sign logic of the code. Position of the decorator in app/ante.go is checked by the driver building the real chain only in C19.',
    assumptions=['TotalBondedTokens and the tracker do not change while one transaction is in the ante handler',
                 'block time is the only clock read by TrackStakeChange'],
    design_ref='5/C18',
)
