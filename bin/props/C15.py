"""C15 configuration for bin/check."""
PROP = dict(
    title='Bridge byte encodings agree with what the EVM contracts compute and verify',
    drivers=['TestC15Valset', 'TestC15Attest', 'TestC15Token', 'TestC15Sign', 'TestC15SolSource'],
    coq_modules=['Model.BridgeEnc'], case_type='c15_case', check_fn='c15_check', classes_fn='c15_classes',
    rule='valset: real Keeper.EncodeAndHashValidatorSet (bytes + hash), Keeper.SetBridgeValidatorParams in a cache context at a generated block '
         'time (stored ValidatorCheckpointParams / ValidatorCheckpoint read back; 25 % followed by a second set on the same state) and '
         'Keeper.CalculateValidatorSetCheckpoint on sets of 0..130 members (3 % empty, 12 % one, 40 % 2-6, 30 % 7-20, 11 % 21-60, 3 % 98-100, 1 % >100; '
         'quick tier shrinks three quarters of the sets above 24): addresses random / all 00 / all ff / leading or trailing zero bytes / 2.5 % not 20 bytes '
         '(0,1,19,21,32,33) / 10 % a duplicate; powers realistic (<2*10^9), tiny (0..2: thresholds 0,1,2), or uint64 boundary values; totals placed at '
         '2^63-2..2^63+2, inside [2^63,2^64), at 2^64-3..2^64-1 and at / above 2^64 through several members, every residue mod 3; block times 0, 1, 999, 1000, '
         'current-epoch ms, <2^53, >2^62; checkpoints with thresholds/timestamps from {0,1,2^32+-1,2^63-1,2^63,2^64-1,random} and hashes of 32 (88 %) or '
         '0,1,31,33,64 bytes. Corpus: empty set, the repo test vectors (10-byte address), F25 witnesses (2^63 in one and in two members, 2^63+1, 2^64-1, '
         '2^64). non-trivial = >= 2 members with >= 2 distinct powers and 20-byte addresses (valset), >= 2 members and no error (params), 32-byte hash and '
         'threshold != timestamp (checkpoint); distinct by the full input. '
         'attest: real Keeper.EncodeOracleAttestationData and real Keeper.CreateSnapshot (oracle keeper = a fake answering from the case: aggregate value/power, '
         'previous/next timestamps present or absent; stored checkpoint; block time; snapshot read back from AttestRequestsByHeight, AttestSnapshotDataMap, '
         'AttestSnapshotsByReport, SnapshotToAttestations) with every field a different random value: value byte lengths 0,1,31,32,33,63,64,65,96,100,128,200 '
         'and random <=200, 4 % upper-case hex, 12 % invalid (0x prefix, odd length, non-hex => error expected), query ids / checkpoints of 32 bytes (92 %) '
         'or 0,7,10,31,33,40,64; uint64 fields from the boundary set. non-trivial = 32-byte ids, no error, non-empty value. '
         'token: real GetDepositQueryId / GetWithdrawalQueryId (ids 0,1,2,255,256,2^32+-1,2^63+-1,2^64-1,random), GetWithdrawalReportValue (sender address bytes '
         'of 0..255 bytes => bech32 strings of 0..~420 characters at every length mod 32; recipients of 20 (88 %) or 0,1,19,21,32,40 bytes; amounts from the '
         'boundary set) and msgServer.WithdrawTokens (bank / staking / oracle keepers faked; previous withdrawal id absent, small, 2^63+-1, 2^64-2; upper-case '
         'recipient hex); non-trivial = 20-byte recipient, non-empty sender, amount > 0 / accepted message. '
         'sign: real VoteExtHandler.SignMessage / EncodeAndSignMessage / SignInitialMessage with secp256k1 keys in a real file keyring (backend "test"), on '
         'real checkpoints, real attestation digests and random 32-byte digests; the signature is given to go-ethereum\'s ecrecover (the EVM precompile\'s '
         'implementation, v = 27 and 28, over sha256(digest)) and to Keeper.TryRecoverAddressWithBothIDs / EVMAddressFromSignatures. '
         'solsource: the constants, struct layouts and abi.encode / abi.decode / sha256 / ecrecover expressions are extracted from the .sol files of the working '
         'tree and compared with the text the contract-side model was transcribed from.',
    technique='Coq theorems over two independent models (Go side: go-ethereum Arguments.Pack as the offset-accumulating loop it is, copy/BytesToAddress/'
              'packBytesSlice/hex conversions, the hand-rolled validator-set encoder; contract side: the ABI specification\'s head/tail formula applied to the '
              'Solidity expressions) proved byte-for-byte equal for all inputs, digests for an arbitrary hash function; decoder round trip; threshold arithmetic '
              'with the uint64 wrap written out + differential execution of the real keeper / msg server / vote-extension signer, with keccak-256 and sha-256 '
              'implemented in Gallina and evaluated inside Coq (vm_compute) on the contract-side preimages and compared with the digests the real code produced; '
              'go-ethereum\'s generic packer on the Solidity type lists validates the contract-side transcription',
    level_text='Machine-checked for all inputs: go-ethereum\'s Pack loop = ABI head/tail encoding for every argument list; validator-set bytes = '
               'abi.encode of the Validator array for every set below 2^64 members with 20-byte addresses and uint64 powers (no bound of 100); checkpoint preimage = '
               '_domainSeparateValidatorSetHash encoding for all thresholds / timestamps / 32-byte hashes, also composed with the chain\'s own hash; attestation '
               'preimage = verifyOracleData encoding for all 32-byte ids, all values of any length (incl. empty and non-multiples of 32), all uint64 fields; '
               'error exactly on non-hex values; deposit / withdrawal query data equal for every id; withdrawal report value = abi.encode(address,string,uint256,0) '
               'and the contract\'s abi.decode returns (last 20 bytes of the recipient, sender string, amount, 0) for recipients and sender strings of any length; '
               'hex round trip of the aggregate value; equal digests for any hash function; threshold = floor(2T/3) for T < 2^63 (code as found), refuted at '
               'T = 2^63 (F25, open), floor(2T/3) or an error for every set in the repaired variant; signing payload sha(digest) = sha(abi.encodePacked(digest)). '
               'On every run the real code\'s bytes and digests are compared inside Coq with keccak256 / sha256 of the contract-side preimages.',
    level_note='Trusted: Coq kernel; the Gallina keccak-256 / sha-256 (definitions; pinned by the standard test vectors in C15_hash_vectors and by thousands of '
               'comparisons with go-ethereum / crypto/sha256 digests per run); the hand transcription of the Solidity expressions into sol_* (tied to the sources '
               'by the solsource driver\'s text comparison and to an independent implementation by go-ethereum\'s generic packer on the Solidity type lists; the '
               'Solidity compiler / EVM are not executed: no solc or EVM is available offline); secp256k1 signing and recovery are not modelled - the sign driver '
               'observes that the EVM ecrecover implementation of go-ethereum returns the signer on sha256(digest) for v = 27 or 28 (the relayer chooses v; the '
               'chain stores 64-byte r||s). abi.decode is modelled for well-formed input (offset / length checks of the 0.8 decoder that reject malformed input '
               'are not needed for the chain\'s own output). Query ids / hashes that are not 32 bytes are padded / truncated by Go\'s copy; the theorems are for '
               '32 bytes (what keccak produces), the model comparison covers the other lengths.',
    assumptions=['validator EVM addresses are 20 bytes (registration stores common.Address bytes); other lengths are cropped / padded by common.BytesToAddress '
                 'as modelled',
                 'amounts and total bonded tokens fit uint64 (Int.Uint64() panics otherwise; bounded by the token supply)',
                 'total validator power below 2^63 for the threshold clause on the code as found (F25)',
                 'the relayer derives v in {27,28} and submits (v, r, s); the contracts run as the Solidity ABI specification says'],
    design_ref='5/C15', shard=60,
)
