"""C01 configuration for bin/check."""
PROP = dict(
    title='Block execution is deterministic across runs and nodes',
    drivers=['TestC01Sites', 'TestC01PowerDiff', 'TestC06Mode', 'TestC09Alloc', 'TestC01Replay'],
    coq_modules=['Model.Determinism'], case_type='c01_case', check_fn='c01_check', classes_fn='c01_classes',
    per_driver={
        'c06_mode': dict(coq_modules=['Model.OracleAgg', 'Model.Determinism'], case_type='c06_case', check_fn='c01_mode_check', classes_fn='c06_classes'),
        'c09_alloc': dict(coq_modules=['Model.Rewards', 'Model.Determinism'], case_type='c09_case', check_fn='c01_alloc_check', classes_fn='c09_classes'),
        'c01_replay': dict(coq_modules=['Model.Determinism'], case_type='c01_replay_case', check_fn='c01_replay_check', classes_fn='c01_replay_classes'),
    },
    rule='sites: go/packages+go/types scan of the consensus packages of the working tree (every range over a map, time.Now, math/rand, crypto/rand, os.Getenv, go statements, select) compared with the list of sites covered by a theorem or an off-consensus justification. powerdiff / mode / alloc: the real PowerDiff, WeightedMode and AllocateRewards are executed 8/16/4 times (thorough 32/64/16) per generated input in one process (Go re-randomises map iteration on every range) on inputs biased to equal-weight ties and several reporters; the set of distinct answers must be a singleton equal to the model; non-trivial = >= 2 map entries; distinct by input. replay: 18 (thorough 600) generated histories (all-message, payout-directed and dispute-directed, 20 blocks) are each executed twice in one process on two fresh applications built from fixed keys; compared: the projection after every operation, a SHA-256 over every key/value of the 14 module stores, a SHA-256 over all emitted events; non-trivial = > 100 store entries and > 20 events',
    technique='Coq theorems: permutation invariance of every map-iterating function of the model (mode with fixed tie rule, reward allocation after sort, PowerDiff sum) + source scan for nondeterminism sites re-checked in Coq + repeated execution of the real functions',
    level_text='Machine-checked: results of WeightedMode, AllocateRewards and PowerDiff do not depend on the map iteration order (for every permutation), ties are resolved by a fixed rule; every map-range / wall-clock / goroutine site found in the current source is covered. Go runtime randomisation itself is sampled by repeated execution (of the three functions and of whole histories on two fresh application instances, comparing every module store and every event), not proved.',
    level_note='Partial by construction (DESIGN section 10): Go map randomisation, scheduler and IAVL commit hashing are sampled; collections iterate in key order (assumed); the scanner (go/packages) is trusted to enumerate sites; whole-history replay on two fresh apps is part of the C02 history driver when present.',
    assumptions=['cosmossdk.io/collections iterate in key order', 'ExtendVote is node-local by design (its output is an input of the next block)'],
    design_ref='5/C01',
)
