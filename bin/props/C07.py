"""C07 configuration for bin/check."""
PROP = dict(
    title='Reports enter only an open round; each round aggregates exactly once',
    drivers=['TestC07Rounds'],
    coq_modules=['Model.OracleRound', 'Model.OracleRoundCheck'], case_type='c07_case', check_fn='c07_check', classes_fn='c07_classes', shard=2,
    rule='TBD', technique='TBD', level_text='TBD', level_note='TBD', assumptions=[], design_ref='5/C07',
)
