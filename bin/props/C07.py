"""C07 configuration for bin/check."""
PROP = dict(
    title='Reports enter only an open round; each round aggregates exactly once',
    drivers=['TestC07Rounds'],
    coq_modules=['Model.OracleRound', 'Model.OracleRoundCheck'], case_type='c07_case', check_fn='c07_check', classes_fn='c07_classes', shard=2,
    rule='histories of 22 blocks on the full application fixture (real oracle, registry, reporter, bank, staking keepers; real msg servers; real '
         'oracle EndBlocker): per block 0-4 operations drawn from MsgTip (7 query kinds: spot prices of the cycle list and outside it, two bridge '
         'deposits, a bridge withdrawal, undecodable query data, a query type without data spec; amounts 1, 49, 50, 100, 10^6, random), '
         'MsgSubmitValue (50 % on the current cycle-list query; reporters with and without stake, jailed/unjailed directly; values: 64 hex, '
         '0x-prefixed, 128 hex, odd length, non-hex, empty), MsgUpdateCyclelist (0-4 entries of any kind), MsgUpdateDataSpec (windows 0,1,2,5,9; '
         'bridge windows >= 1), then the end blocker; report windows are shortened first so that rounds close inside the history. After every '
         'operation the whole oracle state (Query, Reports, Aggregates, Nonces, cycle list, both sequencers, the registry windows) is dumped and the '
         'case carries the sequence of (height, operation, accepted, state). non-trivial = at least one aggregate and one rejected report; '
         'distinct by seed and history number',
    technique='Coq theorems (admission iff specification; later report replaces = key-unique sorted store; end blocker = exactly one aggregate per '
              'closing round by induction over the round list with a permutation argument; tip preservation; rotation arithmetic; store invariant by '
              'induction over all operation histories) + differential execution of the real msg servers and EndBlocker against the model inside Coq '
              '(vm_compute), with the executable specification of the property evaluated on every observed state pair',
    level_text='Machine-checked for all inputs and histories of the model: a report is accepted iff the query is a bridge deposit, or it carries a tip '
               'or is the scheduled cycle-list query and its window has not closed, and the reporter is unjailed with the minimum stake; withdrawal and '
               'undecodable queries are never reportable; an accepted report is Set under (query, reporter, round): the store stays sorted and '
               'key-unique, so a later report of the same reporter in the round replaces the earlier one and no other report changes; the end blocker '
               'removes exactly the closing rounds and adds exactly one aggregate per closing round, built from that round\'s reports, their summed power '
               'and the next sequence number (under: no two rounds of one query close in one block, block time strictly increases); a tipped round '
               'without report keeps its id and amount through the end blocker; the cycle list moves only when the current query has no open window, '
               'to (seq+1) mod length; the store invariant holds in every reachable state; no two rounds of one query ever close in the same block along every well-scheduled history with report windows of at least one block (C07_closing_distinct_all_histories: the hypothesis of the end-blocker theorem is an invariant). The model is tied to the code by running the real keeper on '
               'generated histories and comparing the complete oracle state after every operation.',
    level_note='Trusted: Coq kernel; the Go driver\'s dump of the oracle collections (query ids and reporter addresses replaced by their byte-order '
               'ranks). Supplied by the harness, not computed by the model: the reporter\'s stake (C10), the aggregate value and its reporter (C06), '
               'payment of the tip with the aggregate (C04/C09). closing_distinct (no two rounds of one query close in one block) is proved to be an invariant of every history that follows the block '
               'structure with all report windows >= 1 block; with a window of 0 blocks (a governance parameter; default 2000 for the bridge) a bridge-deposit '
               're-opening can break it; the executable specification checks it on every observed end blocker and the driver keeps the bridge window >= 1 '
               '(spot windows of 0 are driven: they cannot create a second round).',
    assumptions=['block time strictly increases; the end blocker runs once per height',
                 'the TRBBridge data spec keeps a report window of at least one block (governance parameter, default 2000)',
                 'collections iterate in key order (cosmossdk.io/collections over an ordered KV store)'],
    design_ref='5/C07',
)
