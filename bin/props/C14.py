"""C14 configuration for bin/check."""
PROP = dict(
    title='Bridge deposits mint once, conditionally; withdrawals burn what they attest',
    drivers=['TestC14Hist', 'TestC14Decode', 'TestC14Blocker'],
    coq_modules=['Model.BridgeTokens'], case_type='c14_case', check_fn='c14_check', classes_fn='c14_classes',
    rule='hist: one full application (tests.SharedSetup rewired with the production module-account permissions: real bank, staking, oracle, '
         'registry, reporter and bridge keepers, two bonded reporters, tipped withdrawal queries); every case runs in its own cache context: a '
         'hand-written corpus (claim 1 ns too young / at exactly 12 h, same id again, same id twice in one batch, another aggregate of a claimed id, '
         'failing second element of a batch, power one below / checkpoint not strictly before the aggregate, flagged before and after the claim, '
         'tip > amount and tip = amount, amounts (2^64+5)*10^12 / 2^63*10^12 / 2^63*10^12-1, withdrawals of 0 / negative / foreign denom / whole balance '
         '+-1 / from an unfunded address / to recipients of 0, 1, 20, 21, 32, 33 bytes, reports for an existing and for the next withdrawal id, '
         'claim of a deposit id equal to a withdrawal id) followed by generated histories of 3-10 transactions between environment steps written '
         'by the harness (oracle Aggregates of the registry-encoded deposit query ids with chosen timestamp / value / power / flag, flags, '
         'ValidatorCheckpointParams, block time). Values: ABI (address,string,uint256,uint256) with amounts 0, 1, 10^12-1, 10^12, 10^12+1, k*10^12+r, '
         '2^63*10^12 +-, 2^64*10^12+k*10^12, 2^256-1-k, random up to 2^256; tips 0, = amount, amount +- 1 / +- 10^12, random; recipients: the 7 '
         'observed accounts, fresh addresses of 1..255 bytes, empty, truncated, upper-case, wrong prefix, bad character, trailing blank, 0x-hex; '
         '1 in 7 values malformed (empty, odd length, 0x prefix, upper case, non-hex character, truncated at every head boundary, over-long, '
         'offset word 0/32/64/96/len-32/len-31/len/2^63/2^64/2^256-1, length word past the end, dirty address padding, string overlapping the heads). '
         'Aggregate timestamps at 12 h -2..+2 ms of the time the claims aim at; block time set to timestamp + 12 h -1 ms, -1 ns, 0, +1 ns, +1 ms; '
         'checkpoints at aggregate timestamp -2..+1 ms with threshold power-1..power+1; batches of 1-3 with 1 in 5 repeated ids, indices one past the '
         'end, 2^64-1, length mismatch; withdrawals with amounts 0, -1, balance-1..balance+1, 2^64-1..2^64+1, random, recipients of 0-33 bytes / '
         'non-hex / 0x-prefixed / upper-case, foreign denoms; SubmitValue by a bonded reporter on tipped withdrawal queries (existing ids, the next '
         'id, 2^64-1) and on deposit queries. After every transaction the harness reads all observed balances, supply, bridge-module balance, claimed '
         'flags, WithdrawalId, the number of aggregates / micro-reports and the aggregate stored under the registry-encoded withdrawal query id. '
         'non-trivial = >= 2 transactions of which >= 1 accepted claim or withdrawal; distinct by the full step list. '
         'decode: real Keeper.DecodeDepositReportValue on the same value generator (corpus: every amount boundary as amount and as tip); '
         'non-trivial = decoded; distinct by value. '
         'blocker: real Keeper.PreventBridgeWithdrawalReport on the registry encoding of TRBBridge(true|false, id) for boundary and random ids up to 2^256-1 '
         '(compared byte for byte with the model\'s canonical query data) and on mutations of it (truncation at every word boundary, trailing byte, bool '
         'word 2 / 256 / 2^255 / dirty, other names and lengths, shifted offsets, changed lengths, other query types, random bytes, single bit flips); '
         'non-trivial = not rejected or full length; distinct by the bytes',
    technique='Coq theorems over an executable model of ClaimDeposit / ClaimDeposits / WithdrawTokens / PreventBridgeWithdrawalReport including '
              'encoding/hex and the go-ethereum ABI decoder for the two tuple types (inversion lemmas, induction over batches and over operation '
              'histories with fold_left, ABI encode/decode round trip for all field values, closed witnesses by vm_compute) + differential execution '
              'of the real message servers and keepers against the model inside Coq (vm_compute), with the executable specification evaluated on the '
              'implementation\'s own observations (soundness lemmas proved)',
    level_text='Machine-checked for all inputs and all histories: the sequence of deposit ids minted for never repeats an id and never contains an '
               'already claimed one (both variants); a claim succeeds only from an unflagged aggregate of that deposit\'s query, >= 12 h old, with power '
               '>= the threshold of the latest checkpoint strictly before the aggregate; with the repaired conversion exactly amount/10^12 is minted, '
               'tip/10^12 to the claimer, the difference to the reported recipient, bridge account unchanged, for every uint256 (as found: only while '
               'the quotients fit int64 - refuted beyond, F26); tip > amount is rejected; a withdrawal burns exactly the amount from the sender, takes '
               'id counter+1 above every earlier id (ids strictly increasing over every history), and publishes a value that ABI-decodes to (recipient, '
               'sender text, amount, 0) when the recipient is 20 bytes (as found: 21-byte recipient accepted and attested cropped - refuted, F45); '
               'the blocker rejects the canonical query data of every withdrawal id and passes every deposit id; withdrawal aggregates change only by '
               'withdrawals. A silent check implies these statements about the implementation\'s own outputs (C14_check_sound_*).',
    level_note='Trusted: Coq kernel; the harness projection (aggregates, flags and checkpoints are written directly into the real stores; query ids are '
               'computed through the registry encoder + keccak, not through the keeper under test); bech32 and keccak are not modelled: every recipient '
               'string the go-ethereum decoder can extract is looked up in a table carrying the SDK\'s verdict, and "no report under a withdrawal query id" '
               'rests on keccak collision resistance (query id = keccak(query data)) plus the proved rejection of the canonical bytes and the observed '
               'rejection by the real SubmitValue. uint64 wrap of the withdrawal counter and of the checkpoint threshold computation is outside the '
               'model (counter < 2^64-1). time.Duration saturation (|age| > 292 years) is outside the model. The threshold "in force at report time" is '
               'read as in the code: latest checkpoint with timestamp strictly below the aggregate timestamp (ms).',
    assumptions=['a transaction that returns an error or panics is rolled back (baseapp); the harness runs each message in a cache context',
                 'block time and aggregate timestamps are within 292 years of each other; WithdrawalId < 2^64-1; total bonded tokens as reported by staking',
                 'AccAddressFromBech32 (cosmos-sdk) and keccak256 are as provided by the libraries; keccak is collision resistant',
                 'aggregates of deposit queries reach the store only through the oracle (C06/C07); flags only through disputes (C08/C12)'],
    design_ref='5/C14', shard=40,
)
