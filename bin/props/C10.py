"""C10 configuration for bin/check."""
PROP = dict(
    title='Reporting power equals the bonded stake of active selectors, counted once',
    drivers=['TestC10History'],
    coq_modules=['Model.Reporter'], case_type='c10_case', check_fn='c10_check', classes_fn='c10_classes',
    rule='one case = one history on the full in-memory application (tests.SharedSetup rebuilt with a fixed genesis validator and with the '
         'reporter keeper\'s staking hooks registered as in app/app.go): real staking MsgServer Delegate / Undelegate / BeginRedelegate, staking '
         'keeper Jail / Unjail / Slash / SetParams(MaxValidators) / EndBlocker, real reporter MsgServer CreateReporter / SelectReporter / '
         'SwitchReporter / RemoveSelector / UnjailReporter, reporter keeper JailReporter, reporter Params.Set(MaxSelectors), and real oracle '
         'MsgServer SubmitValue (-> ReporterStake) on a query tipped by an outsider; every message in its own cache context (committed on '
         'success, panics recovered). After every operation the harness reads back Selectors, Reporters, the reporter->selectors index, the '
         'stored MicroReport.Power and stake snapshot (Total, TokenOrigins) and the staking view the module can see (validators: status, jailed, '
         'tokens, shares; delegations with shares; power-index order; MaxValidators; UnbondingTime), written as differences. '
         '11 hand-written histories first (lock end -1/0 ns, switch before/after the first report, cap and minimum at -1/0/+1, jail end -1/0 ns '
         'and wrapping durations, both walks of ReporterStake before/after power-index reordering, hook counter, F43 x2, F44, F17 x2), then '
         'generated ones: 2-5 validators + genesis validator, 3-6 plain accounts, MaxValidators from {1,2,3,4,100} (so selectors have more as well '
         'as fewer delegations than the cap), MaxSelectors from {1,2,3,4,100}, UnbondingTime from {90 s,1 h,1 d,3 d,21 d}; 8 (thorough 12) blocks of 0-7 '
         'operations; amounts from {1,2,10^6-1,10^6,10^6+1,..} / whole TRB / random; bonded amount placed at the reporter minimum -1/0/+1 before a '
         'third of the selects; block gaps placed at a pending lock / jail end -1/0/+1 ns in a third of the blocks, else seconds, ns, or around the '
         'unbonding time; validator jail/unjail (1/6 without the end of block in between), slashes by 0.333333/0.5/0.01/0.007 (inexact exchange '
         'rates), MaxSelectors raised / lowered, MaxValidators changed. non-trivial = at least 2 accepted reports, one of them backed by >= 2 '
         'selectors; distinct by history seed',
    technique='Coq theorems over an executable model of the reporter module (steps CreateReporter .. SubmitValue/ReporterStake, staking as '
              'environment with the two delegation hooks): Dec arithmetic of the two valuations; a sum-exchange lemma for the two walks of '
              'ReporterStake; invariants by induction over operation lists (fold_left) for unique selection / cap / reporter keeps its selection / '
              'jail release; a ghost log of counted selectors with a lock invariant for "counted once"; refutations by concrete witnesses '
              '(vm_compute) + differential execution of the real keepers and message servers against the model inside Coq (vm_compute), with the '
              'executable specification evaluated on the real outputs after every operation',
    level_text='Machine-checked for all inputs / all histories: an accepted report comes from a registered, un-jailed reporter, records origins that '
               'sum to its stake >= MinStakeAmount, power = floor(stake/10^6); with a uniform valuation the stake equals the sum over the reporter\'s '
               'unlocked selectors of their delegations to bonded validators, each valued once at floor(round18(shares*tokens/delegator_shares)), '
               'whichever walk is taken, for every consistent staking view; for the code as it is the same holds when exchange rates are exact and '
               'otherwise the by-power walk is short by at most one loya per origin (F43 refuted by witness); TokensFromSharesTruncated = exact '
               'floor, the other valuation = that or +1. Along every history in which MaxSelectors is not lowered: selector keys are unique (one '
               'reporter per selector), no reporter exceeds the cap, a reporter keeps its own selection, RemoveSelector cannot succeed, joining '
               '(select / switch / create) implies bonded tokens >= the reporter\'s (module\'s) minimum and room under the cap, a jailed reporter '
               'cannot report and becomes un-jailed only through an accepted UnjailReporter at or after the recorded time (jail time = now + duration). '
               'Counted once: if additionally the clock and height do not go back, UnbondingTime keeps its value U and MinStakeAmount stays positive, '
               'a selector counted in accepted reports of two different reporters was counted at block times at least U apart. Refuted for the '
               'code as found: F43 (valuation differs between the walks), F44 (by-power walk misses validators that are bonded but out of the '
               'power index inside a block), F17 (after a lowering of MaxSelectors: remove + re-select without lock; re-create resets a jail).',
    level_note='Trusted: Coq kernel; the harness and its projection; the staking module (its state is an input of the model: delegation shares, '
               'validator status/tokens/shares, power-index order are read from the real keeper, not modelled) — in particular that a delegated '
               'token can reach another delegator only through an unbonding of UnbondingTime, which turns "a selector is counted once per window" '
               'into "a token is counted once per window"; math.Int as Z, LegacyDec as integers scaled by 10^18 with the rounding of v1.3.0; time as '
               'unix ns (zero time = 0). The by-power walk is used iff DelegationsCount > MaxValidators; the hooks keep DelegationsCount = number of '
               'delegations (checked by the driver on every staking operation, not proved about the SDK). The repo\'s test fixture does not register '
               'the reporter hooks (production does): the harness adds them.',
    assumptions=['governance does not lower MaxSelectors (else finding F17), keeps MinStakeAmount > 0 and UnbondingTime constant; block time and height do not decrease',
                 'reports are evaluated on a consistent staking view (every validator with status bonded is reached by the power-index walk): true at '
                 'block boundaries, false between the jailing of a validator / a lowering of MaxValidators and the end of that block (finding F44)',
                 'staking: unique validator and delegation keys; tokens >= 0, delegator shares > 0 for validators with delegations; a delegator\'s '
                 'tokens reach another delegator only after UnbondingTime',
                 'stake below 2^64 TRB (no uint64 wrap of the power); jail durations below 292 years (no int64 wrap of time.Duration)'],
    design_ref='5/C10', shard=12,
)
