"""C02 configuration for bin/check."""
PROP = dict(
    title='No accepted transaction sequence can make block processing fail',
    drivers=['TestHistAll'],
    coq_modules=['Model.Ledger'], case_type='hist_case', check_fn='c02_hist_check', classes_fn='hist_classes',
    rule='TBD', technique='TBD', level_text='TBD', level_note='TBD', assumptions=[], design_ref='5/C02', shard=8,
)
