"""C17 configuration for bin/check."""
PROP = dict(
    title='Vote-extension data reaches state only as signed; proposals stay coherent',
    drivers=['TestC17Pipeline', 'TestC17Arbitrary', 'TestC17Verify'],
    coq_modules=['Model.Proposal'], case_type='c17_case', check_fn='c17_check', classes_fn='c17_classes',
    rule='pipeline: real app.ProposalHandler (PrepareProposalHandler, ProcessProposalHandler, PreBlocker) on the real bridge and staking '
         'keepers of the full fixture (tests.SharedSetup) with 6 staking validators whose ed25519 consensus keys the harness holds, real '
         'secp256k1 initial signatures of 8 EVM keys, ctx with chain id, HeaderInfo, consensus params and a comet.BlockInfo matching the commit. '
         'A corpus (plain registration; F41 witnesses: 1-byte SignatureA, missing SignatureB, 63-byte SignatureA; F28 replayed signatures; '
         'F42 swapped validator order; registration + valset signature + attestation on a consistent two-checkpoint state) and generated '
         'scenarios: 1-5 validators, powers from {1,2,3,5,10}, flags commit/absent/nil/unknown, non-commit votes carrying data, bad or missing '
         'extension signatures, unknown consensus addresses, mis-sorted votes, rounds 0-2, enable height at h, h-1, 1; bridge state with 0-3 '
         'checkpoints (timestamps near 1000, 1.7e12, 2^63, 2^64), validator sets with repeated / foreign addresses, signature and attestation '
         'arrays of the right or a wrong size, partly filled, missing map entries, 0-3 snapshots (also the empty key), in mode "stale" created '
         'under another validator set than the current one; payloads: well-formed with initial signatures (own, with recovery id, mixed keys, '
         'exchanged, random 64 bytes, oversized, empty A; mode "shortsig": 1..63 bytes, missing B; mode "dupaddr": another validator\'s), valset '
         'signatures of 0,1,64,65,66,200 bytes on known / unknown / boundary timestamps, 0-3 attestations on requested, unknown, nil, empty, '
         'duplicated snapshots with nil / empty / 65 / 200-byte signatures, or not a vote extension at all (12 %: garbage, null, wrong types, '
         'case-folded keys, random bytes) or truncated JSON (4 %). Each scenario: Prepare, Process on Prepare\'s output, PreBlocker on it when '
         'accepted, then 10 single-field mutations of the injected tx (each of the 8 lists: nil<->empty, drop last/first, duplicate, alter one '
         'element, swap ends, append; BlockHeight; embedded commit: flag down/up, extension byte, foreign extension, dropped vote, round, '
         'replaced extension), each through Process and, when accepted, PreBlocker. non-trivial = valid commit, extensions enabled, at least one '
         'datum injected and at least one mutant; distinct by the whole case. '
         'arbitrary: Process and PreBlocker on arbitrary first transactions over generated states: corpus (empty proposal, the F27 witnesses, {}, '
         'non-JSON, disabled height) and generated VoteExtTx with independently sized lists (nil / empty / 1-3 elements, known and unknown '
         'operators, odd EVM strings, non-hex signature strings, timestamps incl. negatives), one third with aligned lists, 6 % truncated, 4 % '
         'random bytes, 3 % odd JSON, 2.5 % no tx, 4 % at a disabled height; non-trivial = decodable. '
         'verify: real VerifyVoteExtensionHandler: corpus at the size boundaries 0,1,64,65,66 of the three signature fields and '
         'attestations 0..3 against requests none,0,1,2; generated payloads as above with the validator registered under its operator address '
         'and / or under the address the handler derives; non-trivial = decodable.',
    technique='Coq theorems (case analysis of the handlers; boolean-equality reflection for reflect.DeepEqual on nil-aware lists; induction over '
              'the vote list for the three Check* functions; fold_left invariants with a frame + "every changed slot is explained" relation over '
              'the three PreBlocker loops, for all states and commits) + differential execution of the real handlers against the model inside Coq '
              '(vm_compute), accepting any of the four (F27, F41) repair variants, with the executable specification evaluated on the real outputs',
    level_text='Machine-checked for all states, commits and variants: Process(Prepare(c)) = ACCEPT for every valid commit; ACCEPT implies a valid '
               'embedded commit and exactly the eight lists computed from it (any element of any list different => REJECT; undecodable tx => REJECT); '
               'the lists contain exactly the data of commit-flag votes with decodable extensions of known validators (registrations only for '
               'operators without an address); after the PreBlocker on an accepted proposal only the three maps differ, a registered address is '
               'never overwritten, a new address is the one recovered from the operator\'s own vote, every changed signature / attestation slot '
               'holds data sent by a validator whose registered address stands at that index of the indexing validator set; with the length '
               'guards no handler panics on any input, and in every variant the PreBlocker cannot panic on an accepted proposal. Refuted for the '
               'code as found: F27 (empty proposal, unaligned lists), F41 (signature shorter than 64 bytes panics Prepare/Process), F42 (attestation '
               'slot index taken from the current validator set), F28 (two operators, one EVM address).',
    level_note='Not interpreted, measured on the real code per case and handed to the model: json.Unmarshal of extensions and of the injected tx '
               '(incl. the JSON round trip of abci.ExtendedCommitInfo, checked by the driver), baseapp.ValidateVoteExtensions, the staking lookup by '
               'consensus address, secp256k1 recovery (success of A; final address), common.HexToAddress. "Every honest validator accepts" is '
               'process being a function of (state, proposal) plus determinism (C01). CometBFT itself (which votes a proposer includes; that a '
               'block flag may differ from the embedded commit\'s flag, which the SDK does not compare) is outside. ExtendVoteHandler (keyring) is '
               'not driven. The snapshot\'s own validator set is ghost state supplied by the generator (the store keeps only its checkpoint hash).',
    assumptions=['consensus params carry an ABCI section (VoteExtensionsEnableHeight); otherwise every handler dereferences nil',
                 'the vote extension bytes reach json.Unmarshal as canonical base64 (capacity of a decoded slice = 3*ceil(len/3)), so that '
                 'sig[:64] fails exactly below 64 bytes',
                 'the snapshot-to-validator-set association used by the specification is the one at snapshot creation (array length and checkpoint)'],
    design_ref='5/C17', shard=60,
)
