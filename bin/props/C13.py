"""C13 configuration for bin/check."""
PROP = dict(
    title='Dispute settlement pays out exactly what was paid in, once',
    drivers=['TestC13Settle'],
    coq_modules=['Model.DisputeSettle'], case_type='c13_case', check_fn='c13_check', classes_fn='c13_classes',
    rule='settle: one case = the whole life of one dispute lineage on the REAL application (tests.SharedSetup: real bank, staking, oracle, '
         'reporter and dispute keepers; real msg servers ProposeDispute / AddFeeToDispute / Vote / WithdrawFeeRefund / ClaimReward, the two '
         'halves of dispute.BeginBlocker (CheckOpenDisputesForExpiration, CheckClosedDisputesForExecution) and Keeper.ExecuteVote; every message '
         'in its own cache context, panics recovered). Set-up generated per case: 1-3 validators, disputed reporter with 1-2 delegations and 0-2 '
         'selectors (stakes not multiples of a TRB), warning / minor / major, 1-4 fee payers (35 % reporters that can pay from stake, a third of '
         'them with a selector; poor payers), tippers, token holders, the team. History generated: fee paid at once / in 2-8 parts by random payers '
         '(same payer again, from balance / from stake, the missing amount -1,0,+1, 1 loya, multiples, wrong id, below the minimum, the disputed '
         'reporter from stake) / left under-funded until it fails (time at the end +0,1,2 ns); votes by a random subset (nobody, team only, all; '
         'biased to one choice); tally after 2 days or by quorum; up to 6 rounds; execution by the begin blocker before / at / after the '
         'dispute end and by direct calls before resolution and again afterwards; fee added after execution; then every payer and voter (and '
         'non-parties, other ids) claims under the last and the first id in a random order, twice. A corpus of 11 hand-written histories comes '
         'first (invalid / support / against, nobody voted, F20 F21 F22 F23 C13a C13c witnesses). After every operation the driver records the '
         'result class, the dispute escrow balance, the burnt supply, the dust store, every tracked party\'s liquid and staked holdings and the '
         'dispute record; the case also carries the facts other modules supply (escrow trackers of the reporter module, the tally\'s outcome, '
         'the voters\' recorded powers and tips). non-trivial = at least one refund or reward was paid; distinct by the full history',
    technique='Coq model of ExecuteVote, RefundDisputeFee, RewardReporterBondToFeePayers, WithdrawFeeRefund (dust), CalculateReward / ClaimReward, '
              'SetNewDispute / AddDisputeRound / AddFeeToDispute (amounts, payer records), reporter.ReturnSlashedTokens / FeeRefund / '
              'AddAmountToStake (amounts per origin) and the execution half of the begin blocker, with LegacyDec modelled exactly; theorems by '
              'case analysis of the model functions, Dec rounding bounded against exact integer floors, invariants by induction over operation '
              'histories (fold_left); differential execution of whole dispute histories on the real application against the model inside Coq '
              '(vm_compute), with an executable specification (own ledger built from the observed balances only) evaluated on the real outputs',
    level_text='Machine-checked for all inputs: a successful ExecuteVote was not executed before, burns floor(burn/2) and keeps floor(burn/2) as '
               'the voters\' pot (burns all of it when nobody voted), and the escrow pays exactly burn + escrowed stake (INVALID), burn (SUPPORT), '
               'burn + stake + fees - burn amount (AGAINST); a refund is floor(fee*(fees-burn)/total) loya with the remainder in 10^-6 loya handed '
               'to the dust store, and for every payer set the refunds plus dust never exceed the pool and leave less than 10^-6 loya per payer; a '
               'paid refund removes the record and, over every later history without a new payment, the next attempt is refused; a paid reward marks '
               'the voter and the next claim is refused; an executed vote is refused; with the repair of C13c a settled dispute stays settled '
               'over every history (no payment, round, tally or begin block makes it executable again). Refuted for the code as found, with '
               'witnesses that the check replays on the real code: F20 (repeated payment overwritten; repaired), F35 (tips looked up at block = '
               'dispute id; repaired), C13c (AGAINST rewrites the slash amount, the dispute can be re-opened and executed twice; repaired), F21 '
               '(failed dispute refunds 5 %), F22/F12 (several rounds: no refund can be withdrawn, rewards fail, begin blocker panics in round 6), '
               'F23 (two payers from stake), C13a (team-only vote: pot unclaimable), C13b (payment from stake credited in full but escrowed '
               'with truncation: a later claim fails for lack of funds).',
    level_note='Trusted: Coq kernel; the harness; math.Int as Z (amounts < 10^18 loya), LegacyDec as scaled integers with chopPrecisionAndRound; '
               'validators keep exchange rate 1 in the driver (a delegation is a number of tokens; F15 is C05\'s subject) and every paying '
               'delegator has one delegation (several are finding F10 of C05). What other modules decide enters the model as a fact read from '
               'the real state by the driver: the reporter module\'s two escrow trackers after each payment, the tally\'s status / result, the '
               'voters\' records and group totals before execution. Not proved: Sum of voters\' rewards <= pot and the amounts of '
               'RewardReporterBondToFeePayers / ReturnSlashedTokens / FeeRefund per origin (checked on every generated case by the executable '
               'specification with a tolerance of one loya per origin, which stays in the bonded pool), and a whole-history solvency theorem '
               '("never insufficient funds" is checked on every observed operation; C13b shows it is false for the code as found).',
    assumptions=['amounts are non-negative and below 10^18 loya (no Int/Dec overflow; Dec quotient = integer floor)',
                 'validator exchange rate 1 and one delegation per paying delegator (C05: F10, F15)',
                 'tally outcome, voter records and the reporter module\'s escrow trackers are taken as recorded by the real modules (C12, C05, C11)',
                 'one dispute lineage per application instance (ids 1..n); BeginBlocker halves run in production order'],
    design_ref='5/C13', shard=24, driver_timeout=6000,
)
