"""C11 configuration for bin/check."""
PROP = dict(
    title="Slashing takes exactly the category's share of the disputed report's stake",
    drivers=['TestC11Escrow', 'TestC11Dispute'],
    coq_modules=['Model.Slash'], case_type='c11_case', check_fn='c11_check', classes_fn='c11_classes',
    rule='escrow: real reporter Keeper.EscrowReporterStake on the full application fixture (real bank / staking / reporter keepers), called in a '
         'cache context on the state left by a staking history: a corpus of 12 hand-written histories (plain, two and three unbonding entries, '
         'all undelegated, validator unbonding / unbonded, redelegated once / to two validators / then undelegated at the destination, fractional '
         'stake with a tiny last origin, validator slashed by 1/3) and generated histories of 2-13 operations of a reporter and 0-2 selectors over '
         '2-3 validators (delegate, undelegate part / all / all-1, redelegate, jail a validator, infraction slash 1 % / 1/3 / 1/2, blocks of 1 s..1 day, '
         '22 days); the stake snapshots are taken by the real ReporterStake at several points of the history; per state 12 inputs: the genuine '
         'snapshot with the slash of each category, and 1/8 each: another amount (0, 1, share+-1, total), a stated power other than the '
         'recorded one, an origin amount +-1/2/1000, origins reordered, an origin of amount 0.  non-trivial = accepted with >= 2 origins, or tokens '
         'were followed into unbonding entries / a redelegation destination; distinct by state + input.  '
         'dispute: real msgServer.ProposeDispute / AddFeeToDispute (each in its own cache context, panics recovered) and dispute.BeginBlocker on a '
         'fresh application per case: stake set-up, real SubmitValue of the reporter (and of a second reporter that can decide the aggregate), '
         'oracle EndBlocker until aggregated, 0-10 staking operations, then 2-7 dispute operations: proposals of the genuine report or one altered '
         'in value / power (x3, +1, -1, 0, 2^63-1, 2^63) / timestamp / height / reporter / cycle flag, categories 0-4, fee full / half / fee-1 / '
         '1 % / 10000 / 9999 / 0 / fee+1 / 2x, from an account or from the stake of another reporter; repeats of an earlier proposal and the same '
         'report under another category; fee additions (rest, rest+-1, half, 1, 0; from stake; by the disputed reporter; unknown id); blocks of '
         '1 s..25 h and exactly at / 1 ns around a prevote deadline.  Corpus: each category fully paid, a fee completed by three payers, an '
         'underfunded dispute expiring, the F18 and F19 witnesses.  non-trivial = a slash happened and >= 2 operations were accepted; distinct '
         'by state + operations',
    technique='Coq theorems (exact Dec arithmetic of the slash amount and fee; shares add up / within one unit, by induction over the snapshot; '
              'coin conservation of the whole escrow procedure by induction over origins and redelegation destinations; invariant over all '
              'operation histories (fold_left) for at-most-once / only-when-funded / expiry; closed witnesses for six findings) + differential '
              'execution of the real EscrowReporterStake, ProposeDispute, AddFeeToDispute and BeginBlocker against the model inside Coq '
              '(vm_compute), the repair flags inferred per case, with the executable specification evaluated on the real outputs',
    level_text='Machine-checked for all inputs: slash amount = power*10^6*{1,5,100} % exactly and equal to the fee that completes the dispute; '
               'the shares of any snapshot add up to the slash amount and each rounded share is within one loya of a*amt/total (amt <= 5*10^17); '
               'a successful escrow only moves coins from the bonded / not-bonded pools into the dispute escrow, for every staking state, '
               'redelegation list and repair variant; a slash needs the stake snapshot, records exactly power*pct under the dispute, flags the '
               'first aggregate decided by the report, jails 0 s / 600 s / not at all; over every history of proposals, payments and blocks no '
               'dispute gets two escrow records, every record belongs to a dispute whose fee is complete, prevote and failed disputes have none; '
               'more fee for a complete dispute, fee after the deadline and a repeated proposal are rejected.  Refuted for the code as found '
               '(closed witnesses): F13, F34, F38, F15 (repaired in /repo; the model of the repaired code is the one the implementation is compared with, and for F15 the repaired share count is proved to be worth exactly the amount for every exchange rate <= 1) and F39, F18 (open, reproduced on the real code on every run).',
    level_note='Trusted: Coq kernel; the harness projection (delegations, unbonding entries, validators, pool and escrow balances, records, '
               'jail fields, aggregates, disputes) and the restriction of the dispute histories to the horizon before any vote is tallied '
               '(no AddDisputeRound, no execution); x/staking Unbond is modelled from the v0.50.9 source (hooks and the self-delegation jail '
               'flag are not projected); fee payers from stake keep their stake with a validator outside the projected slice.  "the escrow '
               'delta equals the slash amount" is proved only as conservation + the closed witnesses; for exchange rate 1 it is checked on '
               'every generated case by the executable specification, not proved in general (C11_..._partial is not claimed).  Proportionality '
               'is specified against the recorded stake (the sum of the snapshot); the code divides by power*10^6 (finding F39).',
    assumptions=['0 <= power < 2^63 (int64 casts), amounts below 5*10^17 loya for the one-unit bound',
                 'dispute histories stay before the first vote end: statuses are prevote / voting / failed only',
                 'the bank refuses overdrafts of the pools; module accounts exist',
                 'block time does not decrease (only needed to read "failed" as final)'],
    design_ref='5/C11', shard=100, driver_timeout=6000,
)
