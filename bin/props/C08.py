"""C08 configuration for bin/check."""
PROP = dict(
    title='Aggregate history is append-only, time-ordered and correctly retrievable',
    drivers=['TestC08History'],
    coq_modules=['Model.OracleRound', 'Model.AggHistory'], case_type='c08_case', check_fn='c08_check', classes_fn='c08_classes', shard=40,
    rule='TBD', technique='TBD', level_text='TBD', level_note='TBD', assumptions=[], design_ref='5/C08',
)
