"""C08 configuration for bin/check."""
PROP = dict(
    title='Aggregate history is append-only, time-ordered and correctly retrievable',
    drivers=['TestC08History'],
    coq_modules=['Model.OracleRound', 'Model.AggHistory'], case_type='c08_case', check_fn='c08_check', classes_fn='c08_classes', shard=40,
    rule='histories of 30 blocks on the full application fixture (real oracle, bridge, dispute, registry, reporter, bank, staking keepers and msg '
         'servers, real oracle and bridge end blockers; block gaps 1-4000 ms; spot window 0-2): tips, reports (2 reporters), bridge withdrawals '
         '(which publish an aggregate), ProposeDispute (warning/minor, fully or half funded, also naming the other reporter) and AddEvidence on '
         'recent reports. AppendCase: the complete Aggregates store before and after every single operation and end blocker, with the reports named by '
         'a funded dispute / accepted evidence. GetterCase (every third block): the store and, per query, probes of GetTimestampBefore/After, '
         'GetCurrentAggregateReport, GetAggregateBefore, GetAggregateByTimestamp, GetAggregateByIndex at T in {0, 1, now+5, ts-1, ts, ts+1 of the two '
         'oldest and two newest aggregates}. SnapshotCase: the attestation snapshots written by the bridge end blocker in that block, and (every '
         'third block) by CreateSnapshot for up to three stored aggregates per query, with their Prev/NextReportTimestamp. non-trivial = store of '
         '>= 2 (append, snapshot) / >= 3 (getter) aggregates; distinct by seed, history, block, operation',
    technique='Coq theorems (characterisation of each lookup on a list sorted strictly by timestamp; insertion of a later-stamped aggregate appends to '
              'its query\'s chronological list; invariant over all histories of round operations and flags by induction: sorted key-unique store, '
              'sequence numbers 1..n, nothing removed or altered except flags raised by a named report) + differential execution of the real getters, '
              'end blockers, dispute messages and bridge snapshots against the model inside Coq (vm_compute)',
    level_text='Machine-checked for all histories of the model (tips, reports, end blockers, governance updates, dispute flags; block time strictly '
               'increasing; no two rounds of one query closing in one block): the store stays sorted by (query, timestamp) and key-unique; per query the '
               'sequence numbers along the chronological list are 1,2,3,... and timestamps strictly increase; every aggregate ever stored is still there, '
               'identical except that its flag may have been raised, and a raised flag is explained by a flag operation naming the query, reporter and '
               'block of the report that determined it. For every sorted store: current = the entry with the greatest timestamp; data before T = the '
               'latest unflagged entry strictly before T; by index = i-th entry; by timestamp = the entry with that timestamp; timestamp before/after T = '
               'greatest below / least above T (none iff there is none). The bridge snapshot\'s Prev/NextReportTimestamp are checked against these '
               'lookups on the real bridge keeper (executable specification).',
    level_note='Trusted: Coq kernel; the Go driver\'s dump of the Aggregates collection (query ids by their first 7 bytes, reporters by account '
               'index). The snapshot clause is an executable specification evaluated on the real bridge keeper\'s AttestSnapshotDataMap (the bridge '
               'calls the two timestamp getters; that call structure is exercised, not proved). The history theorem is about the model of '
               'Model/OracleRound.v whose correspondence with the real keeper is C07\'s check; the side conditions of the history theorem follow from the block structure, strictly increasing block time and report windows >= 1 (C08_history_well_scheduled, using C07\'s round invariant).',
    assumptions=['block time strictly increases from block to block', 'the TRBBridge report window is at least one block (see C07)',
                 'collections iterate in key order'],
    design_ref='5/C08',
)
