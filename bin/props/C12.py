"""C12 configuration for bin/check."""
PROP = dict(
    title='Dispute lifecycle, voting power and tally follow the specified rules',
    drivers=['TestC12Tally', 'TestC12Ratio', 'TestC12Votes', 'TestC12Lifecycle'],
    coq_modules=['Model.DisputeTally'], case_type='c12_case', check_fn='c12_check', classes_fn='c12_classes',
    rule='tally: real Keeper.TallyVote on the real dispute keeper (keepertest.DisputeKeeper, bank supply stubbed) with Disputes, Votes, '
         'VoteCountsByGroup, Voter and BlockInfo written directly: a corpus (F03/F24 witnesses, the repo\'s unit-test vectors, nobody voted, '
         'exactly 51 % and one unit below, already tallied) and generated distributions over 3 counted groups + team x 3 choices: '
         '30 % grid (every counter from {0,1,2,total/2,total}), 40 % participation placed at 51*10^6 -2..+1 units of the first or second quorum '
         'check, 20 % ties / near ties (even splits, +-1 vote, thirds), 10 % random incl. counters at 2^64-1; totals from '
         '{0, small, k*10^6, 2^63+-1, 2^64-1, 2*10^16+-1, <2^70, 10^3..10^15}; block time at vote end / dispute end -1,0,+1 ns and inside / after '
         'the periods; 2.5 % already tallied, 2 % counters without voter records (model comparison only). non-trivial = not tallied before, '
         '>= 2 participating groups and >= 2 choices with votes; distinct by the full input. '
         'ratio: real keeper.Ratio on the same totals with parts 0,1,2, total+-1, total/k, the smallest part reaching a whole number of units +-1, '
         'random up to 2*total; non-trivial = total, part > 0. '
         'votes: real msgServer.Vote (each message in its own cache context, committed on success, panics recovered) on sequences of 2-10 votes of '
         '3-8 addresses (team, tippers, reporters, selectors of those reporters, holders; oracle/reporter/bank keepers are the repo\'s mocks answering '
         'from the generated table and recording the block number they are asked for); repeated voters, a reporter after / before its selectors, '
         'times at vote end -1,0,+1 ns, totals that let quorum be reached mid-sequence; 8 % with mismatching stake snapshots, 8 % with amounts at 2^64; '
         'non-trivial = >= 2 accepted votes; distinct by table + operations. '
         'lifecycle: TestC12Lifecycle runs whole dispute lifecycles on the full application (tests.SharedSetup rewired with the production module '
         'accounts: real bank, staking, oracle, reporter, dispute keepers): 1-2 real reports (MsgSubmitValue by two reporters, aggregated by the oracle '
         'end blocker; categories warning/minor/major) are disputed through the real msg server (MsgProposeDispute for the new dispute and for every '
         'further round, MsgAddFeeToDispute, MsgVote; each message in its own cache context) and time passes through the real dispute.BeginBlocker; '
         'after every event all dispute records of the store (Disputes[id] + Votes[id]: id, status, open, pending, round, start/end, fee total, slash, '
         'burn, dispute fee, previous ids, vote start/end/result/executed) and the amount charged to the payer are observed (records delta-encoded). '
         'Corpus of 17 scripts: quorum then every request refused (fee below minimum, double vote, vote / fee / round on a resolved and on an executed '
         'dispute), partial fee + two payments (too large: charged the missing part), unknown id, vote in prevote, block exactly at / 1 ns after the vote '
         'end, the dispute end and the prevote end, prevote -> failed and everything refused after, 2..6 rounds with the exact round fee ended by quorum / '
         'by the dispute end, fees one loya short (refused) and too large (charged the round fee), nobody votes, six rounds ending AGAINST (execution '
         'fails: F22 of C13), two lineages interleaved (fresh ids across lineages); then generated histories (<= 70 events): per lineage a plan (1-6 '
         'rounds, last round by quorum or not, full / partial / never completed first fee) advanced by the observed state with amounts at the needed value '
         '-1/0/+1/multiples, block gaps at each deadline -1 ns/0/+1 ns/later, 11 % noise events on random ids (one past the last), 1/3 with two lineages '
         'sharing the clock. non-trivial = >= 3 accepted propose / add-fee / block events and >= 1 rejected request; distinct by the whole history',
    technique='Coq theorems (Dec arithmetic of Ratio and of the score accumulation bounded against exact rationals; case analysis of TallyVote / '
              'UpdateDispute; invariant + rank function over a lifecycle state machine, induction over event histories; induction over vote '
              'sequences for vote-once and counter = sum of records mod 2^64) + differential execution of the real TallyVote, Ratio and '
              'msgServer.Vote against the model inside Coq (vm_compute), with the executable specification evaluated on the real outputs; for the lifecycle '
              'clause: histories of the real application replayed in Coq twice - an executable reference of the clause on the observed records alone '
              '(status graph, rank, at most one transition per id, fresh ids, charged fee = min(5 % * 2^round, slash), absolute bookkeeping burn = 5 % + '
              'all round fees, fee total = slash + round fees, deadlines, rejected events change nothing and only invalid events are rejected) and the '
              'lifecycle machine [step] run on the same events (Diff), with soundness lemmas for the reference and invariants of the machine by '
              'induction over histories',
    level_text='Machine-checked for all inputs: Ratio = floor(25*10^6*part/total) for 0 < total < 2*10^16 (within one unit beyond, bound tight); '
               'the tally (repaired variant = current code) returns a result or "still voting" for every distribution, never an error; outside the '
               'class of finding F24 it satisfies the executable specification: quorum decision = exact participation against 51 % up to 3*10^-6 '
               'percent, result = choice with the highest exact sum of group fractions whenever it leads by 5*10^-6 (else INVALID or a choice within '
               'that resolution; equal columns never win), lifecycle fields; every event keeps the dispute invariant and moves each dispute along '
               'prevote -> voting -> (unresolved ->) resolved | prevote -> failed with a strictly increasing rank, over all histories; BeginBlocker '
               'cannot fail on dispute state; new rounds take a fresh id with fee min(2*fee, slash); an address is accepted at most once per round '
               'and only while open; reporter/token-holder counters = sums of the voter records mod 2^64. Refuted for the code as found: F03 '
               '(tie => error => halt), F24 (first quorum check ignores token holders). Lifecycle correspondence: round fee = min(floor(slash/20) * 2^round, '
               'slash) (10, 20, 40, 80, 100 % ...; = slash from the sixth round for slash >= 40), not derived from the burn amount; over every history '
               'of the machine burn = 5 % + the fees of rounds 2..r and fee total = slash + those fees; the machine the check runs (tally inputs '
               'refreshed per block, lineage map, minimum fee) keeps invariant + monotone rank and never halts; an empty issue list of the executable '
               'reference implies that consecutive observations are linked record by record along the status graph with non-decreasing rank and fixed '
               'id / slash / round / burn, and that an accepted further round was on an unresolved, open, unexpired dispute, charged exactly the round '
               'fee and created id = previous maximum + 1; a recorded real history passes, the same history with a doubled round charge fails.',
    level_note='Trusted: Coq kernel; the harness (state written directly into the collections for the tally driver; neighbouring keepers mocked '
               'for the vote driver, so that the environment hypothesis "a reporter\'s tokens at the dispute block include its selectors\' tokens" is '
               'generated, not observed); math.Int modelled as Z (no 256-bit overflow: inputs < 2^70), LegacyDec as scaled integers with '
               'chopPrecisionAndRound; time as unix ns. The lifecycle machine abstracts a vote as "the counters it leaves" and fee payments / '
               'execution payouts as always succeeding (C13). cast_g <= total_g is not assumed: participation is not capped at 25 % per group, '
               'as in the code. The bound "no counter underflow" is proved from the records being non-negative, which the environment hypothesis '
               'implies; that implication is checked by the vote driver (executable spec), not proved. Lifecycle driver: votes enter the machine as the '
               'counters / BlockInfo / supply a tally reads (observed from the keepers after each vote and before each block), "eligible" = no voter record '
               'and a positive balance is computed by the driver; payers are solvent and pay from their balance (payments from stake: C13); the amount charged '
               'is the decrease of the payer\'s balance; the driver calls only dispute.BeginBlocker per block (no mint / staking block functions after the '
               'set-up), once per time change; a BeginBlocker failure is attributed to expiry / tally (violation) or to the execution of a vote (C13: F22, '
               'six rounds ending AGAINST; the history stops there) by re-running the first half alone. Start time, dispute fee and previous ids are checked '
               'by the executable reference only (the machine has no such fields). Not a clause, observed: AddDisputeRound\'s status guard is implied by '
               'its open / end-time guards (every reachable resolved dispute is closed or past its end); a dispute executed at its end time keeps Open = true; '
               'a further round starts Voting with PendingExecution = true.',
    assumptions=['vote counters, totals and supply are non-negative; totals below 2^70 (no Int/Dec overflow)',
                 'a Voter record exists for every address whose weight is in a counter (consistent input); no voter record => no votes',
                 'reporter tokens at the dispute block include the tokens of each current selector of that reporter (reporter keeper snapshots)',
                 'BeginBlocker runs once per block before the block\'s transactions; block time does not decrease'],
    design_ref='5/C12', shard=150, per_driver={'TestC12Lifecycle': {'shard': 20}},
)
