"""C06 configuration for bin/check."""
PROP = dict(
    title='The aggregate is the true weighted median / weighted mode of the reports',
    drivers=['TestC06Median', 'TestC06Mode'],
    coq_modules=['Model.OracleAgg'], case_type='c06_case', check_fn='c06_check', classes_fn='c06_classes',
    rule='real Keeper.WeightedMedian / WeightedMode on generated report multisets (1-40 reporters; powers from {1, 1..3, 10^6, 2^62/n, random}; values short/long/equal/near-equal/differently spelled; exact half-power boundaries and equal-weight ties constructed on purpose; one third also in a shuffled arrival order; a malformed-value stream) plus the exhaustive space of all report lists with <= 3 (thorough: 4) reporters, powers 1..3 and 3 value strings; WeightedMode is called 16 (thorough: 64) times per input and the distinct answers are recorded; non-trivial = >= 2 reports with >= 2 distinct values (and no parse error for the median); distinct by the full report list',
    technique='Coq theorems (weighted-median characterisation by induction over the stable sort and the scan; mode maximality; order independence by permutation invariance) + differential execution of the real aggregation functions against the model inside Coq',
    level_text='Machine-checked: for every non-empty report list with positive powers the model median satisfies both half-power bounds, the mode holds maximal power, power sum / reporters-once / reporter-reported-value / index hold, and the value is invariant under permutation of the reports. The real functions are compared with the model and the executable spec (proved equivalent to the statement) is evaluated on the real outputs.',
    level_note='Exact for total power < 2^63 (no int64/uint64 wrap; the generator stays below). big.Int.SetString(.,16), sort.SliceStable and LegacyDec comparison are modelled (parse16, stable insertion sort, 2*cum >= T). Go map iteration order in WeightedMode is a parameter of the model (permutation of the distinct values).',
    assumptions=['reporters of one round are pairwise distinct (one report per reporter per round: collections key (queryId, reporter, metaId))',
                 'powers >= 1 (minimum stake), total power < 2^63'],
    design_ref='5/C06',
)
