"""C09 configuration for bin/check."""
PROP = dict(
    title='Each reward is split exactly, non-negatively and in proportion to backing stake',
    drivers=['TestC09Alloc', 'TestC09Calc', 'TestC09Divvy'],
    coq_modules=['Model.Rewards'], case_type='c09_case', check_fn='c09_check', classes_fn='c09_classes',
    rule='alloc: real Keeper.AllocateRewards (mocked reporter keeper records every AllocateTip/DivvyingTips call) on 1-3 aggregates over a pool of 1-12 reporters, rewards from {1,2,3,7,999999,10^6,10^15,random}, powers from {1,2,3,10,10^6,10^7,random}, a reporter sometimes with a different power in a later aggregate, each input executed 4 (thorough 16) times, plus the exhaustive space R<=6, <=3 reporters, powers<=3; non-trivial = >= 2 reporters. calc: real CalculateRewardAmount. divvy: real Keeper.DivvyingTips on a real reporter keeper store with generated stake snapshots (1-8 token origins over 1-4 delegators, reporter with 0/1/several own origins), commission from {0,10^-18,1/3,1/2,1,random in [0,1], and the accepted out-of-range 2,100,-1/2,1+10^-18}, rewards with and without fractional part; non-trivial = >= 2 origins and commission != 0; distinct by inputs',
    technique='Coq theorems over the LegacyDec model (exact sum by the remainder rule, non-negativity, per-credit error bounds from chop_round) + differential execution of the real AllocateRewards / DivvyingTips against the model inside Coq',
    level_text='Machine-checked over all inputs: reporter amounts sum to R exactly; amounts and credits are non-negative (commission in [0,1]); each credit is within one 10^-18 unit per token origin of its pro-rata share, commission exactly once; credits sum to the reward within one unit per origin; result independent of map iteration order. Real code compared with the model on generated cases; executable spec evaluated on real outputs.',
    level_note='LegacyDec (cosmossdk.io/math v1.3.0) is modelled exactly (Base/Dec.v) and differential-tested through these drivers; powers < 2^63; n_reporters*T <= 10^17 for non-negativity of the last reporter; time-based-reward eligibility (cycle-list flag) is covered by the C07/C04 history drivers, not here.',
    assumptions=['stake snapshot Total equals the sum of its token origins and is > 0', 'bech32 address order is a total order on distinct reporters'],
    design_ref='5/C09',
)
