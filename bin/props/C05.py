"""C05 configuration for bin/check."""
PROP = dict(
    title='TBD', drivers=['TestHistAll'],
    coq_modules=['Model.Ledger'], case_type='hist_case', check_fn='c05_hist_check', classes_fn='hist_classes',
    rule='TBD', technique='TBD', level_text='TBD', level_note='TBD', assumptions=[], design_ref='5/C05', shard=8,
)
