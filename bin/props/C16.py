"""C16 configuration for bin/check."""
PROP = dict(
    title='Validator-set checkpoints form a chain an EVM light client can always follow',
    drivers=['TestC16Hist', 'TestC16Unit'],
    coq_modules=['Model.BridgeValset'], case_type='c16_case', check_fn='c16_check', classes_fn='c16_classes',
    rule='hist: whole chain histories from an empty bridge state on the full in-memory application (tests.SharedSetup: real staking, bank, bridge keeper): '
         'per block the real ProposalHandler.PrepareProposalHandler + ProcessProposalHandler + PreBlocker on a last commit whose vote extensions carry '
         'initial signatures and valset signatures (real secp256k1 signatures; honest extensions are what the real ExtendVoteHandler produces - in every '
         '35th history it is run itself on a file keyring and must agree byte for byte; Byzantine extensions: garbage, signature for an older / unknown '
         'checkpoint, over another digest, re-signing, replayed or mismatched initial signatures, silence, offline validators, delayed registration), then 0-3 '
         'staking operations through the real staking message server / keeper (delegate, undelegate, jail, unjail, slash, new validator; amounts at '
         'ceil(T/20)-1, +0, +1 whole tokens of the last checkpoint total, fractions of a token +-1 loya; MaxValidators lowered in 1/5 of the histories), the '
         'staking EndBlocker and the bridge module EndBlock. 1-8 (quick) / up to 100 (thorough) initial validators, total power from {2,3,5,19,20,21,40,60,100,...}, '
         'equal powers in 1/4; block gaps 1 ms, sub-second, seconds, days, 7/14/15/21/30 days and gaps that put the last checkpoint at 14 d - 1 s and 14 d, -1..+2 ms. '
         'After every block: registry, touched signature slots, current bridge set, the three items, the record under the block time; at the end all five maps. '
         'Two hand-written histories first (F28 witness; 5 % and 14-day boundaries). non-trivial = at least 3 checkpoints and 2 stored valset signatures; distinct by history seed. '
         'unit: real Keeper.PowerDiff on generated pairs of sets (1-12 / 1-100 members) whose L1 distance is placed at ceil(T/20)-1, +0, +1 by power changes, joins and exits '
         '(4 % with a duplicate address: model comparison only); real LastSavedValidatorSetStale with the newest checkpoint at 14 d - 1 s and 14 d, -2..+2 ms, older keys, '
         'sub-millisecond block times; real CompareAndSetBridgeValidators on a written last checkpoint with mocked staking validators (bonded / not bonded, below one token, '
         'without EVM address, token fractions); the acceptance-relevant statements of BlobstreamO.sol re-read from the source text. non-trivial = at least two members; distinct by input',
    technique='Coq theorems (insertion sort = the unique sorted arrangement; the Go-map algorithm of PowerDiff = L1 distance by induction over both sets; '
              'invariant over all histories by induction over the block list (fold_left) with strictly increasing block times; contract loop with early exit by induction '
              'over the slots) + differential execution of the real bridge keeper, bridge EndBlock, ProposalHandler and VoteExtHandler against the model inside Coq '
              '(vm_compute), with the executable specification evaluated on the real outputs and a symbolic contract (transcribed from BlobstreamO.sol, its text re-checked '
              'on every run) run on every consecutive pair of stored checkpoints',
    level_text='Machine-checked for all inputs / all histories: the bridge set is exactly the registered validators with non-zero consensus power (= bonded, at least one whole '
               'token), in the unique order power descending then address ascending; a block records a checkpoint iff none exists, or the L1 distance of the power assignments '
               'is at least 5 % of the last checkpoint total, or the last checkpoint is older than 14 d - 1 s (distinct addresses); over all histories with strictly increasing '
               'millisecond block times: timestamps strictly increase, indexes are contiguous, threshold = floor(2T/3), hash and checkpoint are those of the stored set, one '
               'slot per member of the previous set, a submission changes exactly the slots of its sender\'s address (one slot when addresses are distinct); for every '
               'consecutive pair, verifying signatures of more than two thirds of the previous power in the slots make updateValidatorSet accept and end in the new '
               'checkpoint (new threshold not 0, contract view not older than its unbonding period). Refuted for the code as it is: with replayed initial signatures two '
               'operators share an address (F28) - PowerDiff then no longer measures the shift and a member\'s signature can be overwritten so that the contract rejects a '
               'step that more than two thirds signed; "older than two weeks" to the millisecond (the code fires up to 1 s earlier; recorded as reading note, not a finding).',
    level_note='Trusted: Coq kernel; the harness (projection of the collections into case terms; EVM addresses abstracted to their rank in byte order and 32-byte values to '
               'first-occurrence numbers; signatures symbolic - every honest signature is checked in the harness to verify the way BlobstreamO._verifySig does, sha256 + ecrecover); '
               'go-ethereum abi.encode + keccak256 as the reference for what the contract hashes (the stored hash / checkpoint are compared with it); the hand transcription of '
               'BlobstreamO.sol into Gallina (no EVM is available offline; the relevant source lines are compared with the transcribed ones on every run); uint64/int64 as Z. '
               'The model state is the chronological list of checkpoint records; the keeper\'s five maps and three items are projections compared after every block.',
    assumptions=['block times differ by at least one millisecond (CometBFT time iota); otherwise two checkpoints would share a key',
                 'at least one bonded validator with a registered EVM address exists at every EndBlock after block 1 (else EndBlock fails: F07, environment)',
                 'registered EVM addresses are 20 bytes (PreBlocker path); powers below 2^63/10^6 (no uint64/int64 wrap, F25)',
                 'a relayer submits only the slots that verify (blank otherwise) and relays while the contract\'s view is not older than its unbonding period',
                 'hash functions: the theorems hold for any two functions; the check uses the reference values computed by go-ethereum'],
    design_ref='5/C16', shard=8,
)
