"""Per-property configuration of bin/check and source of MANIFEST.json (bin/mkmanifest)."""

TRUSTED_BASE = [
    "Coq 8.16.1 kernel (coqc; vm_compute is used for evaluating cases and closed witnesses; native_compute is not used); coqchk -o in the thorough tier",
    "no axioms declared by the development; per-theorem axioms exactly as printed by Print Assumptions (recorded under coverage.theorems)",
    "hand-written Gallina model tied to /repo by the correspondence check: Go harness (harness/*.go, built against the working tree through a module replace) runs the real code and prints each case as a Gallina term; bin/check (Python) shards them into cases_*.v; coqc evaluates the model's check function on them",
    "the Go drivers' projection of implementation state into case terms, and the regex that reads Coq's printed result",
]

PROPS = {}

import glob, os, importlib.util
for _p in sorted(glob.glob(os.path.join(os.path.dirname(os.path.abspath(__file__)), 'props', 'C*.py'))):
    _spec = importlib.util.spec_from_file_location('prop_' + os.path.basename(_p)[:-3], _p)
    _m = importlib.util.module_from_spec(_spec)
    _spec.loader.exec_module(_m)
    PROPS[os.path.basename(_p)[:-3]] = _m.PROP

NOT_APPLICABLE = {}
