(* C17 — proofs about Model/Proposal.v *)
From Coq Require Import ZArith List Bool String Lia.
From Verif Require Import Base.Harness Model.Proposal.
Import ListNotations.
Open Scope string_scope.
Open Scope list_scope.
Open Scope Z_scope.

(* ---------------------------------------------------------------------------------------- *)
(* boolean equalities                                                                        *)
(* ---------------------------------------------------------------------------------------- *)
Definition eqb_ok {A} (e : A -> A -> bool) : Prop := forall x y, e x y = true <-> x = y.

Lemma string_eqb_ok : eqb_ok String.eqb.
Proof. intros x y. apply String.eqb_eq. Qed.
Lemma Z_eqb_ok : eqb_ok Z.eqb.
Proof. intros x y. apply Z.eqb_eq. Qed.

Lemma option_eqb_ok {A} (e : A -> A -> bool) : eqb_ok e -> eqb_ok (option_eqb e).
Proof.
  intros H [x|] [y|]; cbn; split; intros E; try discriminate; try reflexivity.
  - f_equal. apply H. exact E.
  - apply H. congruence.
Qed.

Lemma list_eqb_ok {A} (e : A -> A -> bool) : eqb_ok e -> eqb_ok (list_eqb e).
Proof.
  intros H a. induction a as [|x a IH]; intros [|y b]; cbn; split; intros E; try discriminate; try reflexivity.
  - apply andb_prop in E. destruct E as [E1 E2]. f_equal; [apply H; exact E1 | apply IH; exact E2].
  - inversion E; subst. apply andb_true_intro. split; [apply H; reflexivity | apply IH; reflexivity].
Qed.

Lemma sig_eqb_ok : eqb_ok sig_eqb.
Proof.
  intros [x|x] [y|y]; cbn; split; intros E; try discriminate.
  - f_equal. apply Z.eqb_eq. exact E.
  - apply Z.eqb_eq. congruence.
  - f_equal. apply String.eqb_eq. exact E.
  - apply String.eqb_eq. congruence.
Qed.

Lemma obytes_eqb_ok : eqb_ok obytes_eqb.
Proof. apply option_eqb_ok. exact Z_eqb_ok. Qed.

Lemma ol_eqb_ok {A} (e : A -> A -> bool) : eqb_ok e -> eqb_ok (ol_eqb e).
Proof. intros H. apply option_eqb_ok. apply list_eqb_ok. exact H. Qed.

Lemma itx_eqb_ok : eqb_ok itx_eqb.
Proof.
  intros a b. unfold itx_eqb. split.
  - intros E. destruct a, b; cbn in E.
    repeat match goal with H : _ && _ = true |- _ => apply andb_prop in H; destruct H end.
    repeat match goal with
           | H : ol_eqb String.eqb _ _ = true |- _ => apply (ol_eqb_ok _ string_eqb_ok) in H
           | H : ol_eqb Z.eqb _ _ = true |- _ => apply (ol_eqb_ok _ Z_eqb_ok) in H
           | H : ol_eqb sig_eqb _ _ = true |- _ => apply (ol_eqb_ok _ sig_eqb_ok) in H
           | H : ol_eqb obytes_eqb _ _ = true |- _ => apply (ol_eqb_ok _ obytes_eqb_ok) in H
           end.
    congruence.
  - intros ->.
    repeat (apply andb_true_intro; split);
      first [ apply (ol_eqb_ok _ string_eqb_ok) | apply (ol_eqb_ok _ Z_eqb_ok)
            | apply (ol_eqb_ok _ sig_eqb_ok) | apply (ol_eqb_ok _ obytes_eqb_ok) ]; reflexivity.
Qed.

Lemma itx_eqb_refl l : itx_eqb l l = true.
Proof. apply itx_eqb_ok. reflexivity. Qed.

(* two injected txs differ iff one of the eight lists differs *)
Lemma itx_neq_field (a b : itx) :
  a <> b ->
  t_ops a <> t_ops b \/ t_evms a <> t_evms b \/ t_vops a <> t_vops b \/ t_vts a <> t_vts b \/
  t_vsigs a <> t_vsigs b \/ t_aops a <> t_aops b \/ t_atts a <> t_atts b \/ t_snaps a <> t_snaps b.
Proof.
  intros N.
  destruct (ol_eqb String.eqb (t_ops a) (t_ops b)) eqn:E1; [apply (ol_eqb_ok _ string_eqb_ok) in E1 | left; intros H; apply (ol_eqb_ok _ string_eqb_ok) in H; congruence].
  destruct (ol_eqb String.eqb (t_evms a) (t_evms b)) eqn:E2; [apply (ol_eqb_ok _ string_eqb_ok) in E2 | right; left; intros H; apply (ol_eqb_ok _ string_eqb_ok) in H; congruence].
  destruct (ol_eqb String.eqb (t_vops a) (t_vops b)) eqn:E3; [apply (ol_eqb_ok _ string_eqb_ok) in E3 | do 2 right; left; intros H; apply (ol_eqb_ok _ string_eqb_ok) in H; congruence].
  destruct (ol_eqb Z.eqb (t_vts a) (t_vts b)) eqn:E4; [apply (ol_eqb_ok _ Z_eqb_ok) in E4 | do 3 right; left; intros H; apply (ol_eqb_ok _ Z_eqb_ok) in H; congruence].
  destruct (ol_eqb sig_eqb (t_vsigs a) (t_vsigs b)) eqn:E5; [apply (ol_eqb_ok _ sig_eqb_ok) in E5 | do 4 right; left; intros H; apply (ol_eqb_ok _ sig_eqb_ok) in H; congruence].
  destruct (ol_eqb String.eqb (t_aops a) (t_aops b)) eqn:E6; [apply (ol_eqb_ok _ string_eqb_ok) in E6 | do 5 right; left; intros H; apply (ol_eqb_ok _ string_eqb_ok) in H; congruence].
  destruct (ol_eqb obytes_eqb (t_atts a) (t_atts b)) eqn:E7; [apply (ol_eqb_ok _ obytes_eqb_ok) in E7 | do 6 right; left; intros H; apply (ol_eqb_ok _ obytes_eqb_ok) in H; congruence].
  destruct (ol_eqb obytes_eqb (t_snaps a) (t_snaps b)) eqn:E8; [apply (ol_eqb_ok _ obytes_eqb_ok) in E8 | do 7 right; intros H; apply (ol_eqb_ok _ obytes_eqb_ok) in H; congruence].
  exfalso. apply N. destruct a, b; cbn in *; congruence.
Qed.

(* ---------------------------------------------------------------------------------------- *)
(* coherence and tamper rejection                                                            *)
(* ---------------------------------------------------------------------------------------- *)
Lemma prepare_inj g st c l : prepare g true st c = PInj l -> check_all g st (c_votes c) = Some l.
Proof.
  unfold prepare. cbn [negb]. destruct (check_all g st (c_votes c)) as [l'|]; intros H; [congruence | discriminate].
Qed.

Lemma coherence g st c l :
  c_valid c = true -> prepare g true st c = PInj l -> process g true st (Tx l c) = ACCEPT.
Proof.
  intros V P. apply prepare_inj in P. unfold process. cbn [negb]. rewrite V, P. cbn [negb].
  rewrite itx_eqb_refl. reflexivity.
Qed.

Lemma accept_only_signed g st l c :
  process g true st (Tx l c) = ACCEPT -> c_valid c = true /\ check_all g st (c_votes c) = Some l.
Proof.
  unfold process. cbn [negb]. destruct (c_valid c); cbn [negb]; [|discriminate].
  destruct (check_all g st (c_votes c)) as [l'|]; [|discriminate].
  destruct (itx_eqb l' l) eqn:E; [|discriminate]. intros _. apply itx_eqb_ok in E. subst. split; reflexivity.
Qed.

Lemma tamper_rejected g st l l' c :
  check_all g st (c_votes c) = Some l' -> l <> l' -> process g true st (Tx l c) = REJECT.
Proof.
  intros C N. unfold process. cbn [negb]. destruct (c_valid c); cbn [negb]; [|reflexivity].
  rewrite C. destruct (itx_eqb l' l) eqn:E; [|reflexivity]. apply itx_eqb_ok in E. congruence.
Qed.

Lemma undecodable_rejected g st : process g true st BadTx = REJECT.
Proof. reflexivity. Qed.

Lemma invalid_commit_rejected g st l c : c_valid c = false -> process g true st (Tx l c) = REJECT.
Proof. intros V. unfold process. cbn [negb]. rewrite V. reflexivity. Qed.

(* the verdict is a function of the state and the proposal: honest validators on the same state agree *)
Lemma validators_agree g st1 st2 p : st1 = st2 -> process g true st1 p = process g true st2 p.
Proof. intros ->. reflexivity. Qed.

(* ---------------------------------------------------------------------------------------- *)
(* what the lists contain: exactly the data of the commit votes' extensions                   *)
(* ---------------------------------------------------------------------------------------- *)
Definition commit_vote (vs : list vote) (v : vote) (x : vext) (o : string) : Prop :=
  In v vs /\ v_flag v = 2 /\ v_ext v = Some x /\ v_op v = Some o.

Lemma init_step_in g st v o a :
  forall l, init_step g st v = Some l -> In (o, a) l ->
  exists x, v_flag v = 2 /\ v_ext v = Some x /\ v_op v = Some o /\ 0 < blen (x_sigA x) /\
            recover g v x = ROk a /\ lookup String.eqb o (s_evm st) = None.
Proof.
  intros l. unfold init_step.
  destruct (v_flag v =? 2) eqn:F; cbn [negb]; [|intros H; inversion H; subst; contradiction].
  destruct (v_ext v) as [x|]; [|intros H; inversion H; subst; contradiction].
  destruct (0 <? blen (x_sigA x)) eqn:L; [|intros H; inversion H; subst; contradiction].
  destruct (recover g v x) as [| |a'] eqn:R; [discriminate | intros H; inversion H; subst; contradiction |].
  destruct (v_op v) as [o'|]; [|intros H; inversion H; subst; contradiction].
  destruct (lookup String.eqb o' (s_evm st)) eqn:K; [intros H; inversion H; subst; contradiction|].
  intros H I. inversion H; subst. destruct I as [I|[]]. inversion I; subst.
  exists x. apply Z.eqb_eq in F. apply Z.ltb_lt in L. repeat split; assumption.
Qed.

Lemma check_initial_in g st : forall vs i o a,
  check_initial g st vs = Some i -> In (o, a) i ->
  exists v x, commit_vote vs v x o /\ 0 < blen (x_sigA x) /\ recover g v x = ROk a /\
              lookup String.eqb o (s_evm st) = None.
Proof.
  induction vs as [|v r IH]; cbn [check_initial]; intros i o a H I.
  - inversion H; subst. contradiction.
  - destruct (init_step g st v) as [l|] eqn:S; [|discriminate].
    destruct (check_initial g st r) as [l'|] eqn:C; [|discriminate].
    inversion H; subst. apply in_app_or in I. destruct I as [I|I].
    + destruct (init_step_in g st v o a l S I) as [x [F [E [O [L [R K]]]]]].
      exists v, x. unfold commit_vote. cbn [In]. repeat split; auto.
    + destruct (IH l' o a eq_refl I) as [v' [x [[Iv [F [E O]]] [L [R K]]]]].
      exists v', x. unfold commit_vote. cbn [In]. repeat split; auto.
Qed.

Lemma check_valset_in vs o t sg :
  In (o, t, sg) (check_valset vs) <->
  exists v x, commit_vote vs v x o /\ 0 < blen (x_vsig x) /\ t = to_int64 (x_vts x) /\ sg = SHex (bkey (x_vsig x)).
Proof.
  unfold check_valset. rewrite in_flat_map. split.
  - intros [v [Iv I]]. unfold vsig_step in I.
    destruct (v_flag v =? 2) eqn:F; cbn [negb] in I; [|contradiction].
    destruct (v_ext v) as [x|] eqn:E; [|contradiction].
    destruct (0 <? blen (x_vsig x)) eqn:L; [|contradiction].
    destruct (v_op v) as [o'|] eqn:O; [|contradiction].
    destruct I as [I|[]]. inversion I; subst.
    exists v, x. apply Z.eqb_eq in F. apply Z.ltb_lt in L. unfold commit_vote. repeat split; auto.
  - intros [v [x [[Iv [F [E O]]] [L [-> ->]]]]]. exists v. split; [exact Iv|].
    unfold vsig_step. rewrite F, E, O. cbn. apply Z.ltb_lt in L. rewrite L. left. reflexivity.
Qed.

Lemma check_atts_in vs o sn sg :
  In (o, sn, sg) (check_atts vs) <->
  exists v x a, commit_vote vs v x o /\ In a (x_atts x) /\ sn = a_snap a /\ sg = a_sig a.
Proof.
  unfold check_atts. rewrite in_flat_map. split.
  - intros [v [Iv I]]. unfold att_step in I.
    destruct (v_flag v =? 2) eqn:F; cbn [negb] in I; [|contradiction].
    destruct (v_ext v) as [x|] eqn:E; [|contradiction].
    destruct (v_op v) as [o'|] eqn:O; [|contradiction].
    apply in_map_iff in I. destruct I as [a [Ea Ia]]. inversion Ea; subst.
    exists v, x, a. apply Z.eqb_eq in F. unfold commit_vote. repeat split; auto.
  - intros [v [x [a [[Iv [F [E O]]] [Ia [-> ->]]]]]]. exists v. split; [exact Iv|].
    unfold att_step. rewrite F, E, O. cbn. apply in_map_iff. exists a. split; [reflexivity | exact Ia].
Qed.

(* every operator named in the lists is the operator the state gives for a commit-flag vote *)
Lemma commit_vote_names_sender vs v x o : commit_vote vs v x o -> names_sender vs o = true.
Proof.
  intros [I [F [_ O]]]. unfold names_sender. apply existsb_exists. exists v. split; [exact I|].
  rewrite F, O. cbn. apply String.eqb_refl.
Qed.

Lemma forallb_map_in {A B} (f : B -> bool) (g : A -> B) (l : list A) :
  (forall a, In a l -> f (g a) = true) -> forallb f (map g l) = true.
Proof.
  intros H. apply forallb_forall. intros b I. apply in_map_iff in I. destruct I as [a [<- I]]. apply H. exact I.
Qed.

Lemma olist_nil_or {A} (l : list A) : olist (nil_or l) = l.
Proof. destruct l; reflexivity. Qed.

Lemma check_all_attributed g st vs l : check_all g st vs = Some l -> attributed vs l = true.
Proof.
  unfold check_all. destruct (check_initial g st vs) as [i|] eqn:C; [|discriminate].
  intros H. inversion H; subst. unfold attributed, lists_of. cbn [t_ops t_vops t_aops olist].
  rewrite !olist_nil_or, !forallb_app. repeat (apply andb_true_intro; split).
  - apply forallb_map_in. intros [o a] I.
    destruct (check_initial_in g st vs i o a C I) as [v [x [CV _]]]. exact (commit_vote_names_sender vs v x o CV).
  - apply forallb_map_in. intros [[o t] sg] I.
    destruct (proj1 (check_valset_in vs o t sg) I) as [v [x [CV _]]]. exact (commit_vote_names_sender vs v x o CV).
  - apply forallb_map_in. intros [[o sn] sg] I.
    destruct (proj1 (check_atts_in vs o sn sg) I) as [v [x [a [CV _]]]]. exact (commit_vote_names_sender vs v x o CV).
Qed.

(* conversely, an operator that no commit-flag vote resolves to makes the lists differ from the computed ones *)
Lemma foreign_operator_rejected g st l c o :
  In o (olist (t_ops l) ++ olist (t_vops l) ++ olist (t_aops l)) -> names_sender (c_votes c) o = false ->
  process g true st (Tx l c) <> ACCEPT.
Proof.
  intros I N A. destruct (accept_only_signed g st l c A) as [_ C].
  pose proof (check_all_attributed g st (c_votes c) l C) as T. unfold attributed in T.
  rewrite forallb_forall in T. rewrite (T o I) in N. discriminate.
Qed.

(* two handler instances: what one builds from a valid commit the other accepts on the same state *)
Lemma coherence_across_instances g st1 st2 c l :
  st1 = st2 -> c_valid c = true -> prepare g true st1 c = PInj l -> process g true st2 (Tx l c) = ACCEPT.
Proof. intros <-. apply coherence. Qed.

Lemma proposers_agree g st1 st2 c : st1 = st2 -> prepare g true st1 c = prepare g true st2 c.
Proof. intros ->. reflexivity. Qed.

(* ---------------------------------------------------------------------------------------- *)
(* no panic                                                                                  *)
(* ---------------------------------------------------------------------------------------- *)
Lemma recover_guarded g v x : g_sig g = true -> recover g v x <> RPanic.
Proof.
  intros G. unfold recover. rewrite G.
  destruct (blen (x_sigA x) <? 64); [discriminate|].
  destruct (v_aok v); cbn [negb]; [|discriminate].
  destruct (blen (x_sigB x) <? 64); [discriminate|].
  destruct (v_addr v); discriminate.
Qed.

Lemma init_step_guarded g st v : g_sig g = true -> init_step g st v <> None.
Proof.
  intros G. unfold init_step.
  destruct (v_flag v =? 2); cbn [negb]; [|discriminate].
  destruct (v_ext v) as [x|]; [|discriminate].
  destruct (0 <? blen (x_sigA x)); [|discriminate].
  pose proof (recover_guarded g v x G) as R. destruct (recover g v x); [congruence | discriminate |].
  destruct (v_op v); [|discriminate]. destruct (lookup String.eqb s (s_evm st)); discriminate.
Qed.

Lemma check_initial_guarded g st vs : g_sig g = true -> check_initial g st vs <> None.
Proof.
  intros G. induction vs as [|v r IH]; cbn [check_initial]; [discriminate|].
  pose proof (init_step_guarded g st v G) as S. destruct (init_step g st v); [|congruence].
  destruct (check_initial g st r); [discriminate | congruence].
Qed.

Lemma check_all_guarded g st vs : g_sig g = true -> check_all g st vs <> None.
Proof.
  intros G. unfold check_all. pose proof (check_initial_guarded g st vs G) as C.
  destruct (check_initial g st vs); [discriminate | congruence].
Qed.

Lemma no_panic_repaired g tbl en st c p :
  g_len g = true -> g_sig g = true ->
  prepare g en st c <> PPanic /\ process g en st p <> PANIC /\ pre_block g tbl en st p <> PHalt.
Proof.
  intros GL GS. repeat split.
  - unfold prepare. destruct en; cbn [negb]; [|discriminate].
    pose proof (check_all_guarded g st (c_votes c) GS) as C. destruct (check_all g st (c_votes c)); [discriminate|congruence].
  - unfold process. destruct en; cbn [negb]; [|discriminate].
    destruct p as [| |l cm]; [rewrite GL; discriminate | discriminate |].
    destruct (c_valid cm); cbn [negb]; [|discriminate].
    pose proof (check_all_guarded g st (c_votes cm) GS) as C. destruct (check_all g st (c_votes cm)); [|congruence].
    destruct (itx_eqb i l); discriminate.
  - unfold pre_block. destruct p as [| |l cm]; [discriminate | destruct en; discriminate |].
    destruct en; cbn [negb]; [|discriminate]. rewrite GL. destruct (lists_aligned l); discriminate.
Qed.

Lemma verify_total ext has_evm nreq : verify_ext ext has_evm nreq <> PANIC.
Proof.
  unfold verify_ext. destruct ext as [x|]; [|destruct has_evm; discriminate].
  destruct (match nreq with None => _ | Some k => _ end); [discriminate|].
  destruct (_ || _); [discriminate|]. destruct (65 <? blen (x_vsig x)); discriminate.
Qed.

Lemma nil_or_length {A} (l : list A) : List.length (olist (nil_or l)) = List.length l.
Proof. destruct l; reflexivity. Qed.

Lemma lists_of_aligned i s a : lists_aligned (lists_of i s a) = true.
Proof.
  unfold lists_aligned, lists_of, samelen. cbn [t_ops t_evms t_vops t_vts t_vsigs t_aops t_atts t_snaps olist].
  rewrite !olist_nil_or, !map_length, !Nat.eqb_refl. reflexivity.
Qed.

Lemma aligned_not_short l : lists_aligned l = true -> lists_short l = false.
Proof.
  unfold lists_aligned, lists_short, samelen, shorter. intros H.
  repeat (apply andb_prop in H; let H2 := fresh "H" in destruct H as [H H2]).
  apply Nat.eqb_eq in H, H0, H1, H2, H3. rewrite H, H0, H1, H2, H3, !Nat.ltb_irrefl. reflexivity.
Qed.

Lemma accepted_aligned g st l c : process g true st (Tx l c) = ACCEPT -> lists_aligned l = true.
Proof.
  intros H. apply accept_only_signed in H. destruct H as [_ H]. unfold check_all in H.
  destruct (check_initial g st (c_votes c)); [|discriminate]. inversion H. apply lists_of_aligned.
Qed.

Lemma no_panic_on_accepted g tbl st p :
  process g true st p = ACCEPT -> pre_block g tbl true st p <> PHalt.
Proof.
  intros H. destruct p as [| |l c]; [discriminate | discriminate |].
  pose proof (accepted_aligned g st l c H) as A. unfold pre_block. cbn [negb].
  rewrite A, (aligned_not_short l A). destruct (g_len g); discriminate.
Qed.

(* witnesses of the two panics of the code as found *)
Definition st0 : bstate :=
  {| s_evm := []; s_vsigs := []; s_tsidx := []; s_idxts := []; s_valsets := []; s_cur := None; s_atts := []; s_snapvs := [] |}.
Definition itx0 : itx :=
  {| t_ops := Some []; t_evms := Some []; t_vops := None; t_vts := None; t_vsigs := None; t_aops := None; t_atts := None; t_snaps := None |}.
Definition c_empty : commit := {| c_votes := []; c_valid := false |}.

Lemma malformed_panics :
  process as_found true st0 NoTx = PANIC /\
  pre_block as_found [] true st0
    (Tx {| t_ops := None; t_evms := None; t_vops := Some ["x"]; t_vts := None; t_vsigs := None;
           t_aops := None; t_atts := None; t_snaps := None |} c_empty) = PHalt.
Proof. split; reflexivity. Qed.

(* a validly signed commit with one vote whose SignatureA has one byte *)
Definition short_vote : vote :=
  {| v_flag := 2; v_ext := Some {| x_atts := []; x_sigA := Some 0x0101; x_sigB := None; x_vsig := None; x_vts := 0 |};
     v_op := Some "o1"; v_aok := false; v_addr := None |}.
Definition short_commit : commit := {| c_votes := [short_vote]; c_valid := true |}.

Lemma short_signature_panics :
  c_valid short_commit = true /\
  prepare as_found true st0 short_commit = PPanic /\
  (forall l, process as_found true st0 (Tx l short_commit) = PANIC).
Proof. repeat split. Qed.

(* ---------------------------------------------------------------------------------------- *)
(* maps                                                                                      *)
(* ---------------------------------------------------------------------------------------- *)
Section Maps.
  Context {K V : Type} (e : K -> K -> bool) (He : eqb_ok e).

  Lemma eqb_refl_ok k : e k k = true.
  Proof. apply He. reflexivity. Qed.
  Lemma eqb_false_ok k k' : k <> k' -> e k k' = false.
  Proof. intros N. destruct (e k k') eqn:E; [apply He in E; contradiction | reflexivity]. Qed.

  Lemma lookup_update_same k (v : V) m : lookup e k (update e k v m) = Some v.
  Proof.
    induction m as [|[k0 v0] r IH]; cbn.
    - rewrite eqb_refl_ok. reflexivity.
    - destruct (e k k0) eqn:E; cbn; [rewrite eqb_refl_ok; reflexivity | rewrite E; exact IH].
  Qed.

  Lemma lookup_update_other k k' (v : V) m : k <> k' -> lookup e k (update e k' v m) = lookup e k m.
  Proof.
    intros N. induction m as [|[k0 v0] r IH]; cbn.
    - rewrite (eqb_false_ok k k' N). reflexivity.
    - destruct (e k' k0) eqn:E; cbn.
      + apply He in E. subst k0. rewrite (eqb_false_ok k k' N). reflexivity.
      + rewrite IH. reflexivity.
  Qed.
End Maps.

Lemma set_where_length own : forall vs v arr, List.length (set_where own vs v arr) = List.length arr.
Proof.
  induction vs as [|e vs IH]; intros v arr; destruct arr as [|a arr]; cbn; try reflexivity.
  rewrite IH. reflexivity.
Qed.

Lemma set_where_nth own : forall vs v arr i,
  nth_error (set_where own vs v arr) i <> nth_error arr i ->
  nth_error vs i = Some own /\ nth_error (set_where own vs v arr) i = Some v.
Proof.
  induction vs as [|e vs IH]; intros v arr i N.
  - exfalso. apply N. destruct arr; reflexivity.
  - destruct arr as [|a arr]; [exfalso; apply N; reflexivity|].
    destruct i as [|i]; cbn in *.
    + destruct (Z.eqb e own) eqn:E; [|exfalso; apply N; reflexivity].
      apply Z.eqb_eq in E. subst. split; reflexivity.
    + apply IH. exact N.
Qed.

(* a map of arrays all of whose differences from [m0] are explained by [P key slot value] *)
Section ArrMap.
  Context {K : Type} (e : K -> K -> bool) (He : eqb_ok e).

  Definition changed (m0 m : list (K * list hex)) (P : K -> nat -> hex -> Prop) : Prop :=
    forall k arr', lookup e k m = Some arr' ->
      exists arr, lookup e k m0 = Some arr /\ List.length arr' = List.length arr /\
        forall i, nth_error arr' i <> nth_error arr i -> exists b, nth_error arr' i = Some b /\ P k i b.

  Lemma changed_refl m0 P : changed m0 m0 P.
  Proof. intros k arr' L. exists arr'. repeat split; [exact L|]. intros i N. contradiction. Qed.

  Lemma changed_weaken m0 m (P P' : K -> nat -> hex -> Prop) :
    (forall k i b, P k i b -> P' k i b) -> changed m0 m P -> changed m0 m P'.
  Proof.
    intros W C k arr' L. destruct (C k arr' L) as [arr [L0 [Len D]]]. exists arr. repeat split; auto.
    intros i N. destruct (D i N) as [b [Eb Pb]]. exists b. split; auto.
  Qed.

  Lemma changed_step m0 m (P : K -> nat -> hex -> Prop) k own vs b arr1 :
    changed m0 m P -> lookup e k m = Some arr1 ->
    (forall i, nth_error vs i = Some own -> P k i b) ->
    changed m0 (update e k (set_where own vs b arr1) m) P.
  Proof.
    intros C L1 Pk k' arr' L.
    destruct (He k' k) as [_ Hd].
    destruct (e k' k) eqn:E.
    - apply He in E. subst k'. rewrite (lookup_update_same e He) in L. inversion L; subst arr'. clear L.
      destruct (C k arr1 L1) as [arr [L0 [Len D]]]. exists arr. repeat split; [exact L0 | rewrite set_where_length; exact Len |].
      intros i N.
      assert (Dec : nth_error (set_where own vs b arr1) i = nth_error arr1 i \/ nth_error (set_where own vs b arr1) i <> nth_error arr1 i).
      { destruct (nth_error (set_where own vs b arr1) i) as [x|], (nth_error arr1 i) as [y|]; try (right; discriminate); try (left; reflexivity).
        destruct (Z.eq_dec x y) as [->|Nx]; [left; reflexivity | right; congruence]. }
      destruct Dec as [Same|Diff].
      + rewrite Same in *. apply D. exact N.
      + destruct (set_where_nth own vs b arr1 i Diff) as [Own Val]. exists b. split; [exact Val | apply Pk; exact Own].
    - assert (N : k' <> k) by (intros ->; rewrite (eqb_refl_ok e He) in E; discriminate).
      rewrite (lookup_update_other e He _ _ _ _ N) in L. apply C. exact L.
  Qed.
End ArrMap.

(* ---------------------------------------------------------------------------------------- *)
(* the three loops of the PreBlocker                                                         *)
(* ---------------------------------------------------------------------------------------- *)
Definition frame (a b : bstate) : Prop :=
  s_tsidx a = s_tsidx b /\ s_idxts a = s_idxts b /\ s_valsets a = s_valsets b /\ s_cur a = s_cur b /\ s_snapvs a = s_snapvs b.

Lemma frame_refl a : frame a a.
Proof. repeat split. Qed.
Lemma frame_trans a b c : frame a b -> frame b c -> frame a c.
Proof. unfold frame. intros [? [? [? [? ?]]]] [? [? [? [? ?]]]]. repeat split; congruence. Qed.

Lemma prev_valset_frame a b ts : frame a b -> prev_valset a ts = prev_valset b ts.
Proof. intros [F1 [F2 [F3 _]]]. unfold prev_valset. rewrite F1, F2, F3. reflexivity. Qed.
Lemma slot_valset_frame g a b s : frame a b -> slot_valset g a s = slot_valset g b s.
Proof. intros [_ [_ [_ [F4 F5]]]]. unfold slot_valset. rewrite F4, F5. reflexivity. Qed.

(* -- registrations -- *)
Lemma reg_fold tbl : forall i st,
  let st' := fold_left (reg_step tbl) i st in
  frame st st' /\ s_vsigs st' = s_vsigs st /\ s_atts st' = s_atts st /\
  (forall o, ~ In o (map fst i) -> lookup String.eqb o (s_evm st') = lookup String.eqb o (s_evm st)) /\
  (forall o a, lookup String.eqb o (s_evm st') = Some a ->
     lookup String.eqb o (s_evm st) = Some a \/ exists addr, In (o, addr) i /\ parse tbl addr = a).
Proof.
  induction i as [|[o0 a0] r IH]; intros st; cbv zeta; cbn [fold_left].
  - repeat split; auto.
  - specialize (IH (reg_step tbl st (o0, a0))). cbv zeta in IH. destruct IH as [F [V [A [R1 R2]]]].
    refine (conj _ (conj _ (conj _ (conj _ _)))).
    + eapply frame_trans; [|exact F]. repeat split.
    + rewrite V. reflexivity.
    + rewrite A. reflexivity.
    + intros o N. cbn [map fst In] in N. rewrite R1 by tauto.
      unfold reg_step. cbn [s_evm with_evm fst snd]. apply (lookup_update_other _ string_eqb_ok). intros ->. apply N. left. reflexivity.
    + intros o a L. destruct (R2 o a L) as [L1|[addr [I P]]].
      * unfold reg_step in L1. cbn [s_evm with_evm fst snd] in L1.
        destruct (String.eqb o o0) eqn:E.
        -- apply String.eqb_eq in E. subst o0. rewrite (lookup_update_same _ string_eqb_ok) in L1. inversion L1.
           right. exists a0. split; [left; reflexivity | reflexivity].
        -- assert (N : o <> o0) by (intros ->; rewrite String.eqb_refl in E; discriminate).
           rewrite (lookup_update_other _ string_eqb_ok _ _ _ _ N) in L1. left. exact L1.
      * right. exists addr. split; [right; exact I | exact P].
Qed.

(* -- validator-set signatures -- *)
Definition vsig_expl (st0 : bstate) (L : list (string * Z * sigstr)) (ts : Z) (i : nat) (b : hex) : Prop :=
  exists o t sg e pv, In (o, t, sg) L /\ to_uint64 t = ts /\ hex_decode sg = Some b /\
    lookup String.eqb o (s_evm st0) = Some e /\ prev_valset st0 ts = Some pv /\ nth_error pv i = Some e.

Definition vs_inv (st0 : bstate) (L : list (string * Z * sigstr)) (st : bstate) : Prop :=
  s_evm st = s_evm st0 /\ s_atts st = s_atts st0 /\ frame st0 st /\
  changed Z.eqb (s_vsigs st0) (s_vsigs st) (vsig_expl st0 L).

Lemma vsig_expl_mono st0 L L' ts i b : (forall p, In p L -> In p L') -> vsig_expl st0 L ts i b -> vsig_expl st0 L' ts i b.
Proof. intros S [o [t [sg [e [pv [I R]]]]]]. exists o, t, sg, e, pv. split; [apply S; exact I | exact R]. Qed.

Lemma vs_step st0 L st p : vs_inv st0 L st -> vs_inv st0 (L ++ [p]) (vsig_apply st p).
Proof.
  intros [E [A [F C]]]. destruct p as [[o t] sg].
  assert (Mono : changed Z.eqb (s_vsigs st0) (s_vsigs st) (vsig_expl st0 (L ++ [(o, t, sg)]))).
  { eapply changed_weaken; [|exact C]. intros k i b. apply vsig_expl_mono. intros q Iq. apply in_or_app. left. exact Iq. }
  unfold vsig_apply, set_vsig. cbn [fst3 snd3 thd3 fst snd].
  destruct (lookup Z.eqb (to_uint64 t) (s_vsigs st)) as [arr1|] eqn:L1; [|exact (conj E (conj A (conj F Mono)))].
  destruct (lookup String.eqb o (s_evm st)) as [e|] eqn:L2; [|exact (conj E (conj A (conj F Mono)))].
  destruct (prev_valset st (to_uint64 t)) as [pv|] eqn:L3; [|exact (conj E (conj A (conj F Mono)))].
  destruct (hex_decode sg) as [b|] eqn:L4; [|exact (conj E (conj A (conj F Mono)))].
  refine (conj E (conj A (conj F _))).
  cbn [s_vsigs with_vsigs]. apply (changed_step Z.eqb Z_eqb_ok); [exact Mono | exact L1 |].
  intros i Own. exists o, t, sg, e, pv. rewrite E in L2. rewrite <- (prev_valset_frame st0 st _ F) in L3.
  repeat split; auto. apply in_or_app. right. left. reflexivity.
Qed.

Lemma vs_fold st0 : forall s L st, vs_inv st0 L st -> vs_inv st0 (L ++ s) (fold_left vsig_apply s st).
Proof.
  induction s as [|p r IH]; intros L st I; cbn [fold_left].
  - rewrite app_nil_r. exact I.
  - replace (L ++ p :: r) with ((L ++ [p]) ++ r) by (rewrite <- app_assoc; reflexivity).
    apply IH. apply vs_step. exact I.
Qed.

(* -- attestations -- *)
Definition att_expl (g : variant) (st0 : bstate) (L : list (string * obytes * obytes)) (s : hex) (i : nat) (b : hex) : Prop :=
  exists o sn sg e sv, In (o, sn, sg) L /\ bkey sn = s /\ bkey sg = b /\
    lookup String.eqb o (s_evm st0) = Some e /\ slot_valset g st0 s = Some sv /\ nth_error sv i = Some e.

Definition at_inv (g : variant) (st0 : bstate) (L : list (string * obytes * obytes)) (st : bstate) : Prop :=
  s_evm st = s_evm st0 /\ s_vsigs st = s_vsigs st0 /\ frame st0 st /\
  changed Z.eqb (s_atts st0) (s_atts st) (att_expl g st0 L).

Lemma att_expl_mono g st0 L L' s i b : (forall p, In p L -> In p L') -> att_expl g st0 L s i b -> att_expl g st0 L' s i b.
Proof. intros S [o [sn [sg [e [sv [I R]]]]]]. exists o, sn, sg, e, sv. split; [apply S; exact I | exact R]. Qed.

Lemma at_step g st0 L st p : at_inv g st0 L st -> at_inv g st0 (L ++ [p]) (att_apply g st p).
Proof.
  intros [E [V [F C]]]. destruct p as [[o sn] sg].
  assert (Mono : changed Z.eqb (s_atts st0) (s_atts st) (att_expl g st0 (L ++ [(o, sn, sg)]))).
  { eapply changed_weaken; [|exact C]. intros k i b. apply att_expl_mono. intros q Iq. apply in_or_app. left. exact Iq. }
  unfold att_apply, set_att. cbn [fst3 snd3 thd3 fst snd].
  destruct (lookup String.eqb o (s_evm st)) as [e|] eqn:L2; [|exact (conj E (conj V (conj F Mono)))].
  destruct (slot_valset g st (bkey sn)) as [sv|] eqn:L3; [|exact (conj E (conj V (conj F Mono)))].
  destruct (lookup Z.eqb (bkey sn) (s_atts st)) as [arr1|] eqn:L1; [|exact (conj E (conj V (conj F Mono)))].
  refine (conj E (conj V (conj F _))).
  cbn [s_atts with_atts]. apply (changed_step Z.eqb Z_eqb_ok); [exact Mono | exact L1 |].
  intros i Own. exists o, sn, sg, e, sv. rewrite E in L2. rewrite <- (slot_valset_frame g st0 st _ F) in L3.
  repeat split; auto. apply in_or_app. right. left. reflexivity.
Qed.

Lemma at_fold g st0 : forall s L st, at_inv g st0 L st -> at_inv g st0 (L ++ s) (fold_left (att_apply g) s st).
Proof.
  induction s as [|p r IH]; intros L st I; cbn [fold_left].
  - rewrite app_nil_r. exact I.
  - replace (L ++ p :: r) with ((L ++ [p]) ++ r) by (rewrite <- app_assoc; reflexivity).
    apply IH. apply at_step. exact I.
Qed.

(* -- the lists of an accepted proposal are applied element by element -- *)
Lemma combine_fst_snd {A B} (l : list (A * B)) : combine (map fst l) (map snd l) = l.
Proof. induction l as [|[a b] r IH]; cbn; [reflexivity | rewrite IH; reflexivity]. Qed.
Lemma zip3_proj {A B C} (l : list (A * B * C)) : zip3 (map fst3 l) (map snd3 l) (map thd3 l) = l.
Proof. induction l as [|[[a b] c] r IH]; cbn; [reflexivity | rewrite IH; reflexivity]. Qed.

Lemma apply_lists_of g tbl st i s a :
  apply_lists g tbl st (lists_of i s a) =
  fold_left (att_apply g) a (fold_left vsig_apply s (fold_left (reg_step tbl) i st)).
Proof.
  unfold apply_lists, lists_of. cbn [t_ops t_evms t_vops t_vts t_vsigs t_aops t_atts t_snaps olist].
  rewrite !olist_nil_or, combine_fst_snd, !zip3_proj. reflexivity.
Qed.

Lemma uint64_roundtrip z : 0 <= z < two64 -> to_uint64 (to_int64 z) = z.
Proof.
  intros R. unfold to_uint64, to_int64, two63, two64 in *.
  destruct (z <? 9223372036854775808) eqn:E.
  - apply Z.ltb_lt in E. destruct (z <? 0) eqn:E2; [apply Z.ltb_lt in E2; lia | reflexivity].
  - apply Z.ltb_ge in E. destruct (z - 18446744073709551616 <? 0) eqn:E2; [lia | apply Z.ltb_ge in E2; lia].
Qed.

(* what the state holds after the PreBlocker ran on an accepted proposal *)
Definition reg_kept_P (st st' : bstate) : Prop :=
  forall o a, lookup String.eqb o (s_evm st) = Some a -> lookup String.eqb o (s_evm st') = Some a.
Definition reg_signed_P (g : variant) (tbl : list (string * hex)) (c : commit) (st st' : bstate) : Prop :=
  forall o a, lookup String.eqb o (s_evm st) = None -> lookup String.eqb o (s_evm st') = Some a ->
    exists v x addr, commit_vote (c_votes c) v x o /\ 0 < blen (x_sigA x) /\ recover g v x = ROk addr /\ parse tbl addr = a.
(* slot [i] of the signature array of checkpoint [ts] holds [b] *)
Definition vsig_owner (c : commit) (st st' : bstate) (ts : Z) (i : nat) (b : hex) : Prop :=
  exists v x o e pv, commit_vote (c_votes c) v x o /\ 0 < blen (x_vsig x) /\ to_uint64 (to_int64 (x_vts x)) = ts /\
    bkey (x_vsig x) = b /\ lookup String.eqb o (s_evm st') = Some e /\ prev_valset st ts = Some pv /\ nth_error pv i = Some e.
Definition att_owner (g : variant) (c : commit) (st st' : bstate) (s : hex) (i : nat) (b : hex) : Prop :=
  exists v x o a e sv, commit_vote (c_votes c) v x o /\ In a (x_atts x) /\ bkey (a_snap a) = s /\ bkey (a_sig a) = b /\
    lookup String.eqb o (s_evm st') = Some e /\ slot_valset g st s = Some sv /\ nth_error sv i = Some e.

Lemma preblock_exact g tbl st l c st' :
  process g true st (Tx l c) = ACCEPT -> pre_block g tbl true st (Tx l c) = POk st' ->
  frame st st' /\ reg_kept_P st st' /\ reg_signed_P g tbl c st st' /\
  changed Z.eqb (s_vsigs st) (s_vsigs st') (vsig_owner c st st') /\
  changed Z.eqb (s_atts st) (s_atts st') (att_owner g c st st').
Proof.
  intros Acc Pre. pose proof (accepted_aligned g st l c Acc) as Al.
  apply accept_only_signed in Acc. destruct Acc as [_ Chk]. unfold check_all in Chk.
  destruct (check_initial g st (c_votes c)) as [i|] eqn:Ci; [|discriminate]. inversion Chk; subst l. clear Chk.
  assert (St : st' = apply_lists g tbl st (lists_of i (check_valset (c_votes c)) (check_atts (c_votes c)))).
  { unfold pre_block in Pre. cbn [negb] in Pre. rewrite Al, (aligned_not_short _ Al) in Pre. destruct (g_len g); inversion Pre; reflexivity. }
  rewrite apply_lists_of in St.
  set (st1 := fold_left (reg_step tbl) i st) in *.
  set (st2 := fold_left vsig_apply (check_valset (c_votes c)) st1) in *.
  destruct (reg_fold tbl i st) as [F1 [V1 [A1 [R1 R2]]]]. fold st1 in F1, V1, A1, R1, R2.
  pose proof (vs_fold st1 (check_valset (c_votes c)) [] st1) as VS. cbn [app] in VS. fold st2 in VS.
  destruct VS as [E2 [A2 [F2 C2]]].
  { repeat split. apply changed_refl. }
  pose proof (at_fold g st2 (check_atts (c_votes c)) [] st2) as AT. cbn [app] in AT. rewrite <- St in AT.
  destruct AT as [E3 [V3 [F3 C3]]].
  { repeat split. apply changed_refl. }
  assert (Evm : s_evm st' = s_evm st1) by congruence.
  assert (Kept : reg_kept_P st st').
  { intros o a L. rewrite Evm, R1; [exact L|]. intros I. apply in_map_iff in I. destruct I as [[o' a'] [Eo I]]. cbn in Eo. subst o'.
    destruct (check_initial_in g st _ _ _ _ Ci I) as [v [x [_ [_ [_ K]]]]]. congruence. }
  repeat split.
  - destruct F1 as [? [? [? [? ?]]]], F2 as [? [? [? [? ?]]]], F3 as [? [? [? [? ?]]]]. congruence.
  - destruct F1 as [? [? [? [? ?]]]], F2 as [? [? [? [? ?]]]], F3 as [? [? [? [? ?]]]]. congruence.
  - destruct F1 as [? [? [? [? ?]]]], F2 as [? [? [? [? ?]]]], F3 as [? [? [? [? ?]]]]. congruence.
  - destruct F1 as [? [? [? [? ?]]]], F2 as [? [? [? [? ?]]]], F3 as [? [? [? [? ?]]]]. congruence.
  - destruct F1 as [? [? [? [? ?]]]], F2 as [? [? [? [? ?]]]], F3 as [? [? [? [? ?]]]]. congruence.
  - exact Kept.
  - intros o a L0 L'. rewrite Evm in L'. destruct (R2 o a L') as [L1|[addr [I P]]]; [congruence|].
    destruct (check_initial_in g st _ _ _ _ Ci I) as [v [x [CV [Ls [R _]]]]]. exists v, x, addr. exact (conj CV (conj Ls (conj R P))).
  - rewrite V3, <- V1. eapply changed_weaken; [|exact C2].
    intros ts k b [o [t [sg [e [pv [I [T [D [Le [Pv Nth]]]]]]]]]].
    apply check_valset_in in I. destruct I as [v [x [CV [Ls [-> ->]]]]]. cbn [hex_decode] in D. inversion D; subst b.
    exists v, x, o, e, pv. rewrite Evm. rewrite <- (prev_valset_frame st st1 ts F1) in Pv.
    exact (conj CV (conj Ls (conj T (conj eq_refl (conj Le (conj Pv Nth)))))).
  - rewrite <- A1, <- A2. eapply changed_weaken; [|exact C3].
    intros s k b [o [sn [sg [e [sv [I [Ks [Kb [Le [Sv Nth]]]]]]]]]].
    apply check_atts_in in I. destruct I as [v [x [a [CV [Ia [-> ->]]]]]].
    exists v, x, o, a, e, sv. rewrite Evm, <- E2.
    rewrite <- (slot_valset_frame g st st2 s (frame_trans _ _ _ F1 F2)) in Sv.
    exact (conj CV (conj Ia (conj Ks (conj Kb (conj Le (conj Sv Nth)))))).
Qed.

Lemma slot_valset_repaired g st s : g_slot g = true -> slot_valset g st s = lookup Z.eqb s (s_snapvs st).
Proof. intros G. unfold slot_valset. rewrite G. reflexivity. Qed.
Lemma slot_valset_found g st s : g_slot g = false -> slot_valset g st s = s_cur st.
Proof. intros G. unfold slot_valset. rewrite G. reflexivity. Qed.

(* ---------------------------------------------------------------------------------------- *)
(* witnesses: F42 (slot taken from the current validator set) and F28 (shared EVM address)   *)
(* ---------------------------------------------------------------------------------------- *)
Definition e0 : hex := 0x0110.
Definition e1 : hex := 0x0111.
Definition snapS : hex := 0x0151.
Definition st42 : bstate :=
  {| s_evm := [("o0", e0); ("o1", e1)]; s_vsigs := []; s_tsidx := []; s_idxts := []; s_valsets := [];
     s_cur := Some [e1; e0];                      (* the two validators swapped their order ... *)
     s_atts := [(snapS, [1; 0x01b1])];            (* validator 1 has attested already: slot 1 of the snapshot's set *)
     s_snapvs := [(snapS, [e0; e1])] |}.          (* ... after the snapshot was taken *)
Definition v42 : vote :=
  {| v_flag := 2;
     v_ext := Some {| x_atts := [{| a_snap := Some snapS; a_sig := Some 0x01a0 |}]; x_sigA := None; x_sigB := None; x_vsig := None; x_vts := 0 |};
     v_op := Some "o0"; v_aok := false; v_addr := None |}.
Definition c42 : commit := {| c_votes := [v42]; c_valid := true |}.

Lemma attestation_slot_refuted :
  exists l st',
    prepare as_found true st42 c42 = PInj l /\ process as_found true st42 (Tx l c42) = ACCEPT /\
    pre_block as_found [] true st42 (Tx l c42) = POk st' /\
    lookup Z.eqb snapS (s_atts st') = Some [1; 0x01a0] /\      (* validator 0's attestation sits in validator 1's slot *)
    ~ changed Z.eqb (s_atts st42) (s_atts st') (att_owner repaired c42 st42 st').
Proof.
  eexists. eexists. split; [vm_compute; reflexivity|]. split; [vm_compute; reflexivity|].
  split; [vm_compute; reflexivity|]. split; [vm_compute; reflexivity|].
  intros C. specialize (C snapS [1; 0x01a0] eq_refl). destruct C as [arr [L0 [_ D]]].
  vm_compute in L0. inversion L0; subst arr. specialize (D 1%nat).
  destruct D as [b [_ [v [x [o [a [e [sv [[Iv [_ [Ex Ox]]] [Ia [Ks [Kb [Le [Sv Nth]]]]]]]]]]]]]].
  { cbn. discriminate. }
  destruct Iv as [<-|[]]. cbn in Ox. inversion Ox; subst o. vm_compute in Le. inversion Le; subst e.
  vm_compute in Sv. inversion Sv; subst sv. cbn in Nth. discriminate.
Qed.

Definition v28 (o : string) : vote :=
  {| v_flag := 2;
     v_ext := Some {| x_atts := []; x_sigA := Some (2 ^ 512); x_sigB := Some (2 ^ 512); x_vsig := None; x_vts := 0 |};
     v_op := Some o; v_aok := true; v_addr := Some "a0" |}.     (* both extensions carry the same two signatures *)
Definition c28 : commit := {| c_votes := [v28 "o0"; v28 "o1"]; c_valid := true |}.

Lemma evm_address_shared_refuted :
  exists l st',
    prepare as_found true st0 c28 = PInj l /\ process as_found true st0 (Tx l c28) = ACCEPT /\
    pre_block as_found [("a0", 0x01aa)] true st0 (Tx l c28) = POk st' /\
    lookup String.eqb "o0" (s_evm st') = Some 0x01aa /\ lookup String.eqb "o1" (s_evm st') = Some 0x01aa.
Proof.
  eexists. eexists. repeat split; vm_compute; reflexivity.
Qed.

(* ---------------------------------------------------------------------------------------- *)
(* soundness of the executable specification used by c17_check                                *)
(* ---------------------------------------------------------------------------------------- *)
Lemma flat_map_nil {A B} (f : A -> list B) (l : list A) : flat_map f l = [] -> forall x, In x l -> f x = [].
Proof.
  induction l as [|a r IH]; cbn; intros H x I; [contradiction|].
  apply app_nil_both in H. destruct H as [H1 H2]. destruct I as [<-|I]; [exact H1 | apply IH; assumption].
Qed.

Lemma verdict_eqb_ok : eqb_ok verdict_eqb.
Proof. intros [] []; cbn; split; intros H; try discriminate; reflexivity. Qed.

(* what an empty issue list says about one run of ProcessProposalHandler / PreBlocker *)
Definition mutant_ok (en : bool) (st : bstate) (m : mutant) : Prop :=
  m_verdict m <> PANIC /\ m_pre m <> Some QHalt /\
  (en = true -> m_verdict m = ACCEPT ->
     exists l c, m_prop m = Tx l c /\ c_valid c = true /\ expected st c = Some l).

Lemma spec_mutant_sound b en tbl st m : spec_mutant b en tbl st m = [] -> mutant_ok en st m.
Proof.
  unfold spec_mutant. intros H. apply app_nil_both in H. destruct H as [H1 H]. apply app_nil_both in H. destruct H as [H2 H3].
  assert (NP : m_verdict m <> PANIC).
  { intros E. rewrite E in H1. cbn in H1. unfold panic_process in H1.
    destruct (m_prop m); [discriminate | destruct (existsb _ _); discriminate | destruct (existsb _ _); discriminate]. }
  split; [exact NP|]. split.
  { intros E. rewrite E in H2. unfold panic_preblock in H2. destruct (prop_malformed (m_prop m)); discriminate. }
  intros En Acc. subst en. rewrite Acc in H3. cbn [negb verdict_eqb] in H3.
  destruct (m_prop m) as [| |l c]; [cbn in H3; discriminate | cbn in H3; discriminate |].
  exists l, c. split; [reflexivity|].
  apply app_nil_both in H3. destruct H3 as [_ H3]. apply app_nil_both in H3. destruct H3 as [H3 _].
  apply spec_if_nil in H3. apply andb_prop in H3. destruct H3 as [V X]. split; [exact V|].
  destruct (expected st c) as [l'|]; cbn in X; [|discriminate]. apply itx_eqb_ok in X. congruence.
Qed.

(* the implementation outputs recorded in a case *)
Definition case_ok (c : c17_case) : Prop :=
  match c with
  | CPipe en tbl st cm prep main muts =>
      prep <> PPanic /\
      (forall l, en = true -> prep = PInj l -> expected st cm = Some l) /\
      (forall m, main = Some m -> mutant_ok en st m /\
                 (en = true -> c_valid (match m_prop m with Tx _ c => c | _ => cm end) = true ->
                  (exists l c, m_prop m = Tx l c) -> m_verdict m = ACCEPT)) /\
      (forall m, In m muts -> mutant_ok en st m)
  | CArb en tbl st m => mutant_ok en st m
  | CPeer en tbl st cm preps runs =>
      (forall prep, In prep preps -> prep <> PPanic /\
         (forall l, en = true -> prep = PInj l -> expected st cm = Some l /\ attributed (c_votes cm) l = true)) /\
      (forall p q, In p preps -> In q preps -> p = q) /\
      (forall m, In m runs -> mutant_ok en st m /\
         (forall l c, en = true -> m_prop m = Tx l c -> c_valid c = true -> expected st c = Some l -> m_verdict m = ACCEPT))
  | CVerify ext has_evm nreq v => v <> PANIC
  end.

Lemma prep_eqb_eq a b : prep_eqb a b = true -> a = b.
Proof.
  destruct a as [| |x], b as [| |y]; cbn; intros H; try discriminate; try reflexivity.
  f_equal. apply itx_eqb_ok. exact H.
Qed.

Lemma preps_agree_eq preps : preps_agree preps = true -> forall p q, In p preps -> In q preps -> p = q.
Proof.
  destruct preps as [|h r]; cbn [preps_agree]; intros H p q Ip Iq; [contradiction|].
  rewrite forallb_forall in H.
  assert (E : forall x, In x (h :: r) -> x = h).
  { intros x [<-|I]; [reflexivity|]. symmetry. apply prep_eqb_eq. apply H. exact I. }
  rewrite (E p Ip), (E q Iq). reflexivity.
Qed.

Lemma spec_prep_sound en st cm prep : spec_prep en st cm prep = [] ->
  prep <> PPanic /\
  (forall l, en = true -> prep = PInj l -> expected st cm = Some l /\ attributed (c_votes cm) l = true).
Proof.
  unfold spec_prep. intros H. split.
  - intros ->. destruct (existsb vote_short_sig (c_votes cm)); discriminate.
  - intros l En ->. subst en. apply app_nil_both in H. destruct H as [H1 H2].
    apply spec_if_nil in H1. apply spec_if_nil in H2. cbn [andb] in H1. split; [|exact H2].
    destruct (expected st cm) as [l'|]; cbn in H1; [|discriminate]. apply itx_eqb_ok in H1. congruence.
Qed.

Lemma c17_check_sound c : c17_check c = [] -> case_ok c.
Proof.
  unfold c17_check. intros H. apply app_nil_both in H. destruct H as [H _].
  destruct c as [en tbl st cm prep main muts | en tbl st m | en tbl st cm preps runs | ext has_evm nreq v];
    cbn [c17_specs case_ok] in *.
  - apply app_nil_both in H. destruct H as [H1 H]. apply app_nil_both in H. destruct H as [H2 H3].
    destruct (spec_prep_sound en st cm prep H1) as [NP EX].
    split; [|split; [|split]].
    + exact NP.
    + intros l En E. exact (proj1 (EX l En E)).
    + intros m ->. split; [apply (spec_mutant_sound true en tbl st m H2)|].
      intros En V [l [c E]]. subst en. unfold spec_mutant in H2. rewrite E in *. cbn [negb] in H2.
      apply app_nil_both in H2. destruct H2 as [P1 H2]. apply app_nil_both in H2. destruct H2 as [_ H2].
      apply app_nil_both in H2. destruct H2 as [H2 _]. apply spec_if_nil in H2. rewrite V in H2. cbn [negb orb] in H2.
      destruct (m_verdict m); [reflexivity | cbn in H2; discriminate |].
      exfalso. revert P1. cbn. unfold panic_process, prop_commit. destruct (existsb vote_short_sig (c_votes c)); discriminate.
    + intros m I. apply (spec_mutant_sound false en tbl st m). apply (flat_map_nil _ _ H3 m I).
  - apply (spec_mutant_sound false en tbl st m H).
  - apply app_nil_both in H. destruct H as [H1 H]. apply app_nil_both in H. destruct H as [H2 H3].
    split; [|split].
    + intros prep I. apply spec_prep_sound. apply (flat_map_nil _ _ H1 prep I).
    + apply preps_agree_eq. apply spec_if_nil in H2. exact H2.
    + intros m I. pose proof (flat_map_nil _ _ H3 m I) as Hm. unfold spec_peer_run in Hm.
      apply app_nil_both in Hm. destruct Hm as [Hc Hs]. split; [apply (spec_mutant_sound false en tbl st m Hs)|].
      intros l c En E V X. subst en. apply spec_if_nil in Hc. rewrite E in Hc. cbn [honest_proposal negb orb] in Hc.
      rewrite V, X in Hc. cbn [andb option_eqb] in Hc.
      assert (R : itx_eqb l l = true) by (apply itx_eqb_ok; reflexivity). rewrite R in Hc. cbn [negb orb] in Hc.
      apply verdict_eqb_ok in Hc. exact Hc.
  - apply app_nil_both in H. destruct H as [H _]. apply spec_if_nil in H. intros ->. discriminate.
Qed.

(* non-vacuity *)
Lemma pipeline_example :
  exists l st', prepare repaired true st42 c42 = PInj l /\ process repaired true st42 (Tx l c42) = ACCEPT /\
                pre_block repaired [] true st42 (Tx l c42) = POk st' /\
                lookup Z.eqb snapS (s_atts st') = Some [0x01a0; 0x01b1].
Proof. eexists. eexists. repeat split; vm_compute; reflexivity. Qed.
Lemma tamper_example : process as_found true st42 (Tx itx0 c42) = REJECT.
Proof. vm_compute. reflexivity. Qed.

(* ---------------------------------------------------------------------------------------- *)
(* two handler instances on one state: non-vacuity of [CPeer] and of its clauses              *)
(* ---------------------------------------------------------------------------------------- *)
(* the consensus key of the only vote belongs to operator "oB" now (it was "oA"'s in earlier blocks; "oA" still
   has its registered address 0xaa in slot 0 of checkpoint 2000's signature array, "oB" is not registered) *)
Definition st_rk : bstate :=
  {| s_evm := [("oA", 0x01aa)]; s_vsigs := [(2000, [1; 1])]; s_tsidx := [(1000, 0); (2000, 1)];
     s_idxts := [(0, 1000); (1, 2000)]; s_valsets := [(1000, [0x01aa; 0x01bb])]; s_cur := None;
     s_atts := []; s_snapvs := [] |}.
Definition c_rk : commit :=
  {| c_votes := [ {| v_flag := 2;
                     v_ext := Some {| x_atts := []; x_sigA := None; x_sigB := None; x_vsig := Some 0x01c0; x_vts := 2000 |};
                     v_op := Some "oB"; v_aok := false; v_addr := None |} ];
     c_valid := true |}.
Definition itx_rk (o : string) : itx :=
  {| t_ops := Some []; t_evms := Some []; t_vops := Some [o]; t_vts := Some [2000]; t_vsigs := Some [SHex 0x01c0];
     t_aops := None; t_atts := None; t_snaps := None |}.
Definition run_rk (o : string) (v : verdict) (pre : option pre_out) : mutant :=
  {| m_prop := Tx (itx_rk o) c_rk; m_verdict := v; m_pre := pre; m_other := true |}.
Definition q_rk (arr : list hex) : option pre_out :=
  Some (QOk {| q_evm := [("oA", 0x01aa)]; q_vsigs := [(2000, arr)]; q_atts := [] |}).
(* both instances resolve the vote from the state *)
Definition peer_honest : c17_case :=
  CPeer true [] st_rk c_rk [PInj (itx_rk "oB"); PInj (itx_rk "oB")]
        [run_rk "oB" ACCEPT (q_rk [1; 1]); run_rk "oB" ACCEPT (q_rk [1; 1])].
(* the first instance resolves the vote to the operator it saw in earlier blocks *)
Definition peer_stale : c17_case :=
  CPeer true [] st_rk c_rk [PInj (itx_rk "oA"); PInj (itx_rk "oB")]
        [run_rk "oA" ACCEPT (q_rk [0x01c0; 1]); run_rk "oA" REJECT None;
         run_rk "oB" REJECT None; run_rk "oB" ACCEPT (q_rk [1; 1])].

Lemma peer_example : prepare as_found true st_rk c_rk = PInj (itx_rk "oB") /\ c17_check peer_honest = [].
Proof. split; vm_compute; reflexivity. Qed.

Lemma stale_operator_flagged :
  c17_check peer_stale =
  [Spec "injected data differs from what the commit's vote extensions contain";
   Spec "attribution: injected data is attributed to another validator than the one that sent it";
   Spec "coherence: two honest proposers on the same state and extended commit built different proposals";
   Spec "tamper: an accepted proposal differs from what its commit's vote extensions contain";
   Spec "state: validator-set signature outside the slot of the validator that sent it";
   Spec "coherence: an honest proposal built on the same state was rejected by an honest validator";
   Diff "PrepareProposalHandler output"; Diff "ProcessProposalHandler verdict"; Diff "ProcessProposalHandler verdict"].
Proof. vm_compute. reflexivity. Qed.
