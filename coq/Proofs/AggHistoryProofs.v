(* C08 — the aggregate store: getters against the chronological list, append-only history with
   strictly increasing timestamps and sequence numbers counting up by one, over all histories of
   round-machine operations and dispute flags. *)
From Coq Require Import ZArith List Bool Lia String Permutation Sorted.
From Verif Require Import Base.Harness Model.OracleRound Model.OracleRoundCheck Model.AggHistory
  Proofs.OracleRoundProofs Proofs.OracleRoundInv.
Import ListNotations.
Open Scope Z_scope.

(* ====================================================================================== *)
(* 1. lookups in a list sorted strictly by a key                                            *)
(* ====================================================================================== *)
Section Lookup.
Variable A : Type.
Variable f : A -> Z.
Definition key_sorted (l : list A) : Prop := StronglySorted (fun a b => f a < f b) l.

Lemma last_opt_cons (x : A) l : last_opt (x :: l) = match last_opt l with Some y => Some y | None => Some x end.
Proof.
  unfold last_opt. cbn [rev]. destruct (rev l) as [|y t]; reflexivity.
Qed.

Lemma last_opt_in (l : list A) y : last_opt l = Some y -> In y l.
Proof.
  unfold last_opt. destruct (rev l) as [|z u] eqn:Er; [discriminate|]. intros E. injection E as <-.
  apply in_rev. rewrite Er. left. reflexivity.
Qed.

Lemma last_opt_none (l : list A) : last_opt l = None -> l = [].
Proof. destruct l as [|x t]; [reflexivity|]. rewrite last_opt_cons. destruct (last_opt t); discriminate. Qed.

(* the last element satisfying p = the one with the greatest key among those satisfying p *)
Lemma last_filter_spec (p : A -> bool) l a : key_sorted l ->
  (last_opt (filter p l) = Some a <-> (In a l /\ p a = true /\ forall b, In b l -> p b = true -> f b <= f a)).
Proof.
  unfold key_sorted. induction 1 as [|x t Hs IH Hx]; [cbn; split; [discriminate | intros [[] _]]|].
  rewrite Forall_forall in Hx. cbn [filter].
  assert (Hl : last_opt (if p x then x :: filter p t else filter p t) =
               match last_opt (filter p t) with Some y => Some y | None => if p x then Some x else None end).
  { destruct (p x); [apply last_opt_cons|]. destruct (last_opt (filter p t)); reflexivity. }
  rewrite Hl. destruct (last_opt (filter p t)) as [y|] eqn:Ey.
  - split.
    + intros E. apply IH in E. destruct E as (H1 & H2 & H3). split; [right; exact H1|]. split; [exact H2|].
      intros b [<-|Hb] Hp; [specialize (Hx _ H1); lia | apply H3; assumption].
    + intros (H1 & H2 & H3). apply IH. destruct H1 as [<-|H1].
      * exfalso. assert (Hy : In y t /\ p y = true) by (apply filter_In; apply last_opt_in; exact Ey).
        destruct Hy as [Hy1 Hy2]. specialize (H3 y (or_intror Hy1) Hy2). specialize (Hx _ Hy1). lia.
      * split; [exact H1|]. split; [exact H2|]. intros b Hb Hp. apply H3; [right; exact Hb | exact Hp].
  - apply last_opt_none in Ey.
    assert (Hnone : forall b, In b t -> p b = true -> False).
    { intros b Hb Hp. assert (In b (filter p t)) by (apply filter_In; auto). rewrite Ey in H. exact H. }
    destruct (p x) eqn:Epx; split.
    + intros E. injection E as <-. split; [left; reflexivity|]. split; [exact Epx|].
      intros b [<-|Hb] Hp; [lia | exfalso; eapply Hnone; eassumption].
    + intros ([<-|H1] & H2 & _); [reflexivity | exfalso; eapply Hnone; eassumption].
    + discriminate.
    + intros ([<-|H1] & H2 & _); [congruence | exfalso; eapply Hnone; eassumption].
Qed.

Lemma last_filter_none (p : A -> bool) l : last_opt (filter p l) = None <-> forall b, In b l -> p b = false.
Proof.
  split.
  - intros E b Hb. apply last_opt_none in E. destruct (p b) eqn:Ep; [|reflexivity].
    assert (In b (filter p l)) by (apply filter_In; auto). rewrite E in H. destruct H.
  - intros H. assert (filter p l = []) as ->; [|reflexivity].
    induction l as [|x t IH]; [reflexivity|]. cbn [filter]. rewrite (H x (or_introl eq_refl)). apply IH. intros b Hb. apply H. right. exact Hb.
Qed.

(* the first element satisfying p = the one with the least key *)
Lemma first_filter_spec (p : A -> bool) l a : key_sorted l ->
  (hd_error (filter p l) = Some a <-> (In a l /\ p a = true /\ forall b, In b l -> p b = true -> f a <= f b)).
Proof.
  unfold key_sorted. induction 1 as [|x t Hs IH Hx]; [cbn; split; [discriminate | intros [[] _]]|].
  rewrite Forall_forall in Hx. cbn [filter]. destruct (p x) eqn:Epx; cbn [hd_error].
  - split.
    + intros E. injection E as <-. split; [left; reflexivity|]. split; [exact Epx|].
      intros b [<-|Hb] _; [lia | specialize (Hx _ Hb); lia].
    + intros ([<-|H1] & H2 & H3); [reflexivity|]. specialize (H3 x (or_introl eq_refl) Epx). specialize (Hx _ H1). lia.
  - rewrite IH. split.
    + intros (H1 & H2 & H3). split; [right; exact H1|]. split; [exact H2|]. intros b [<-|Hb] Hp; [congruence | apply H3; assumption].
    + intros ([<-|H1] & H2 & H3); [congruence|]. split; [exact H1|]. split; [exact H2|]. intros b Hb Hp. apply H3; [right; exact Hb | exact Hp].
Qed.

Lemma first_filter_none (p : A -> bool) l : hd_error (filter p l) = None <-> forall b, In b l -> p b = false.
Proof.
  split.
  - intros E b Hb. destruct (filter p l) eqn:Ef; [|discriminate]. destruct (p b) eqn:Ep; [|reflexivity].
    assert (In b (filter p l)) by (apply filter_In; auto). rewrite Ef in H. destruct H.
  - intros H. assert (filter p l = []) as ->; [|reflexivity].
    induction l as [|x t IH]; [reflexivity|]. cbn [filter]. rewrite (H x (or_introl eq_refl)). apply IH. intros b Hb. apply H. right. exact Hb.
Qed.
End Lookup.

(* ====================================================================================== *)
(* 2. the chronological list of a query                                                     *)
(* ====================================================================================== *)
Lemma hist_in q l a : In a (hist q l) <-> In a l /\ ag_qid a = q.
Proof. unfold hist. rewrite filter_In, Z.eqb_eq. tauto. Qed.

Lemma hist_sorted q l : aggs_sorted l -> key_sorted _ ag_ts (hist q l).
Proof.
  unfold aggs_sorted, ssorted, key_sorted, hist. induction 1 as [|x t Hs IH Hx]; cbn [filter]; [constructor|].
  destruct (ag_qid x =? q) eqn:E; [|exact IH]. constructor; [exact IH|]. apply Z.eqb_eq in E.
  rewrite Forall_forall in *. intros b Hb. apply filter_In in Hb. destruct Hb as [Hb1 Hb2]. apply Z.eqb_eq in Hb2.
  specialize (Hx _ Hb1). apply agg_lt_spec in Hx. lia.
Qed.

Section Getters.
Variables (q : Z) (l : list aggr).
Hypothesis Hs : aggs_sorted l.

Theorem ts_before_spec t x : ts_before q t l = Some x <->
  exists a, In a (hist q l) /\ ag_ts a = x /\ x < t /\ forall b, In b (hist q l) -> ag_ts b < t -> ag_ts b <= x.
Proof.
  unfold ts_before. destruct (last_opt _) as [a|] eqn:E; cbn [option_map].
  - apply (last_filter_spec _ ag_ts) in E; [|apply hist_sorted; exact Hs]. destruct E as (H1 & H2 & H3). apply Z.ltb_lt in H2. split.
    + intros E. injection E as <-. exists a. repeat split; try assumption. intros b Hb Hlt. apply H3; [exact Hb | apply Z.ltb_lt; exact Hlt].
    + intros (a' & G1 & G2 & G3 & G4). f_equal. subst x.
      assert (ag_ts a' <= ag_ts a) by (apply H3; [exact G1 | apply Z.ltb_lt; exact G3]).
      assert (ag_ts a <= ag_ts a') by (apply G4; assumption). lia.
  - split; [discriminate|]. intros (a' & G1 & G2 & G3 & _). exfalso.
    rewrite last_filter_none in E. specialize (E _ G1). apply Z.ltb_ge in E. lia.
Qed.

Theorem ts_before_none t : ts_before q t l = None <-> forall b, In b (hist q l) -> t <= ag_ts b.
Proof.
  unfold ts_before. destruct (last_opt _) as [a|] eqn:E; cbn [option_map].
  - split; [discriminate|]. intros H. exfalso.
    apply (last_filter_spec _ ag_ts) in E; [|apply hist_sorted; exact Hs]. destruct E as (H1 & H2 & _). apply Z.ltb_lt in H2. specialize (H _ H1). lia.
  - rewrite last_filter_none in E. split; [|reflexivity]. intros _ b Hb. specialize (E _ Hb). apply Z.ltb_ge in E. exact E.
Qed.

Theorem ts_after_spec t x : ts_after q t l = Some x <->
  exists a, In a (hist q l) /\ ag_ts a = x /\ t < x /\ forall b, In b (hist q l) -> t < ag_ts b -> x <= ag_ts b.
Proof.
  unfold ts_after. destruct (hd_error _) as [a|] eqn:E; cbn [option_map].
  - apply (first_filter_spec _ ag_ts) in E; [|apply hist_sorted; exact Hs]. destruct E as (H1 & H2 & H3). apply Z.ltb_lt in H2. split.
    + intros E. injection E as <-. exists a. repeat split; try assumption. intros b Hb Hlt. apply H3; [exact Hb | apply Z.ltb_lt; exact Hlt].
    + intros (a' & G1 & G2 & G3 & G4). f_equal. subst x.
      assert (ag_ts a <= ag_ts a') by (apply H3; [exact G1 | apply Z.ltb_lt; exact G3]).
      assert (ag_ts a' <= ag_ts a) by (apply G4; assumption). lia.
  - split; [discriminate|]. intros (a' & G1 & G2 & G3 & _). exfalso.
    rewrite first_filter_none in E. specialize (E _ G1). apply Z.ltb_ge in E. lia.
Qed.

Theorem ts_after_none t : ts_after q t l = None <-> forall b, In b (hist q l) -> ag_ts b <= t.
Proof.
  unfold ts_after. destruct (hd_error _) as [a|] eqn:E; cbn [option_map].
  - split; [discriminate|]. intros H. exfalso.
    apply (first_filter_spec _ ag_ts) in E; [|apply hist_sorted; exact Hs]. destruct E as (H1 & H2 & _). apply Z.ltb_lt in H2. specialize (H _ H1). lia.
  - rewrite first_filter_none in E. split; [|reflexivity]. intros _ b Hb. specialize (E _ Hb). apply Z.ltb_ge in E. exact E.
Qed.

(* 'current' = the chronologically last aggregate *)
Theorem current_spec a : current q l = Some a <-> In a (hist q l) /\ forall b, In b (hist q l) -> ag_ts b <= ag_ts a.
Proof.
  unfold current. assert (F : filter (fun _ => true) (hist q l) = hist q l).
  { induction (hist q l) as [|x t IH]; cbn; [reflexivity | f_equal; exact IH]. }
  rewrite <- F at 1. rewrite (last_filter_spec _ ag_ts); [|apply hist_sorted; exact Hs]. split.
  - intros (H1 & _ & H3). split; [exact H1|]. intros b Hb. apply H3; [exact Hb | reflexivity].
  - intros (H1 & H3). split; [exact H1|]. split; [reflexivity|]. intros b Hb _. apply H3. exact Hb.
Qed.

(* 'data before T' = the most recent unflagged aggregate strictly before T: flagged entries are skipped *)
Theorem agg_before_spec t a : agg_before q t l = Some a <->
  In a (hist q l) /\ ag_ts a < t /\ ag_flagged a = false /\
  forall b, In b (hist q l) -> ag_ts b < t -> ag_flagged b = false -> ag_ts b <= ag_ts a.
Proof.
  unfold agg_before. rewrite (last_filter_spec _ ag_ts); [|apply hist_sorted; exact Hs]. split.
  - intros (H1 & H2 & H3). apply andb_prop in H2. destruct H2 as [H2 H4]. apply Z.ltb_lt in H2. apply negb_true_iff in H4.
    repeat split; try assumption. intros b Hb Hlt Hf. apply H3; [exact Hb|]. apply andb_true_intro. split; [apply Z.ltb_lt; exact Hlt | rewrite Hf; reflexivity].
  - intros (H1 & H2 & H3 & H4). split; [exact H1|]. split; [apply andb_true_intro; split; [apply Z.ltb_lt; exact H2 | rewrite H3; reflexivity]|].
    intros b Hb Hp. apply andb_prop in Hp. destruct Hp as [Hp1 Hp2]. apply Z.ltb_lt in Hp1. apply negb_true_iff in Hp2. apply H4; assumption.
Qed.

(* 'by timestamp' = the entry of the chronological list with that timestamp (unique) *)
Theorem by_timestamp_spec t a : by_timestamp q t l = Some a <-> In a (hist q l) /\ ag_ts a = t.
Proof.
  unfold by_timestamp. pose proof (hist_sorted q l Hs) as Hh. unfold key_sorted in Hh.
  induction Hh as [|x u Hu IH Hx]; [cbn; split; [discriminate | intros [[] _]]|]. cbn [find].
  destruct (ag_ts x =? t) eqn:E.
  - apply Z.eqb_eq in E. split.
    + intros E1. injection E1 as <-. split; [left; reflexivity | exact E].
    + intros [[<-|H1] H2]; [reflexivity|]. rewrite Forall_forall in Hx. specialize (Hx _ H1). lia.
  - apply Z.eqb_neq in E. rewrite IH. split; [intros [H1 H2]; split; [right; exact H1 | exact H2]|].
    intros [[<-|H1] H2]; [congruence | auto].
Qed.

(* 'by index' = the i-th entry (0-based) of the chronological list: definitional *)
Theorem by_index_spec i : 0 <= i -> by_index q i l = nth_error (hist q l) (Z.to_nat i).
Proof. intros H. unfold by_index. destruct (i <? 0) eqn:E; [apply Z.ltb_lt in E; lia | reflexivity]. Qed.
End Getters.

(* ====================================================================================== *)
(* 3. Set of a new aggregate whose timestamp is later than all of its query's                *)
(* ====================================================================================== *)
Lemma hist_agg_set_other q a l : q <> ag_qid a -> hist q (agg_set a l) = hist q l.
Proof.
  intros Hq. unfold agg_set, hist. induction l as [|y t IH]; cbn [sset filter].
  - destruct (ag_qid a =? q) eqn:E; [apply Z.eqb_eq in E; congruence | reflexivity].
  - destruct (agg_key_eq a y) eqn:Ek.
    + apply agg_keq_spec in Ek. destruct Ek as [Ek _]. cbn [filter].
      destruct (ag_qid a =? q) eqn:E1; [apply Z.eqb_eq in E1; congruence|].
      destruct (ag_qid y =? q) eqn:E2; [apply Z.eqb_eq in E2; congruence | reflexivity].
    + destruct (agg_lt a y); cbn [filter].
      * destruct (ag_qid a =? q) eqn:E1; [apply Z.eqb_eq in E1; congruence | reflexivity].
      * rewrite IH. reflexivity.
Qed.

Lemma hist_nil_if_greater q l : (forall y, In y l -> q < ag_qid y) -> hist q l = [].
Proof.
  intros H. unfold hist. induction l as [|y t IH]; [reflexivity|]. cbn [filter].
  destruct (ag_qid y =? q) eqn:E; [apply Z.eqb_eq in E; specialize (H y (or_introl eq_refl)); lia|].
  apply IH. intros z Hz. apply H. right. exact Hz.
Qed.

Lemma hist_agg_set_last a l : aggs_sorted l -> (forall b, In b (hist (ag_qid a) l) -> ag_ts b < ag_ts a) ->
  hist (ag_qid a) (agg_set a l) = hist (ag_qid a) l ++ [a].
Proof.
  unfold aggs_sorted, ssorted, agg_set. induction 1 as [|y t Hs IH Hy]; intros Hlt; cbn [sset].
  - unfold hist. cbn [filter]. rewrite Z.eqb_refl. reflexivity.
  - destruct (agg_key_eq a y) eqn:Ek.
    + exfalso. apply agg_keq_spec in Ek. destruct Ek as [E1 E2].
      assert (In y (hist (ag_qid a) (y :: t))) by (apply hist_in; split; [left; reflexivity | congruence]).
      specialize (Hlt _ H). lia.
    + destruct (agg_lt a y) eqn:El.
      * apply agg_lt_spec in El. destruct El as [El|[E1 E2]].
        -- assert (Hnil : hist (ag_qid a) (y :: t) = []).
           { apply hist_nil_if_greater. intros z [<-|Hz]; [exact El|].
             rewrite Forall_forall in Hy. specialize (Hy _ Hz). apply agg_lt_spec in Hy. lia. }
           change (hist (ag_qid a) (a :: y :: t)) with (if ag_qid a =? ag_qid a then a :: hist (ag_qid a) (y :: t) else hist (ag_qid a) (y :: t)).
           rewrite Z.eqb_refl, Hnil. reflexivity.
        -- exfalso. assert (In y (hist (ag_qid a) (y :: t))) by (apply hist_in; split; [left; reflexivity | congruence]).
           specialize (Hlt _ H). lia.
      * change (hist (ag_qid a) (y :: sset agg_lt agg_key_eq a t)) with
          (if ag_qid y =? ag_qid a then y :: hist (ag_qid a) (sset agg_lt agg_key_eq a t) else hist (ag_qid a) (sset agg_lt agg_key_eq a t)).
        change (hist (ag_qid a) (y :: t)) with (if ag_qid y =? ag_qid a then y :: hist (ag_qid a) t else hist (ag_qid a) t).
        rewrite IH.
        -- destruct (ag_qid y =? ag_qid a); reflexivity.
        -- intros b Hb. apply Hlt. apply hist_in in Hb. apply hist_in. destruct Hb as [Hb1 Hb2]. split; [right; exact Hb1 | exact Hb2].
Qed.

(* ====================================================================================== *)
(* 4. the chronology invariant                                                              *)
(* ====================================================================================== *)
Fixpoint zseq (start : Z) (n : nat) : list Z := match n with O => [] | S k => start :: zseq (start + 1) k end.

Lemma zseq_app start n : zseq start (n + 1) = zseq start n ++ [start + Z.of_nat n].
Proof.
  revert start. induction n as [|k IH]; intros start; cbn [zseq Nat.add app].
  - f_equal. cbn. lia.
  - f_equal. rewrite IH. f_equal. f_equal. lia.
Qed.

(* per query: sequence numbers 1, 2, ..., n along the chronological list (whose timestamps strictly
   increase, by sortedness of the store), the nonce store holds n, and nothing is stamped later than T *)
Record chrono (s : ostate) (T : Z) : Prop := {
  ch_nonces : forall q, map ag_nonce (hist q (o_aggs s)) = zseq 1 (List.length (hist q (o_aggs s)));
  ch_count : forall q, nonce_get q (o_nonces s) = Z.of_nat (List.length (hist q (o_aggs s)));
  ch_past : forall a, In a (o_aggs s) -> ag_ts a <= T
}.

Lemma aggregate_round_chrono s h ts m T :
  aggs_sorted (o_aggs s) -> chrono s T ->
  (forall b, In b (hist (m_qid m) (o_aggs s)) -> ag_ts b < ts) -> T <= ts ->
  (forall q, map ag_nonce (hist q (o_aggs (aggregate_round s h ts m))) = zseq 1 (List.length (hist q (o_aggs (aggregate_round s h ts m))))) /\
  (forall q, nonce_get q (o_nonces (aggregate_round s h ts m)) = Z.of_nat (List.length (hist q (o_aggs (aggregate_round s h ts m))))) /\
  (forall a, In a (o_aggs (aggregate_round s h ts m)) -> ag_ts a <= ts) /\
  hist (m_qid m) (o_aggs (aggregate_round s h ts m)) = hist (m_qid m) (o_aggs s) ++ [mk_agg s h ts m] /\
  (forall q, q <> m_qid m -> hist q (o_aggs (aggregate_round s h ts m)) = hist q (o_aggs s)).
Proof.
  intros Hs [C1 C2 C3] Hlt HT. rewrite aggregate_round_aggs.
  assert (Hq : ag_qid (mk_agg s h ts m) = m_qid m) by reflexivity.
  assert (Hlast : hist (m_qid m) (agg_set (mk_agg s h ts m) (o_aggs s)) = hist (m_qid m) (o_aggs s) ++ [mk_agg s h ts m]).
  { rewrite <- Hq at 1. rewrite hist_agg_set_last; [rewrite Hq; reflexivity | exact Hs |]. rewrite Hq. cbn [mk_agg ag_ts]. exact Hlt. }
  assert (Hother : forall q, q <> m_qid m -> hist q (agg_set (mk_agg s h ts m) (o_aggs s)) = hist q (o_aggs s)).
  { intros q Hne. apply hist_agg_set_other. rewrite Hq. exact Hne. }
  split; [|split; [|split; [|split; assumption]]].
  - intros q. destruct (Z.eq_dec q (m_qid m)) as [->|Hne].
    + rewrite Hlast, map_app, app_length, zseq_app, C1. cbn [map List.length]. f_equal. f_equal.
      cbn [mk_agg ag_nonce]. rewrite C2. lia.
    + rewrite Hother by exact Hne. apply C1.
  - intros q. cbn [aggregate_round o_nonces]. destruct (Z.eq_dec q (m_qid m)) as [->|Hne].
    + rewrite nonce_get_set_same, Hlast, app_length, C2. cbn [List.length]. lia.
    + rewrite nonce_get_set_other by exact Hne. rewrite Hother by exact Hne. apply C2.
  - intros a Ha. apply sset_in in Ha. destruct Ha as [->|Ha]; [cbn; lia | specialize (C3 _ Ha); lia].
Qed.

Lemma chrono_mono s T T' : chrono s T -> T <= T' -> chrono s T'.
Proof. intros [C1 C2 C3] H. constructor; try assumption. intros a Ha. specialize (C3 _ Ha). lia. Qed.

Lemma chrono_frame s s' T : o_aggs s' = o_aggs s -> o_nonces s' = o_nonces s -> chrono s T -> chrono s' T.
Proof. intros E1 E2 [C1 C2 C3]. constructor; rewrite ?E1, ?E2; assumption. Qed.

(* the aggregation pass of the end blocker *)
Lemma agg_fold_chrono h ts : forall l st,
  aggs_sorted (o_aggs st) -> chrono st ts -> closing_distinct h l ->
  (forall m b, In m (filter (closing h) l) -> In b (hist (m_qid m) (o_aggs st)) -> ag_ts b < ts) ->
  chrono (fold_left (agg_step h ts) l st) ts /\
  (forall a, In a (o_aggs st) -> In a (o_aggs (fold_left (agg_step h ts) l st))).
Proof.
  induction l as [|m t IH]; intros st Hs Hc Hd Hp; cbn [fold_left]; [split; [exact Hc | auto]|].
  unfold closing_distinct in Hd. cbn [filter] in Hd, Hp. unfold agg_step at 2 4. fold (closing h m) in *.
  destruct (closing h m) eqn:Ec; [|apply IH; assumption].
  cbn [map] in Hd. apply NoDup_cons_iff in Hd. destruct Hd as [Hnin Hd].
  assert (Hlt : forall b, In b (hist (m_qid m) (o_aggs st)) -> ag_ts b < ts) by (intros b Hb; eapply Hp; [left; reflexivity | exact Hb]).
  destruct (aggregate_round_chrono st h ts m ts Hs Hc Hlt (Z.le_refl _)) as (A1 & A2 & A3 & A4 & A5).
  destruct (IH (aggregate_round st h ts m)) as [B1 B2].
  - rewrite aggregate_round_aggs. apply agg_set_sorted. exact Hs.
  - constructor; assumption.
  - exact Hd.
  - intros m' b Hm' Hb. rewrite A5 in Hb.
    + eapply Hp; [right; exact Hm' | exact Hb].
    + intros Heq. apply Hnin. rewrite <- Heq. apply in_map. exact Hm'.
  - split; [exact B1|]. intros a Ha. apply B2. rewrite aggregate_round_aggs. apply sset_keeps; [exact Ha|].
    unfold agg_key_eq. cbn [mk_agg ag_qid ag_ts]. destruct (m_qid m =? ag_qid a) eqn:E1; [|reflexivity]. cbn [andb].
    apply Z.eqb_eq in E1. apply Z.eqb_neq. intros E2.
    assert (In a (hist (m_qid m) (o_aggs st))) by (apply hist_in; split; [exact Ha | congruence]).
    specialize (Hlt _ H). lia.
Qed.

Lemma do_rotate_nonces s h k s' : do_rotate s h k = Some s' -> o_nonces s' = o_nonces s /\ o_aggs s' = o_aggs s.
Proof.
  unfold do_rotate.
  match goal with |- context [nth_z (o_cycle s) ?n] => destruct (nth_z (o_cycle s) n) as [qid|] end; [|discriminate].
  cbn [o_queries with_queries].
  match goal with |- context [current_query qid ?l] => destruct (current_query qid l) as [m|] end.
  - destruct (negb (m_amount m =? 0)); intros E; injection E as <-; cbn; auto.
  - match goal with |- context [initialize_query ?a ?b] => destruct (initialize_query a b) as [[m s2]|] eqn:Ei end; [|discriminate].
    unfold initialize_query in Ei. destruct (spec_window _ _); [|discriminate]. injection Ei as <- <-.
    intros E; injection E as <-; cbn; auto.
Qed.

Lemma rotate_nonces s h k s' : rotate s h k = Some s' -> o_nonces s' = o_nonces s /\ o_aggs s' = o_aggs s.
Proof.
  unfold rotate. destruct (nth_z _ _) as [cur|]; [|discriminate].
  destruct (current_query cur _) as [m0|]; [destruct (h <? m_expiration m0)|]; try apply do_rotate_nonces.
  intros E. injection E as <-. auto.
Qed.

Theorem end_block_chrono s h ts k s' T :
  oinv s -> chrono s T -> T < ts -> closing_distinct h (o_queries s) -> end_block s h ts k = Some s' ->
  chrono s' ts /\ (forall a, In a (o_aggs s) -> In a (o_aggs s')).
Proof.
  intros Hi Hc HT Hd E. unfold end_block in E. destruct (rotate_nonces _ _ _ _ E) as [E1 E2].
  destruct (agg_fold_chrono h ts (o_queries s) s) as [B1 B2].
  - apply Hi. - eapply chrono_mono; [exact Hc | lia]. - exact Hd.
  - intros m b _ Hb. apply hist_in in Hb. destruct Hb as [Hb _]. pose proof (ch_past _ _ Hc _ Hb). lia.
  - split.
    + eapply chrono_frame; [exact E2 | exact E1 |]. exact B1.
    + intros a Ha. rewrite E2. apply B2. exact Ha.
Qed.

(* ====================================================================================== *)
(* 5. flags                                                                                 *)
(* ====================================================================================== *)
Definition set_flagged (a : aggr) : aggr :=
  {| ag_qid := ag_qid a; ag_ts := ag_ts a; ag_height := ag_height a; ag_nonce := ag_nonce a; ag_meta := ag_meta a;
     ag_reporters := ag_reporters a; ag_power := ag_power a; ag_flagged := true;
     ag_agg_reporter := ag_agg_reporter a; ag_micro_height := ag_micro_height a |}.

(* b is a: unchanged, or with the flag raised *)
Definition kept (a b : aggr) : Prop := unflag a = unflag b /\ (ag_flagged a = true -> ag_flagged b = true).

Lemma kept_refl a : kept a a. Proof. split; auto. Qed.
Lemma kept_trans a b c : kept a b -> kept b c -> kept a c.
Proof. intros [H1 H2] [H3 H4]. split; [congruence | auto]. Qed.
Lemma kept_fields a b : kept a b -> ag_qid a = ag_qid b /\ ag_ts a = ag_ts b /\ ag_nonce a = ag_nonce b /\
  ag_agg_reporter a = ag_agg_reporter b /\ ag_micro_height a = ag_micro_height b /\ ag_reporters a = ag_reporters b /\ ag_power a = ag_power b
  /\ ag_height a = ag_height b /\ ag_meta a = ag_meta b.
Proof. intros [H _]. unfold unflag in H. injection H. intros. repeat split; assumption. Qed.

Definition akey (a : aggr) : Z * Z := (ag_qid a, ag_ts a).

Lemma flag_keys q r hh l : map akey (flag q r hh l) = map akey l.
Proof.
  induction l as [|a t IH]; cbn [flag map]; [reflexivity|].
  destruct (_ && _); cbn [map]; [reflexivity | f_equal; exact IH].
Qed.

Lemma flag_nonces q r hh l : map ag_nonce (flag q r hh l) = map ag_nonce l /\ map ag_qid (flag q r hh l) = map ag_qid l.
Proof.
  induction l as [|a t IH]; cbn [flag map]; [auto|].
  destruct (_ && _); cbn [map]; [auto|]. destruct IH as [-> ->]. auto.
Qed.

Lemma hist_nonce_by_maps q l l' : map ag_qid l' = map ag_qid l -> map ag_nonce l' = map ag_nonce l ->
  map ag_nonce (hist q l') = map ag_nonce (hist q l).
Proof.
  revert l'. induction l as [|a t IH]; intros [|a' t']; cbn [map]; try discriminate; [reflexivity|].
  intros E1 E2. injection E1 as E1 E1'. injection E2 as E2 E2'. unfold hist. cbn [filter]. rewrite E1.
  destruct (ag_qid a =? q); cbn [map]; [f_equal; [exact E2|]|]; apply IH; assumption.
Qed.

Lemma sorted_by_key l l' : map akey l' = map akey l -> aggs_sorted l -> aggs_sorted l'.
Proof.
  unfold aggs_sorted, ssorted. intros E H. revert l' E. induction H as [|a t Hs IH Ha]; intros [|a' t']; cbn [map]; try discriminate; [constructor|].
  intros E. injection E as E1a E1b E2. constructor; [apply IH; exact E2|].
  rewrite Forall_forall in *. intros b' Hb'. apply (in_map akey) in Hb'. rewrite E2 in Hb'. apply in_map_iff in Hb'.
  destruct Hb' as (b & Eb & Hb). specialize (Ha _ Hb). unfold akey in *. injection Eb as Eb1 Eb2.
  apply agg_lt_spec in Ha. apply agg_lt_spec. lia.
Qed.

Lemma flag_in q r hh l b : In b (flag q r hh l) -> exists a, In a l /\ kept a b /\
  (ag_flagged b = true -> ag_flagged a = true \/ (ag_qid a = q /\ ag_agg_reporter a = r /\ ag_micro_height a = hh)).
Proof.
  induction l as [|a t IH]; cbn [flag]; [intros []|].
  destruct ((ag_micro_height a =? hh) && (ag_qid a =? q) && (ag_agg_reporter a =? r)) eqn:E.
  - apply andb_prop in E. destruct E as [E E3]. apply andb_prop in E. destruct E as [E1 E2]. apply Z.eqb_eq in E1, E2, E3.
    intros [<-|Hb].
    + exists a. split; [left; reflexivity|]. split; [split; [reflexivity | intros _; reflexivity]|]. intros _. right. auto.
    + exists b. split; [right; exact Hb|]. split; [apply kept_refl | auto].
  - intros [<-|Hb]; [exists a; split; [left; reflexivity|]; split; [apply kept_refl | auto]|].
    destruct (IH Hb) as (a0 & H1 & H2 & H3). exists a0. split; [right; exact H1 | auto].
Qed.

Lemma flag_keeps q r hh l a : In a l -> exists b, In b (flag q r hh l) /\ kept a b.
Proof.
  induction l as [|x t IH]; [intros []|]. cbn [flag].
  destruct ((ag_micro_height x =? hh) && (ag_qid x =? q) && (ag_agg_reporter x =? r)).
  - intros [<-|Ha]; [eexists; split; [left; reflexivity|]; split; [reflexivity | intros _; reflexivity]|].
    exists a. split; [right; exact Ha | apply kept_refl].
  - intros [<-|Ha]; [exists x; split; [left; reflexivity | apply kept_refl]|].
    destruct (IH Ha) as (b & H1 & H2). exists b. split; [right; exact H1 | exact H2].
Qed.

Definition with_aggs (s : ostate) (l : list aggr) : ostate :=
  {| o_queries := o_queries s; o_reports := o_reports s; o_cycle := o_cycle s; o_seq := o_seq s; o_next_meta := o_next_meta s;
     o_aggs := l; o_nonces := o_nonces s; o_spot_window := o_spot_window s; o_bridge_window := o_bridge_window s |}.

Lemma flag_chrono s q r hh T : chrono s T -> chrono (with_aggs s (flag q r hh (o_aggs s))) T.
Proof.
  intros [C1 C2 C3]. destruct (flag_nonces q r hh (o_aggs s)) as [N1 N2].
  assert (L : forall q', List.length (hist q' (flag q r hh (o_aggs s))) = List.length (hist q' (o_aggs s))).
  { intros q'. rewrite <- (map_length ag_nonce), (hist_nonce_by_maps q' _ _ N2 N1), map_length. reflexivity. }
  constructor; cbn [with_aggs o_aggs o_nonces].
  - intros q'. rewrite (hist_nonce_by_maps q' _ _ N2 N1), L. apply C1.
  - intros q'. rewrite L. apply C2.
  - intros b Hb. destruct (flag_in _ _ _ _ _ Hb) as (a & Ha & Hk & _). destruct (kept_fields _ _ Hk) as (_ & E & _).
    rewrite <- E. apply C3. exact Ha.
Qed.

Lemma flag_oinv s q r hh : oinv s -> oinv (with_aggs s (flag q r hh (o_aggs s))).
Proof.
  intros [H1 H2 H3 H4]. constructor; cbn [with_aggs o_queries o_reports o_aggs]; try assumption.
  eapply sorted_by_key; [apply flag_keys | exact H3].
Qed.

(* ====================================================================================== *)
(* 6. all histories of round-machine operations and dispute flags                           *)
(* ====================================================================================== *)
Inductive hop := HRound (h : Z) (op : rop) | HFlag (q reporter height : Z).

Definition hstep (qinfos : list qinfo) (s : ostate) (o : hop) : ostate :=
  match o with
  | HRound h op => run_step qinfos s (h, op)
  | HFlag q r hh => with_aggs s (flag q r hh (o_aggs s))
  end.
Definition hrun (qinfos : list qinfo) (s : ostate) (ops : list hop) : ostate := fold_left (hstep qinfos) ops s.

(* environment: block time strictly increases from end blocker to end blocker; and no two rounds of
   one query close in the same block (see closing_distinct: guaranteed whenever every query has at
   most one open round, which only a bridge-deposit re-opening with a zero report window can break) *)
Fixpoint good_run (qinfos : list qinfo) (s : ostate) (ops : list hop) (T : Z) : Prop :=
  match ops with
  | [] => True
  | o :: t =>
      match o with
      | HRound h (OEndBlock ts) => T < ts /\ closing_distinct h (o_queries s) /\ good_run qinfos (hstep qinfos s o) t ts
      | _ => good_run qinfos (hstep qinfos s o) t T
      end
  end.

Definition last_time (ops : list hop) (T : Z) : Z :=
  fold_left (fun T o => match o with HRound _ (OEndBlock ts) => ts | _ => T end) ops T.

Lemma tip_frame s h q a s' : tip s h q a = Some s' -> o_aggs s' = o_aggs s /\ o_nonces s' = o_nonces s.
Proof.
  unfold tip. destruct (current_query _ _); [intros E; injection E as <-; cbn; auto|].
  destruct (initialize_query s q) as [[m s1]|] eqn:Ei; [|discriminate].
  unfold initialize_query in Ei. destruct (spec_window _ _); [|discriminate]. injection Ei as <- <-.
  intros E. injection E as <-. cbn. auto.
Qed.

Definition step_rel (o : hop) (s s' : ostate) : Prop :=
  (forall a, In a (o_aggs s) -> exists b, In b (o_aggs s') /\ kept a b) /\
  (forall b, In b (o_aggs s') -> (exists a, In a (o_aggs s) /\ kept a b /\
      (ag_flagged b = true -> ag_flagged a = true \/
         match o with HFlag q r hh => ag_qid a = q /\ ag_agg_reporter a = r /\ ag_micro_height a = hh | _ => False end))
      \/ (ag_flagged b = false /\ match o with HRound _ (OEndBlock _) => True | _ => False end)).

Lemma same_aggs_rel o s s' : o_aggs s' = o_aggs s -> step_rel o s s'.
Proof.
  intros E. split; intros x Hx; rewrite E in *.
  - exists x. split; [exact Hx | apply kept_refl].
  - left. exists x. split; [exact Hx|]. split; [apply kept_refl | auto].
Qed.

Lemma hstep_ok qinfos s o T : oinv s -> chrono s T ->
  match o with HRound h (OEndBlock ts) => T < ts /\ closing_distinct h (o_queries s) | _ => True end ->
  oinv (hstep qinfos s o) /\ chrono (hstep qinfos s o) (last_time [o] T) /\ step_rel o s (hstep qinfos s o).
Proof.
  intros Hi Hc Hg. destruct o as [h op|q r hh]; cbn [hstep last_time fold_left].
  - unfold run_step. cbn [fst snd]. destruct (model_step qinfos s h op) as [s'|] eqn:E.
    + split; [eapply model_step_inv; eassumption|].
      destruct op as [q a|q rep stake mn v|ts|qs|b hits w]; cbn [model_step] in E.
      * destruct (tip_frame _ _ _ _ _ E) as [E1 E2]. split; [eapply chrono_frame; eassumption | apply same_aggs_rel; exact E1].
      * destruct (submit_value _ _ _ _ _ _ _) as [s1|] eqn:E0; [|discriminate]. injection E as <-.
        apply submit_value_shape in E0. destruct E0 as (_ & _ & _ & _ & _ & _ & _ & E1 & E2).
        split; [eapply chrono_frame; eassumption | apply same_aggs_rel; exact E1].
      * destruct Hg as [HT Hd]. destruct (end_block_chrono _ _ _ _ _ _ Hi Hc HT Hd E) as [B1 B2]. split; [exact B1|].
        split.
        -- intros a Ha. exists a. split; [apply B2; exact Ha | apply kept_refl].
        -- intros b Hb. unfold end_block in E. destruct (rotate_nonces _ _ _ _ E) as [_ E2]. rewrite E2 in Hb.
           assert (P : Permutation (o_aggs (set_aggregated_report s h ts)) (map (mk_agg s h ts) (filter (closing h) (o_queries s)) ++ o_aggs s)).
           { rewrite set_aggregated_report_fold. apply agg_fold_aggs; [exact Hd|].
             intros m a _ Ha _. pose proof (ch_past _ _ Hc _ Ha). lia. }
           apply (Permutation_in _ P) in Hb. apply in_app_or in Hb. destruct Hb as [Hb|Hb].
           ++ right. apply in_map_iff in Hb. destruct Hb as (m & <- & _). split; [reflexivity | exact I].
           ++ left. exists b. split; [exact Hb|]. split; [apply kept_refl | auto].
      * unfold update_cyclelist in E. destruct (map _ qs); [discriminate|]. destruct (forallb _ _); [|discriminate]. injection E as <-.
        split; [eapply chrono_frame; [| |exact Hc]; reflexivity | apply same_aggs_rel; reflexivity].
      * injection E as <-. split; [eapply chrono_frame; [| |exact Hc]; reflexivity | apply same_aggs_rel; reflexivity].
    + split; [exact Hi|]. split; [|apply same_aggs_rel; reflexivity].
      destruct op; try exact Hc. destruct Hg as [HT _]. eapply chrono_mono; [exact Hc | lia].
  - split; [apply flag_oinv; exact Hi|]. split; [apply flag_chrono; exact Hc|]. split; cbn [with_aggs o_aggs].
    + intros a Ha. apply flag_keeps. exact Ha.
    + intros b Hb. left. apply flag_in. exact Hb.
Qed.

(* the relation between the store before and after a whole history *)
Definition hist_rel (ops : list hop) (s s' : ostate) : Prop :=
  (* nothing is removed or altered, except that flags may be raised *)
  (forall a, In a (o_aggs s) -> exists b, In b (o_aggs s') /\ kept a b) /\
  (* and a flag is raised only by a dispute / evidence naming the determining report *)
  (forall a b, In a (o_aggs s) -> In b (o_aggs s') -> kept a b -> ag_flagged a = false -> ag_flagged b = true ->
     In (HFlag (ag_qid a) (ag_agg_reporter a) (ag_micro_height a)) ops).

Lemma kept_same_key a b : kept a b -> agg_key_eq a b = true.
Proof. intros H. destruct (kept_fields _ _ H) as (E1 & E2 & _). apply agg_keq_spec. auto. Qed.

Lemma aggs_key_unique l a b : aggs_sorted l -> In a l -> In b l -> agg_key_eq a b = true -> a = b.
Proof. apply sorted_key_unique. exact agg_keq_lt. Qed.

Theorem hrun_correct qinfos : forall ops s T,
  oinv s -> chrono s T -> good_run qinfos s ops T ->
  oinv (hrun qinfos s ops) /\ chrono (hrun qinfos s ops) (last_time ops T) /\ hist_rel ops s (hrun qinfos s ops).
Proof.
  induction ops as [|o t IH]; intros s T Hi Hc Hg.
  - cbn. split; [exact Hi|]. split; [exact Hc|]. split.
    + intros a Ha. exists a. split; [exact Ha | apply kept_refl].
    + intros a b Ha Hb Hk Hf1 Hf2. exfalso. pose proof (aggs_key_unique _ _ _ (inv_aggs _ Hi) Ha Hb (kept_same_key _ _ Hk)). subst b. congruence.
  - assert (Hg1 : match o with HRound h (OEndBlock ts) => T < ts /\ closing_distinct h (o_queries s) | _ => True end).
    { destruct o as [h [| |ts| |]|]; cbn [good_run] in Hg; try exact I. tauto. }
    assert (Hg2 : good_run qinfos (hstep qinfos s o) t (last_time [o] T)).
    { destruct o as [h [| |ts| |]|]; cbn [good_run last_time fold_left] in *; try exact Hg. tauto. }
    destruct (hstep_ok qinfos s o T Hi Hc Hg1) as (I1 & C1 & [R1 R2]).
    destruct (IH _ _ I1 C1 Hg2) as (I2 & C2 & [Q1 Q2]).
    change (hrun qinfos s (o :: t)) with (hrun qinfos (hstep qinfos s o) t).
    change (last_time (o :: t) T) with (last_time t (last_time [o] T)).
    split; [exact I2|]. split; [exact C2|]. split.
    + intros a Ha. destruct (R1 _ Ha) as (b & Hb & Hk). destruct (Q1 _ Hb) as (c & Hc' & Hk'). exists c. split; [exact Hc' | eapply kept_trans; eassumption].
    + intros a c Ha Hc' Hk Hf1 Hf2.
      destruct (R1 _ Ha) as (b & Hb & Hkb).
      (* c is the descendant of b as well: same key *)
      destruct (Q1 _ Hb) as (c' & Hc'' & Hkc).
      assert (c' = c).
      { eapply aggs_key_unique; [exact (inv_aggs _ I2) | exact Hc'' | exact Hc' |].
        pose proof (kept_same_key _ _ Hkb) as K1. pose proof (kept_same_key _ _ Hkc) as K2. pose proof (kept_same_key _ _ Hk) as K3.
        apply agg_keq_spec in K1, K2, K3. apply agg_keq_spec. destruct K1, K2, K3. split; congruence. }
      subst c'. destruct (kept_fields _ _ Hkb) as (F1 & _ & _ & F4 & F5 & _).
      destruct (ag_flagged b) eqn:Fb.
      * (* raised by the first operation *)
        destruct (R2 _ Hb) as [(a0 & Ha0 & Hk0 & Hwhy)|[Hnf _]]; [|congruence].
        assert (a0 = a).
        { eapply aggs_key_unique; [exact (inv_aggs _ Hi) | exact Ha0 | exact Ha |].
          pose proof (kept_same_key _ _ Hkb) as K1. pose proof (kept_same_key _ _ Hk0) as K2.
          apply agg_keq_spec in K1, K2. apply agg_keq_spec. destruct K1, K2. split; congruence. }
        subst a0. destruct (Hwhy Fb) as [Hx|Hx]; [congruence|].
        destruct o as [h op|q r hh]; [destruct Hx|]. destruct Hx as (<- & <- & <-). left. reflexivity.
      * right. rewrite F1, F4, F5. eapply Q2; eassumption.
Qed.

(* ====================================================================================== *)
(* 7. well-scheduled histories are good runs                                                *)
(* ====================================================================================== *)
From Verif Require Import Proofs.OracleRoundDistinct.

(* block structure (operations of height H, then the end blocker of H), block time strictly increasing,
   data-spec updates keep windows >= 1 block *)
Fixpoint hsched (H T : Z) (ops : list hop) : Prop :=
  match ops with
  | [] => True
  | HRound h op :: t =>
      h = H /\ match op with OUpdateSpec _ _ w => 1 <= w | OEndBlock ts => T < ts | _ => True end
      /\ hsched (match op with OEndBlock _ => H + 1 | _ => H end) (match op with OEndBlock ts => ts | _ => T end) t
  | HFlag _ _ _ :: t => hsched H T t
  end.

(* no end blocker fails along the run (a failing end blocker halts the chain: C02) *)
Fixpoint hrun_ok (qinfos : list qinfo) (s : ostate) (ops : list hop) : Prop :=
  match ops with
  | [] => True
  | o :: t =>
      match o with
      | HRound h (OEndBlock ts) => end_block s h ts (kind_of qinfos) <> None
      | _ => True
      end /\ hrun_ok qinfos (hstep qinfos s o) t
  end.

Lemma flag_kinv s q r hh H : kinv s H -> kinv (with_aggs s (flag q r hh (o_aggs s))) H.
Proof. unfold kinv. cbn. auto. Qed.

Theorem hsched_good_run qinfos : forall ops s H T,
  kinv s H -> hsched H T ops -> hrun_ok qinfos s ops -> good_run qinfos s ops T.
Proof.
  induction ops as [|o t IH]; intros s H T K Hs Hok; [exact I|].
  cbn [hrun_ok] in Hok. destruct Hok as [Hok1 Hok2].
  destruct o as [h op|q r hh]; cbn [hsched] in Hs.
  - destruct Hs as (-> & Hop & Hs). destruct op as [q a|q rep stake mn v|ts|qs|b hits w]; cbn [good_run].
    + eapply IH; [|exact Hs | exact Hok2]. cbn [hstep]. apply run_step_kinv; [exact K | reflexivity | exact I].
    + eapply IH; [|exact Hs | exact Hok2]. cbn [hstep]. apply run_step_kinv; [exact K | reflexivity | exact I].
    + split; [exact Hop|]. split; [apply kinv_closing_distinct; exact K|].
      eapply IH; [|exact Hs | exact Hok2]. cbn [hstep]. unfold run_step. cbn [fst snd model_step].
      destruct (end_block s H ts (kind_of qinfos)) as [s1|] eqn:Ee; [|congruence]. eapply end_block_kinv; eassumption.
    + eapply IH; [|exact Hs | exact Hok2]. cbn [hstep]. apply run_step_kinv; [exact K | reflexivity | exact I].
    + eapply IH; [|exact Hs | exact Hok2]. cbn [hstep]. apply run_step_kinv; [exact K | reflexivity | exact Hop].
  - cbn [good_run]. eapply IH; [|exact Hs | exact Hok2]. cbn [hstep]. apply flag_kinv. exact K.
Qed.
